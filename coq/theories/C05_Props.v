(* C05 - property theorems.  Nothing but statements, `exact <lemma>`, Print Assumptions
   and non-vacuity examples.
   Vocabulary (C05_Model / C05_Proofs):
     fmt = (BitsAllocated, BitsStored, signed, samples per frame, NumberOfFrames)
     valid_fmt m : BitsAllocated in {1,8,16,32}, at least one sample per frame, at least one frame
     enough m pd : the PixelData byte string pd holds all frames
     spec_frame m pd i : the stored values of frame i read straight off pd
     frame_eager / frame_lazy / frame_of_array : get_stored_frame on an in-memory image,
        on a lazily read file (= ImageFileReader.read_frame), and a slice of pydicom's pixel_array
     cfmt = fmt + SamplesPerPixel, PlanarConfiguration = 1, Rows; valid_c c : valid_fmt and colour-by-plane
        only for byte-aligned samples; spec_frame_c = spec_frame rearranged to (rows, columns, samples)
     img = current description + PixelData + what pydicom's cached decoded array was decoded from
        (None = nothing cached); st_one / st_batch / pixel_array : get_stored_frame / get_stored_frames /
        pixel_array on such an image; step / run_ops : a history of reads and edits
     answer c pd f ai : the frame of the standardised index read straight off pd, or IndexError
     limg = lazily read image: current description + PixelData in the file + what highdicom cached in
        self._pixel_array (with the description it was decoded under); lz_one / lz_batch / lz_whole / lstep / lrun_ops
     good_pframes / marked_pframe : frames given as lists of fragment PAYLOADS (bytes); item_of p = (length, starts
        with FF D8 or FF 4F); reader_enc_bytes = open the file (table choice) + read_frame_raw, returning bytes
     st_frames / lz_frames : get_frames with every transform switched off (in-memory / lazily read image)
     batch_routes c pd fs ai r : r is what get_stored_frames AND get_frames (transforms off) answer for the request
        fs on the in-memory image in ANY cache state and on the lazily read image in ANY coherent cache state
     select d p l : the elements of l at the positions listed in p (any order, repeats allowed) *)
From Coq Require Import String ZArith List Bool.
From HD Require Import Base.Val C05_Model C05_Proofs C05_Proofs_Encaps C05_Proofs_State C05_Proofs_Ext C05_Proofs_Lazy C05_Proofs_Order C05_Proofs_Geom.
Import ListNotations.
Open Scope Z_scope.

(* ---- frame numbers: 1-based unless as_index; outside the image => IndexError, never wrapped ---- *)
Theorem C05_index_rule : forall n f as_index i,
  std_index n f as_index = Ok i <->
  (as_index = true /\ 0 <= f < n /\ i = f) \/ (as_index = false /\ 1 <= f <= n /\ i = f - 1).
Proof. exact index_rule. Qed.
Print Assumptions C05_index_rule.

Theorem C05_index_rejects : forall n f as_index,
  std_index n f as_index = Err "IndexError"%string <->
  (as_index = true /\ (f < 0 \/ n <= f)) \/ (as_index = false /\ (f < 1 \/ n < f)).
Proof. exact index_rejects. Qed.
Print Assumptions C05_index_rejects.

Theorem C05_index_never_wraps : forall n f as_index,
  (exists i, std_index n f as_index = Ok i /\ 0 <= i < n) \/ std_index n f as_index = Err "IndexError"%string.
Proof. exact index_total. Qed.
Print Assumptions C05_index_never_wraps.

(* ---- byte ranges ---- *)
(* the lazy reader and the in-memory path cut the same bytes out of PixelData, for every
   bit depth, frame size and index (this is the statement D5 violated) *)
Theorem C05_raw_ranges_agree : forall bits npx i, lazy_range bits npx i = eager_range bits npx i.
Proof. exact raw_ranges_agree. Qed.
Print Assumptions C05_raw_ranges_agree.

(* bit-packed: the range read is the smallest byte range that contains the frame's bits, and
   the frame starts (i*npx) mod 8 bits into it *)
Theorem C05_lazy_range_covers : forall npx i, 0 <= i -> 1 <= npx ->
  let a := fst (lazy_range 1 npx i) in let b := snd (lazy_range 1 npx i) in
  0 <= a /\ 8 * a <= i * npx /\ i * npx + npx <= 8 * b /\
  i * npx - 8 * a = (i * npx) mod 8 /\ i * npx < 8 * a + 8 /\ 8 * b < i * npx + npx + 8.
Proof. exact lazy_range_covers. Qed.
Print Assumptions C05_lazy_range_covers.

(* ---- all native paths return the same frame ---- *)
Theorem C05_native_paths_agree : forall m pd i, valid_fmt m -> enough m pd -> 0 <= i < f_frames m ->
  frame_eager m pd i = Ok (spec_frame m pd i) /\
  frame_lazy m pd i = Ok (spec_frame m pd i) /\
  frame_of_array m pd i = Ok (spec_frame m pd i).
Proof. exact native_paths_agree. Qed.
Print Assumptions C05_native_paths_agree.

(* ... and that frame is what the bytes say: bit (i*npx+k) mod 8 of byte (i*npx+k)/8 ... *)
Theorem C05_frame_is_bits : forall m pd i k, f_bits m = 1 -> 0 <= i -> 0 <= k < f_npx m ->
  i * f_npx m + k < 8 * zlen pd ->
  nth_error (spec_frame m pd i) (Z.to_nat k) =
  Some ((nth (Z.to_nat ((i * f_npx m + k) / 8)) pd 0 / 2 ^ ((i * f_npx m + k) mod 8)) mod 2).
Proof. exact spec_bits_nth. Qed.
Print Assumptions C05_frame_is_bits.

(* ... or the little-endian word at byte (i*npx+k)*w, reduced to BitsStored (sign-extended if signed) *)
Theorem C05_frame_is_words : forall m pd i k, (f_bits m =? 1) = false -> 1 <= f_bits m / 8 -> 0 <= i -> 0 <= k < f_npx m ->
  let w := f_bits m / 8 in
  nth_error (spec_frame m pd i) (Z.to_nat k) =
  Some (fix_stored (f_stored m) (f_signed m)
          (le_word (pyslice ((i * f_npx m + k) * w) ((i * f_npx m + k) * w + w) pd))).
Proof. exact spec_words_nth. Qed.
Print Assumptions C05_frame_is_words.

(* user level: any combination of lazy / cached, any frame number, either convention *)
Theorem C05_stored_frame_paths_agree : forall m pd f ai lazy cached, valid_fmt m -> enough m pd ->
  get_stored_frame lazy cached m pd f ai =
  bind (std_index (f_frames m) f ai) (fun i => Ok (spec_frame m pd i)).
Proof. exact stored_frame_paths_agree. Qed.
Print Assumptions C05_stored_frame_paths_agree.

Theorem C05_stored_frames_batch : forall m pd fs ai lazy cached, valid_fmt m -> enough m pd ->
  get_stored_frames lazy cached m pd fs ai =
  sequence (map (fun f => bind (std_index (f_frames m) f ai) (fun i => Ok (spec_frame m pd i))) fs).
Proof. exact stored_frames_batch. Qed.
Print Assumptions C05_stored_frames_batch.

Theorem C05_raw_frame_lazy_eager : forall m pd f ai,
  get_raw_frame true m pd f ai = get_raw_frame false m pd f ai.
Proof. exact raw_frame_lazy_eager. Qed.
Print Assumptions C05_raw_frame_lazy_eager.

(* raw frame bytes decode (decode_frame, with the frame's index) to the same stored values *)
Theorem C05_raw_decodes_same : forall m pd f ai lazy raw i, valid_fmt m -> enough m pd ->
  get_raw_frame lazy m pd f ai = Ok raw -> std_index (f_frames m) f ai = Ok i ->
  decode_native (f_bits m) (f_stored m) (f_signed m) (f_npx m) i raw = Ok (spec_frame m pd i).
Proof. exact raw_decodes_same. Qed.
Print Assumptions C05_raw_decodes_same.

(* ---- colour-by-plane (PlanarConfiguration = 1) ---- *)
(* every path rearranges the stored planes the same way, for both planar configurations *)
Theorem C05_native_paths_agree_planar : forall c pd i, valid_c c -> enough (c_fmt c) pd -> 0 <= i < f_frames (c_fmt c) ->
  frame_eager_c c pd i = Ok (spec_frame_c c pd i) /\
  frame_lazy_c c pd i = Ok (spec_frame_c c pd i) /\
  frame_of_array_c c pd i = Ok (spec_frame_c c pd i).
Proof. exact native_paths_agree_c. Qed.
Print Assumptions C05_native_paths_agree_planar.

(* ... and the rearrangement is the one DICOM defines: sample s of pixel p is element p of plane s
   (nothing is lost: same length); PlanarConfiguration = 0 leaves the frame as stored *)
Theorem C05_planar_layout : forall spp rc l p s, 1 <= spp -> zlen l = rc * spp -> 0 <= p < rc -> 0 <= s < spp ->
  nth_error (deplane true spp l) (Z.to_nat (p * spp + s)) = nth_error l (Z.to_nat (s * rc + p)).
Proof. exact deplane_layout. Qed.
Print Assumptions C05_planar_layout.

Theorem C05_planar_length : forall p s l, length (deplane p s l) = length l /\ deplane false s l = l.
Proof. intros. split; [apply deplane_length|reflexivity]. Qed.
Print Assumptions C05_planar_length.

(* ---- the cached decoded array is never served stale ---- *)
(* in ANY cache state (st ranges over every value of i_cache, i.e. over every history of earlier reads
   and edits) pixel_array, get_stored_frame and get_stored_frames answer from the CURRENT description
   and PixelData, and leave them untouched *)
Theorem C05_pixel_array_current : forall st,
  snd (pixel_array st) = whole_array_c (i_c st) (i_pd st) /\ content (fst (pixel_array st)) = content st.
Proof. exact pixel_array_spec. Qed.
Print Assumptions C05_pixel_array_current.

Theorem C05_stored_frame_ignores_cache : forall st f ai, valid_c (i_c st) -> enough (c_fmt (i_c st)) (i_pd st) ->
  snd (st_one st f ai) =
    bind (std_index (f_frames (c_fmt (i_c st))) f ai) (fun i => Ok (spec_frame_c (i_c st) (i_pd st) i)) /\
  content (fst (st_one st f ai)) = content st.
Proof. exact st_one_spec. Qed.
Print Assumptions C05_stored_frame_ignores_cache.

Theorem C05_stored_frames_ignore_cache : forall fs st ai, valid_c (i_c st) -> enough (c_fmt (i_c st)) (i_pd st) ->
  snd (st_batch st fs ai) =
    match fs with
    | [] => Err "ValueError"%string
    | _ => sequence (map (fun f => bind (std_index (f_frames (c_fmt (i_c st))) f ai)
                                     (fun i => Ok (spec_frame_c (i_c st) (i_pd st) i))) fs)
    end /\
  content (fst (st_batch st fs ai)) = content st.
Proof. exact st_batch_spec. Qed.
Print Assumptions C05_stored_frames_ignore_cache.

(* any sequence of whole-array / single / batch / raw / decode-raw reads interleaved with edits of
   PixelData (by assignment or in place) and of the pixel description: every answer is the one a
   cache-free reading of the content at that moment gives (ref_ops never looks at a cache) *)
Theorem C05_history_irrelevant : forall ops st, ops_valid (content st) ops ->
  run_ops st ops = ref_ops (content st) ops.
Proof. exact history_irrelevant. Qed.
Print Assumptions C05_history_irrelevant.

(* ---- encapsulated pixel data (item level) ---- *)
(* with the true table, the reader returns exactly the fragments of frame i, for any
   fragmentation (bot_correct, including multi-fragment frames) *)
Theorem C05_read_frame_raw_correct : forall fs i, good_frames fs -> 0 <= i < zlen fs ->
  read_frame_raw_enc (frame_offsets 0 fs) (concat fs) (zlen fs) i
  = Ok (zlen (concat (firstn (Z.to_nat i) fs)), zlen (nth (Z.to_nat i) fs [])).
Proof. exact read_frame_raw_correct. Qed.
Print Assumptions C05_read_frame_raw_correct.

(* rebuilding the table: one fragment per frame (any markers), or marker-delimited frames *)
Theorem C05_build_bot_single : forall its, good_items its -> its <> [] ->
  build_bot its (zlen its) = Ok (frame_offsets 0 (map (fun it => [it]) its)).
Proof. intros its H1 H2. rewrite offs_single_frames. now apply build_bot_single. Qed.
Print Assumptions C05_build_bot_single.

Theorem C05_build_bot_marked : forall fs, good_frames fs -> (forall f, In f fs -> marked_frame f) ->
  build_bot (concat fs) (zlen fs) = Ok (frame_offsets 0 fs).
Proof. exact build_bot_marked. Qed.
Print Assumptions C05_build_bot_marked.

(* basic, extended or absent offset table: the reader always ends up with the true table *)
Theorem C05_offset_table_correct : forall fs bot eot, good_frames fs -> fs <> [] ->
  (forall f, In f fs -> marked_frame f) \/ (forall f, In f fs -> exists it, f = [it]) ->
  (eot = None \/ eot = Some (frame_offsets 0 fs)) ->
  (bot = [] \/ bot = frame_offsets 0 fs) ->
  offset_table eot bot (concat fs) (zlen fs) = Ok (frame_offsets 0 fs).
Proof. exact offset_table_correct. Qed.
Print Assumptions C05_offset_table_correct.

(* the reader's own entry point, native data, index inside the image *)
Theorem C05_reader_native_in_range : forall bits npx n pd i, 0 <= i < n ->
  raw_of_range (lazy_range bits npx i) pd <> [] ->
  read_frame_raw_native bits npx n pd i = Ok (raw_of_range (eager_range bits npx i) pd).
Proof. exact reader_native_in_range. Qed.
Print Assumptions C05_reader_native_in_range.

(* the reader's own entry point refuses every index outside the image (D50 fixed), never wraps *)
Theorem C05_reader_rejects : forall bits npx n pd table its i, (i < 0 \/ n <= i) ->
  read_frame_raw_native bits npx n pd i = Err "ValueError"%string /\
  read_frame_raw_enc table its n i = Err "ValueError"%string.
Proof. intros. split; [now apply reader_native_rejects|now apply reader_enc_rejects]. Qed.
Print Assumptions C05_reader_rejects.

Theorem C05_reader_answers_in_range : forall bits npx n pd table its i,
  (forall d, read_frame_raw_native bits npx n pd i = Ok d -> 0 <= i < n) /\
  (forall r, read_frame_raw_enc table its n i = Ok r -> 0 <= i < n).
Proof. intros. split; intros; [eapply reader_answers_in_range|eapply reader_enc_answers_in_range]; eassumption. Qed.
Print Assumptions C05_reader_answers_in_range.

(* ---- non-vacuity ---- *)
(* 3 bit-packed frames of 5 pixels in 2 bytes: frame 1 straddles the byte boundary *)
Example C05_example_bits :
  let m := Fmt 1 1 false 5 3 in let pd := [181; 106] in
  valid_fmt m /\ enough m pd /\
  frame_eager m pd 1 = Ok [1; 0; 1; 0; 1] /\ frame_lazy m pd 1 = Ok [1; 0; 1; 0; 1] /\
  frame_of_array m pd 1 = Ok [1; 0; 1; 0; 1] /\ eager_range 1 5 1 = (0, 2).
Proof. cbv zeta. unfold valid_fmt, enough. cbn [f_bits f_npx f_frames]. repeat split; try (vm_compute; congruence); auto; vm_compute; auto. Qed.
Print Assumptions C05_example_bits.

(* 2 frames of 2 signed 16-bit words with 12 stored bits and junk above them *)
Example C05_example_words :
  let m := Fmt 16 12 true 2 2 in let pd := [255; 255; 0; 248; 1; 160; 255; 7] in
  valid_fmt m /\ enough m pd /\
  frame_eager m pd 0 = Ok [-1; -2048] /\ frame_lazy m pd 1 = Ok [1; 2047] /\
  get_stored_frame true true m pd 2 false = Ok [1; 2047] /\
  get_stored_frame false false m pd 2 true = Err "IndexError"%string.
Proof. cbv zeta. unfold valid_fmt, enough. cbn [f_bits f_npx f_frames]. repeat split; try (vm_compute; congruence); auto; vm_compute; auto. Qed.
Print Assumptions C05_example_words.

(* 2 frames, the first in two fragments; marker-delimited *)
Example C05_example_encaps :
  let fs := [[Item 4 true; Item 6 false]; [Item 2 true]] in
  good_frames fs /\ (forall f, In f fs -> marked_frame f) /\
  offset_table None [] (concat fs) 2 = Ok [0; 26] /\
  read_frame_raw_enc [0; 26] (concat fs) 2 0 = Ok (0, 2) /\
  read_frame_raw_enc [0; 26] (concat fs) 2 1 = Ok (2, 1).
Proof.
  cbv zeta. split; [|split; [|repeat split; reflexivity]].
  - intros f [<- | [<- | []]]; (split; [discriminate|]); intros it Hit; cbn in Hit;
      repeat (destruct Hit as [<- | Hit]; [split; reflexivity|]); contradiction.
  - intros f [<- | [<- | []]]; cbn; (split; [reflexivity|]); intros it Hit;
      repeat (destruct Hit as [<- | Hit]; [reflexivity|]); contradiction.
Qed.
Print Assumptions C05_example_encaps.

(* one RGB frame of 2 pixels stored colour-by-plane R1 R2 G1 G2 B1 B2 *)
Example C05_example_planar :
  let c := CFmt (Fmt 8 8 false 6 1) 3 true 1 in let pd := [1; 2; 3; 4; 5; 6] in
  valid_c c /\ enough (c_fmt c) pd /\
  frame_eager_c c pd 0 = Ok [1; 3; 5; 2; 4; 6] /\ frame_of_array_c c pd 0 = Ok [1; 3; 5; 2; 4; 6].
Proof.
  cbv zeta. unfold valid_c, valid_fmt, enough. cbn [c_fmt c_planar f_bits f_npx f_frames].
  repeat split; try (vm_compute; congruence); auto; try (vm_compute; auto; fail); try discriminate.
Qed.
Print Assumptions C05_example_planar.

(* whole array cached, PixelData swapped in place, PixelRepresentation corrected, then single frame:
   the answer comes from the new bytes with the new signedness (the stale cache held [[255]; [1]]) *)
Example C05_example_history :
  let c := CFmt (Fmt 8 8 false 1 2) 1 false 1 in let c' := CFmt (Fmt 8 8 true 1 2) 1 false 1 in
  let ops := [OWhole; OInplace [254; 7]; OHeader c'; OOne 1 false; OBatch [2; 1] false] in
  ops_valid (c, [255; 1]) ops /\
  run_history c [255; 1] ops =
    VL [VL [meta c; vz_list2 [[255]; [1]]]; VNone; VNone; VL [meta c'; vz_list [-2]]; VL [meta c'; vz_list2 [[7]; [-2]]]].
Proof.
  cbv zeta. split; [|vm_compute; reflexivity].
  cbn [ops_valid ref_step fst snd]. unfold valid_c, valid_fmt, enough. cbn [c_fmt c_planar f_bits f_npx f_frames].
  repeat split; try (vm_compute; congruence); auto; try discriminate.
Qed.
Print Assumptions C05_example_history.

(* outside valid_c (and outside DICOM: BitsAllocated = 1 with three samples per pixel, colour-by-plane):
   the bit-packed branch of decode_frame only reshapes, pydicom's whole-array decode rearranges the
   planes, so the hypothesis "c_planar c = true -> f_bits (c_fmt c) <> 1" of valid_c cannot be dropped.
   Same values as the real code returns for these bytes (replayed, see claims note). *)
Example C05_planar_bitpacked_outside :
  let c := CFmt (Fmt 1 1 false 24 1) 3 true 2 in let pd := [165; 60; 15] in
  frame_eager_c c pd 0 = Ok [1;0;1;0;0;1;0;1;0;0;1;1;1;1;0;0;1;1;1;1;0;0;0;0] /\
  frame_of_array_c c pd 0 = Ok [1;0;1;0;0;1;1;1;1;0;1;1;0;1;0;1;1;0;0;0;0;1;0;0].
Proof. split; vm_compute; reflexivity. Qed.
Print Assumptions C05_planar_bitpacked_outside.

(* ================================================================== *)
(* extension: the property sentence; values, lengths, shapes; bytes of encapsulated frames;
   the file around PixelData; lazily read images under histories          *)
(* ================================================================== *)
(* "the stored values of frame i obtained one at a time, in batches, from the whole pixel array, or lazily
   from the file on demand are identical to each other and to what pydicom decodes for that frame, and raw
   frame bytes decode to the same values; frame numbers are 1-based unless indices are requested, and
   numbers outside the image are rejected rather than wrapped" - native pixel data, every valid image,
   every frame number, either convention, every cache state of the in-memory image *)
Theorem C05_every_way_same : forall c pd f ai, valid_c c -> enough (c_fmt c) pd ->
  let n := f_frames (c_fmt c) in
  (forall cache, snd (st_one (Img c pd cache) f ai) = answer c pd f ai) /\
  (forall cache, snd (st_batch (Img c pd cache) [f] ai) = rmap (fun a => [a]) (answer c pd f ai)) /\
  snd (lz_one (LImg c pd None) f ai) = answer c pd f ai /\
  (forall i, std_index n f ai = Ok i ->
     exists fs, whole_array_c c pd = Ok fs /\ answer c pd f ai = Ok (nth (Z.to_nat i) fs [])) /\
  (forall lazy, bind (get_raw_frame lazy (c_fmt c) pd f ai) (fun raw =>
                  bind (std_index n f ai) (fun i => decode_native_c c i raw)) = answer c pd f ai) /\
  ((ai = true /\ (f < 0 \/ n <= f)) \/ (ai = false /\ (f < 1 \/ n < f)) <-> answer c pd f ai = Err "IndexError"%string).
Proof. exact every_way_same. Qed.
Print Assumptions C05_every_way_same.

(* what is returned fits BitsStored / PixelRepresentation (hence the dtype): 0/1 for bit-packed data,
   [0, 2^BitsStored) unsigned, [-2^(BitsStored-1), 2^(BitsStored-1)) signed *)
Theorem C05_values_fit_stored_bits : forall c pd i v, 1 <= f_stored (c_fmt c) ->
  In v (spec_frame_c c pd i) -> stored_range (c_fmt c) v.
Proof. exact spec_frame_c_range. Qed.
Print Assumptions C05_values_fit_stored_bits.

(* the unused-bit correction: the result is in range and congruent to the stored word modulo
   2^BitsStored (so it IS the low BitsStored bits); words already in range are returned unchanged *)
Theorem C05_unused_bits_rule : forall bs (sg : bool) u, 1 <= bs ->
  (if sg then - 2 ^ (bs - 1) <= fix_stored bs sg u < 2 ^ (bs - 1) else 0 <= fix_stored bs sg u < 2 ^ bs) /\
  (fix_stored bs sg u - u) mod 2 ^ bs = 0.
Proof. exact fix_stored_range. Qed.
Print Assumptions C05_unused_bits_rule.

Theorem C05_unused_bits_identity : forall bs (sg : bool) u, 1 <= bs ->
  (if sg then 0 <= u < 2 ^ (bs - 1) else 0 <= u < 2 ^ bs) -> fix_stored bs sg u = u.
Proof. exact fix_stored_id. Qed.
Print Assumptions C05_unused_bits_identity.

(* every answer has Rows * Columns * SamplesPerPixel values, which is what its shape says *)
Theorem C05_frame_length : forall c pd i, valid_c c -> enough (c_fmt c) pd -> 0 <= i < f_frames (c_fmt c) ->
  zlen (spec_frame_c c pd i) = f_npx (c_fmt c).
Proof. exact spec_frame_c_length. Qed.
Print Assumptions C05_frame_length.

Theorem C05_shape_matches_values : forall c cols pd i, geometry c cols -> valid_c c -> enough (c_fmt c) pd ->
  0 <= i < f_frames (c_fmt c) ->
  shape_of c = (if c_spp c =? 1 then [c_rows c; cols] else [c_rows c; cols; c_spp c]) /\
  fold_right Z.mul 1 (shape_of c) = zlen (spec_frame_c c pd i).
Proof. exact shape_and_values. Qed.
Print Assumptions C05_shape_matches_values.

(* ---- encapsulated pixel data, bytes ---- *)
(* open the file - basic, extended or no offset table; one fragment per frame or marker-delimited
   frames of any number of fragments - and read frame i: exactly the bytes of the fragments of frame i
   in order; outside the image: refused *)
Theorem C05_reader_bytes_end_to_end : forall pfs bot eot i, good_pframes pfs -> pfs <> [] ->
  (forall f, In f pfs -> marked_pframe f) \/ (forall f, In f pfs -> exists p, f = [p]) ->
  (eot = None \/ eot = Some (frame_offsets 0 (items_of pfs))) ->
  (bot = [] \/ bot = frame_offsets 0 (items_of pfs)) ->
  reader_enc_bytes eot bot (concat pfs) (zlen pfs) i =
    if (i <? 0) || (i >=? zlen pfs) then Err "ValueError"%string else Ok (concat (nth (Z.to_nat i) pfs [])).
Proof. exact reader_enc_bytes_correct. Qed.
Print Assumptions C05_reader_bytes_end_to_end.

(* the same file through a lazily read Image: frame number convention, then the same bytes *)
Theorem C05_lazy_image_raw_bytes : forall pfs bot eot f ai, good_pframes pfs -> pfs <> [] ->
  (forall f, In f pfs -> marked_pframe f) \/ (forall f, In f pfs -> exists p, f = [p]) ->
  (eot = None \/ eot = Some (frame_offsets 0 (items_of pfs))) ->
  (bot = [] \/ bot = frame_offsets 0 (items_of pfs)) ->
  lazy_raw_enc_bytes eot bot (concat pfs) (zlen pfs) f ai =
    bind (std_index (zlen pfs) f ai) (fun i => Ok (concat (nth (Z.to_nat i) pfs []))).
Proof. exact lazy_raw_enc_bytes_correct. Qed.
Print Assumptions C05_lazy_image_raw_bytes.

(* ---- native data inside the file: header of the element and trailing bytes are never returned ---- *)
Theorem C05_reader_file_is_pixeldata : forall implicit_vr bits npx n hdr pd rest i,
  zlen hdr = native_header implicit_vr ->
  0 <= fst (lazy_range bits npx i) <= snd (lazy_range bits npx i) -> snd (lazy_range bits npx i) <= zlen pd ->
  read_frame_raw_file implicit_vr bits npx n (hdr ++ pd ++ rest) i = read_frame_raw_native bits npx n pd i.
Proof. exact read_file_is_read_pixeldata. Qed.
Print Assumptions C05_reader_file_is_pixeldata.

(* ---- lazily read image under histories ---- *)
(* ANY history of reads (pixel_array, single, batch, raw, decode raw) and header edits on a lazily read
   image: every answer is the one the in-memory image gives and the one a cache-free reading of the
   current description and the file gives.  (Before the D105 fix this was false - a header edit after
   pixel_array was ignored; found by this check: corpus/C05/lazy_stale_after_edit.json.) *)
Theorem C05_lazy_history : forall ops c pd, ops_valid (c, pd) (map op_of_lop ops) ->
  lrun_ops (LImg c pd None) ops = run_ops (Img c pd None) (map op_of_lop ops) /\
  lrun_ops (LImg c pd None) ops = ref_ops (c, pd) (map op_of_lop ops).
Proof. exact lazy_equals_in_memory. Qed.
Print Assumptions C05_lazy_history.

(* from ANY state whose cached array (if any) was decoded from the file under the description recorded
   with it - in particular with a STALE cache *)
Theorem C05_lazy_history_from : forall ops st, lcoherent st -> ops_valid (lcontent st) (map op_of_lop ops) ->
  lrun_ops st ops = ref_ops (lcontent st) (map op_of_lop ops).
Proof. exact lazy_history. Qed.
Print Assumptions C05_lazy_history_from.

(* pixel_array of a lazily read image: the decode of the file under the CURRENT description, description
   and file untouched, and an array is cached afterwards (so later reads do take the validation branch) *)
Theorem C05_lazy_pixel_array_current : forall st, valid_c (l_c st) -> enough (c_fmt (l_c st)) (l_pd st) -> lcoherent st ->
  snd (lz_whole st) = Ok (map (spec_frame_c (l_c st) (l_pd st)) (zrange (f_frames (c_fmt (l_c st))))) /\
  lcontent (fst (lz_whole st)) = lcontent st /\ lcoherent (fst (lz_whole st)) /\
  l_cache (fst (lz_whole st)) <> None.
Proof. exact lz_whole_spec. Qed.
Print Assumptions C05_lazy_pixel_array_current.

(* ---- non-vacuity of the extension ---- *)
(* two frames, the first in two fragments (FF D8 ..; plain), the second one fragment (FF 4F ..); no table *)
Example C05_example_encaps_bytes :
  let pfs := [[[255; 216; 1; 2]; [3; 4]]; [[255; 79; 5; 6; 7; 8]]] in
  good_pframes pfs /\ (forall f, In f pfs -> marked_pframe f) /\
  reader_enc_bytes None [] (concat pfs) 2 0 = Ok [255; 216; 1; 2; 3; 4] /\
  reader_enc_bytes None [] (concat pfs) 2 1 = Ok [255; 79; 5; 6; 7; 8] /\
  reader_enc_bytes None [] (concat pfs) 2 2 = Err "ValueError"%string /\
  lazy_raw_enc_bytes None [] (concat pfs) 2 2 false = Ok [255; 79; 5; 6; 7; 8].
Proof.
  cbv zeta. split; [|split; [|repeat split; reflexivity]].
  - intros f [<- | [<- | []]]; (split; [discriminate|]); intros p Hp; cbn in Hp;
      repeat (destruct Hp as [<- | Hp]; [split; reflexivity|]); contradiction.
  - intros f [<- | [<- | []]]; cbn; (split; [reflexivity|]); intros q Hq;
      repeat (destruct Hq as [<- | Hq]; [reflexivity|]); contradiction.
Qed.
Print Assumptions C05_example_encaps_bytes.

(* lazily read image: whole array cached, PixelRepresentation corrected AFTER that, then single frame, batch
   and whole array again: all from the file under the new description (the stale cache held 65535) *)
Example C05_example_lazy_history :
  let ops := [LWhole; LHeader wit_c'; LOne 1 false; LBatch [2; 1] false; LWhole] in
  ops_valid (wit_c, wit_pd) (map op_of_lop ops) /\
  run_lazy_history wit_c wit_pd ops =
    VL [VL [meta wit_c; vz_list2 [[65535; 1]; [2; 3]]]; VNone; VL [meta wit_c'; vz_list [-1; 1]];
        VL [meta wit_c'; vz_list2 [[2; 3]; [-1; 1]]]; VL [meta wit_c'; vz_list2 [[-1; 1]; [2; 3]]]].
Proof.
  cbv zeta. split; [|vm_compute; reflexivity].
  cbn [map op_of_lop ops_valid ref_step fst snd]. unfold valid_c, valid_fmt, enough.
  cbn [wit_c wit_c' c_fmt c_planar f_bits f_npx f_frames].
  repeat split; try (vm_compute; congruence); auto; try discriminate.
Qed.
Print Assumptions C05_example_lazy_history.

(* geometry / range: 2 x 1 RGB, 12 bits stored signed *)
Example C05_example_shape :
  let c := CFmt (Fmt 16 12 true 6 1) 3 false 2 in
  geometry c 1 /\ shape_of c = [2; 1; 3] /\ stored_range (c_fmt c) (-2048) /\ ~ stored_range (c_fmt c) 2048.
Proof. exact example_shape. Qed.
Print Assumptions C05_example_shape.

(* ================================================================== *)
(* extension 2: the ORDER of a batch; get_frames                        *)
(* ================================================================== *)
(* a batch answers the request position by position - whatever the order of the numbers, with repeats,
   of any length - through every route and cache state: entry k of the answer is the frame whose number
   is entry k of the request (the same `answer` as one frame at a time); the batch is refused with
   IndexError exactly when some requested number is outside the image, and answered exactly when all are
   inside.  (A batch that reads the frames in file order and restores the request order wrongly - seeded
   regression C05-m9 - violates the second clause for every request whose sorting permutation is not an
   involution.) *)
Theorem C05_batch_in_request_order : forall c pd fs ai, valid_c c -> enough (c_fmt c) pd -> fs <> [] ->
  let n := f_frames (c_fmt c) in
  exists r, batch_routes c pd fs ai r /\
    (forall out, r = Ok out ->
       length out = length fs /\
       forall k, (k < length fs)%nat -> answer c pd (nth k fs 0) ai = Ok (nth k out [])) /\
    ((exists f, In f fs /\ std_index n f ai = Err "IndexError"%string) <-> r = Err "IndexError"%string) /\
    ((forall f, In f fs -> exists i, std_index n f ai = Ok i) <-> exists out, r = Ok out).
Proof. exact batch_in_request_order. Qed.
Print Assumptions C05_batch_in_request_order.

(* asking for the numbers at positions p of a request (a permutation, a rotation, a selection, with
   repeats) returns the frames at positions p of its answer *)
Theorem C05_batch_reorder : forall c pd fs ai p out r r', valid_c c -> enough (c_fmt c) pd ->
  p <> [] -> (forall k, In k p -> (k < length fs)%nat) ->
  batch_routes c pd fs ai r -> batch_routes c pd (select 0 p fs) ai r' ->
  r = Ok out -> r' = Ok (select [] p out).
Proof. exact batch_reorder. Qed.
Print Assumptions C05_batch_reorder.

(* get_frames with every transform switched off is get_stored_frames: same answer and same cache
   afterwards, for every request, in every state, valid image or not.  (With the pre-D108 test - rank of
   the cached array instead of number_of_frames == 1 - this fails for one colour frame with a warm cache.) *)
Theorem C05_get_frames_is_get_stored_frames : forall fs ai,
  (forall st, st_frames st fs ai = st_batch st fs ai) /\ (forall st, lz_frames st fs ai = lz_batch st fs ai).
Proof. exact frames_is_stored_frames. Qed.
Print Assumptions C05_get_frames_is_get_stored_frames.

(* three frames 10, 20, 30: the rotated request 2, 3, 1; positions 1, 1, 2, 1 of it (= 3, 3, 1, 3); a
   request with a number outside the image *)
Example C05_example_batch_order :
  valid_c ord_c /\ enough (c_fmt ord_c) ord_pd /\
  batch_routes ord_c ord_pd [2; 3; 1] false (Ok [[20]; [30]; [10]]) /\
  batch_routes ord_c ord_pd (select 0 [1%nat; 1%nat; 2%nat; 1%nat] [2; 3; 1]) false (Ok [[30]; [30]; [10]; [30]]) /\
  batch_routes ord_c ord_pd [2; 4; 1] false (Err "IndexError"%string).
Proof. exact example_batch_order. Qed.
Print Assumptions C05_example_batch_order.

(* ================================================================== *)
(* extension: the lazily read image when its GEOMETRY is edited (state after the D118 fix); the        *)
(* complete batch                                                                                       *)
(* ================================================================== *)
(* ANY history of reads with nothing cached (one frame, batch in any order, get_frames with the transforms
   off, the complete batch frame_numbers=None through either, raw frame, decode of the raw bytes) and edits
   of the description - Rows / Columns / NumberOfFrames / BitsAllocated included - on a lazily read image:
   every answer is the one the in-memory image gives and the one the cache-free reference gives for the
   current content.  (False before the D118 fix: read_frame_raw took the offset from the table computed
   when the file was opened - found by this check, corpus/C05/lazy_geometry_stale_table.json.) *)
Theorem C05_lazy_geometry_history : forall ops c pd,
  ops_valid (c, pd) (ops_of_gops (c, pd) ops) ->
  grun_ops (g_open c pd) ops = run_ops (Img c pd None) (ops_of_gops (c, pd) ops) /\
  grun_ops (g_open c pd) ops = ref_ops (c, pd) (ops_of_gops (c, pd) ops).
Proof. exact lazy_geometry_history. Qed.
Print Assumptions C05_lazy_geometry_history.

Theorem C05_lazy_geometry_history_from : forall ops st,
  ops_valid (gcontent st) (ops_of_gops (gcontent st) ops) ->
  grun_ops st ops = ref_ops (gcontent st) (ops_of_gops (gcontent st) ops).
Proof. exact lazy_geometry_history_from. Qed.
Print Assumptions C05_lazy_geometry_history_from.

(* one read after ANY edit that leaves a valid image: the `answer` of C05_every_way_same, and the raw bytes
   of the in-memory route *)
Theorem C05_lazy_geometry_one : forall c0 c pd f ai, valid_c c -> enough (c_fmt c) pd ->
  g_one (fst (gstep (g_open c0 pd) (GHeader c))) f ai = answer c pd f ai /\
  g_raw (fst (gstep (g_open c0 pd) (GHeader c))) f ai = get_raw_frame false (c_fmt c) pd f ai.
Proof. exact lazy_geometry_one. Qed.
Print Assumptions C05_lazy_geometry_one.

(* the reader's native entry point as modelled with the table lookup (before the fix) and with the computed
   offset (now) is one function of (description, PixelData, index) - for EVERY index; on a valid image it
   returns the bytes of the frame's range, never an error *)
Theorem C05_reader_native_offset_computed : forall bits bs sg npx n pd i,
  read_frame_raw_native bits npx n pd i = read_frame_raw_cur (Fmt bits bs sg npx n) pd i.
Proof. exact read_frame_raw_native_cur. Qed.
Print Assumptions C05_reader_native_offset_computed.

Theorem C05_reader_native_valid_image : forall m pd i, valid_fmt m -> enough m pd -> 0 <= i < f_frames m ->
  read_frame_raw_cur m pd i = Ok (raw_of_range (lazy_range (f_bits m) (f_npx m) i) pd).
Proof. exact read_cur_ok. Qed.
Print Assumptions C05_reader_native_valid_image.

(* "in batches" = "from the whole pixel array" for the request every caller gets by default
   (frame_numbers=None: range(1, n + 1) / range(0, n)): in-memory image in any cache state through
   get_stored_frames and get_frames, lazily read image in any coherent cache state, lazily read image with
   nothing cached *)
Theorem C05_all_frames_default : forall c pd ai, valid_c c -> enough (c_fmt c) pd ->
  let req := default_request (f_frames (c_fmt c)) ai in
  (forall cache, snd (st_batch (Img c pd cache) req ai) = whole_array_c c pd) /\
  (forall cache, snd (st_frames (Img c pd cache) req ai) = whole_array_c c pd) /\
  (forall cache, lcoherent (LImg c pd cache) -> snd (lz_batch (LImg c pd cache) req ai) = whole_array_c c pd) /\
  g_batch (GImg c pd) req ai = whole_array_c c pd /\ g_frames (GImg c pd) req ai = whole_array_c c pd.
Proof. exact all_frames_default. Qed.
Print Assumptions C05_all_frames_default.

(* the witnesses of D118 on the fixed code: 3 frames of 4 x 2 pixels opened lazily, Rows := 2 -> frame 2 is
   bytes 4..7; NumberOfFrames := 6 -> frame 4 is bytes 12..15; the table of the moment the file was opened
   says 8 for index 1 and has no entry for index 3 *)
Example C05_lazy_geometry_regression :
  ops_valid (geo_c0, geo_pd) (ops_of_gops (geo_c0, geo_pd) [GHeader geo_c1; GOne 2 false; GHeader geo_c2; GOne 4 false]) /\
  grun_ops (g_open geo_c0 geo_pd) [GHeader geo_c1; GOne 2 false; GHeader geo_c2; GOne 4 false] =
    [VNone; VL [meta geo_c1; vz_list [4; 5; 6; 7]]; VNone; VL [meta geo_c2; vz_list [12; 13; 14; 15]]] /\
  py_nth (native_table (c_fmt geo_c0)) 1 = Some 8 /\ py_nth (native_table (c_fmt geo_c0)) 3 = None.
Proof. exact lazy_geometry_regression. Qed.
Print Assumptions C05_lazy_geometry_regression.

(* non-vacuity: Rows <-> Columns swapped and NumberOfFrames := 2, then the complete batch *)
Example C05_example_lazy_geometry :
  ops_valid (geo_c0, geo_pd) (ops_of_gops (geo_c0, geo_pd) [GOne 3 false; GHeader geo_c3; GOne 2 false; GBatch [2; 1] false; GOne 3 false; GFramesAll true]) /\
  grun_ops (g_open geo_c0 geo_pd) [GOne 3 false; GHeader geo_c3; GOne 2 false; GBatch [2; 1] false; GOne 3 false; GFramesAll true] =
    [VL [meta geo_c0; vz_list [16; 17; 18; 19; 20; 21; 22; 23]]; VNone;
     VL [meta geo_c3; vz_list [8; 9; 10; 11; 12; 13; 14; 15]];
     VL [meta geo_c3; vz_list2 [[8; 9; 10; 11; 12; 13; 14; 15]; [0; 1; 2; 3; 4; 5; 6; 7]]];
     VErr "IndexError";
     VL [VL [VS "int64"; vz_list [2; 4]]; vz_list2 [[0; 1; 2; 3; 4; 5; 6; 7]; [8; 9; 10; 11; 12; 13; 14; 15]]]].
Proof. exact lazy_geometry_example. Qed.
Print Assumptions C05_example_lazy_geometry.

(* ---- lazily read ENCAPSULATED image, NumberOfFrames edited ---- *)
(* for encapsulated data the reader keeps the offset table of the moment the file was opened.  NumberOfFrames
   lowered (the last frames dropped): the numbers of the smaller image get the bytes of their frame exactly as
   before, all others IndexError - for every table situation and fragmentation of C05_reader_bytes_end_to_end *)
Theorem C05_lazy_encaps_frames_lowered : forall pfs bot eot n f ai, good_pframes pfs -> pfs <> [] ->
  (forall f, In f pfs -> marked_pframe f) \/ (forall f, In f pfs -> exists p, f = [p]) ->
  (eot = None \/ eot = Some (frame_offsets 0 (items_of pfs))) ->
  (bot = [] \/ bot = frame_offsets 0 (items_of pfs)) ->
  n <= zlen pfs ->
  lazy_raw_enc_bytes_edited eot bot (concat pfs) (zlen pfs) n f ai =
    bind (std_index n f ai) (fun i => Ok (concat (nth (Z.to_nat i) pfs []))).
Proof. exact lazy_raw_enc_lowered. Qed.
Print Assumptions C05_lazy_encaps_frames_lowered.

(* NumberOfFrames raised: an index inside the edited image for which the table has no entry is refused
   (IndexError of the list lookup), never answered with the bytes of another frame - any stream, any table *)
Theorem C05_lazy_encaps_frames_raised : forall eot bot pls n0 n t i,
  offset_table eot bot (map item_of pls) n0 = Ok t -> zlen t <= i < n ->
  lazy_raw_enc_bytes_edited eot bot pls n0 n i true = Err "IndexError"%string.
Proof. exact lazy_raw_enc_raised. Qed.
Print Assumptions C05_lazy_encaps_frames_raised.

(* ---- ANY PixelData length: answered iff the frame lies inside the data ---- *)
(* get_stored_frame on the lazily read image for ANY description and ANY PixelData length - a description
   edited beyond what the file holds included: frame number f is answered iff it is a number of the image
   AND the bytes of that frame lie inside PixelData, and then with exactly the values those bytes say; in
   every other case the answer is an error, never a partial, shifted or wrapped frame *)
Theorem C05_lazy_frame_answered_iff : forall c pd f ai a, valid_c c ->
  (g_one (GImg c pd) f ai = Ok a <->
   exists i, std_index (f_frames (c_fmt c)) f ai = Ok i /\ frame_inside (c_fmt c) pd i /\ a = spec_frame_c c pd i).
Proof. exact lazy_frame_answered_iff. Qed.
Print Assumptions C05_lazy_frame_answered_iff.
