(* C04 - the region read of Image.get_volume / Segmentation.get_volume on a tiled
   image: standardise to zero-based indices, then get_total_pixel_matrix with
   as_indices=True (a second standardisation).  The second standardisation is
   the identity on the output of the first, so get_volume reads exactly the
   region get_total_pixel_matrix reads.  (Before fix D100 the one-based end 0
   passed the first standardisation as index -1 and was read as "last" by the
   second; the former theorem C04_volume_region_agrees_refuted recorded that.) *)
From Coq Require Import String ZArith List Bool Lia ZifyBool.
From HD Require Import Base.Val Base.ListZ C12_Model C12_Proofs C04_Model C04_Proofs C04_Proofs_Store
                       C04_Proofs_E2E.
Import ListNotations.
Ltac Zify.zify_post_hook ::= Z.to_euclidean_division_equations.
Open Scope Z_scope.

Lemma restart : forall ai n x s, 1 <= n -> spec_start ai n x = Some s -> spec_start true n (Some (s - 1)) = Some s.
Proof.
  intros ai n x s Hn H. apply spec_start_range in H; [|lia]. unfold spec_start.
  replace (s - 1 <? 0) with false by lia. replace (s - 1 <? n) with true by lia. f_equal. lia.
Qed.

Lemma reend : forall ai n x e, 1 <= n -> spec_end ai n x = Some e -> spec_end true n (Some (e - 1)) = Some e.
Proof.
  intros ai n x e Hn H. apply spec_end_range in H; [|lia]. unfold spec_end.
  replace (e - 1 <? 0) with false by lia. replace (e - 1 <=? n) with true by lia. f_equal. lia.
Qed.

(* the second standardisation, on the zero-based output of the first, returns
   what the first one computed *)
Theorem restandardize : forall ai rs re cs ce R C, 1 <= R -> 1 <= C ->
  bind (standardize_rc_out ai true rs re cs ce R C) (fun t =>
    match t with (a, b, c, d) => standardize_rc true (Some a) (Some b) (Some c) (Some d) R C end) =
  standardize_rc ai rs re cs ce R C.
Proof.
  intros ai rs re cs ce R C HR HC. unfold standardize_rc_out.
  rewrite (standardize_rc_eq ai rs re cs ce) by lia.
  destruct (spec_start ai R rs) as [s|] eqn:E1; [|reflexivity].
  destruct (spec_end ai R re) as [e|] eqn:E2; [|reflexivity].
  destruct (spec_start ai C cs) as [c0|] eqn:E3; [|reflexivity].
  destruct (spec_end ai C ce) as [c1|] eqn:E4; [|reflexivity].
  cbn [bind]. rewrite standardize_rc_eq by lia.
  rewrite (restart ai R rs s HR E1), (restart ai C cs c0 HC E3).
  rewrite (reend ai R re e HR E2), (reend ai C ce c1 HC E4). reflexivity.
Qed.

(* for any reader that looks at its region arguments only through the
   standardiser, the get_volume path refuses what the standardiser refuses (with
   its error, before anything else the reader checks) and otherwise IS the reader *)
Theorem vol_region_exact : forall {A} (G : res (Z * Z * Z * Z) -> res A)
    (read : bool -> option Z -> option Z -> option Z -> option Z -> res A) ai rs re cs ce R C,
  1 <= R -> 1 <= C ->
  (forall ai' a b c d, read ai' a b c d = G (standardize_rc ai' a b c d R C)) ->
  vol_region ai rs re cs ce R C read =
  match standardize_rc ai rs re cs ce R C with
  | Err k => Err k
  | Ok _ => read ai rs re cs ce
  end.
Proof.
  intros A G read ai rs re cs ce R C HR HC Hread. unfold vol_region.
  pose proof (restandardize ai rs re cs ce R C HR HC) as Hre.
  unfold standardize_rc_out in *.
  destruct (standardize_rc ai rs re cs ce R C) as [[[[s e] c0] c1]|k] eqn:E; cbn [bind] in *; [|reflexivity].
  rewrite !Hread. now rewrite Hre, E.
Qed.

Definition img_G (full : bool) (ts : list tile) (th tw : Z) (r : res (Z * Z * Z * Z)) : res (list (list Z)) :=
  if negb (unique_positions ts) then Err "RuntimeError"
  else bind r (fun t =>
    match t with (s, e, c0, c1) =>
      if negb full &&
         negb (count_selected ts s e c0 c1 th tw =? frames_expected s e th * frames_expected c0 c1 tw)
      then Err "RuntimeError"
      else if (e - s <? 0) || (c1 - c0 <? 0) then Err "ValueError"
      else Ok (read_region ts s e c0 c1 th tw)
    end).

Theorem img_vol_read_exact : forall full ts R C th tw ai rs re cs ce, 1 <= R -> 1 <= C ->
  img_vol_read full ts R C th tw ai rs re cs ce =
  match standardize_rc ai rs re cs ce R C with
  | Err k => Err k
  | Ok _ => img_read full ts R C th tw ai rs re cs ce
  end.
Proof.
  intros. unfold img_vol_read. apply (vol_region_exact (img_G full ts th tw)); auto.
Qed.

(* FULL AGREEMENT: on every image the uniqueness test accepts, get_volume reads
   exactly what get_total_pixel_matrix reads, for every argument *)
Theorem img_vol_agrees : forall full ts R C th tw ai rs re cs ce, 1 <= R -> 1 <= C ->
  unique_positions ts = true ->
  img_vol_read full ts R C th tw ai rs re cs ce = img_read full ts R C th tw ai rs re cs ce.
Proof.
  intros full ts R C th tw ai rs re cs ce HR HC Hu. rewrite img_vol_read_exact by lia.
  unfold img_read, read_std. rewrite Hu. cbn [negb].
  destruct (standardize_rc ai rs re cs ce R C); reflexivity.
Qed.

(* ... and on the others both refuse (the argument error first in get_volume) *)
Theorem img_vol_refuses_duplicates : forall full ts R C th tw ai rs re cs ce, 1 <= R -> 1 <= C ->
  unique_positions ts = false ->
  img_read full ts R C th tw ai rs re cs ce = Err "RuntimeError" /\
  (img_vol_read full ts R C th tw ai rs re cs ce = Err "RuntimeError" \/
   img_vol_read full ts R C th tw ai rs re cs ce = Err "ValueError").
Proof.
  intros full ts R C th tw ai rs re cs ce HR HC Hu. rewrite img_vol_read_exact by lia.
  unfold img_read. rewrite Hu. cbn [negb]. split; [reflexivity|].
  rewrite standardize_rc_eq by lia.
  destruct (spec_start ai R rs); [|now right]. destruct (spec_end ai R re); [|now right].
  destruct (spec_start ai C cs); [|now right]. destruct (spec_end ai C ce); [now left|now right].
Qed.

(* the one-based end 0 is refused by both entry points (regression statement for D100) *)
Theorem end_zero_refused : forall full ts R C th tw rs cs ce, 1 <= R -> 1 <= C ->
  img_vol_read full ts R C th tw false rs (Some 0) cs ce = Err "ValueError" /\
  img_vol_read full ts R C th tw false cs ce rs (Some 0) = Err "ValueError" /\
  read_std false ts R C th tw false rs (Some 0) cs ce = Err "ValueError".
Proof.
  intros full ts R C th tw rs cs ce HR HC. rewrite !img_vol_read_exact by lia.
  unfold read_std. rewrite !standardize_rc_eq by lia.
  change (spec_end false R (Some 0)) with (@None Z). change (spec_end false C (Some 0)) with (@None Z).
  repeat split.
  - destruct (spec_start false R rs); reflexivity.
  - destruct (spec_start false R cs); [|reflexivity]. destruct (spec_end false R ce); [|reflexivity].
    destruct (spec_start false C rs); reflexivity.
  - destruct (spec_start false R rs); reflexivity.
Qed.

(* the same for the segmentation reader (per-segment planes) *)
Definition seg_G (st : list stile) (sel : list Z) (th tw : Z) (r : res (Z * Z * Z * Z)) : res (list (list (list Z))) :=
  fold_right (fun k acc =>
      bind (bind r (fun t => match t with (s, e, c0, c1) =>
              if (e - s <? 0) || (c1 - c0 <? 0) then Err "ValueError"
              else Ok (read_region (tiles_of_seg k st) s e c0 c1 th tw) end)) (fun a =>
      bind acc (fun l => Ok (a :: l))))
    (Ok []) sel.

Theorem seg_vol_read_exact : forall st sel R C th tw ai rs re cs ce, 1 <= R -> 1 <= C ->
  vol_region ai rs re cs ce R C (seg_read st sel R C th tw) =
  match standardize_rc ai rs re cs ce R C with
  | Err k => Err k
  | Ok _ => seg_read st sel R C th tw ai rs re cs ce
  end.
Proof.
  intros. apply (vol_region_exact (seg_G st sel th tw)); auto.
Qed.

Theorem seg_vol_agrees : forall st sel R C th tw ai rs re cs ce, 1 <= R -> 1 <= C -> sel <> [] ->
  vol_region ai rs re cs ce R C (seg_read st sel R C th tw) = seg_read st sel R C th tw ai rs re cs ce.
Proof.
  intros st sel R C th tw ai rs re cs ce HR HC Hsel. rewrite seg_vol_read_exact by lia.
  destruct sel as [|k sel]; [contradiction|]. unfold seg_read, read_std. cbn [fold_right].
  destruct (standardize_rc ai rs re cs ce R C); reflexivity.
Qed.
