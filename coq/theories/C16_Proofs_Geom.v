(* C16 - region geometry: every group a query returns reports, through roi, the coordinates its reference items
   were constructed with.  The stored GraphicData is the row-major flattening of the LOGICAL n x d array and `value`
   reshapes it back (reshape_flatten); across DICOM encoding each coordinate of a SCOORD item is rounded by `trunc`
   (Graphic Data has VR FL in SCOORD and SCOORD3D items).  A column-major flattening (what a memory-order walk of a Fortran-ordered ndarray gives)
   does NOT round-trip (column_major_refuted). *)
From Coq Require Import String ZArith List Bool Lia Arith.
From HD Require Import Base.Val C16_Model C16_Proofs C16_Proofs_Acc C16_Proofs_Mixed C16_Proofs_Tree C16_Proofs_E2E.
Import ListNotations.
Open Scope Z_scope.

Definition rows_ok (d : nat) (a : coords) : bool := forallb (fun r => Nat.eqb (length r) d) a.
Definition gitem_ok (x : gitem) : bool := let 'GI d _ a := x in negb (Nat.eqb d 0) && rows_ok d a.

Lemma rows_ok_Forall d a : rows_ok d a = true -> Forall (fun r => length r = d) a.
Proof.
  unfold rows_ok. rewrite forallb_forall, Forall_forall. intros H r Hr. apply Nat.eqb_eq. now apply H.
Qed.

Lemma length_concat_rows d (a : coords) : Forall (fun r => length r = d) a -> length (concat a) = (length a * d)%nat.
Proof.
  induction 1 as [|r a Hr _ IH]; [reflexivity|]. cbn [concat length]. rewrite app_length, IH, Hr. lia.
Qed.

Lemma chunks_concat d (a : coords) : Forall (fun r => length r = d) a -> chunks d (length a) (concat a) = a.
Proof.
  induction 1 as [|r a Hr _ IH]; [reflexivity|]. cbn [concat length chunks]. f_equal.
  - rewrite firstn_app, <- Hr, firstn_all, Nat.sub_diag. cbn. apply app_nil_r.
  - rewrite skipn_app, <- Hr, skipn_all, Nat.sub_diag. cbn. rewrite Hr. exact IH.
Qed.

(* value (store a) = a *)
Lemma reshape_flatten d (a : coords) : d <> 0%nat -> rows_ok d a = true ->
  reshape_rows d (flatten_rows a) = Ok a.
Proof.
  intros Hd Ha. apply rows_ok_Forall in Ha. unfold reshape_rows, flatten_rows.
  destruct (Nat.eqb d 0) eqn:E; [apply Nat.eqb_eq in E; contradiction|].
  rewrite (length_concat_rows d a Ha), Nat.mod_mul, Nat.div_mul by assumption. cbn [Nat.eqb].
  now rewrite chunks_concat.
Qed.

Lemma rows_ok_map (t : Z -> Z) d a : rows_ok d a = true -> rows_ok d (map (map t) a) = true.
Proof.
  unfold rows_ok. rewrite !forallb_forall. intros H r Hr. apply in_map_iff in Hr as (r0 & <- & Hr0).
  rewrite map_length. now apply H.
Qed.

(* the same after every coordinate went through `t` (encoding) *)
Lemma reshape_map_flatten (t : Z -> Z) d (a : coords) : d <> 0%nat -> rows_ok d a = true ->
  reshape_rows d (map t (flatten_rows a)) = Ok (map (map t) a).
Proof.
  intros Hd Ha. unfold flatten_rows. rewrite concat_map. apply (reshape_flatten d (map (map t) a) Hd).
  now apply rows_ok_map.
Qed.

(* what a group must show for an item constructed with the array a *)
Definition spec_gitem (trunc : Z -> Z) (x : gitem) : val :=
  let 'GI d aux a := x in
  let a' := map (map trunc) a in
  VL [VZ (Z.of_nat d); VZ aux; vz_list (concat a'); vz_list2 a'].

Lemma gitem_val_spec trunc x : gitem_ok x = true -> gitem_val trunc x = spec_gitem trunc x.
Proof.
  destruct x as [d aux a]. cbn [gitem_ok gitem_val spec_gitem]. intros H. apply andb_true_iff in H as [Hd Ha].
  apply negb_true_iff, Nat.eqb_neq in Hd. unfold gd_encode, scoord_store.
  rewrite (reshape_map_flatten trunc d a Hd Ha). cbn [vres]. unfold flatten_rows. now rewrite concat_map.
Qed.

(* a report that was not encoded: the identity table *)
Lemma map_map_id (a : coords) : map (map (tbl_fun [])) a = a.
Proof.
  induction a as [|r a IH]; [reflexivity|]. cbn [map]. rewrite IH. f_equal.
  induction r as [|x r IHr]; [reflexivity|]. cbn [map]. now rewrite IHr.
Qed.
Lemma spec_gitem_mem x :
  spec_gitem (tbl_fun []) x = let 'GI d aux a := x in VL [VZ (Z.of_nat d); VZ aux; vz_list (concat a); vz_list2 a].
Proof. destruct x as [d aux a]. cbn [spec_gitem]. now rewrite map_map_id. Qed.

Lemma filter_map_fst {A B} (p : A -> bool) (l : list (A * B)) :
  filter p (map fst l) = map fst (filter (fun x => p (fst x)) l).
Proof.
  induction l as [|x l IH]; [reflexivity|]. cbn [map filter]. destruct (p (fst x)); cbn [map]; now rewrite IH.
Qed.

Lemma find_own (ggs : list (group * list gitem)) p :
  NoDup (map (fun q => g_tid (fst q)) ggs) -> In p ggs ->
  find (fun q : Z * list gitem => fst q =? g_tid (fst p)) (map (fun q => (g_tid (fst q), snd q)) ggs)
  = Some (g_tid (fst p), snd p).
Proof.
  induction ggs as [|q ggs IH]; intros Hn Hin; [destruct Hin|].
  cbn [map] in Hn. inversion Hn as [|? ? Hnot Hn']; subst. cbn [map find fst].
  destruct Hin as [->|Hin].
  - now rewrite Z.eqb_refl.
  - destruct (g_tid (fst q) =? g_tid (fst p)) eqn:E.
    + apply Z.eqb_eq in E. exfalso. apply Hnot. rewrite E.
      apply (in_map (fun q => g_tid (fst q))) in Hin. exact Hin.
    + now apply IH.
Qed.

(* the observation of the correspondence run is the record-level specification: the groups of each kind in document
   order, each with what its record says AND the arrays its reference items were constructed with *)
Theorem run_accessors_geom_exact tbl32 pre (ggs : list (group * list gitem)) mname ename :
  no_im pre = true -> Forall good (map fst ggs) -> NoDup (map (fun p => g_tid (fst p)) ggs) ->
  Forall (fun p => forallb gitem_ok (snd p) = true) ggs ->
  run_accessors_geom tbl32 pre ggs mname ename =
  VL (map (fun k => VL (map (fun p => VL [spec_acc k (fst p) mname ename;
                                          VL (map (spec_gitem (tbl_fun tbl32)) (snd p))])
                            (filter (fun p => kind_eqb (g_kind (fst p)) k) ggs)))
          [Planar; Volumetric; ImageK]).
Proof.
  intros Hp Hg Hn Hs. unfold run_accessors_geom. f_equal. apply map_ext_in. intros k _.
  assert (Hc : qcheck k nofilt = Ok tt) by (now destruct k).
  rewrite (query_exact k pre (map fst ggs) nofilt Hp Hg Hc). cbn [vres]. f_equal.
  replace (filter (fun g => kind_eqb (g_kind g) k && satk k nofilt g) (map fst ggs))
    with (filter (fun g => kind_eqb (g_kind g) k) (map fst ggs)).
  2:{ apply filter_ext. intros g. destruct (sat_nofilt g) as [S1 S2].
      destruct k; cbn [satk]; rewrite ?S1, ?S2; now rewrite andb_true_r. }
  rewrite filter_map_fst, !map_map. apply map_ext_in. intros p Hin.
  apply filter_In in Hin as [Hin Hk]. apply kind_eqb_eq in Hk.
  rewrite Forall_forall in Hg. destruct (Hg (fst p) (in_map fst _ _ Hin)) as [Hw _].
  rewrite (acc_val_build k (fst p) mname ename Hw Hk).
  unfold geom_of. rewrite acc_tracking_identifier_build, (find_own ggs p Hn Hin). cbn [snd].
  do 4 f_equal. apply map_ext_in. intros x Hx. apply gitem_val_spec.
  rewrite Forall_forall in Hs. specialize (Hs p Hin). rewrite forallb_forall in Hs. now apply Hs.
Qed.

(* a memory-order walk of a column-major array stores the columns one after the other; `value` then reports another
   polygon: the row-major order of flatten is necessary *)
Lemma column_major_refuted :
  exists a : coords, rows_ok 2 a = true /\ reshape_rows 2 (flatten_cols 2 a) <> Ok a /\
                     reshape_rows 2 (flatten_rows a) = Ok a.
Proof. exists [[10; 20]; [13; 24]]. repeat split; vm_compute; congruence. Qed.

(* a single row (POINT) is the same in both orders: the regression needs two or more points *)
Lemma map_nth_seq0 (r : list Z) : map (fun j => nth j r 0) (seq 0 (length r)) = r.
Proof.
  induction r as [|x r IH]; [reflexivity|]. cbn [length]. rewrite <- cons_seq, <- seq_shift. cbn [map nth].
  rewrite map_map. cbn [nth]. now rewrite IH.
Qed.
Lemma column_major_single_row d r : length r = d -> flatten_cols d [r] = flatten_rows [r].
Proof.
  intros <-. unfold flatten_cols, flatten_rows, column. cbn [concat map]. rewrite app_nil_r.
  rewrite <- (map_nth_seq0 r) at 2.
  induction (seq 0 (length r)) as [|j l IH]; [reflexivity|]. cbn [map flat_map app]. now rewrite IH.
Qed.

(* non-vacuity: a planar circle, a volumetric stack of two polylines, a volume surface and an image group *)
Definition ex_ggs : list (group * list gitem) :=
  [ (Group Planar 1 1000 None (Some 110) None [] (Region2D 4 0 3) [(140, 7)] [] None None None true,
     [GI 2 0 [[10; 20]; [13; 24]]]);
    (Group Volumetric 2 1001 None None None [] (Regions [(3, (1, 1)); (3, (2, 2))]) [] [] None None None true,
     [GI 2 1 [[1; 101]; [2; 102]; [3; 103]]; GI 2 1 [[11; 102]; [12; 103]]]);
    (Group Volumetric 3 1002 None None None [] (Surface 6 1 (SrcSeries 2)) [] [] None None None false,
     [GI 3 1 [[1; 2; 2]; [5; 2; 2]; [3; 1; 2]; [3; 3; 2]; [3; 2; 1]; [3; 2; 3]]]);
    (Group ImageK 1 1003 None None None [] (SourceImgs [(0, 3)]) [] [] None None None true, []) ].
Lemma geom_nonvacuous :
  Forall good (map fst ex_ggs) /\ NoDup (map (fun p => g_tid (fst p)) ex_ggs) /\
  Forall (fun p => forallb gitem_ok (snd p) = true) ex_ggs /\
  Forall (fun p => map gi_d (snd p) = geom_dims (g_ref (fst p))) ex_ggs /\
  run_accessors_geom [(13, 12)] [] ex_ggs None None <> run_accessors_geom [] [] ex_ggs None None.
Proof.
  repeat split; try (repeat constructor); try (vm_compute; congruence).
  all: cbn; intuition congruence.
Qed.
