(* C13 - property theorems: statements, `exact <lemma>`, Print Assumptions.
   wf   = admissible abstract item (class tag of its value, non-empty frame /
          segment lists, 2 resp. 3 coordinates per point, children carry a
          relationship type);
   valid = accepted by the constructors (meaning <= 64, graphic-data rules). *)
From Coq Require Import String ZArith List Bool QArith.
From HD Require Import Base.Val C13_Model C13_Proofs.
Import ListNotations.
Open Scope string_scope.
Open Scope list_scope.
Open Scope Z_scope.

(* the value accessors of class [value_class v], read on the attributes the
   constructor wrote, return the constructed value; name and relationship too *)
Theorem C13_accessor_identity : forall n r v ks, wfv v ->
  read_value (value_class v) (item_attrs n r v ks) = Ok v /\
  read_rel (item_attrs n r v ks) = Ok r /\
  bind (get "ConceptNameCodeSequence" (item_attrs n r v ks)) code_first = Ok n.
Proof.
  intros. split; [now apply accessor_identity|]. split; [apply read_rel_ok|].
  unfold get. rewrite lookup_name. cbn [bind]. apply code_first_roundtrip.
Qed.
Print Assumptions C13_accessor_identity.

(* serialise then parse (own class, and by dispatch when a relationship type
   is present) gives back the same tree, hence the same class tag *)
Theorem C13_parse_serialise : forall t, wf t ->
  parse (Some (i_cls t)) (to_ds t) = Ok t /\
  (i_rel t <> None -> parse None (to_ds t) = Ok t).
Proof. exact parse_serialise. Qed.
Print Assumptions C13_parse_serialise.

Theorem C13_from_sequence_roundtrip : forall l, kids_wf l -> from_sequence (map to_ds l) = Ok l.
Proof. exact from_sequence_roundtrip. Qed.
Print Assumptions C13_from_sequence_roundtrip.

Theorem C13_constructors_accept : forall t, wf t -> valid t -> construct t = Ok t.
Proof. exact construct_ok. Qed.
Print Assumptions C13_constructors_accept.

(* class dispatch: table maps every value type to the class that asserts it *)
Theorem C13_dispatch_table : forall v c, get_class v = Ok c <-> class_vt c = v.
Proof.
  intros v c. split; [apply get_class_inv|]. intros <-. apply get_class_class_vt.
Qed.
Print Assumptions C13_dispatch_table.

(* whatever parsing accepts has the asserted value type, every required
   attribute, (dispatch) a relationship type, and the requested class *)
Theorem C13_parse_accepts_only : forall oc a t, parse oc (DSet a) = Ok t ->
  lookup "ValueType" a = Some (DStr (vt_str (class_vt (i_cls t)))) /\
  (forall k, In k (required (i_cls t)) -> lookup k a <> None) /\
  (oc = None -> lookup "RelationshipType" a <> None) /\
  (forall c, oc = Some c -> i_cls t = c).
Proof. exact parse_class. Qed.
Print Assumptions C13_parse_accepts_only.

Theorem C13_missing_attr_rejected : forall c a k,
  lookup "ValueType" a = Some (DStr (vt_str (class_vt c))) ->
  In k (required c) -> lookup k a = None ->
  parse (Some c) (DSet a) = Err "AttributeError".
Proof. exact missing_attr_rejected. Qed.
Print Assumptions C13_missing_attr_rejected.

Theorem C13_missing_value_type_rejected : forall oc a,
  lookup "ValueType" a = None -> parse oc (DSet a) = Err "AttributeError".
Proof. exact missing_value_type. Qed.
Print Assumptions C13_missing_value_type_rejected.

Theorem C13_missing_name_rejected : forall c a,
  lookup "ValueType" a = Some (DStr (vt_str (class_vt c))) ->
  lookup "ConceptNameCodeSequence" a = None ->
  mem (ctag_str c) optional_name_classes = false ->
  (forall k, In k (required c) -> lookup k a <> None) ->
  parse (Some c) (DSet a) = Err "AttributeError".
Proof. exact missing_name_rejected. Qed.
Print Assumptions C13_missing_name_rejected.

Theorem C13_wrong_vt_rejected : forall c a s,
  lookup "ValueType" a = Some (DStr s) -> s <> vt_str (class_vt c) ->
  parse (Some c) (DSet a) = Err "ValueError".
Proof. exact wrong_vt_rejected. Qed.
Print Assumptions C13_wrong_vt_rejected.

Theorem C13_unknown_vt_rejected : forall a s,
  lookup "ValueType" a = Some (DStr s) -> vt_of_str s = None ->
  parse None (DSet a) = Err "ValueError".
Proof. exact unknown_vt_rejected. Qed.
Print Assumptions C13_unknown_vt_rejected.

Theorem C13_missing_relationship_rejected : forall a s v,
  lookup "ValueType" a = Some (DStr s) -> vt_of_str s = Some v ->
  lookup "RelationshipType" a = None ->
  parse None (DSet a) = Err "AttributeError".
Proof. exact missing_rel_rejected. Qed.
Print Assumptions C13_missing_relationship_rejected.

(* graphic data: accepted exactly at the standard's point counts *)
Theorem C13_counts_table_scoord : forall g pts,
  (scoord_check g pts = Ok tt <-> (in_range (len pts) (std2 g) /\ rows_dim 2 pts = true)) /\
  (scoord_check g pts = Err "ValueError" <-> ~ (in_range (len pts) (std2 g) /\ rows_dim 2 pts = true)).
Proof. intros. split; [apply scoord_accepts|apply scoord_rejects]. Qed.
Print Assumptions C13_counts_table_scoord.

Theorem C13_polygon3d_rules : forall g pts,
  (scoord3d_check g pts = Ok tt <->
   (in_range (len pts) (std3 g) /\ rows_dim 3 pts = true /\
    (needs_closed g = true -> closed pts = true) /\
    (needs_coplanar g = true -> coplanar pts = true))) /\
  (scoord3d_check g pts = Ok tt \/ scoord3d_check g pts = Err "ValueError").
Proof. intros. split; [apply scoord3d_accepts|apply scoord3d_total]. Qed.
Print Assumptions C13_polygon3d_rules.

(* the exact coplanarity test accepts every point set lying in a plane
   n . p = d with n <> 0, and every set of at most three points *)
Theorem C13_coplanar_complete : forall (n : v3) (d : Q) (ps : list v3),
  (~ fst (fst n) == 0 \/ ~ snd (fst n) == 0 \/ ~ snd n == 0)%Q ->
  (forall p, In p ps -> (dot n p == d)%Q) -> coplanar_v ps = true.
Proof. exact plane_points_coplanar. Qed.
Print Assumptions C13_coplanar_complete.

Theorem C13_coplanar_small : forall ps, (List.length ps <= 3)%nat -> coplanar_v ps = true.
Proof. exact coplanar_small. Qed.
Print Assumptions C13_coplanar_small.

(* coded concepts *)
Theorem C13_code_roundtrip : forall c, code_from (code_ds c) = Ok c.
Proof. exact code_roundtrip. Qed.
Print Assumptions C13_code_roundtrip.

(* a concept passed as a pydicom Code keeps all four fields, scheme version
   included, through from_code, serialisation and parsing *)
Theorem C13_from_code_keeps_version : forall c,
  from_code c = c /\ c_version (from_code c) = c_version c /\
  code_from (code_ds (from_code c)) = Ok c.
Proof. intros c. rewrite from_code_id. repeat split. apply code_roundtrip. Qed.
Print Assumptions C13_from_code_keeps_version.

Theorem C13_code_value_split : forall v,
  (code_kw v = "URNCodeValue" <-> (prefix "urn" v = true \/ contains "://" v = true)) /\
  (code_kw v = "LongCodeValue" <-> (prefix "urn" v = false /\ contains "://" v = false /\ 16 < slen v)) /\
  (code_kw v = "CodeValue" <-> (prefix "urn" v = false /\ contains "://" v = false /\ slen v <= 16)).
Proof. exact code_kw_spec. Qed.
Print Assumptions C13_code_value_split.

Theorem C13_code_incomplete_rejected : forall a,
  (b2z (has "CodeValue" a) + b2z (has "LongCodeValue" a) + b2z (has "URNCodeValue" a) <> 1
   \/ has "CodeMeaning" a = false \/ has "CodingSchemeDesignator" a = false) ->
  code_from (DSet a) = Err "AttributeError".
Proof. exact code_from_missing. Qed.
Print Assumptions C13_code_incomplete_rejected.

Theorem C13_flatten_reshape : forall k pts, (0 < k)%nat -> rows_nat k pts ->
  reshape k (concat pts) = Ok pts.
Proof. exact reshape_concat. Qed.
Print Assumptions C13_flatten_reshape.

Theorem C13_waveform_channels : forall l, pair_up (flat_pairs l) = l.
Proof. exact pair_up_flat. Qed.
Print Assumptions C13_waveform_channels.

(* anything the constructors accept is valid, has children with relationship
   types, and is returned with the class tag of its value *)
Theorem C13_constructors_sound : forall t t', construct t = Ok t' ->
  t' = retag t /\ valid t /\ rel_ok t.
Proof. exact construct_sound. Qed.
Print Assumptions C13_constructors_sound.

Theorem C13_valid_scoord : forall g pts poi fid, value_check (VScoord g pts poi fid) = Ok tt ->
  in_range (len pts) (std2 g) /\ rows_dim 2 pts = true.
Proof. exact valid_scoord. Qed.
Print Assumptions C13_valid_scoord.

Theorem C13_valid_scoord3d : forall g pts fu fid, value_check (VScoord3d g pts fu fid) = Ok tt ->
  in_range (len pts) (std3 g) /\ rows_dim 3 pts = true /\
  (needs_closed g = true -> closed pts = true) /\ (needs_coplanar g = true -> coplanar pts = true).
Proof. exact valid_scoord3d. Qed.
Print Assumptions C13_valid_scoord3d.

(* the exact coplanarity test accepts exactly the point sets of a plane *)
Theorem C13_coplanar_iff_plane : forall ps,
  coplanar_v ps = true <-> exists n d, nonzero n /\ forall p, In p ps -> (dot n p == d)%Q.
Proof. exact coplanar_iff_plane. Qed.
Print Assumptions C13_coplanar_iff_plane.

(* ---- the parse-time checks alone (X.from_dataset / from_sequence before any
   accessor is read): acceptance of everything the constructors write, and the
   rejection clauses of the property at the moment of parsing ---- *)
Theorem C13_from_dataset_accepts_serialised : forall t, wf t ->
  accept (Some (i_cls t)) (to_ds t) = Ok tt /\
  (i_rel t <> None -> accept None (to_ds t) = Ok tt).
Proof. exact accept_serialise. Qed.
Print Assumptions C13_from_dataset_accepts_serialised.

Theorem C13_from_dataset_missing_attr_rejected : forall c a k,
  lookup "ValueType" a = Some (DStr (vt_str (class_vt c))) ->
  In k (required c) -> lookup k a = None ->
  accept (Some c) (DSet a) = Err "AttributeError".
Proof. exact accept_missing_attr. Qed.
Print Assumptions C13_from_dataset_missing_attr_rejected.

Theorem C13_from_sequence_missing_attr_rejected : forall a s v c k,
  lookup "ValueType" a = Some (DStr s) -> vt_of_str s = Some v ->
  lookup "RelationshipType" a <> None -> get_class v = Ok c ->
  In k (required c) -> lookup k a = None ->
  accept None (DSet a) = Err "AttributeError".
Proof. exact accept_dispatch_missing_attr. Qed.
Print Assumptions C13_from_sequence_missing_attr_rejected.

Theorem C13_from_dataset_wrong_vt_rejected : forall c a s,
  lookup "ValueType" a = Some (DStr s) -> s <> vt_str (class_vt c) ->
  accept (Some c) (DSet a) = Err "ValueError".
Proof. exact accept_wrong_vt. Qed.
Print Assumptions C13_from_dataset_wrong_vt_rejected.

Theorem C13_from_dataset_other_rejections : forall a,
  (forall oc, lookup "ValueType" a = None -> accept oc (DSet a) = Err "AttributeError") /\
  (forall s, lookup "ValueType" a = Some (DStr s) -> vt_of_str s = None ->
             accept None (DSet a) = Err "ValueError") /\
  (forall s v, lookup "ValueType" a = Some (DStr s) -> vt_of_str s = Some v ->
               lookup "RelationshipType" a = None -> accept None (DSet a) = Err "AttributeError") /\
  (forall c, lookup "ValueType" a = Some (DStr (vt_str (class_vt c))) ->
             lookup "ConceptNameCodeSequence" a = None ->
             mem (ctag_str c) optional_name_classes = false ->
             (forall k, In k (required c) -> lookup k a <> None) ->
             accept (Some c) (DSet a) = Err "AttributeError").
Proof.
  intros a. repeat split.
  - intros oc H. now apply accept_missing_value_type.
  - intros s H1 H2. eapply accept_unknown_vt; eauto.
  - intros s v H1 H2 H3. eapply accept_missing_rel; eauto.
  - intros c H1 H2 H3 H4. now apply accept_missing_name.
Qed.
Print Assumptions C13_from_dataset_other_rejections.

Theorem C13_from_dataset_accepts_only : forall c a, accept (Some c) (DSet a) = Ok tt ->
  lookup "ValueType" a = Some (DStr (vt_str (class_vt c))) /\
  (forall k, In k (required c) -> lookup k a <> None) /\
  (lookup "ConceptNameCodeSequence" a <> None \/ mem (ctag_str c) optional_name_classes = true).
Proof. exact accept_only. Qed.
Print Assumptions C13_from_dataset_accepts_only.

(* ---- non-vacuity: a concrete depth-3 tree is wf and valid, and round-trips ---- *)
Definition ex_code := Code "121071" "DCM" "Finding" None.
Definition ex_tree : item :=
  Item ContainerContentItem (Code "urn:oid:1.2.3" "99X" "Report" (Some "1.0")) None
    (VContainer "CONTINUOUS" (Some "1500"))
    [Item NumContentItem ex_code (Some CONTAINS)
       (VNum (5 # 2) true (Code "mm" "UCUM" "millimeter" None) None)
       [Item Scoord3DContentItem ex_code (Some INFERRED_FROM)
          (VScoord3d G3Polygon [[0;0;0]%Q; [1;0;0]%Q; [1;1;0]%Q; [0;1;0]%Q; [0;0;0]%Q] "1.2.3" None) [];
        Item ImageContentItem ex_code (Some SELECTED_FROM)
          (VImage "1.2.840.10008.5.1.4.1.1.2" "1.2.3.4" (Some [1; 5]) None) []];
     Item TcoordContentItem (Code "ABCDEFGHIJKLMNOPQ" "99X" "seventeen chars" None) (Some HAS_PROPERTIES)
       (VTcoord TSegment (TOffsets [(1 # 2)%Q; (5 # 4)%Q])) []].

Example C13_nonvacuous :
  construct ex_tree = Ok ex_tree /\
  parse (Some ContainerContentItem) (to_ds ex_tree) = Ok ex_tree /\
  from_sequence (map to_ds (i_kids ex_tree)) = Ok (i_kids ex_tree) /\
  scoord3d_check G3Polygon [[0;0;0]%Q; [1;0;0]%Q; [1;1;0]%Q; [0;1;0]%Q; [0;0;0]%Q] = Ok tt /\
  scoord3d_check G3Polygon [[0;0;0]%Q; [1;0;0]%Q; [1;1;0]%Q; [0;1;0]%Q] = Err "ValueError" /\
  scoord3d_check G3Polygon [[0;0;0]%Q; [1;0;0]%Q; [1;1;(1#2)]%Q; [0;1;0]%Q; [0;0;0]%Q] = Err "ValueError" /\
  code_kw "ABCDEFGHIJKLMNOPQ" = "LongCodeValue" /\ code_kw "urn:oid:1.2.3" = "URNCodeValue".
Proof. vm_compute. repeat split; reflexivity. Qed.
Print Assumptions C13_nonvacuous.

Example C13_ex_tree_wf : wf ex_tree /\ valid ex_tree.
Proof.
  split.
  - cbn. repeat split; try congruence; repeat constructor.
  - vm_compute. repeat split; reflexivity.
Qed.
Print Assumptions C13_ex_tree_wf.

(* the tables matter: without the WAVEFORM row (defect D27, fixed) dispatch fails *)
Example C13_table_row_needed :
  get_class_in (removelast class_table) WAVEFORM = Err "KeyError" /\
  assert_value_type_in (removelast required_table) WAVEFORM
    [("ValueType", DStr "WAVEFORM")] = Err "KeyError".
Proof. vm_compute. split; reflexivity. Qed.
Print Assumptions C13_table_row_needed.
