(* C13 - property theorems: statements, `exact <lemma>`, Print Assumptions.
   wf   = admissible abstract item (class tag of its value, non-empty frame /
          segment lists, 2 resp. 3 coordinates per point, children carry a
          relationship type);
   valid = accepted by the constructors (meaning <= 64, graphic-data rules). *)
From Coq Require Import String ZArith List Bool QArith.
From HD Require Import Base.Val C13_Model C13_Proofs C13_Proofs_Seq C13_Proofs_Num C13_Proofs_Hist C13_Proofs_Gap.
Import ListNotations.
Open Scope string_scope.
Open Scope list_scope.
Open Scope Z_scope.

(* the value accessors of class [value_class v], read on the attributes the
   constructor wrote, return the constructed value; name and relationship too *)
Theorem C13_accessor_identity : forall n r v ks, wfv v ->
  read_value (value_class v) (item_attrs n r v ks) = Ok v /\
  read_rel (item_attrs n r v ks) = Ok r /\
  bind (get "ConceptNameCodeSequence" (item_attrs n r v ks)) code_first = Ok n.
Proof.
  intros. split; [now apply accessor_identity|]. split; [apply read_rel_ok|].
  unfold get. rewrite lookup_name. cbn [bind]. apply code_first_roundtrip.
Qed.
Print Assumptions C13_accessor_identity.

(* serialise then parse (own class, and by dispatch when a relationship type
   is present) gives back the same tree, hence the same class tag *)
Theorem C13_parse_serialise : forall t, wf t ->
  parse (Some (i_cls t)) (to_ds t) = Ok t /\
  (i_rel t <> None -> parse None (to_ds t) = Ok t).
Proof. exact parse_serialise. Qed.
Print Assumptions C13_parse_serialise.

Theorem C13_from_sequence_roundtrip : forall l, kids_wf l -> from_sequence (map to_ds l) = Ok l.
Proof. exact from_sequence_roundtrip. Qed.
Print Assumptions C13_from_sequence_roundtrip.

Theorem C13_constructors_accept : forall t, wf t -> valid t -> construct t = Ok t.
Proof. exact construct_ok. Qed.
Print Assumptions C13_constructors_accept.

(* class dispatch: table maps every value type to the class that asserts it *)
Theorem C13_dispatch_table : forall v c, get_class v = Ok c <-> class_vt c = v.
Proof.
  intros v c. split; [apply get_class_inv|]. intros <-. apply get_class_class_vt.
Qed.
Print Assumptions C13_dispatch_table.

(* whatever parsing accepts has the asserted value type, every required
   attribute, (dispatch) a relationship type, and the requested class *)
Theorem C13_parse_accepts_only : forall oc a t, parse oc (DSet a) = Ok t ->
  lookup "ValueType" a = Some (DStr (vt_str (class_vt (i_cls t)))) /\
  (forall k, In k (required (i_cls t)) -> lookup k a <> None) /\
  (oc = None -> lookup "RelationshipType" a <> None) /\
  (forall c, oc = Some c -> i_cls t = c).
Proof. exact parse_class. Qed.
Print Assumptions C13_parse_accepts_only.

Theorem C13_missing_attr_rejected : forall c a k,
  lookup "ValueType" a = Some (DStr (vt_str (class_vt c))) ->
  In k (required c) -> lookup k a = None ->
  parse (Some c) (DSet a) = Err "AttributeError".
Proof. exact missing_attr_rejected. Qed.
Print Assumptions C13_missing_attr_rejected.

Theorem C13_missing_value_type_rejected : forall oc a,
  lookup "ValueType" a = None -> parse oc (DSet a) = Err "AttributeError".
Proof. exact missing_value_type. Qed.
Print Assumptions C13_missing_value_type_rejected.

Theorem C13_missing_name_rejected : forall c a,
  lookup "ValueType" a = Some (DStr (vt_str (class_vt c))) ->
  lookup "ConceptNameCodeSequence" a = None ->
  mem (ctag_str c) optional_name_classes = false ->
  (forall k, In k (required c) -> lookup k a <> None) ->
  parse (Some c) (DSet a) = Err "AttributeError".
Proof. exact missing_name_rejected. Qed.
Print Assumptions C13_missing_name_rejected.

Theorem C13_wrong_vt_rejected : forall c a s,
  lookup "ValueType" a = Some (DStr s) -> s <> vt_str (class_vt c) ->
  parse (Some c) (DSet a) = Err "ValueError".
Proof. exact wrong_vt_rejected. Qed.
Print Assumptions C13_wrong_vt_rejected.

Theorem C13_unknown_vt_rejected : forall a s,
  lookup "ValueType" a = Some (DStr s) -> vt_of_str s = None ->
  parse None (DSet a) = Err "ValueError".
Proof. exact unknown_vt_rejected. Qed.
Print Assumptions C13_unknown_vt_rejected.

Theorem C13_missing_relationship_rejected : forall a s v,
  lookup "ValueType" a = Some (DStr s) -> vt_of_str s = Some v ->
  lookup "RelationshipType" a = None ->
  parse None (DSet a) = Err "AttributeError".
Proof. exact missing_rel_rejected. Qed.
Print Assumptions C13_missing_relationship_rejected.

(* graphic data: accepted exactly at the standard's point counts *)
Theorem C13_counts_table_scoord : forall g pts,
  (scoord_check g pts = Ok tt <-> (in_range (len pts) (std2 g) /\ rows_dim 2 pts = true)) /\
  (scoord_check g pts = Err "ValueError" <-> ~ (in_range (len pts) (std2 g) /\ rows_dim 2 pts = true)).
Proof. intros. split; [apply scoord_accepts|apply scoord_rejects]. Qed.
Print Assumptions C13_counts_table_scoord.

Theorem C13_polygon3d_rules : forall g pts,
  (scoord3d_check g pts = Ok tt <->
   (in_range (len pts) (std3 g) /\ rows_dim 3 pts = true /\
    (needs_closed g = true -> closed pts = true) /\
    (needs_coplanar g = true -> coplanar pts = true))) /\
  (scoord3d_check g pts = Ok tt \/ scoord3d_check g pts = Err "ValueError").
Proof. intros. split; [apply scoord3d_accepts|apply scoord3d_total]. Qed.
Print Assumptions C13_polygon3d_rules.

(* the exact coplanarity test accepts every point set lying in a plane
   n . p = d with n <> 0, and every set of at most three points *)
Theorem C13_coplanar_complete : forall (n : v3) (d : Q) (ps : list v3),
  (~ fst (fst n) == 0 \/ ~ snd (fst n) == 0 \/ ~ snd n == 0)%Q ->
  (forall p, In p ps -> (dot n p == d)%Q) -> coplanar_v ps = true.
Proof. exact plane_points_coplanar. Qed.
Print Assumptions C13_coplanar_complete.

Theorem C13_coplanar_small : forall ps, (List.length ps <= 3)%nat -> coplanar_v ps = true.
Proof. exact coplanar_small. Qed.
Print Assumptions C13_coplanar_small.

(* coded concepts *)
Theorem C13_code_roundtrip : forall c, code_from (code_ds c) = Ok c.
Proof. exact code_roundtrip. Qed.
Print Assumptions C13_code_roundtrip.

(* a concept passed as a pydicom Code keeps all four fields, scheme version
   included, through from_code, serialisation and parsing *)
Theorem C13_from_code_keeps_version : forall c,
  from_code c = c /\ c_version (from_code c) = c_version c /\
  code_from (code_ds (from_code c)) = Ok c.
Proof. intros c. rewrite from_code_id. repeat split. apply code_roundtrip. Qed.
Print Assumptions C13_from_code_keeps_version.

Theorem C13_code_value_split : forall v,
  (code_kw v = "URNCodeValue" <-> (prefix "urn" v = true \/ contains "://" v = true)) /\
  (code_kw v = "LongCodeValue" <-> (prefix "urn" v = false /\ contains "://" v = false /\ 16 < slen v)) /\
  (code_kw v = "CodeValue" <-> (prefix "urn" v = false /\ contains "://" v = false /\ slen v <= 16)).
Proof. exact code_kw_spec. Qed.
Print Assumptions C13_code_value_split.

Theorem C13_code_incomplete_rejected : forall a,
  (b2z (has "CodeValue" a) + b2z (has "LongCodeValue" a) + b2z (has "URNCodeValue" a) <> 1
   \/ has "CodeMeaning" a = false \/ has "CodingSchemeDesignator" a = false) ->
  code_from (DSet a) = Err "AttributeError".
Proof. exact code_from_missing. Qed.
Print Assumptions C13_code_incomplete_rejected.

(* CodedConcept.from_dataset ALONE (before any accessor is read) accepts
   EXACTLY: one of the three code value attributes, Code Meaning and Coding
   Scheme Designator - the same two whichever attribute carries the code
   value; everything else is an AttributeError *)
Theorem C13_code_from_dataset_accepts_iff : forall a,
  (code_accept (DSet a) = Ok tt <->
   (n_carriers a = 1 /\ has "CodeMeaning" a = true /\ has "CodingSchemeDesignator" a = true)) /\
  (code_accept (DSet a) = Err "AttributeError" <->
   ~ (n_carriers a = 1 /\ has "CodeMeaning" a = true /\ has "CodingSchemeDesignator" a = true)).
Proof. exact code_accept_spec. Qed.
Print Assumptions C13_code_from_dataset_accepts_iff.

(* no hypothesis on the carrier: CodeValue, LongCodeValue or URNCodeValue *)
Theorem C13_code_designator_required_any_carrier : forall a,
  (has "CodingSchemeDesignator" a = false \/ has "CodeMeaning" a = false) ->
  code_accept (DSet a) = Err "AttributeError" /\ code_from (DSet a) = Err "AttributeError".
Proof.
  intros a H.
  assert (Ha : code_accept (DSet a) = Err EAttr)
    by (destruct H; [apply code_accept_needs_designator|apply code_accept_needs_meaning]; assumption).
  split; [exact Ha|]. apply code_accept_err_wins. exact Ha.
Qed.
Print Assumptions C13_code_designator_required_any_carrier.

(* the accessors succeed only on what from_dataset accepted; a refusal by
   from_dataset is the error of from_dataset + accessors; what the constructor
   writes is accepted *)
Theorem C13_code_accessors_after_from_dataset : forall d,
  (forall c, code_from d = Ok c -> code_accept d = Ok tt) /\
  (forall e, code_accept d = Err e -> code_from d = Err e) /\
  (forall c, d = code_ds c -> code_accept d = Ok tt).
Proof.
  intros d. split; [apply code_from_accept|]. split; [apply code_accept_err_wins|].
  intros c ->. apply code_ds_accepted.
Qed.
Print Assumptions C13_code_accessors_after_from_dataset.

Example C13_code_designator_each_carrier :
  forallb (fun k =>
    match code_accept (DSet [(k, DStr "CUSTOM-FINDING-0001-LEFT"); ("CodeMeaning", DStr "m")]),
          code_accept (DSet [(k, DStr "CUSTOM-FINDING-0001-LEFT"); ("CodeMeaning", DStr "m");
                             ("CodingSchemeDesignator", DStr "99X")]),
          code_accept (DSet [(k, DStr "CUSTOM-FINDING-0001-LEFT"); ("CodingSchemeDesignator", DStr "99X")])
    with
    | Err e1, Ok _, Err e2 => String.eqb e1 "AttributeError" && String.eqb e2 "AttributeError"
    | _, _, _ => false
    end) carriers = true.
Proof. vm_compute. reflexivity. Qed.
Print Assumptions C13_code_designator_each_carrier.

Theorem C13_flatten_reshape : forall k pts, (0 < k)%nat -> rows_nat k pts ->
  reshape k (concat pts) = Ok pts.
Proof. exact reshape_concat. Qed.
Print Assumptions C13_flatten_reshape.

Theorem C13_waveform_channels : forall l, pair_up (flat_pairs l) = l.
Proof. exact pair_up_flat. Qed.
Print Assumptions C13_waveform_channels.

(* anything the constructors accept is valid, has children with relationship
   types, and is returned with the class tag of its value *)
Theorem C13_constructors_sound : forall t t', construct t = Ok t' ->
  t' = retag t /\ valid t /\ rel_ok t.
Proof. exact construct_sound. Qed.
Print Assumptions C13_constructors_sound.

Theorem C13_valid_scoord : forall g pts poi fid, value_check (VScoord g pts poi fid) = Ok tt ->
  in_range (len pts) (std2 g) /\ rows_dim 2 pts = true.
Proof. exact valid_scoord. Qed.
Print Assumptions C13_valid_scoord.

Theorem C13_valid_scoord3d : forall g pts fu fid, value_check (VScoord3d g pts fu fid) = Ok tt ->
  in_range (len pts) (std3 g) /\ rows_dim 3 pts = true /\
  (needs_closed g = true -> closed pts = true) /\ (needs_coplanar g = true -> coplanar pts = true).
Proof. exact valid_scoord3d. Qed.
Print Assumptions C13_valid_scoord3d.

(* the exact coplanarity test accepts exactly the point sets of a plane *)
Theorem C13_coplanar_iff_plane : forall ps,
  coplanar_v ps = true <-> exists n d, nonzero n /\ forall p, In p ps -> (dot n p == d)%Q.
Proof. exact coplanar_iff_plane. Qed.
Print Assumptions C13_coplanar_iff_plane.

(* ---- the parse-time checks alone (X.from_dataset / from_sequence before any
   accessor is read): acceptance of everything the constructors write, and the
   rejection clauses of the property at the moment of parsing ---- *)
Theorem C13_from_dataset_accepts_serialised : forall t, wf t ->
  accept (Some (i_cls t)) (to_ds t) = Ok tt /\
  (i_rel t <> None -> accept None (to_ds t) = Ok tt).
Proof. exact accept_serialise. Qed.
Print Assumptions C13_from_dataset_accepts_serialised.

Theorem C13_from_dataset_missing_attr_rejected : forall c a k,
  lookup "ValueType" a = Some (DStr (vt_str (class_vt c))) ->
  In k (required c) -> lookup k a = None ->
  accept (Some c) (DSet a) = Err "AttributeError".
Proof. exact accept_missing_attr. Qed.
Print Assumptions C13_from_dataset_missing_attr_rejected.

Theorem C13_from_sequence_missing_attr_rejected : forall a s v c k,
  lookup "ValueType" a = Some (DStr s) -> vt_of_str s = Some v ->
  lookup "RelationshipType" a <> None -> get_class v = Ok c ->
  In k (required c) -> lookup k a = None ->
  accept None (DSet a) = Err "AttributeError".
Proof. exact accept_dispatch_missing_attr. Qed.
Print Assumptions C13_from_sequence_missing_attr_rejected.

Theorem C13_from_dataset_wrong_vt_rejected : forall c a s,
  lookup "ValueType" a = Some (DStr s) -> s <> vt_str (class_vt c) ->
  accept (Some c) (DSet a) = Err "ValueError".
Proof. exact accept_wrong_vt. Qed.
Print Assumptions C13_from_dataset_wrong_vt_rejected.

Theorem C13_from_dataset_other_rejections : forall a,
  (forall oc, lookup "ValueType" a = None -> accept oc (DSet a) = Err "AttributeError") /\
  (forall s, lookup "ValueType" a = Some (DStr s) -> vt_of_str s = None ->
             accept None (DSet a) = Err "ValueError") /\
  (forall s v, lookup "ValueType" a = Some (DStr s) -> vt_of_str s = Some v ->
               lookup "RelationshipType" a = None -> accept None (DSet a) = Err "AttributeError") /\
  (forall c, lookup "ValueType" a = Some (DStr (vt_str (class_vt c))) ->
             lookup "ConceptNameCodeSequence" a = None ->
             mem (ctag_str c) optional_name_classes = false ->
             (forall k, In k (required c) -> lookup k a <> None) ->
             accept (Some c) (DSet a) = Err "AttributeError").
Proof.
  intros a. repeat split.
  - intros oc H. now apply accept_missing_value_type.
  - intros s H1 H2. eapply accept_unknown_vt; eauto.
  - intros s v H1 H2 H3. eapply accept_missing_rel; eauto.
  - intros c H1 H2 H3 H4. now apply accept_missing_name.
Qed.
Print Assumptions C13_from_dataset_other_rejections.

Theorem C13_from_dataset_accepts_only : forall c a, accept (Some c) (DSet a) = Ok tt ->
  lookup "ValueType" a = Some (DStr (vt_str (class_vt c))) /\
  (forall k, In k (required c) -> lookup k a <> None) /\
  (lookup "ConceptNameCodeSequence" a <> None \/ mem (ctag_str c) optional_name_classes = true).
Proof. exact accept_only. Qed.
Print Assumptions C13_from_dataset_accepts_only.

(* ---- non-vacuity: a concrete depth-3 tree is wf and valid, and round-trips ---- *)
Definition ex_code := Code "121071" "DCM" "Finding" None.
Definition ex_tree : item :=
  Item ContainerContentItem (Code "urn:oid:1.2.3" "99X" "Report" (Some "1.0")) None
    (VContainer "CONTINUOUS" (Some "1500"))
    [Item NumContentItem ex_code (Some CONTAINS)
       (VNum (5 # 2) true (Code "mm" "UCUM" "millimeter" None) None)
       [Item Scoord3DContentItem ex_code (Some INFERRED_FROM)
          (VScoord3d G3Polygon [[0;0;0]%Q; [1;0;0]%Q; [1;1;0]%Q; [0;1;0]%Q; [0;0;0]%Q] "1.2.3" None) [];
        Item ImageContentItem ex_code (Some SELECTED_FROM)
          (VImage "1.2.840.10008.5.1.4.1.1.2" "1.2.3.4" (Some [1; 5]) None) []];
     Item TcoordContentItem (Code "ABCDEFGHIJKLMNOPQ" "99X" "seventeen chars" None) (Some HAS_PROPERTIES)
       (VTcoord TSegment (TOffsets [(1 # 2)%Q; (5 # 4)%Q])) []].

Example C13_nonvacuous :
  construct ex_tree = Ok ex_tree /\
  parse (Some ContainerContentItem) (to_ds ex_tree) = Ok ex_tree /\
  from_sequence (map to_ds (i_kids ex_tree)) = Ok (i_kids ex_tree) /\
  scoord3d_check G3Polygon [[0;0;0]%Q; [1;0;0]%Q; [1;1;0]%Q; [0;1;0]%Q; [0;0;0]%Q] = Ok tt /\
  scoord3d_check G3Polygon [[0;0;0]%Q; [1;0;0]%Q; [1;1;0]%Q; [0;1;0]%Q] = Err "ValueError" /\
  scoord3d_check G3Polygon [[0;0;0]%Q; [1;0;0]%Q; [1;1;(1#2)]%Q; [0;1;0]%Q; [0;0;0]%Q] = Err "ValueError" /\
  code_kw "ABCDEFGHIJKLMNOPQ" = "LongCodeValue" /\ code_kw "urn:oid:1.2.3" = "URNCodeValue".
Proof. vm_compute. repeat split; reflexivity. Qed.
Print Assumptions C13_nonvacuous.

Example C13_ex_tree_wf : wf ex_tree /\ valid ex_tree.
Proof.
  split.
  - cbn. repeat split; try congruence; repeat constructor.
  - vm_compute. repeat split; reflexivity.
Qed.
Print Assumptions C13_ex_tree_wf.

(* the tables matter: without the WAVEFORM row (defect D27, fixed) dispatch fails *)
Example C13_table_row_needed :
  get_class_in (removelast class_table) WAVEFORM = Err "KeyError" /\
  assert_value_type_in (removelast required_table) WAVEFORM
    [("ValueType", DStr "WAVEFORM")] = Err "KeyError".
Proof. vm_compute. split; reflexivity. Qed.
Print Assumptions C13_table_row_needed.

(* ================================================================== *)
(* two-phase parsing: X.from_dataset / from_sequence check the whole tree
   first, the accessors are read afterwards.  parse2 has the error precedence
   of the code for any number of faults; it succeeds exactly when parse does,
   with the same item, and fails exactly when parse fails *)
Theorem C13_parse_two_phase : forall c d t, parse c d = Ok t <-> parse2 c d = Ok t.
Proof. exact parse_two_phase. Qed.
Print Assumptions C13_parse_two_phase.

Theorem C13_parse_two_phase_err : forall c d,
  (exists e, parse c d = Err e) <-> (exists e, parse2 c d = Err e).
Proof. exact parse_two_phase_err. Qed.
Print Assumptions C13_parse_two_phase_err.

Theorem C13_parse2_error_is_from_dataset_error : forall c d e,
  accept c d = Err e -> parse2 c d = Err e.
Proof. exact parse2_accept_err. Qed.
Print Assumptions C13_parse2_error_is_from_dataset_error.

Theorem C13_from_sequence_two_phase : forall items ks,
  from_sequence items = Ok ks <-> from_sequence2 items = Ok ks.
Proof. exact from_sequence_two_phase. Qed.
Print Assumptions C13_from_sequence_two_phase.

(* X.from_dataset accepts EXACTLY: asserted value type, every required
   attribute, complete concept name (or none where optional), acceptable
   children with valid relationship types, complete coded concepts in the value *)
Theorem C13_from_dataset_accepts_iff : forall c a,
  accept (Some c) (DSet a) = Ok tt <->
  (lookup "ValueType" a = Some (DStr (vt_str (class_vt c))) /\
   (forall k, In k (required c) -> lookup k a <> None) /\
   match lookup "ConceptNameCodeSequence" a with
   | Some s => exists n, code_first s = Ok n
   | None => mem (ctag_str c) optional_name_classes = true
   end /\
   match lookup "ContentSequence" a with
   | None => True
   | Some (DSeq items) => Forall (fun d => accept None d = Ok tt) items /\
                          Forall (fun d => rel_present d = Ok tt) items
   | Some _ => False
   end /\
   value_codes c a = Ok tt).
Proof. exact from_dataset_accepts_iff. Qed.
Print Assumptions C13_from_dataset_accepts_iff.

(* "complete coded concept" spelled out (complete_concept s: s is a sequence
   whose first item has exactly one code value attribute, Code Meaning and
   Coding Scheme Designator): in an item X.from_dataset accepted, the name, the
   CODE value, the NUM unit and the NUM qualifier are all complete - whichever
   of CodeValue / LongCodeValue / URNCodeValue carries the code *)
Theorem C13_item_concepts_complete : forall c a, accept (Some c) (DSet a) = Ok tt ->
  (forall s, lookup "ConceptNameCodeSequence" a = Some s ->
   exists a' rest, s = DSeq (DSet a' :: rest) /\
     n_carriers a' = 1 /\ has "CodeMeaning" a' = true /\ has "CodingSchemeDesignator" a' = true) /\
  (c = CodeContentItem ->
   exists s, lookup "ConceptCodeSequence" a = Some s /\ complete_concept s) /\
  (c = NumContentItem ->
   exists ms it u, lookup "MeasuredValueSequence" a = Some ms /\ first_item ms = Ok it /\
     lookup "MeasurementUnitsCodeSequence" it = Some u /\ complete_concept u /\
     (forall q, lookup "NumericValueQualifierCodeSequence" a = Some q -> complete_concept q)).
Proof. exact item_concepts_complete. Qed.
Print Assumptions C13_item_concepts_complete.

Theorem C13_item_incomplete_name_rejected : forall c a s,
  lookup "ConceptNameCodeSequence" a = Some s -> ~ complete_concept s ->
  accept (Some c) (DSet a) <> Ok tt.
Proof. exact item_incomplete_name_rejected. Qed.
Print Assumptions C13_item_incomplete_name_rejected.

(* a TEXT item named by a Long Code Value: refused without the designator of the
   name (AttributeError, by its own class and by from_sequence), accepted with it;
   the same for the value of a CODE item and the unit of a NUM item *)
Definition ex_long (with_scheme : bool) : dval :=
  DSeq [DSet ([("LongCodeValue", DStr "CUSTOM-FINDING-0001-LEFT"); ("CodeMeaning", DStr "m")]
              ++ if with_scheme then [("CodingSchemeDesignator", DStr "99X")] else [])].
Definition ex_item (vt : string) (name : dval) (rest : attrs) : dval :=
  DSet ([("ValueType", DStr vt); ("ConceptNameCodeSequence", name);
         ("RelationshipType", DStr "CONTAINS")] ++ rest).
Definition ex_cases (b : bool) : list (ctag * dval) :=
  [(TextContentItem, ex_item "TEXT" (ex_long b) [("TextValue", DStr "t")]);
   (CodeContentItem, ex_item "CODE" (ex_long true) [("ConceptCodeSequence", ex_long b)]);
   (NumContentItem, ex_item "NUM" (ex_long true)
      [("MeasuredValueSequence",
        DSeq [DSet [("NumericValue", DNums [1%Q]); ("MeasurementUnitsCodeSequence", ex_long b)]])]);
   (NumContentItem, ex_item "NUM" (ex_long true)
      [("MeasuredValueSequence",
        DSeq [DSet [("NumericValue", DNums [1%Q]); ("MeasurementUnitsCodeSequence", ex_long true)]]);
       ("NumericValueQualifierCodeSequence", ex_long b)])].
Example C13_long_code_without_designator_refused :
  forallb (fun cd => match accept (Some (fst cd)) (snd cd), accept_sequence [snd cd] with
                     | Err e1, Err e2 => String.eqb e1 "AttributeError" && String.eqb e2 "AttributeError"
                     | _, _ => false end) (ex_cases false) = true /\
  forallb (fun cd => match accept (Some (fst cd)) (snd cd), accept_sequence [snd cd] with
                     | Ok _, Ok _ => true | _, _ => false end) (ex_cases true) = true.
Proof. vm_compute. split; reflexivity. Qed.
Print Assumptions C13_long_code_without_designator_refused.

(* ---- the three kinds of content sequence (is_root, is_sr) ---- *)
Theorem C13_sequence_kind_rule : forall m r c,
  (mode_rule m r c = Ok tt <->
   match m with
   | MRoot => r = None /\ c = ContainerContentItem
   | MSr => r <> None
   | MCtx => r = None
   end) /\
  (mode_rule m r c = Ok tt \/ mode_rule m r c = Err "AttributeError" \/ mode_rule m r c = Err "TypeError") /\
  (mode_rule m r c = Err "TypeError" <-> (m = MRoot /\ r = None /\ c <> ContainerContentItem)).
Proof. exact mode_rule_spec. Qed.
Print Assumptions C13_sequence_kind_rule.

Theorem C13_content_sequence_new : forall m items s,
  seq_new m items = Ok s <-> (s = CSeq m items items /\ Forall (ok_in m) items).
Proof. exact seq_new_spec. Qed.
Print Assumptions C13_content_sequence_new.

Theorem C13_content_sequence_rejects_first : forall m pre x post e,
  Forall (ok_in m) pre -> check_item m x = Err e -> seq_new m (pre ++ x :: post) = Err e.
Proof. exact seq_new_rejects. Qed.
Print Assumptions C13_content_sequence_rejects_first.

Theorem C13_from_sequence_kinds_roundtrip : forall m l,
  Forall wf l -> Forall (ok_in m) l -> from_sequence_m m (map to_ds l) = Ok l.
Proof. exact from_sequence_m_roundtrip. Qed.
Print Assumptions C13_from_sequence_kinds_roundtrip.

Theorem C13_from_sequence_kinds_accepts_only : forall m ds ks,
  from_sequence_m m ds = Ok ks -> Forall (ok_in m) ks /\ List.length ks = List.length ds.
Proof. exact from_sequence_m_accepts_only. Qed.
Print Assumptions C13_from_sequence_kinds_accepts_only.

Theorem C13_from_sequence_default_kind : forall items ks,
  from_sequence_m MSr items = Ok ks <-> from_sequence2 items = Ok ks.
Proof. exact from_sequence_m_default. Qed.
Print Assumptions C13_from_sequence_default_kind.

(* ---- ContentSequence as a mutable container ---- *)
(* Dataset equality of items = equality of all observations, code meanings apart *)
Theorem C13_item_equality : forall a b, item_eqb a b = true <-> key_obs a = key_obs b.
Proof. exact item_eqb_true. Qed.
Print Assumptions C13_item_equality.

(* every call keeps the invariant (look-up table = the items, as multisets;
   every item suits the kind of sequence), keeps the kind, and never fails in
   the look-up table *)
Theorem C13_sequence_step_invariant : forall s o, Inv s ->
  Inv (fst (seq_step s o)) /\ q_mode (fst (seq_step s o)) = q_mode s /\
  snd (seq_step s o) <> Err "ValueError".
Proof. exact seq_step_inv. Qed.
Print Assumptions C13_sequence_step_invariant.

(* every reachable state satisfies the invariant *)
Theorem C13_sequence_reachable : forall is_root is_sr init ops m s0,
  mode_of is_root is_sr = Ok m -> seq_new m init = Ok s0 ->
  let s := fst (seq_run s0 ops) in
  Inv s /\ q_mode s = m /\ Forall (fun r => r <> Err "ValueError") (snd (seq_run s0 ops)).
Proof. exact seq_reachable. Qed.
Print Assumptions C13_sequence_reachable.

Theorem C13_sequence_items_suit_kind : forall s, Inv s ->
  Forall (fun i => match q_mode s with
                   | MRoot => i_rel i = None /\ i_cls i = ContainerContentItem
                   | MSr => i_rel i <> None
                   | MCtx => i_rel i = None
                   end) (q_items s).
Proof. exact inv_items. Qed.
Print Assumptions C13_sequence_items_suit_kind.

(* find(name) returns exactly the items of the sequence with that name *)
Theorem C13_find_returns_named : forall s n, Inv s ->
  seq_find s n = Ok (filter (named n) (q_log s)) /\
  PermK (filter (named n) (q_log s)) (filter (named n) (q_items s)) /\
  Forall (ok_in (q_mode s)) (filter (named n) (q_log s)).
Proof. exact seq_find_spec. Qed.
Print Assumptions C13_find_returns_named.

Theorem C13_find_fresh : forall m items s n, seq_new m items = Ok s ->
  seq_find s n = Ok (filter (named n) items).
Proof. exact seq_find_fresh. Qed.
Print Assumptions C13_find_fresh.

Theorem C13_get_nodes : forall s, Inv s -> seq_nodes s = Ok (filter has_kids (q_items s)).
Proof. exact seq_nodes_spec. Qed.
Print Assumptions C13_get_nodes.

Theorem C13_index_contains : forall s v, Inv s ->
  seq_contains s v = existsb (item_eqb v) (q_items s) /\
  (forall k, seq_index s v = Ok k ->
     0 <= k < len (q_items s) /\
     (exists x, nth_error (q_items s) (Z.to_nat k) = Some x /\ item_eqb v x = true) /\
     (forall j x, (j < Z.to_nat k)%nat -> nth_error (q_items s) j = Some x -> item_eqb v x = false)) /\
  (existsb (item_eqb v) (q_items s) = false -> seq_index s v = Err "ValueError").
Proof. exact seq_index_spec. Qed.
Print Assumptions C13_index_contains.

(* ---- the property sentence in one statement ---- *)
Theorem C13_end_to_end : forall t, wf t -> valid t ->
  construct t = Ok t /\
  (read_value (i_cls t) (to_attrs t) = Ok (i_value t) /\
   read_rel (to_attrs t) = Ok (i_rel t) /\
   bind (get "ConceptNameCodeSequence" (to_attrs t)) code_first = Ok (i_name t)) /\
  parse (Some (i_cls t)) (to_ds t) = Ok t /\
  parse2 (Some (i_cls t)) (to_ds t) = Ok t /\
  (forall m, ok_in m t -> from_sequence_m m [to_ds t] = Ok [t]) /\
  (i_rel t <> None -> from_sequence [to_ds t] = Ok [t] /\ from_sequence2 [to_ds t] = Ok [t]).
Proof. exact end_to_end. Qed.
Print Assumptions C13_end_to_end.

(* ---- sr/content.py template content items (ImageRegion, FindingSite, ...):
   their from_dataset now asserts the value type of the parent class
   (asserts = true, read off the source on every run).  The assertion matters:
   without it (defect D103 found by this check, fixed in /repo) from_dataset
   accepted a dataset of another value type lacking a required attribute, where
   the parent class answers ValueError ---- *)
Theorem C13_subclass_assertion_needed : exists parent a,
  accept_sub false parent (DSet a) = Ok tt /\
  lookup "ValueType" a <> Some (DStr (vt_str (class_vt parent))) /\
  (exists k, In k (required parent) /\ lookup k a = None) /\
  accept (Some parent) (DSet a) = Err "ValueError".
Proof. exact subclass_from_dataset_refuted. Qed.
Print Assumptions C13_subclass_assertion_needed.

(* full strength, for the code as it is: the template classes accept EXACTLY
   the datasets of their parent's value type with every required attribute, a
   complete concept name and acceptable children; everything else is rejected
   with the error class of the parent *)
Theorem C13_subclass_from_dataset_iff : forall parent a,
  accept_sub true parent (DSet a) = Ok tt <->
  (lookup "ValueType" a = Some (DStr (vt_str (class_vt parent))) /\
   (forall k, In k (required parent) -> lookup k a <> None) /\
   (exists s n, lookup "ConceptNameCodeSequence" a = Some s /\ code_first s = Ok n) /\
   match lookup "ContentSequence" a with
   | None => True
   | Some (DSeq items) => Forall (fun d => accept None d = Ok tt) items /\
                          Forall (fun d => rel_present d = Ok tt) items
   | Some _ => False
   end).
Proof. exact subclass_from_dataset_iff. Qed.
Print Assumptions C13_subclass_from_dataset_iff.

Theorem C13_subclass_from_dataset_rejects : forall parent a,
  (lookup "ValueType" a = None -> accept_sub true parent (DSet a) = Err "AttributeError") /\
  (forall d, lookup "ValueType" a = Some d -> d <> DStr (vt_str (class_vt parent)) ->
             accept_sub true parent (DSet a) = Err "ValueError") /\
  (forall k, lookup "ValueType" a = Some (DStr (vt_str (class_vt parent))) ->
             In k (required parent) -> lookup k a = None ->
             accept_sub true parent (DSet a) = Err "AttributeError") /\
  (lookup "ValueType" a = Some (DStr (vt_str (class_vt parent))) ->
   (forall k, In k (required parent) -> lookup k a <> None) ->
   lookup "ConceptNameCodeSequence" a = None -> accept_sub true parent (DSet a) = Err "AttributeError").
Proof. exact subclass_from_dataset_rejects. Qed.
Print Assumptions C13_subclass_from_dataset_rejects.

Theorem C13_subclass_accepts_parent : forall parent a,
  accept (Some parent) (DSet a) = Ok tt -> lookup "ConceptNameCodeSequence" a <> None ->
  accept_sub true parent (DSet a) = Ok tt.
Proof. exact subclass_accepts_parent. Qed.
Print Assumptions C13_subclass_accepts_parent.

Example C13_subclass_nonvacuous :
  accept_sub true ScoordContentItem (DSet sub_witness) = Err "ValueError" /\
  accept_sub true TextContentItem (DSet sub_witness) = Ok tt /\
  accept_sub true TextContentItem (DSet (removelast sub_witness)) = Err "AttributeError".
Proof. vm_compute. repeat split; reflexivity. Qed.
Print Assumptions C13_subclass_nonvacuous.

(* with the value-type assertion the rejection clause holds *)
Theorem C13_subclass_from_dataset_asserting : forall parent a,
  accept_sub true parent (DSet a) = Ok tt ->
  lookup "ValueType" a = Some (DStr (vt_str (class_vt parent))) /\
  (forall k, In k (required parent) -> lookup k a <> None) /\
  lookup "ConceptNameCodeSequence" a <> None.
Proof. exact subclass_from_dataset_asserting. Qed.
Print Assumptions C13_subclass_from_dataset_asserting.

Theorem C13_subclass_from_dataset_checks : forall b parent a,
  accept_sub b parent (DSet a) = Ok tt ->
  lookup "ValueType" a <> None /\
  exists s n, lookup "ConceptNameCodeSequence" a = Some s /\ code_first s = Ok n.
Proof. exact subclass_from_dataset_checks. Qed.
Print Assumptions C13_subclass_from_dataset_checks.

(* ---- NumContentItem, int values: the exact decimal string is stored iff
   -10^15 < v < 10^16 (len(str(v)) <= 16); then .value = float(v), which is v
   itself for |v| < 2^53 ---- *)
Theorem C13_num_int_exact : forall z, num_int_exact z = true <-> - 10 ^ 15 < z < 10 ^ 16.
Proof. exact num_int_exact_spec. Qed.
Print Assumptions C13_num_int_exact.

Theorem C13_num_int_small_is_double : forall z, Z.abs z < 2 ^ 53 -> dbl_exact z = true.
Proof. exact dbl_exact_small. Qed.
Print Assumptions C13_num_int_small_is_double.

(* after the fix of D111: an int whose decimal string does not fit is ALSO kept
   in FloatingPointValue (exactly then), and whatever its size the written
   attributes are read back as the same value by the accessors, by from_dataset
   and by from_sequence - so .value = float(v) on every path, which is v itself
   iff v is an exact double (dbl_exact; always for |v| < 2^53) *)
Theorem C13_num_int_float_iff : forall z, num_int_has_float z = true <-> (z <= - 10 ^ 15 \/ 10 ^ 16 <= z).
Proof. exact num_int_float_iff. Qed.
Print Assumptions C13_num_int_float_iff.

Theorem C13_num_int_roundtrip : forall z n r u ql,
  let v := num_of_int z u ql in
  let t := Item NumContentItem n r v [] in
  read_value NumContentItem (item_attrs n r v []) = Ok v /\
  parse (Some NumContentItem) (to_ds t) = Ok t /\
  (r <> None -> parse None (to_ds t) = Ok t).
Proof. exact num_int_roundtrip. Qed.
Print Assumptions C13_num_int_roundtrip.

Example C13_num_int_nonvacuous :
  int_strlen (-999999999999999) = 16 /\ num_int_exact (-999999999999999) = true /\
  num_int_exact (- 10 ^ 15) = false /\ num_int_exact (10 ^ 16 - 1) = true /\ num_int_exact (10 ^ 16) = false /\
  dbl_exact (2 ^ 53 + 1) = false /\ dbl_exact (2 ^ 53 + 2) = true /\
  run_num_int (10 ^ 16) = VL [VB false; VB true; VB true] /\
  run_num_int (10 ^ 17 + 1) = VL [VB false; VB true; VB false] /\
  run_num_int (2 ^ 53 + 1) = VL [VB true; VB false; VB false].
Proof. vm_compute. repeat split; reflexivity. Qed.
Print Assumptions C13_num_int_nonvacuous.

(* ---- non-vacuity of the new statements ---- *)
(* two faults: a bad enumerated value in the first child (accessor time) and a
   missing required attribute in the second (from_dataset time): the code - and
   parse2 - answer AttributeError; reading child by child would say ValueError *)
Definition ex_two_faults : dval :=
  DSet [("ValueType", DStr "CONTAINER"); ("ConceptNameCodeSequence", DSeq [code_ds ex_code]);
        ("ContinuityOfContent", DStr "SEPARATE");
        ("ContentSequence", DSeq [
           DSet [("ValueType", DStr "SCOORD"); ("ConceptNameCodeSequence", DSeq [code_ds ex_code]);
                 ("RelationshipType", DStr "CONTAINS"); ("GraphicType", DStr "BLOB");
                 ("GraphicData", DNums [1%Q; 2%Q])];
           DSet [("ValueType", DStr "TEXT"); ("ConceptNameCodeSequence", DSeq [code_ds ex_code]);
                 ("RelationshipType", DStr "CONTAINS")]])].

Example C13_two_faults_precedence :
  parse2 (Some ContainerContentItem) ex_two_faults = Err "AttributeError" /\
  parse (Some ContainerContentItem) ex_two_faults = Err "ValueError".
Proof. vm_compute. split; reflexivity. Qed.
Print Assumptions C13_two_faults_precedence.

Definition ex_txt (nm s : string) : item :=
  Item TextContentItem (Code nm "99X" "m" None) (Some CONTAINS) (VText s) [].

(* a sequence after append / insert / replace / delete: find and index *)
Example C13_sequence_nonvacuous :
  exists s0, seq_new MSr [ex_txt "a" "1"; ex_txt "b" "2"] = Ok s0 /\
  let s := fst (seq_run s0 [OAppend (ex_txt "a" "3"); OInsert 0 (ex_txt "b" "0"); OSet 1 (ex_txt "z" "9");
                            ODel (-1); OAppend (Item TextContentItem ex_code None (VText "x") [])]) in
  q_items s = [ex_txt "b" "0"; ex_txt "z" "9"; ex_txt "b" "2"] /\
  seq_find s (Code "b" "99X" "another meaning" None) = Ok [ex_txt "b" "2"; ex_txt "b" "0"] /\
  seq_index s (ex_txt "b" "2") = Ok 2 /\ seq_contains s (ex_txt "a" "1") = false /\
  snd (seq_run s0 [OAppend (Item TextContentItem ex_code None (VText "x") [])]) = [Err "AttributeError"] /\
  seq_new MRoot [ex_txt "a" "1"] = Err "AttributeError" /\
  from_sequence_m MCtx [to_ds (Item TextContentItem ex_code None (VText "x") [])]
    = Ok [Item TextContentItem ex_code None (VText "x") []] /\
  from_sequence_m MCtx [to_ds (ex_txt "a" "1")] = Err "AttributeError".
Proof. eexists. split; [reflexivity|]. vm_compute. repeat split; reflexivity. Qed.
Print Assumptions C13_sequence_nonvacuous.

(* ---- (11) the value is not shared with the caller: histories of reads on ONE
   SCOORD / SCOORD3D item (read, change a returned array / the constructor
   argument / the source dataset in place, read again, serialise + parse +
   read) ---- *)
(* in-place changes of arrays obtained earlier do not exist for the item *)
Theorem C13_reads_ignore_scribbles : forall k ops d,
  hist_run k d ops = hist_run k d (filter (fun o => negb (is_scribble o)) ops).
Proof. exact hist_ignores_scribbles. Qed.
Print Assumptions C13_reads_ignore_scribbles.

(* while nobody edits GraphicData, EVERY read of a history - on the item or on
   its serialised-and-parsed copy - reports the constructed points *)
Theorem C13_reads_report_constructed : forall k pts ops, (0 < k)%nat -> rows_nat k pts ->
  Forall no_edit ops ->
  snd (hist_run k (concat pts) ops) = concat pts /\
  Forall (fun e => e = vq_rows pts) (fst (hist_run k (concat pts) ops)).
Proof. exact hist_reports_constructed. Qed.
Print Assumptions C13_reads_report_constructed.

(* ... and after item.GraphicData = l the reads report l *)
Theorem C13_reads_follow_assignment : forall k d l ops,
  hist_run k d (HAssign l :: HRead :: ops) =
  (read_rows k l :: fst (hist_run k l ops), snd (hist_run k l ops)).
Proof. exact hist_assign_then_read. Qed.
Print Assumptions C13_reads_follow_assignment.

Example C13_history_nonvacuous :
  run_hist 2 [[1; 2]; [3; 4]]%Q [HRead; HScribble; HRead; HEdit (-1) 9; HRead; HRoundTrip; HEdit 4 0;
                                  HAssign [5; 6; 7]%Q; HRead] =
  VL [VL [vq_rows [[1; 2]; [3; 4]]%Q; vq_rows [[1; 2]; [3; 4]]%Q; VS "ok"; vq_rows [[1; 2]; [3; 9]]%Q;
          vq_rows [[1; 2]; [3; 9]]%Q; vq_rows [[1; 2]; [3; 9]]%Q; VErr "IndexError"; VErr "ValueError"];
      vq_list [5; 6; 7]%Q].
Proof. vm_compute. reflexivity. Qed.
Print Assumptions C13_history_nonvacuous.

(* ---- (12) coplanarity is a property of the point SET: the verdict does not
   depend on the order of the vertices, on where the contour starts or on
   repeated vertices, and a non-coplanar subset condemns the whole contour ---- *)
Theorem C13_coplanar_same_points : forall ps qs : list v3, (forall p, In p ps <-> In p qs) ->
  coplanar_v ps = coplanar_v qs.
Proof. exact coplanar_same_points. Qed.
Print Assumptions C13_coplanar_same_points.

Theorem C13_coplanar_rotate : forall ps qs : list v3, coplanar_v (ps ++ qs) = coplanar_v (qs ++ ps).
Proof. exact coplanar_rotate. Qed.
Print Assumptions C13_coplanar_rotate.

Theorem C13_noncoplanar_anywhere : forall bad : list v3,
  coplanar_v bad = false -> forall ps, incl bad ps -> coplanar_v ps = false.
Proof. exact noncoplanar_anywhere. Qed.
Print Assumptions C13_noncoplanar_anywhere.

(* the plane through the FIRST THREE points decides nothing when they are
   collinear (or repeat each other): a closed contour whose first edge carries a
   vertex in its middle, with a later vertex lifted out of the plane, is refused *)
Definition ex_collinear_start : list (list Q) :=
  [[0; 0; 5]; [4; 0; 5]; [8; 0; 5]; [8; 8; 5]; [0; 8; 9]; [0; 0; 5]]%Q.
Example C13_collinear_start_refused :
  zero_b (cross (vsub (4, 0, 5) (0, 0, 5)) (vsub (8, 0, 5) (0, 0, 5)))%Q = true /\
  closed ex_collinear_start = true /\ coplanar ex_collinear_start = false /\
  scoord3d_check G3Polygon ex_collinear_start = Err "ValueError" /\
  scoord3d_check G3Polygon [[0; 0; 5]; [0; 0; 5]; [8; 0; 5]; [8; 8; 5]; [0; 8; 9]; [0; 0; 5]]%Q = Err "ValueError" /\
  scoord3d_check G3Polygon [[0; 0; 5]; [4; 0; 5]; [8; 0; 5]; [8; 8; 5]; [0; 8; 5]; [0; 0; 5]]%Q = Ok tt.
Proof. vm_compute. repeat split; reflexivity. Qed.
Print Assumptions C13_collinear_start_refused.

(* ---- a single time offset of 0 s (pydicom stores the scalar 0.0, which is
   falsy): the value comes back, from the constructed item and after parsing ---- *)
Example C13_tcoord_zero_offset :
  let t := Item TcoordContentItem ex_code (Some CONTAINS) (VTcoord TPoint (TOffsets [0%Q])) [] in
  wf t /\ construct t = Ok t /\ parse (Some TcoordContentItem) (to_ds t) = Ok t /\
  from_sequence [to_ds t] = Ok [t].
Proof. split; [|vm_compute; repeat split; reflexivity]. repeat split; constructor. Qed.
Print Assumptions C13_tcoord_zero_offset.

(* ================================================================== *)
(* closedness of a 3D POLYGON is EXACT equality of the end points: no
   tolerance, absolute or relative.  An open contour is refused whatever the
   size of the gap and wherever the contour lies ... *)
Theorem C13_polygon_open_refused : forall p mid q,
  qlist_eqb p q = false -> scoord3d_check G3Polygon (p :: mid ++ [q]) = Err "ValueError".
Proof. exact polygon_open_refused. Qed.
Print Assumptions C13_polygon_open_refused.

Theorem C13_polygon_gap_refused : forall (x y z ex ey ez : Q) mid,
  ~ (ex == 0 /\ ey == 0 /\ ez == 0)%Q ->
  scoord3d_check G3Polygon ([x; y; z] :: mid ++ [[x + ex; y + ey; z + ez]%Q]) = Err "ValueError".
Proof. exact polygon_gap_refused. Qed.
Print Assumptions C13_polygon_gap_refused.

(* ... and the verdict on 3D graphic data (count, dimension, closed, coplanar)
   is the same wherever the origin of the frame of reference is: moving every
   point by the same vector changes nothing (a comparison with a tolerance
   relative to the size of the coordinates would) *)
Theorem C13_closed_translation_invariant : forall t pts, closed (map (shift3 t) pts) = closed pts.
Proof. exact closed_shift. Qed.
Print Assumptions C13_closed_translation_invariant.

Theorem C13_graphic_data_translation_invariant : forall g t pts,
  scoord3d_check g (map (shift3 t) pts) = scoord3d_check g pts.
Proof. exact scoord3d_check_shift. Qed.
Print Assumptions C13_graphic_data_translation_invariant.

(* a contour at a table position of -1500 mm that stops 0.01 mm short of its
   first point; the outline of a nucleus on a slide that ends one 0.25 um pixel
   beside its start; a gap of 2^-30 mm at 2^20 mm (relative size 2^-50): all
   refused; the same contours closed, and the first one moved to the origin:
   accepted *)
Definition ex_far (last : list Q) : list (list Q) :=
  [[-153225 # 100; 2105 # 10; -987]; [-1500; 2105 # 10; -987]; [-1500; 26075 # 100; -987]; last]%Q.
Example C13_polygon_gap_far_from_origin :
  scoord3d_check G3Polygon (ex_far [-153224 # 100; 2105 # 10; -987]%Q) = Err "ValueError" /\
  scoord3d_check G3Polygon (ex_far [-153225 # 100; 2105 # 10; -987]%Q) = Ok tt /\
  scoord3d_check G3Polygon (map (shift3 (153225 # 100, - (2105 # 10), 987)%Q)
                                (ex_far [-153225 # 100; 2105 # 10; -987]%Q)) = Ok tt /\
  scoord3d_check G3Polygon [[41237 # 1000; 17502 # 1000; 0]; [41242 # 1000; 17502 # 1000; 0];
                            [41242 # 1000; 17508 # 1000; 0]; [41237 # 1000; 17508 # 1000; 0];
                            [4123725 # 100000; 17502 # 1000; 0]]%Q = Err "ValueError" /\
  scoord3d_check G3Polygon [[1048576; 0; 0]; [1048586; 0; 0]; [1048586; 10; 0];
                            [1048576 + (1 # 1073741824); 0; 0]]%Q = Err "ValueError" /\
  scoord3d_check G3Polygon [[1048576; 0; 0]; [1048586; 0; 0]; [1048586; 10; 0]; [1048576; 0; 0]]%Q = Ok tt.
Proof. vm_compute. repeat split; reflexivity. Qed.
Print Assumptions C13_polygon_gap_far_from_origin.

(* ================================================================== *)
(* once everything before them is in order (value type, required attributes,
   name, children), X.from_dataset answers with the outcome - and the error -
   of its class-specific conversions of coded concepts *)
Theorem C13_from_dataset_error_is_conversion_error : forall c a, before_value_ok c a ->
  accept (Some c) (DSet a) = value_codes c a.
Proof. exact accept_is_value_codes. Qed.
Print Assumptions C13_from_dataset_error_is_conversion_error.

(* NUM: the Measurement Units Code Sequence (Type 1 inside the measured value)
   is needed when PARSING.  If the first measured value has none, the dataset
   is refused with AttributeError by NumContentItem.from_dataset itself - not
   later, by the unit accessor *)
Theorem C13_num_units_required : forall a ms it,
  before_value_ok NumContentItem a ->
  lookup "MeasuredValueSequence" a = Some ms -> first_item ms = Ok it ->
  lookup "MeasurementUnitsCodeSequence" it = None ->
  accept (Some NumContentItem) (DSet a) = Err "AttributeError" /\
  parse2 (Some NumContentItem) (DSet a) = Err "AttributeError".
Proof. exact num_units_required. Qed.
Print Assumptions C13_num_units_required.

(* take ANY dataset NumContentItem.from_dataset accepts and put a measured value
   without units in the place of its Measured Value Sequence, everything else
   untouched (qualifier or not, children or not): refused with AttributeError *)
Theorem C13_num_units_stripped_refused : forall a a' ms' it',
  accept (Some NumContentItem) (DSet a) = Ok tt ->
  (forall k, k <> "MeasuredValueSequence" -> lookup k a' = lookup k a) ->
  lookup "MeasuredValueSequence" a' = Some ms' -> first_item ms' = Ok it' ->
  lookup "MeasurementUnitsCodeSequence" it' = None ->
  accept (Some NumContentItem) (DSet a') = Err "AttributeError" /\
  parse2 (Some NumContentItem) (DSet a') = Err "AttributeError".
Proof. exact num_units_stripped_refused. Qed.
Print Assumptions C13_num_units_stripped_refused.

(* non-vacuity: what the constructor writes for a NUM item with a qualifier is
   accepted; with the units deleted from the measured value it is refused by
   the class, by from_sequence and inside a container; an EMPTY Measured Value
   Sequence is refused too (IndexError) *)
Definition ex_num_attrs (mv : dval) : attrs :=
  [("ValueType", DStr "NUM"); ("ConceptNameCodeSequence", DSeq [code_ds ex_code]);
   ("RelationshipType", DStr "CONTAINS"); ("MeasuredValueSequence", mv);
   ("NumericValueQualifierCodeSequence", DSeq [code_ds ex_code])].
Definition ex_mv (with_units : bool) : dval :=
  DSeq [DSet (("NumericValue", DNums [375 # 100]%Q) ::
              if with_units then [("MeasurementUnitsCodeSequence", DSeq [code_ds ex_code])] else [])].
Example C13_num_units_example :
  to_ds (Item NumContentItem ex_code (Some CONTAINS) (VNum (375 # 100) false ex_code (Some ex_code)) [])
    = DSet (ex_num_attrs (ex_mv true)) /\
  accept (Some NumContentItem) (DSet (ex_num_attrs (ex_mv true))) = Ok tt /\
  (forall k, k <> "MeasuredValueSequence" ->
     lookup k (ex_num_attrs (ex_mv false)) = lookup k (ex_num_attrs (ex_mv true))) /\
  accept (Some NumContentItem) (DSet (ex_num_attrs (ex_mv false))) = Err "AttributeError" /\
  accept_sequence [DSet (ex_num_attrs (ex_mv false))] = Err "AttributeError" /\
  parse (Some NumContentItem) (DSet (ex_num_attrs (ex_mv false))) = Err "AttributeError" /\
  accept (Some ContainerContentItem)
    (DSet [("ValueType", DStr "CONTAINER"); ("ConceptNameCodeSequence", DSeq [code_ds ex_code]);
           ("ContinuityOfContent", DStr "SEPARATE");
           ("ContentSequence", DSeq [DSet (ex_num_attrs (ex_mv false))])]) = Err "AttributeError" /\
  accept (Some NumContentItem) (DSet (ex_num_attrs (DSeq []))) = Err "IndexError".
Proof.
  split; [vm_compute; reflexivity|]. split; [vm_compute; reflexivity|]. split.
  - intros k Hk. unfold ex_num_attrs. cbn [lookup].
    destruct (String.eqb "ValueType" k); [reflexivity|].
    destruct (String.eqb "ConceptNameCodeSequence" k); [reflexivity|].
    destruct (String.eqb "RelationshipType" k); [reflexivity|].
    destruct (String.eqb "MeasuredValueSequence" k) eqn:E; [apply String.eqb_eq in E; congruence|].
    reflexivity.
  - vm_compute. repeat split; reflexivity.
Qed.
Print Assumptions C13_num_units_example.
