(* C18 - proofs, part 2: sparse measurement encoding, group lookup. *)
From Coq Require Import String ZArith List Bool Lia ZifyBool Arith.
From HD Require Import Base.Val Base.ListZ C18_Model C18_Proofs.
Import ListNotations.
Ltac Zify.zify_post_hook ::= Z.to_euclidean_division_equations.
Open Scope Z_scope.

Definition present (v : word) : bool := negb (is_nan false v).
(* what get_values hands back for a stored value: NaNs of any payload come back
   as the one canonical quiet NaN, everything else bit for bit *)
Definition canon (v : word) : word := if is_nan false v then canonical_nan32 else v.

Lemma set_nth_mid {A} : forall (pre : list A) x v rest,
  set_nth (length pre) v (pre ++ x :: rest) = pre ++ v :: rest.
Proof. induction pre as [|p pre IH]; intros; cbn; [reflexivity|]. now rewrite IH. Qed.

Lemma length_positions {A} : forall (keep : A -> bool) l i,
  length (positions_from i keep l) = length (filter keep l).
Proof.
  induction l as [|x t IH]; intros i; [reflexivity|]. cbn [positions_from filter].
  destruct (keep x); cbn [length]; now rewrite IH.
Qed.

Lemma positions_shift {A} : forall (keep : A -> bool) l i,
  map (fun p => p - 1) (positions_from (i + 1) keep l) = positions_from i keep l.
Proof.
  induction l as [|x t IH]; intros i; [reflexivity|]. cbn [positions_from].
  destruct (keep x); cbn [map]; rewrite IH; [f_equal; lia|reflexivity].
Qed.

(* scattering the present values to their positions rebuilds the vector *)
Lemma scatter_positions : forall (vs pre : list word) (n : Z),
  n = zlen pre + zlen vs ->
  scatter n (positions_from (zlen pre) present vs) (filter present vs)
          (pre ++ repeat canonical_nan32 (length vs))
  = Ok (pre ++ map canon vs).
Proof.
  induction vs as [|v t IH]; intros pre n Hn.
  - cbn. reflexivity.
  - rewrite zlen_cons in Hn. pose proof (zlen_nonneg pre). pose proof (zlen_nonneg t).
    cbn [positions_from filter length repeat map].
    destruct (present v) eqn:Ep.
    + assert (Ec : canon v = v)
        by (unfold canon; unfold present in Ep; destruct (is_nan false v); [discriminate|reflexivity]).
      rewrite Ec. cbn [scatter].
      replace (zlen pre <? 0) with false by lia.
      replace ((zlen pre <? 0) || (n <=? zlen pre)) with false by lia.
      unfold zlen at 2. rewrite Nat2Z.id, set_nth_mid.
      replace (pre ++ v :: repeat canonical_nan32 (length t))
        with ((pre ++ [v]) ++ repeat canonical_nan32 (length t)) by (rewrite <- app_assoc; reflexivity).
      replace (zlen pre + 1) with (zlen (pre ++ [v])) by (rewrite zlen_app; reflexivity).
      rewrite IH by (rewrite zlen_app; unfold zlen at 2; cbn; lia).
      rewrite <- app_assoc. reflexivity.
    + assert (Ec : canon v = canonical_nan32)
        by (unfold canon; unfold present in Ep; destruct (is_nan false v); [reflexivity|discriminate]).
      rewrite Ec.
      replace (pre ++ canonical_nan32 :: repeat canonical_nan32 (length t))
        with ((pre ++ [canonical_nan32]) ++ repeat canonical_nan32 (length t)) by (rewrite <- app_assoc; reflexivity).
      replace (zlen pre + 1) with (zlen (pre ++ [canonical_nan32])) by (rewrite zlen_app; reflexivity).
      rewrite IH by (rewrite zlen_app; unfold zlen at 2; cbn; lia).
      rewrite <- app_assoc. reflexivity.
Qed.

Lemma positions_all {A} : forall (keep : A -> bool) l i,
  (forall x, In x l -> keep x = true) -> positions_from i keep l = zrange2 i (i + zlen l).
Proof.
  induction l as [|x t IH]; intros i H.
  - unfold zrange2, zlen. cbn. replace (i + 0 - i) with 0 by lia. reflexivity.
  - cbn [positions_from]. rewrite (H x) by now left.
    rewrite IH by (intros y Hy; apply H; now right).
    unfold zrange2. rewrite zlen_cons. pose proof (zlen_nonneg t).
    replace (Z.to_nat (i + (1 + zlen t) - i)) with (S (Z.to_nat (i + 1 + zlen t - (i + 1)))) by lia.
    cbn [seq map]. f_equal; [lia|]. rewrite <- seq_shift, map_map. apply map_ext. intros k. lia.
Qed.

Lemma filter_all {A} : forall (keep : A -> bool) l, (forall x, In x l -> keep x = true) -> filter keep l = l.
Proof.
  induction l as [|x t IH]; intros H; [reflexivity|]. cbn [filter]. rewrite (H x) by now left.
  f_equal. apply IH. intros y Hy. apply H. now right.
Qed.

Lemma no_nan_present : forall vs, existsb (is_nan false) vs = false -> forall x, In x vs -> present x = true.
Proof.
  intros vs H x Hx. unfold present. destruct (is_nan false x) eqn:E; [|reflexivity].
  assert (existsb (is_nan false) vs = true) by (apply existsb_exists; eauto). congruence.
Qed.

Lemma zlen_zrange2 : forall a b, a <= b -> zlen (zrange2 a b) = b - a.
Proof. intros a b H. unfold zrange2, zlen. rewrite map_length, seq_length. lia. Qed.

Lemma m_encode_eq : forall vs, m_encode vs =
  mkMenc (filter present vs)
         (if existsb (is_nan false) vs then Some (positions_from 1 present vs) else None)
         (Some (zlen vs)).
Proof. reflexivity. Qed.

Lemma positions_shift1 {A} : forall (keep : A -> bool) l,
  map (fun p => p - 1) (positions_from 1 keep l) = positions_from 0 keep l.
Proof. intros. exact (positions_shift keep l 0). Qed.

Lemma scatter_positions0 : forall vs,
  scatter (zlen vs) (positions_from 0 present vs) (filter present vs) (repeat canonical_nan32 (length vs))
  = Ok (map canon vs).
Proof. intros vs. exact (scatter_positions vs [] (zlen vs) ltac:(unfold zlen; cbn; lia)). Qed.

(* decode after encode, asked for the right number of annotations *)
Lemma measurements_roundtrip : forall vs, m_decode (m_encode vs) (zlen vs) = Ok (map canon vs).
Proof.
  intros vs. pose proof (zlen_nonneg vs). unfold m_decode. rewrite m_encode_eq. cbn [m_idx m_values].
  replace (zlen vs <? 0) with false by lia.
  pose proof (scatter_positions0 vs) as S.
  destruct (existsb (is_nan false) vs) eqn:En.
  - rewrite positions_shift1.
    replace (zlen (filter present vs) =? zlen (positions_from 0 present vs)) with true
      by (unfold zlen; rewrite length_positions; lia).
    cbn [negb]. unfold zlen at 2. rewrite Nat2Z.id. exact S.
  - pose proof (no_nan_present vs En) as Hp.
    rewrite (filter_all present vs Hp) in *.
    replace (zlen vs =? zlen (zrange2 0 (zlen vs))) with true by (rewrite zlen_zrange2; lia).
    cbn [negb]. rewrite (positions_all present vs 0 Hp) in S. rewrite Z.add_0_l in S.
    unfold zlen at 3. rewrite Nat2Z.id. exact S.
Qed.

(* the parsed dataset decodes the same way (the remembered length is not used by get_values) *)
Lemma m_decode_parsed : forall m n, m_decode (m_parsed m) n = m_decode m n.
Proof. reflexivity. Qed.

Lemma canon_present : forall v, is_nan false v = false -> canon v = v.
Proof. intros v H. unfold canon. now rewrite H. Qed.

Lemma canon_absent : forall v, is_nan false v = true -> canon v = canonical_nan32.
Proof. intros v H. unfold canon. now rewrite H. Qed.

(* position by position: stored value or "absent" *)
Lemma measurements_pointwise : forall vs out i v,
  m_decode (m_encode vs) (zlen vs) = Ok out -> nth_error vs i = Some v ->
  nth_error out i = Some (if is_nan false v then canonical_nan32 else v).
Proof.
  intros vs out i v H Hv. rewrite measurements_roundtrip in H. inversion H; subst.
  rewrite nth_error_map, Hv. reflexivity.
Qed.

(* ---- count mismatch --------------------------------------------------------------------------- *)
(* a freshly constructed Measurements is accepted by a group exactly when its
   length equals the number of annotations (dense or sparse) *)
Lemma mismatch_rejected : forall vs n, accepts_one n (m_encode vs) = true <-> n = zlen vs.
Proof.
  intros vs n. unfold accepts_one. rewrite m_encode_eq at 1. cbn [m_len]. split.
  - intros H. apply andb_prop in H as [H _]. lia.
  - intros ->. rewrite measurements_roundtrip. replace (zlen vs =? zlen vs) with true by lia. reflexivity.
Qed.

Lemma group_measurements_accepted_iff : forall n (ms : list (Z * list word)),
  group_accepts_measurements n (map (fun m => (fst m, m_encode (snd m))) ms) = true
  <-> forall m, In m ms -> zlen (snd m) = n.
Proof.
  intros n ms. unfold group_accepts_measurements. rewrite forallb_forall. split.
  - intros H m Hm. symmetry. apply (mismatch_rejected (snd m) n).
    apply (H (fst m, m_encode (snd m))). apply in_map_iff. eauto.
  - intros H x Hx. apply in_map_iff in Hx as (m & <- & Hm). cbn [snd].
    apply mismatch_rejected. symmetry. now apply H.
Qed.

(* parsed dense vector (no index list): any other count raises *)
Lemma dense_parsed_mismatch : forall vs n, existsb (is_nan false) vs = false -> n <> zlen vs ->
  exists k, m_decode (m_parsed (m_encode vs)) n = Err k.
Proof.
  intros vs n En Hn. unfold m_decode, m_parsed. rewrite m_encode_eq. cbn [m_idx m_values]. rewrite En.
  destruct (n <? 0) eqn:E0; [eauto|].
  rewrite (filter_all present vs (no_nan_present vs En)).
  rewrite zlen_zrange2 by lia. replace (n - 0) with n by lia.
  replace (zlen vs =? n) with false by lia. cbn [negb]. eauto.
Qed.

Lemma scatter_out_of_range : forall n idx vals acc, 0 <= n ->
  (forall i, In i idx -> 0 <= i) -> length vals = length idx -> (exists i, In i idx /\ n <= i) ->
  scatter n idx vals acc = Err "IndexError".
Proof.
  intros n idx. induction idx as [|i t IH]; intros vals acc Hn Hpos Hlen (j & Hj & Hnj); [contradiction|].
  destruct vals as [|v vals']; [discriminate|]. cbn [scatter].
  assert (0 <= i) by (apply Hpos; now left). replace (i <? 0) with false by lia.
  destruct ((i <? 0) || (n <=? i)) eqn:E; [reflexivity|].
  apply IH; [exact Hn|intros k Hk; apply Hpos; now right|cbn in Hlen; lia|].
  destruct Hj as [->|Hj]; [lia|eauto].
Qed.

Lemma positions_ge {A} : forall (keep : A -> bool) l i p, In p (positions_from i keep l) -> i <= p.
Proof.
  induction l as [|x t IH]; intros i p H; [contradiction|]. cbn [positions_from] in H.
  destruct (keep x); [destruct H as [<-|H]; [lia|]|]; apply IH in H; lia.
Qed.

(* parsed sparse vector: a value stored for an annotation number beyond the group raises *)
Lemma sparse_parsed_beyond : forall vs n p, 0 <= n -> existsb (is_nan false) vs = true ->
  In p (positions_from 1 present vs) -> n < p ->
  m_decode (m_parsed (m_encode vs)) n = Err "IndexError".
Proof.
  intros vs n p Hn En Hp Hnp. unfold m_decode, m_parsed. rewrite m_encode_eq. cbn [m_idx m_values]. rewrite En.
  replace (n <? 0) with false by lia.
  rewrite positions_shift1.
  replace (zlen (filter present vs) =? zlen (positions_from 0 present vs)) with true
    by (unfold zlen; rewrite length_positions; lia).
  cbn [negb]. apply scatter_out_of_range; [exact Hn| |now rewrite length_positions|].
  - intros i Hi. now apply positions_ge in Hi.
  - exists (p - 1). split; [|lia]. rewrite <- positions_shift1. apply in_map_iff. eauto.
Qed.

(* ---- get_measurements --------------------------------------------------------------------------- *)
Lemma sequence_res_map_ok {A B} : forall (f : A -> res B) (g : A -> B) l,
  (forall x, In x l -> f x = Ok (g x)) -> sequence_res (map f l) = Ok (map g l).
Proof.
  induction l as [|x t IH]; intros H; [reflexivity|]. cbn [map sequence_res].
  rewrite (H x) by now left. cbn [bind]. rewrite IH by (intros y Hy; apply H; now right). reflexivity.
Qed.

Lemma get_measurements_exact : forall n (ms : list (Z * list word)) name,
  (forall m, In m ms -> zlen (snd m) = n) ->
  get_measurements n (map (fun m => (fst m, m_encode (snd m))) ms) name =
  let sel := filter (fun m => match name with None => true | Some q => fst m =? q end) ms in
  Ok (map fst sel, map (fun m => map canon (snd m)) sel).
Proof.
  intros n ms name H. unfold get_measurements.
  assert (Ef : filter (fun m : Z * menc => match name with None => true | Some q => fst m =? q end)
                      (map (fun m => (fst m, m_encode (snd m))) ms)
               = map (fun m => (fst m, m_encode (snd m)))
                     (filter (fun m : Z * list word => match name with None => true | Some q => fst m =? q end) ms)).
  { clear H. induction ms as [|m t IH]; [reflexivity|]. cbn [map filter fst].
    destruct (match name with None => true | Some q => fst m =? q end); cbn [map]; now rewrite IH. }
  rewrite Ef. cbn zeta. rewrite !map_map. cbn [fst snd].
  rewrite (sequence_res_map_ok _ (fun m => map canon (snd m))).
  - reflexivity.
  - intros m Hm. apply filter_In in Hm as [Hm _]. rewrite <- (H m Hm). apply measurements_roundtrip.
Qed.

(* ---- group lookup ------------------------------------------------------------------------------------- *)
Definition crit {A} (q : option A) (f : A -> bool) : bool := match q with None => true | Some x => f x end.

(* the specification: every given criterion holds; algorithm criteria fail on
   groups without algorithm identification *)
Definition matches (q : query) (g : ginfo) : bool :=
  crit (q_cat q) (fun c => g_cat g =? c) &&
  crit (q_typ q) (fun c => g_typ g =? c) &&
  crit (q_label q) (fun c => g_label g =? c) &&
  crit (q_gt q) (fun c => gtype_eqb (g_gt g) c) &&
  crit (q_algtype q) (fun c => g_algtype g =? c) &&
  crit (q_name q) (fun c => match g_alg g with Some (nm, _, _) => nm =? c | None => false end) &&
  crit (q_version q) (fun c => match g_alg g with Some (_, ver, _) => ver =? c | None => false end) &&
  crit (q_family q) (fun c => match g_alg g with Some (_, _, fam) => fam =? c | None => false end).

Lemma all_or_empty : forall m : list bool, forallb (fun b => b) m || (length m =? 0)%nat = forallb (fun b => b) m.
Proof. intros [|b m]; [reflexivity|]. cbn [length]. rewrite orb_false_r. reflexivity. Qed.

Lemma forallb_opt_match {A} : forall (q : option A) f, forallb (fun b => b) (opt_match q f) = crit q f.
Proof. intros [x|] f; cbn; [apply andb_true_r|reflexivity]. Qed.

Lemma match_list_spec : forall q g, forallb (fun b => b) (match_list q g) = matches q g.
Proof.
  intros q g. unfold match_list, matches. rewrite !forallb_app, !forallb_opt_match.
  rewrite <- !andb_assoc. do 5 f_equal.
  destruct (g_alg g) as [[[nm ver] fam]|].
  - rewrite !forallb_app, !forallb_opt_match. reflexivity.
  - destruct (q_name q), (q_version q), (q_family q); reflexivity.
Qed.

Lemma lookup_exact : forall gs q, get_groups gs q = filter (matches q) gs.
Proof.
  intros gs q. unfold get_groups. apply filter_ext. intros g. cbn zeta.
  rewrite all_or_empty. apply match_list_spec.
Qed.

Lemma lookup_exact_in : forall gs q g, In g (get_groups gs q) <-> In g gs /\ matches q g = true.
Proof. intros. rewrite lookup_exact. apply filter_In. Qed.

(* by number: the constructor numbers the groups 1..n, so number k is item k-1 *)
Lemma filter_numbered : forall gs i k, numbered_from i gs = true ->
  filter (fun g => g_number g =? k) gs =
  match nth_error gs (Z.to_nat (k - i)) with
  | Some g => if i <=? k then [g] else []
  | None => []
  end.
Proof.
  induction gs as [|g t IH]; intros i k H.
  - destruct (Z.to_nat (k - i)); reflexivity.
  - cbn [numbered_from] in H. apply andb_prop in H as [Hg Ht]. cbn [filter].
    specialize (IH (i + 1) k Ht).
    destruct (Z.compare_spec k i) as [E|E|E].
    + subst k. replace (g_number g =? i) with true by lia. replace (Z.to_nat (i - i)) with 0%nat by lia.
      cbn [nth_error]. replace (i <=? i) with true by lia. f_equal. rewrite IH.
      replace (i + 1 <=? i) with false by lia. destruct (nth_error t (Z.to_nat (i - (i + 1)))); reflexivity.
    + replace (g_number g =? k) with false by lia. replace (Z.to_nat (k - i)) with 0%nat by lia.
      cbn [nth_error]. replace (i <=? k) with false by lia. rewrite IH.
      replace (i + 1 <=? k) with false by lia. destruct (nth_error t (Z.to_nat (k - (i + 1)))); reflexivity.
    + replace (g_number g =? k) with false by lia.
      replace (Z.to_nat (k - i)) with (S (Z.to_nat (k - (i + 1)))) by lia. cbn [nth_error]. rewrite IH.
      replace (i + 1 <=? k) with true by lia. replace (i <=? k) with true by lia. reflexivity.
Qed.

Lemma lookup_by_number : forall gs k u, sop_accepts gs = true ->
  get_group gs (Some k) u =
  if (1 <=? k) && (k <=? zlen gs)
  then match nth_error gs (Z.to_nat (k - 1)) with Some g => Ok g | None => Err VE end
  else Err VE.
Proof.
  intros gs k u H. unfold get_group. rewrite (filter_numbered gs 1 k H).
  destruct (nth_error gs (Z.to_nat (k - 1))) as [g|] eqn:E.
  - assert (nth_error gs (Z.to_nat (k - 1)) <> None) as Hn by congruence.
    apply nth_error_Some in Hn. destruct (1 <=? k) eqn:E1; cbn [andb unique_or_err]; [|reflexivity].
    replace (k <=? zlen gs) with true by (unfold zlen; lia). reflexivity.
  - cbn [unique_or_err]. destruct ((1 <=? k) && (k <=? zlen gs)); reflexivity.
Qed.

Lemma numbered_nth : forall gs i j g, numbered_from i gs = true -> nth_error gs j = Some g ->
  g_number g = i + Z.of_nat j.
Proof.
  induction gs as [|x t IH]; intros i j g H Hj; [destruct j; discriminate|].
  cbn [numbered_from] in H. apply andb_prop in H as [Hx Ht]. destruct j as [|j]; cbn [nth_error] in Hj.
  - inversion Hj; subst. lia.
  - rewrite (IH (i + 1) j g Ht Hj). lia.
Qed.

Lemma lookup_by_number_found : forall gs k u, sop_accepts gs = true -> 1 <= k <= zlen gs ->
  exists g, nth_error gs (Z.to_nat (k - 1)) = Some g /\ g_number g = k /\ get_group gs (Some k) u = Ok g.
Proof.
  intros gs k u H Hk. rewrite (lookup_by_number gs k u H).
  replace ((1 <=? k) && (k <=? zlen gs)) with true by lia.
  destruct (nth_error gs (Z.to_nat (k - 1))) as [g|] eqn:E.
  - exists g. repeat split. rewrite (numbered_nth gs 1 _ g H E). lia.
  - apply nth_error_None in E. unfold zlen in Hk. lia.
Qed.

Lemma lookup_by_number_missing : forall gs k u, sop_accepts gs = true -> (k < 1 \/ zlen gs < k) ->
  get_group gs (Some k) u = Err VE.
Proof.
  intros gs k u H Hk. rewrite (lookup_by_number gs k u H).
  replace ((1 <=? k) && (k <=? zlen gs)) with false by lia. reflexivity.
Qed.

(* by uid *)
Lemma lookup_by_uid_sound : forall gs u g, get_group gs None (Some u) = Ok g -> In g gs /\ g_uid g = u.
Proof.
  intros gs u g H. unfold get_group in H.
  destruct (filter (fun g0 => g_uid g0 =? u) gs) as [|x [|y l]] eqn:E; cbn [unique_or_err] in H; try discriminate.
  inversion H; subst. assert (Hin : In g (filter (fun g0 => g_uid g0 =? u) gs)) by (rewrite E; now left).
  apply filter_In in Hin as [H1 H2]. split; [exact H1|lia].
Qed.

Lemma filter_absent_key : forall (t : list ginfo) u, ~ In u (map g_uid t) ->
  filter (fun g0 => g_uid g0 =? u) t = [].
Proof.
  induction t as [|z t' IHt]; intros u Hy; [reflexivity|]. cbn [filter].
  destruct (g_uid z =? u) eqn:E.
  - exfalso. apply Hy. left. lia.
  - apply IHt. intros Hc. apply Hy. now right.
Qed.

Lemma filter_unique_key : forall (gs : list ginfo) g, NoDup (map g_uid gs) -> In g gs ->
  filter (fun g0 => g_uid g0 =? g_uid g) gs = [g].
Proof.
  induction gs as [|x t IH]; intros g Hnd Hin; [contradiction|].
  cbn [map] in Hnd. inversion Hnd as [|? ? Hnotin Hnd']; subst. cbn [filter].
  destruct Hin as [->|Hin].
  - replace (g_uid g =? g_uid g) with true by lia. f_equal. now apply filter_absent_key.
  - destruct (g_uid x =? g_uid g) eqn:E.
    + exfalso. apply Hnotin. replace (g_uid x) with (g_uid g) by lia. now apply in_map.
    + now apply IH.
Qed.

Lemma lookup_by_uid_complete : forall gs g, NoDup (map g_uid gs) -> In g gs ->
  get_group gs None (Some (g_uid g)) = Ok g.
Proof. intros gs g Hnd Hin. unfold get_group. now rewrite filter_unique_key. Qed.

Lemma lookup_needs_a_key : forall gs, get_group gs None None = Err "TypeError".
Proof. reflexivity. Qed.

(* ---- parsed sparse vectors: exact acceptance condition of get_values ------------------------ *)
Lemma scatter_in_range : forall n idx vals acc,
  (forall i, In i idx -> 0 <= i < n) -> exists out, scatter n idx vals acc = Ok out.
Proof.
  intros n idx. induction idx as [|i t IH]; intros vals acc H; [destruct vals; cbn; eauto|].
  destruct vals as [|v vals']; [cbn; eauto|]. cbn [scatter].
  assert (0 <= i < n) by (apply H; now left).
  replace (i <? 0) with false by lia. replace ((i <? 0) || (n <=? i)) with false by lia.
  apply IH. intros j Hj. apply H. now right.
Qed.

Lemma sparse_parsed_iff : forall vs n, 0 <= n -> existsb (is_nan false) vs = true ->
  (m_decode (m_parsed (m_encode vs)) n = Err "IndexError" <->
   exists p, In p (positions_from 1 present vs) /\ n < p).
Proof.
  intros vs n Hn En. split.
  - intros H.
    destruct (existsb (fun p => n <? p) (positions_from 1 present vs)) eqn:Ex.
    + apply existsb_exists in Ex as (p & Hp & Hlt). exists p. split; [exact Hp|lia].
    + exfalso. unfold m_decode, m_parsed in H. rewrite m_encode_eq in H. cbn [m_idx m_values] in H.
      rewrite En in H. replace (n <? 0) with false in H by lia. rewrite positions_shift1 in H.
      replace (zlen (filter present vs) =? zlen (positions_from 0 present vs)) with true in H
        by (unfold zlen; rewrite length_positions; lia).
      cbn [negb] in H.
      destruct (scatter_in_range n (positions_from 0 present vs) (filter present vs)
                  (repeat canonical_nan32 (Z.to_nat n))) as (out & Hout).
      * intros i Hi. split; [now apply positions_ge in Hi|].
        rewrite <- positions_shift1 in Hi. apply in_map_iff in Hi as (p & <- & Hp).
        assert (Hf : (n <? p) = false).
        { destruct (n <? p) eqn:E; [|reflexivity].
          assert (existsb (fun p => n <? p) (positions_from 1 present vs) = true)
            by (apply existsb_exists; eauto). congruence. }
        lia.
      * congruence.
  - intros (p & Hp & Hlt). now apply (sparse_parsed_beyond vs n p).
Qed.
