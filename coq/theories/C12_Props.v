(* C12 - property theorems.  Nothing but statements, `exact <lemma>` and
   Print Assumptions.  Hypotheses: sizes >= 1 (what the library accepts). *)
From Coq Require Import String ZArith List Bool QArith.
From HD Require Import Base.Val C12_Model C12_Proofs.
Import ListNotations.
Open Scope Z_scope.

(* the two enumerations are the same row-major grid *)
Theorem C12_same_grid : forall R C th tw, 1 <= R -> 1 <= C -> 1 <= th -> 1 <= tw ->
  tile_offsets R C th tw = grid R C th tw /\
  map (fun t => ((fst t - 1) * tw + 1, (snd t - 1) * th + 1)) (tile_pixel_matrix R C th tw) = grid R C th tw.
Proof. intros. split; [now apply tile_offsets_is_grid | apply tile_pixel_matrix_is_grid]. Qed.
Print Assumptions C12_same_grid.

Theorem C12_grid_membership : forall R C th tw pc pr,
  In (pc, pr) (grid R C th tw) <->
  exists a b, 0 <= a < cdiv R th /\ 0 <= b < cdiv C tw /\ pc = b * tw + 1 /\ pr = a * th + 1.
Proof. exact in_grid. Qed.
Print Assumptions C12_grid_membership.

Theorem C12_count : forall R C th tw, 1 <= R -> 1 <= C -> 1 <= th -> 1 <= tw ->
  Z.of_nat (length (grid R C th tw)) = cdiv R th * cdiv C tw.
Proof. exact grid_count. Qed.
Print Assumptions C12_count.

Theorem C12_no_duplicate_tiles : forall R C th tw, 1 <= th -> 1 <= tw -> NoDup (grid R C th tw).
Proof. exact grid_NoDup. Qed.
Print Assumptions C12_no_duplicate_tiles.

Theorem C12_cover_exists : forall R C th tw r c, 1 <= th -> 1 <= tw -> 1 <= r <= R -> 1 <= c <= C ->
  In (tile_of tw c, tile_of th r) (grid R C th tw) /\
  tile_of th r <= r < tile_of th r + th /\ tile_of tw c <= c < tile_of tw c + tw.
Proof. exact cover_exists. Qed.
Print Assumptions C12_cover_exists.

Theorem C12_cover_unique : forall R C th tw r c pc pr, 1 <= th -> 1 <= tw ->
  In (pc, pr) (grid R C th tw) -> pr <= r < pr + th -> pc <= c < pc + tw ->
  pc = tile_of tw c /\ pr = tile_of th r.
Proof. exact cover_unique. Qed.
Print Assumptions C12_cover_unique.

Theorem C12_positions_are_transforms : forall R C th tw pos rc cc spr spc o p,
  In (o, p) (tile_positions R C th tw pos rc cc spr spc) ->
  In o (tile_offsets R C th tw) /\ p = pix2ref pos rc cc spr spc (fst o - 1) (snd o - 1).
Proof. exact positions_are_transforms. Qed.
Print Assumptions C12_positions_are_transforms.

Theorem C12_single_tile_helper_agrees : forall R C th tw x y rc cc spr spc a b,
  1 <= R -> 1 <= C -> 1 <= th -> 1 <= tw -> 0 <= a < cdiv R th -> 0 <= b < cdiv C tw ->
  exists o p, plane_position_tiled_full (a + 1) (b + 1) x y th tw rc cc spr spc None = Ok (o, p) /\
              In (o, p) (tile_positions R C th tw (V3 x y 0) rc cc spr spc).
Proof. exact plane_position_agrees. Qed.
Print Assumptions C12_single_tile_helper_agrees.

Theorem C12_single_tile_helper_refuses : forall ri ci x y th tw rc cc spr spc sl,
  (ri < 1 \/ ci < 1) <-> plane_position_tiled_full ri ci x y th tw rc cc spr spc sl = Err "ValueError"%string.
Proof. exact plane_position_refuses. Qed.
Print Assumptions C12_single_tile_helper_refuses.

Theorem C12_tiled_full_iff : forall ps th tw,
  are_tiled_full ps th tw = true <->
  ps = expected_positions (max_from (-1) (map fst ps)) (max_from (-1) (map snd ps)) th tw.
Proof. exact tiled_full_iff. Qed.
Print Assumptions C12_tiled_full_iff.

Theorem C12_tiled_full_complete : forall R C th tw, 1 <= R -> 1 <= C -> 1 <= th -> 1 <= tw ->
  are_tiled_full (grid_rc R C th tw) th tw = true.
Proof. exact tiled_full_complete. Qed.
Print Assumptions C12_tiled_full_complete.

Theorem C12_tiled_full_no_duplicates : forall ps th tw, 1 <= th -> 1 <= tw ->
  are_tiled_full ps th tw = true -> NoDup ps.
Proof. exact tiled_full_NoDup. Qed.
Print Assumptions C12_tiled_full_no_duplicates.

Theorem C12_tile_cell : forall M R C ro co th tw a b T, wf_matrix M R C ->
  1 <= th -> 1 <= tw -> 0 <= a < th -> 0 <= b < tw ->
  get_tile_array M R C ro co th tw true = Ok T ->
  cell T a b = if (ro - 1 + a <? R) && (co - 1 + b <? C) then cell M (ro - 1 + a) (co - 1 + b) else 0.
Proof. exact tile_cell. Qed.
Print Assumptions C12_tile_cell.

Theorem C12_cut_paste_identity : forall M R C th tw r c T, wf_matrix M R C ->
  1 <= th -> 1 <= tw -> 1 <= r <= R -> 1 <= c <= C ->
  get_tile_array M R C (tile_of th r) (tile_of tw c) th tw true = Ok T ->
  cell T (r - tile_of th r) (c - tile_of tw c) = cell M (r - 1) (c - 1).
Proof. exact cut_paste_identity. Qed.
Print Assumptions C12_cut_paste_identity.

Theorem C12_tile_array_total_on_grid : forall M R C th tw pc pr, 1 <= R -> 1 <= C -> 1 <= th -> 1 <= tw ->
  In (pc, pr) (grid R C th tw) -> exists T, get_tile_array M R C pr pc th tw true = Ok T.
Proof. exact tile_array_accepts_grid. Qed.
Print Assumptions C12_tile_array_total_on_grid.

Theorem C12_tile_array_refuses : forall M R C ro co th tw pad,
  (ro < 1 \/ R < ro \/ co < 1 \/ C < co) <-> get_tile_array M R C ro co th tw pad = Err "ValueError"%string.
Proof. exact tile_array_refuses. Qed.
Print Assumptions C12_tile_array_refuses.

(* non-vacuity: a concrete non-trivial instance meets the hypotheses *)
Example C12_example : wf_matrix [[1;2;3];[4;5;6];[7;8;9];[10;11;12];[13;14;15]] 5 3 /\
  grid 5 3 2 2 = [(1,1);(3,1);(1,3);(3,3);(1,5);(3,5)] /\
  get_tile_array [[1;2;3];[4;5;6];[7;8;9];[10;11;12];[13;14;15]] 5 3 5 3 2 2 true = Ok [[15;0];[0;0]].
Proof. split; [split; [reflexivity|intros row H; repeat (destruct H as [<-|H]; [reflexivity|]); contradiction]|split; reflexivity]. Qed.
Print Assumptions C12_example.
