(* C12 - property theorems.  Nothing but statements, `exact <lemma>` and
   Print Assumptions.  Hypotheses: sizes >= 1 (what the library accepts). *)
From Coq Require Import String ZArith List Bool QArith Permutation.
From HD Require Import Base.Val C12_Model C12_Proofs C12_Proofs_Ext C12_Proofs_Ext2 C12_Proofs_Geom.
Import ListNotations.
Open Scope Z_scope.

(* the two enumerations are the same row-major grid *)
Theorem C12_same_grid : forall R C th tw, 1 <= R -> 1 <= C -> 1 <= th -> 1 <= tw ->
  tile_offsets R C th tw = grid R C th tw /\
  map (fun t => ((fst t - 1) * tw + 1, (snd t - 1) * th + 1)) (tile_pixel_matrix R C th tw) = grid R C th tw.
Proof. intros. split; [now apply tile_offsets_is_grid | apply tile_pixel_matrix_is_grid]. Qed.
Print Assumptions C12_same_grid.

Theorem C12_grid_membership : forall R C th tw pc pr,
  In (pc, pr) (grid R C th tw) <->
  exists a b, 0 <= a < cdiv R th /\ 0 <= b < cdiv C tw /\ pc = b * tw + 1 /\ pr = a * th + 1.
Proof. exact in_grid. Qed.
Print Assumptions C12_grid_membership.

Theorem C12_count : forall R C th tw, 1 <= R -> 1 <= C -> 1 <= th -> 1 <= tw ->
  Z.of_nat (length (grid R C th tw)) = cdiv R th * cdiv C tw.
Proof. exact grid_count. Qed.
Print Assumptions C12_count.

Theorem C12_no_duplicate_tiles : forall R C th tw, 1 <= th -> 1 <= tw -> NoDup (grid R C th tw).
Proof. exact grid_NoDup. Qed.
Print Assumptions C12_no_duplicate_tiles.

Theorem C12_cover_exists : forall R C th tw r c, 1 <= th -> 1 <= tw -> 1 <= r <= R -> 1 <= c <= C ->
  In (tile_of tw c, tile_of th r) (grid R C th tw) /\
  tile_of th r <= r < tile_of th r + th /\ tile_of tw c <= c < tile_of tw c + tw.
Proof. exact cover_exists. Qed.
Print Assumptions C12_cover_exists.

Theorem C12_cover_unique : forall R C th tw r c pc pr, 1 <= th -> 1 <= tw ->
  In (pc, pr) (grid R C th tw) -> pr <= r < pr + th -> pc <= c < pc + tw ->
  pc = tile_of tw c /\ pr = tile_of th r.
Proof. exact cover_unique. Qed.
Print Assumptions C12_cover_unique.

Theorem C12_positions_are_transforms : forall R C th tw pos rc cc spr spc o p,
  In (o, p) (tile_positions R C th tw pos rc cc spr spc) ->
  In o (tile_offsets R C th tw) /\ p = pix2ref pos rc cc spr spc (fst o - 1) (snd o - 1).
Proof. exact positions_are_transforms. Qed.
Print Assumptions C12_positions_are_transforms.

Theorem C12_single_tile_helper_agrees : forall R C th tw x y rc cc spr spc a b,
  1 <= R -> 1 <= C -> 1 <= th -> 1 <= tw -> 0 <= a < cdiv R th -> 0 <= b < cdiv C tw ->
  exists o p, plane_position_tiled_full (a + 1) (b + 1) x y th tw rc cc spr spc None = Ok (o, p) /\
              In (o, p) (tile_positions R C th tw (V3 x y 0) rc cc spr spc).
Proof. exact plane_position_agrees. Qed.
Print Assumptions C12_single_tile_helper_agrees.

Theorem C12_single_tile_helper_refuses : forall ri ci x y th tw rc cc spr spc sl,
  (ri < 1 \/ ci < 1) <-> plane_position_tiled_full ri ci x y th tw rc cc spr spc sl = Err "ValueError"%string.
Proof. exact plane_position_refuses. Qed.
Print Assumptions C12_single_tile_helper_refuses.

Theorem C12_tiled_full_iff : forall ps th tw,
  are_tiled_full ps th tw = true <->
  ps = expected_positions (max_from (-1) (map fst ps)) (max_from (-1) (map snd ps)) th tw.
Proof. exact tiled_full_iff. Qed.
Print Assumptions C12_tiled_full_iff.

Theorem C12_tiled_full_complete : forall R C th tw, 1 <= R -> 1 <= C -> 1 <= th -> 1 <= tw ->
  are_tiled_full (grid_rc R C th tw) th tw = true.
Proof. exact tiled_full_complete. Qed.
Print Assumptions C12_tiled_full_complete.

Theorem C12_tiled_full_no_duplicates : forall ps th tw, 1 <= th -> 1 <= tw ->
  are_tiled_full ps th tw = true -> NoDup ps.
Proof. exact tiled_full_NoDup. Qed.
Print Assumptions C12_tiled_full_no_duplicates.

Theorem C12_tile_cell : forall M R C ro co th tw a b T, wf_matrix M R C ->
  1 <= th -> 1 <= tw -> 0 <= a < th -> 0 <= b < tw ->
  get_tile_array M R C ro co th tw true = Ok T ->
  cell T a b = if (ro - 1 + a <? R) && (co - 1 + b <? C) then cell M (ro - 1 + a) (co - 1 + b) else 0.
Proof. exact tile_cell. Qed.
Print Assumptions C12_tile_cell.

Theorem C12_cut_paste_identity : forall M R C th tw r c T, wf_matrix M R C ->
  1 <= th -> 1 <= tw -> 1 <= r <= R -> 1 <= c <= C ->
  get_tile_array M R C (tile_of th r) (tile_of tw c) th tw true = Ok T ->
  cell T (r - tile_of th r) (c - tile_of tw c) = cell M (r - 1) (c - 1).
Proof. exact cut_paste_identity. Qed.
Print Assumptions C12_cut_paste_identity.

Theorem C12_tile_array_total_on_grid : forall M R C th tw pc pr, 1 <= R -> 1 <= C -> 1 <= th -> 1 <= tw ->
  In (pc, pr) (grid R C th tw) -> exists T, get_tile_array M R C pr pc th tw true = Ok T.
Proof. exact tile_array_accepts_grid. Qed.
Print Assumptions C12_tile_array_total_on_grid.

Theorem C12_tile_array_refuses : forall M R C ro co th tw pad,
  (ro < 1 \/ R < ro \/ co < 1 \/ C < co) <-> get_tile_array M R C ro co th tw pad = Err "ValueError"%string.
Proof. exact tile_array_refuses. Qed.
Print Assumptions C12_tile_array_refuses.

(* non-vacuity: a concrete non-trivial instance meets the hypotheses *)
Example C12_example : wf_matrix [[1;2;3];[4;5;6];[7;8;9];[10;11;12];[13;14;15]] 5 3 /\
  grid 5 3 2 2 = [(1,1);(3,1);(1,3);(3,3);(1,5);(3,5)] /\
  get_tile_array [[1;2;3];[4;5;6];[7;8;9];[10;11;12];[13;14;15]] 5 3 5 3 2 2 true = Ok [[15;0];[0;0]].
Proof. split; [split; [reflexivity|intros row H; repeat (destruct H as [<-|H]; [reflexivity|]); contradiction]|split; reflexivity]. Qed.
Print Assumptions C12_example.

(* ====================================================================== *)
(* extension: full-tiling predicate against a matrix                        *)
(* ====================================================================== *)
Theorem C12_tiled_full_sound : forall ps th tw, 1 <= th -> 1 <= tw -> ps <> [] ->
  are_tiled_full ps th tw = true ->
  1 <= max_from (-1) (map fst ps) /\ 1 <= max_from (-1) (map snd ps) /\
  ps = grid_rc (max_from (-1) (map fst ps)) (max_from (-1) (map snd ps)) th tw.
Proof. exact tiled_full_sound. Qed.
Print Assumptions C12_tiled_full_sound.

Theorem C12_tiled_full_grid_iff : forall ps R C th tw, 1 <= R -> 1 <= C -> 1 <= th -> 1 <= tw ->
  (are_tiled_full ps th tw = true /\
   max_from (-1) (map fst ps) = last_off R th /\ max_from (-1) (map snd ps) = last_off C tw)
  <-> ps = grid_rc R C th tw.
Proof. exact tiled_full_grid_iff. Qed.
Print Assumptions C12_tiled_full_grid_iff.

Theorem C12_tiled_full_accepts_offsets : forall R C th tw, 1 <= R -> 1 <= C -> 1 <= th -> 1 <= tw ->
  are_tiled_full (map swap (tile_offsets R C th tw)) th tw = true.
Proof. exact tiled_full_accepts_offsets. Qed.
Print Assumptions C12_tiled_full_accepts_offsets.

Theorem C12_tiled_full_perm_unique : forall ps ps' th tw, Permutation ps ps' ->
  are_tiled_full ps th tw = true -> are_tiled_full ps' th tw = true -> ps = ps'.
Proof. exact tiled_full_perm_unique. Qed.
Print Assumptions C12_tiled_full_perm_unique.

Theorem C12_tiled_full_refuses_permuted : forall ps R C th tw, 1 <= R -> 1 <= C -> 1 <= th -> 1 <= tw ->
  Permutation ps (grid_rc R C th tw) -> ps <> grid_rc R C th tw -> are_tiled_full ps th tw = false.
Proof. exact tiled_full_refuses_permuted. Qed.
Print Assumptions C12_tiled_full_refuses_permuted.

Theorem C12_tiled_full_refuses_incomplete : forall ps R C th tw, 1 <= R -> 1 <= C -> 1 <= th -> 1 <= tw ->
  max_from (-1) (map fst ps) = last_off R th -> max_from (-1) (map snd ps) = last_off C tw ->
  ps <> grid_rc R C th tw -> are_tiled_full ps th tw = false.
Proof. exact tiled_full_refuses_incomplete. Qed.
Print Assumptions C12_tiled_full_refuses_incomplete.

Theorem C12_tiled_full_code_refines : forall ps th tw, are_tiled_full_code ps th tw = are_tiled_full ps th tw.
Proof. exact tiled_full_code_refines. Qed.
Print Assumptions C12_tiled_full_code_refines.

(* ====================================================================== *)
(* extension: per-frame data of the TILED_FULL organisation                 *)
(* ====================================================================== *)
Theorem C12_iter_structure : forall nch nfp R C th tw x y rc cc spr spc sbs,
  1 <= R -> 1 <= C -> 1 <= th -> 1 <= tw ->
  iter_tiled_full nch nfp R C th tw x y rc cc spr spc sbs =
  flat_map (fun ch => flat_map (fun k =>
      map (fun o => (ch + 1, k + 1, o, pix2ref (V3 x y (inject_Z k * sbs)) rc cc spr spc (fst o - 1) (snd o - 1)))
          (grid R C th tw)) (zrange nfp)) (zrange nch).
Proof. exact iter_structure. Qed.
Print Assumptions C12_iter_structure.

Theorem C12_iter_count : forall nch nfp R C th tw x y rc cc spr spc sbs,
  0 <= nch -> 0 <= nfp -> 1 <= R -> 1 <= C -> 1 <= th -> 1 <= tw ->
  Z.of_nat (length (iter_tiled_full nch nfp R C th tw x y rc cc spr spc sbs)) =
  nch * nfp * (cdiv R th * cdiv C tw).
Proof. exact iter_count. Qed.
Print Assumptions C12_iter_count.

Theorem C12_iter_membership : forall nch nfp R C th tw x y rc cc spr spc sbs ch k o p,
  1 <= R -> 1 <= C -> 1 <= th -> 1 <= tw ->
  (In (ch, k, o, p) (iter_tiled_full nch nfp R C th tw x y rc cc spr spc sbs) <->
   1 <= ch <= nch /\ 1 <= k <= nfp /\ In o (grid R C th tw) /\
   p = pix2ref (V3 x y (inject_Z (k - 1) * sbs)) rc cc spr spc (fst o - 1) (snd o - 1)).
Proof. exact iter_membership. Qed.
Print Assumptions C12_iter_membership.

Theorem C12_iter_frame_index : forall nch nfp R C th tw x y rc cc spr spc sbs ch k j o,
  1 <= R -> 1 <= C -> 1 <= th -> 1 <= tw -> 0 <= ch < nch -> 0 <= k < nfp ->
  nth_error (grid R C th tw) j = Some o ->
  nth_error (iter_tiled_full nch nfp R C th tw x y rc cc spr spc sbs)
            ((Z.to_nat ch * Z.to_nat nfp + Z.to_nat k) * length (grid R C th tw) + j) =
  Some (ch + 1, k + 1, o, pix2ref (V3 x y (inject_Z k * sbs)) rc cc spr spc (fst o - 1) (snd o - 1)).
Proof. exact iter_frame_index. Qed.
Print Assumptions C12_iter_frame_index.

Theorem C12_iter_ds_refuses : forall d,
  iter_tiled_full_ds d = Err "ValueError"%string <-> (ds_sop d = SC_OTHER \/ ds_dim_org d <> Some true).
Proof. exact iter_ds_refuses. Qed.
Print Assumptions C12_iter_ds_refuses.

Theorem C12_iter_ds_membership : forall d l ch k o p, ds_sizes_ok d -> iter_tiled_full_ds d = Ok l ->
  (In (ch, k, o, p) l <->
   In ch (ds_channels d) /\ 1 <= k <= opt_default 1 (ds_nfp d) /\ In o (ds_grid d) /\ p = ds_pos d (k - 1) o).
Proof. exact iter_ds_membership. Qed.
Print Assumptions C12_iter_ds_membership.

Theorem C12_iter_ds_frame : forall d l i k j ch o, ds_sizes_ok d -> iter_tiled_full_ds d = Ok l ->
  nth_error (ds_channels d) i = Some ch -> 0 <= k < opt_default 1 (ds_nfp d) ->
  nth_error (ds_grid d) j = Some o ->
  nth_error l ((i * Z.to_nat (opt_default 1%Z (ds_nfp d)) + Z.to_nat k) * length (ds_grid d) + j)
  = Some (ch, k + 1, o, ds_pos d k o).
Proof. exact iter_ds_frame. Qed.
Print Assumptions C12_iter_ds_frame.

Theorem C12_iter_ds_count : forall d l, ds_sizes_ok d -> iter_tiled_full_ds d = Ok l ->
  length l = (length (ds_channels d) * (Z.to_nat (opt_default 1%Z (ds_nfp d)) * length (ds_grid d)))%nat.
Proof. exact iter_ds_count. Qed.
Print Assumptions C12_iter_ds_count.

Theorem C12_ds_channels : forall d ch, In ch (ds_channels d) <->
  match ds_sop d with
  | SC_SEG | SC_LABELMAP_SEG =>
      if ds_labelmap d then ch = None else exists c, ch = Some c /\ 1 <= c <= ds_nseg d
  | _ => exists c, ch = Some c /\ 1 <= c <= opt_default (ds_len_ops d) (ds_nop d)
  end.
Proof. exact ds_channels_spec. Qed.
Print Assumptions C12_ds_channels.

Theorem C12_slide_per_frame_frame : forall d l i k j ch o, ds_sizes_ok d -> slide_per_frame d = Ok l ->
  nth_error (ds_channels d) i = Some ch -> 0 <= k < opt_default 1 (ds_nfp d) ->
  nth_error (ds_grid d) j = Some o ->
  nth_error l ((i * Z.to_nat (opt_default 1%Z (ds_nfp d)) + Z.to_nat k) * length (ds_grid d) + j)
  = Some (o, ds_pos d k o).
Proof. exact slide_per_frame_frame. Qed.
Print Assumptions C12_slide_per_frame_frame.

Theorem C12_slide_per_frame_count : forall d l, ds_sizes_ok d -> slide_per_frame d = Ok l ->
  length l = (length (ds_channels d) * (Z.to_nat (opt_default 1%Z (ds_nfp d)) * length (ds_grid d)))%nat.
Proof. exact slide_per_frame_count. Qed.
Print Assumptions C12_slide_per_frame_count.

Theorem C12_single_tile_helper_agrees_3d : forall nch nfp R C th tw x y rc cc spr spc sbs ch k a b,
  1 <= R -> 1 <= C -> 1 <= th -> 1 <= tw -> 1 <= ch <= nch -> 1 <= k <= nfp ->
  0 <= a < cdiv R th -> 0 <= b < cdiv C tw ->
  exists o p, plane_position_tiled_full (a + 1) (b + 1) x y th tw rc cc spr spc (Some (k, sbs)) = Ok (o, p) /\
              o = (b * tw + 1, a * th + 1) /\
              In (ch, k, o, p) (iter_tiled_full nch nfp R C th tw x y rc cc spr spc sbs).
Proof. exact plane_position_agrees_iter. Qed.
Print Assumptions C12_single_tile_helper_agrees_3d.

Theorem C12_iter_frames_from_helper : forall nch nfp R C th tw x y rc cc spr spc sbs ch k o p,
  1 <= R -> 1 <= C -> 1 <= th -> 1 <= tw ->
  In (ch, k, o, p) (iter_tiled_full nch nfp R C th tw x y rc cc spr spc sbs) ->
  exists a b, 0 <= a < cdiv R th /\ 0 <= b < cdiv C tw /\
    plane_position_tiled_full (a + 1) (b + 1) x y th tw rc cc spr spc (Some (k, sbs)) = Ok (o, p).
Proof. exact iter_frames_from_helper. Qed.
Print Assumptions C12_iter_frames_from_helper.

(* ====================================================================== *)
(* extension: guards of the checked entry points, affine-matrix form        *)
(* ====================================================================== *)
Theorem C12_positions_guards_ok : forall npos nori nsp R C th tw pos rc cc spr spc l,
  tile_positions_chk npos nori nsp R C th tw pos rc cc spr spc = Ok l <->
  (npos = 3 /\ nori = 6 /\ nsp = 2 /\ th <> 0 /\ tw <> 0 /\ (0 < spr /\ 0 < spc)%Q /\
   l = tile_positions R C th tw pos rc cc spr spc).
Proof. exact tile_positions_chk_ok. Qed.
Print Assumptions C12_positions_guards_ok.

Theorem C12_positions_guards_errors : forall npos nori nsp R C th tw pos rc cc spr spc,
  (tile_positions_chk npos nori nsp R C th tw pos rc cc spr spc = Err "ZeroDivisionError"%string <->
   npos = 3 /\ nori = 6 /\ nsp = 2 /\ (th = 0 \/ tw = 0)) /\
  (tile_positions_chk npos nori nsp R C th tw pos rc cc spr spc = Err "ValueError"%string <->
   npos <> 3 \/ nori <> 6 \/ nsp <> 2 \/ (th <> 0 /\ tw <> 0 /\ bad_spacing spr spc = true)).
Proof. exact tile_positions_chk_errors. Qed.
Print Assumptions C12_positions_guards_errors.

Theorem C12_single_tile_helper_errors : forall ri ci x y th tw rc cc spr spc sidx sbs,
  (plane_position_tiled_full2 ri ci x y th tw rc cc spr spc sidx sbs = Err "TypeError"%string <->
   1 <= ri /\ 1 <= ci /\ ((sidx = None /\ sbs <> None) \/ (sidx <> None /\ sbs = None))) /\
  (plane_position_tiled_full2 ri ci x y th tw rc cc spr spc sidx sbs = Err "ValueError"%string <->
   ri < 1 \/ ci < 1 \/ (((sidx = None /\ sbs = None) \/ (sidx <> None /\ sbs <> None)) /\ bad_spacing spr spc = true)).
Proof. exact plane_position2_errors. Qed.
Print Assumptions C12_single_tile_helper_errors.

Theorem C12_single_tile_helper_checked : forall ri ci x y th tw rc cc spr spc k s,
  1 <= ri -> 1 <= ci -> bad_spacing spr spc = false ->
  plane_position_tiled_full2 ri ci x y th tw rc cc spr spc (Some k) (Some s) =
    plane_position_tiled_full ri ci x y th tw rc cc spr spc (Some (k, s)) /\
  plane_position_tiled_full2 ri ci x y th tw rc cc spr spc None None =
    plane_position_tiled_full ri ci x y th tw rc cc spr spc None.
Proof. exact plane_position2_ok. Qed.
Print Assumptions C12_single_tile_helper_checked.

Theorem C12_affine_is_transform : forall pos rc cc spr spc c r,
  veq (affine_apply (affine_matrix pos rc cc spr spc) c r) (pix2ref pos rc cc spr spc c r).
Proof. exact affine_is_pix2ref. Qed.
Print Assumptions C12_affine_is_transform.

(* ====================================================================== *)
(* extension: tile shapes, unpadded tiles, the round trip as a list identity *)
(* ====================================================================== *)
Theorem C12_tile_shape_padded : forall M R C ro co th tw T, wf_matrix M R C -> 0 <= th -> 0 <= tw ->
  get_tile_array M R C ro co th tw true = Ok T -> wf_matrix T th tw.
Proof. exact tile_shape_padded. Qed.
Print Assumptions C12_tile_shape_padded.

Theorem C12_tile_shape_unpadded : forall M R C ro co th tw T, wf_matrix M R C -> 0 <= th -> 0 <= tw ->
  get_tile_array M R C ro co th tw false = Ok T ->
  wf_matrix T (Z.min th (R - ro + 1)) (Z.min tw (C - co + 1)).
Proof. exact tile_shape_unpadded. Qed.
Print Assumptions C12_tile_shape_unpadded.

Theorem C12_tile_cell_unpadded : forall M R C ro co th tw a b T, wf_matrix M R C ->
  0 <= a < Z.min th (R - ro + 1) -> 0 <= b < Z.min tw (C - co + 1) ->
  get_tile_array M R C ro co th tw false = Ok T ->
  cell T a b = cell M (ro - 1 + a) (co - 1 + b).
Proof. exact tile_cell_unpadded. Qed.
Print Assumptions C12_tile_cell_unpadded.

Theorem C12_cut_paste_roundtrip : forall M R C th tw, wf_matrix M R C -> 1 <= R -> 1 <= C -> 1 <= th -> 1 <= tw ->
  paste_all R C th tw (cut_all M R C th tw true) = M.
Proof. exact cut_paste_roundtrip. Qed.
Print Assumptions C12_cut_paste_roundtrip.

Theorem C12_cut_all_tiles : forall M R C th tw o t, wf_matrix M R C -> 1 <= R -> 1 <= C -> 1 <= th -> 1 <= tw ->
  In (o, t) (cut_all M R C th tw true) ->
  In o (grid R C th tw) /\ exists T, t = Ok T /\ wf_matrix T th tw.
Proof. exact cut_all_tiles. Qed.
Print Assumptions C12_cut_all_tiles.

(* ====================================================================== *)
(* the property sentence as ONE theorem                                     *)
(* ====================================================================== *)
Theorem C12_one_tiling : forall R C th tw nch nfp x y rc cc spr spc sbs M,
  1 <= R -> 1 <= C -> 1 <= th -> 1 <= tw -> 0 <= nch -> 0 <= nfp -> wf_matrix M R C ->
  tile_offsets R C th tw = grid R C th tw /\
  map (fun t => ((fst t - 1) * tw + 1, (snd t - 1) * th + 1)) (tile_pixel_matrix R C th tw) = grid R C th tw /\
  map fst (tile_positions R C th tw (V3 x y 0) rc cc spr spc) = grid R C th tw /\
  iter_tiled_full nch nfp R C th tw x y rc cc spr spc sbs =
    flat_map (fun ch => flat_map (fun k =>
      map (fun o => (ch + 1, k + 1, o, pix2ref (V3 x y (inject_Z k * sbs)) rc cc spr spc (fst o - 1) (snd o - 1)))
          (grid R C th tw)) (zrange nfp)) (zrange nch) /\
  (forall ps, (are_tiled_full ps th tw = true /\ max_from (-1) (map fst ps) = last_off R th /\
               max_from (-1) (map snd ps) = last_off C tw) <-> ps = map swap (grid R C th tw)) /\
  (forall pc pr, In (pc, pr) (grid R C th tw) <->
     exists a b, 0 <= a < cdiv R th /\ 0 <= b < cdiv C tw /\ pc = b * tw + 1 /\ pr = a * th + 1) /\
  NoDup (grid R C th tw) /\
  Z.of_nat (length (grid R C th tw)) = cdiv R th * cdiv C tw /\
  Z.of_nat (length (iter_tiled_full nch nfp R C th tw x y rc cc spr spc sbs)) = nch * nfp * (cdiv R th * cdiv C tw) /\
  (forall r c, 1 <= r <= R -> 1 <= c <= C ->
     exists! o, In o (grid R C th tw) /\ snd o <= r < snd o + th /\ fst o <= c < fst o + tw) /\
  (forall pos o p, In (o, p) (tile_positions R C th tw pos rc cc spr spc) ->
     p = pix2ref pos rc cc spr spc (fst o - 1) (snd o - 1)) /\
  paste_all R C th tw (cut_all M R C th tw true) = M /\
  (forall o t, In (o, t) (cut_all M R C th tw true) -> exists T, t = Ok T /\ wf_matrix T th tw).
Proof. exact one_tiling. Qed.
Print Assumptions C12_one_tiling.

(* non-vacuity of the extension *)
Example C12_example_roundtrip : wf_matrix exM 5 3 /\
  map fst (cut_all exM 5 3 2 2 true) = [(1,1);(3,1);(1,3);(3,3);(1,5);(3,5)] /\
  nth 5 (map snd (cut_all exM 5 3 2 2 true)) (Err "") = Ok [[15;0];[0;0]] /\
  paste_all 5 3 2 2 (cut_all exM 5 3 2 2 true) = exM.
Proof. exact ex_roundtrip. Qed.
Print Assumptions C12_example_roundtrip.

Example C12_example_tiled_full :
  are_tiled_full [(1,1);(1,3);(3,1);(3,3);(5,1);(5,3)] 2 2 = true /\
  [(1,1);(1,3);(3,1);(3,3);(5,1);(5,3)] = map swap (grid 5 3 2 2) /\
  are_tiled_full [(1,1);(3,1);(1,3);(3,3);(5,1);(5,3)] 2 2 = false /\
  are_tiled_full [(1,1);(1,3);(3,3);(5,1);(5,3)] 2 2 = false /\
  are_tiled_full [(1,1);(1,3);(3,1);(3,3);(5,1)] 2 2 = false.
Proof. exact ex_tiled_full. Qed.
Print Assumptions C12_example_tiled_full.

Example C12_example_iter :
  map (fun t => match t with (ch, k, o, _) => (ch, k, o) end)
      (iter_tiled_full 2 2 3 3 2 2 0 0 (V3 1 0 0) (V3 0 1 0) 1 1 1) =
  [(1,1,(1,1));(1,1,(3,1));(1,1,(1,3));(1,1,(3,3)); (1,2,(1,1));(1,2,(3,1));(1,2,(1,3));(1,2,(3,3));
   (2,1,(1,1));(2,1,(3,1));(2,1,(1,3));(2,1,(3,3)); (2,2,(1,1));(2,2,(3,1));(2,2,(1,3));(2,2,(3,3))].
Proof. exact ex_iter. Qed.
Print Assumptions C12_example_iter.

Example C12_example_dataset :
  ds_sizes_ok (exD SC_WSI false) /\
  (exists l, iter_tiled_full_ds (exD SC_WSI false) = Ok l /\ length l = 8%nat) /\
  (exists l, iter_tiled_full_ds (exD SC_LABELMAP_SEG true) = Ok l /\ map (fun t => fst (fst (fst t))) l = [None; None; None; None]) /\
  (exists l, iter_tiled_full_ds (exD SC_SEG false) = Ok l /\ length l = 12%nat) /\
  iter_tiled_full_ds (exD SC_OTHER false) = Err "ValueError"%string.
Proof. exact ex_ds. Qed.
Print Assumptions C12_example_dataset.

(* ====================================================================== *)
(* extension 2: unpadded round trip, R x C x S arrays, the single-tile helper *)
(* over the whole enumeration, per-frame data against the full-tiling test,  *)
(* the whole integer domain of the size arguments                            *)
(* ====================================================================== *)
Theorem C12_cut_paste_roundtrip_any : forall pad M R C th tw, wf_matrix M R C -> 1 <= R -> 1 <= C -> 1 <= th -> 1 <= tw ->
  paste_all R C th tw (cut_all M R C th tw pad) = M.
Proof. exact cut_paste_roundtrip_any. Qed.
Print Assumptions C12_cut_paste_roundtrip_any.

Theorem C12_cut_all_tiles_unpadded : forall M R C th tw o t, wf_matrix M R C -> 1 <= R -> 1 <= C -> 1 <= th -> 1 <= tw ->
  In (o, t) (cut_all M R C th tw false) ->
  In o (grid R C th tw) /\
  exists T, t = Ok T /\ wf_matrix T (Z.min th (R - snd o + 1)) (Z.min tw (C - fst o + 1)).
Proof. exact cut_all_tiles_unpadded. Qed.
Print Assumptions C12_cut_all_tiles_unpadded.

Theorem C12_tile_array_nd_planewise : forall s S M R C ro co th tw pad,
  get_tile_array (proj s M) R C ro co th tw pad =
  map_res (proj s) (get_tile_array_nd S M R C ro co th tw pad).
Proof. exact tile_array_nd_planewise. Qed.
Print Assumptions C12_tile_array_nd_planewise.

Theorem C12_tile_array_nd_refuses : forall S M R C ro co th tw pad,
  (ro < 1 \/ R < ro \/ co < 1 \/ C < co) <-> get_tile_array_nd S M R C ro co th tw pad = Err "ValueError"%string.
Proof. exact tile_array_nd_refuses. Qed.
Print Assumptions C12_tile_array_nd_refuses.

Theorem C12_tile_shape_nd_padded : forall S M R C ro co th tw T, wf_nd M R C S -> 0 <= th -> 0 <= tw -> 0 <= S ->
  get_tile_array_nd S M R C ro co th tw true = Ok T -> wf_nd T th tw S.
Proof. exact tile_shape_nd_padded. Qed.
Print Assumptions C12_tile_shape_nd_padded.

Theorem C12_tile_cell_nd : forall s S M R C ro co th tw a b T, wf_nd M R C S ->
  1 <= th -> 1 <= tw -> 0 <= a < th -> 0 <= b < tw ->
  get_tile_array_nd S M R C ro co th tw true = Ok T ->
  cell (proj s T) a b =
  if (ro - 1 + a <? R) && (co - 1 + b <? C) then cell (proj s M) (ro - 1 + a) (co - 1 + b) else 0.
Proof. exact tile_cell_nd. Qed.
Print Assumptions C12_tile_cell_nd.

Theorem C12_cut_paste_roundtrip_nd : forall s S pad M R C th tw, wf_nd M R C S -> 1 <= R -> 1 <= C -> 1 <= th -> 1 <= tw ->
  paste_all R C th tw (map (fun ot => (fst ot, map_res (proj s) (snd ot))) (cut_all_nd S M R C th tw pad)) = proj s M.
Proof. exact cut_paste_roundtrip_nd. Qed.
Print Assumptions C12_cut_paste_roundtrip_nd.

Theorem C12_nd_determined_by_planes : forall A B R C S, wf_nd A R C S -> wf_nd B R C S ->
  (forall s, (Z.of_nat s < S) -> proj s A = proj s B) -> A = B.
Proof. exact nd_ext. Qed.
Print Assumptions C12_nd_determined_by_planes.

Theorem C12_helper_enumeration_is_positions : forall R C th tw x y rc cc spr spc sl, 1 <= R -> 1 <= C -> 1 <= th -> 1 <= tw ->
  helper_positions R C th tw x y rc cc spr spc sl =
  map Ok (tile_positions R C th tw (V3 x y (slice_z sl)) rc cc spr spc).
Proof. exact helper_positions_eq. Qed.
Print Assumptions C12_helper_enumeration_is_positions.

Theorem C12_helper_enumeration_tiled_full : forall R C th tw x y rc cc spr spc sl, 1 <= R -> 1 <= C -> 1 <= th -> 1 <= tw ->
  are_tiled_full_code (map rc_of (oks (helper_positions R C th tw x y rc cc spr spc sl))) th tw = true.
Proof. exact helper_positions_tiled_full. Qed.
Print Assumptions C12_helper_enumeration_tiled_full.

Theorem C12_per_frame_tiled_full_iff : forall d b, ds_sizes_ok d -> pf_tiled_full d = Ok b ->
  (b = true <-> (length (ds_channels d) * Z.to_nat (opt_default 1%Z (ds_nfp d)) <= 1)%nat).
Proof. exact pf_tiled_full_iff. Qed.
Print Assumptions C12_per_frame_tiled_full_iff.

Theorem C12_per_frame_tiled_full_refuses : forall d,
  pf_tiled_full d = Err "ValueError"%string <-> (ds_sop d = SC_OTHER \/ ds_dim_org d <> Some true).
Proof. exact pf_refuses. Qed.
Print Assumptions C12_per_frame_tiled_full_refuses.

Theorem C12_positions_domain_agrees : forall npos nori nsp R C th tw pos rc cc spr spc,
  1 <= R -> 1 <= C -> 1 <= th -> 1 <= tw ->
  tile_positions_dom npos nori nsp R C th tw pos rc cc spr spc =
  tile_positions_chk npos nori nsp R C th tw pos rc cc spr spc.
Proof. exact tile_positions_dom_agrees. Qed.
Print Assumptions C12_positions_domain_agrees.

Theorem C12_positions_domain_ok : forall npos nori nsp R C th tw pos rc cc spr spc l,
  tile_positions_dom npos nori nsp R C th tw pos rc cc spr spc = Ok l <->
  (npos = 3 /\ nori = 6 /\ nsp = 2 /\ (0 < spr /\ 0 < spc)%Q /\
   ((0 < th /\ 1 <= R) \/ (th < 0 /\ R <= 1)) /\ ((0 < tw /\ 1 <= C) \/ (tw < 0 /\ C <= 1)) /\
   l = tile_positions R C th tw pos rc cc spr spc).
Proof. exact tile_positions_dom_ok. Qed.
Print Assumptions C12_positions_domain_ok.

Theorem C12_positions_domain_errors : forall npos nori nsp R C th tw pos rc cc spr spc,
  (tile_positions_dom npos nori nsp R C th tw pos rc cc spr spc = Err "ZeroDivisionError"%string <->
   npos = 3 /\ nori = 6 /\ nsp = 2 /\ (th = 0 \/ tw = 0)) /\
  (tile_positions_dom npos nori nsp R C th tw pos rc cc spr spc = Err "ValueError"%string <->
   npos <> 3 \/ nori <> 6 \/ nsp <> 2 \/ (th <> 0 /\ tw <> 0 /\ bad_spacing spr spc = true)) /\
  (tile_positions_dom npos nori nsp R C th tw pos rc cc spr spc = Err "TypeError"%string <->
   npos = 3 /\ nori = 6 /\ nsp = 2 /\ th <> 0 /\ tw <> 0 /\ bad_spacing spr spc = false /\
   ~ (((0 < th /\ 1 <= R) \/ (th < 0 /\ R <= 1)) /\ ((0 < tw /\ 1 <= C) \/ (tw < 0 /\ C <= 1)))).
Proof. exact tile_positions_dom_errors. Qed.
Print Assumptions C12_positions_domain_errors.

Theorem C12_tile_offsets_negative : forall th tw, th < 0 -> tw < 0 -> tile_offsets 1 1 th tw = [(1, 1)].
Proof. exact tile_offsets_negative. Qed.
Print Assumptions C12_tile_offsets_negative.

Theorem C12_iter_consumed_agrees : forall d, ds_sizes_ok d -> bad_spacing (ds_spr d) (ds_spc d) = false ->
  iter_tiled_full_ds_chk d = iter_tiled_full_ds d.
Proof. exact iter_ds_chk_agrees. Qed.
Print Assumptions C12_iter_consumed_agrees.

Theorem C12_iter_consumed_spec : forall d l, iter_tiled_full_ds d = Ok l ->
  iter_tiled_full_ds_chk d =
  if (match ds_channels d with [] => true | _ => false end) || (opt_default 1 (ds_nfp d) <=? 0) then Ok l
  else map_res (fun _ => l)
         (tile_positions_dom 3 6 2 (ds_R d) (ds_C d) (ds_th d) (ds_tw d)
            (V3 (ds_x d) (ds_y d) 0) (ds_rc d) (ds_cc d) (ds_spr d) (ds_spc d)).
Proof. exact iter_ds_chk_spec. Qed.
Print Assumptions C12_iter_consumed_spec.

Theorem C12_iter_consumed_nil : forall d l, iter_tiled_full_ds_chk d = Ok l ->
  (ds_channels d = [] \/ opt_default 1 (ds_nfp d) <= 0) -> l = [].
Proof. exact iter_ds_chk_nil. Qed.
Print Assumptions C12_iter_consumed_nil.

Theorem C12_tile_array_py_agrees : forall M R C ro co th tw pad, 0 <= th -> 0 <= tw ->
  get_tile_array_py M R C ro co th tw pad = get_tile_array M R C ro co th tw pad.
Proof. exact tile_array_py_agrees. Qed.
Print Assumptions C12_tile_array_py_agrees.

Theorem C12_tile_array_py_refuses : forall M R C ro co th tw pad,
  (ro < 1 \/ R < ro \/ co < 1 \/ C < co) <-> get_tile_array_py M R C ro co th tw pad = Err "ValueError"%string.
Proof. exact tile_array_py_refuses. Qed.
Print Assumptions C12_tile_array_py_refuses.

Theorem C12_tile_shape_py_negative : forall M R C ro co th tw pad T, wf_matrix M R C -> th < 0 -> tw < 0 ->
  get_tile_array_py M R C ro co th tw pad = Ok T ->
  wf_matrix T (if ro - 1 + th <? 0 then Z.max (Z.max (ro - 1 + th + R) 0 - (ro - 1)) 0 else 0)
              (if co - 1 + tw <? 0 then Z.max (Z.max (co - 1 + tw + C) 0 - (co - 1)) 0 else 0).
Proof. exact tile_shape_py_negative. Qed.
Print Assumptions C12_tile_shape_py_negative.

Theorem C12_is_tiled_image_iff : forall a b c, is_tiled_image a b c = true <-> a = true /\ b = true /\ c = true.
Proof. exact is_tiled_image_iff. Qed.
Print Assumptions C12_is_tiled_image_iff.

Example C12_example_ext2 :
  wf_nd exN 2 3 2 /\
  get_tile_array_nd 2 exN 2 3 1 3 2 2 true = Ok [[[5;6];[0;0]];[[11;12];[0;0]]] /\
  proj 1 exN = [[2;4;6];[8;10;12]] /\
  paste_all 5 3 2 2 (cut_all exM 5 3 2 2 false) = exM /\
  nth 5 (map snd (cut_all exM 5 3 2 2 false)) (Err "") = Ok [[15]] /\
  helper_positions 3 3 2 2 0 0 (V3 1 0 0) (V3 0 1 0) 1 1 None =
    map Ok (tile_positions 3 3 2 2 (V3 0 0 0) (V3 1 0 0) (V3 0 1 0) 1 1) /\
  length (helper_positions 3 3 2 2 0 0 (V3 1 0 0) (V3 0 1 0) 1 1 None) = 4%nat /\
  pf_tiled_full (exD SC_LABELMAP_SEG true) = Ok true /\ pf_tiled_full (exD SC_WSI false) = Ok false /\
  tile_positions_dom 3 6 2 0 3 2 2 (V3 0 0 0) (V3 1 0 0) (V3 0 1 0) 1 1 = Err "TypeError"%string /\
  tile_positions_dom 3 6 2 1 5 (-2) 3 (V3 0 0 0) (V3 1 0 0) (V3 0 1 0) 1 1 =
    Ok [((1, 1), V3 0 0 0); ((4, 1), V3 (0 + (3 * 1 * 1 + 0 * 1 * 0)) (0 + (3 * 1 * 0 + 0 * 1 * 1)) (0 + (3 * 1 * 0 + 0 * 1 * 0)))] /\
  get_tile_array_py [[0;1;2;3;4];[5;6;7;8;9];[10;11;12;13;14];[15;16;17;18;19]] 4 5 1 1 (-1) (-1) true =
    Ok [[0;1;2;3];[5;6;7;8];[10;11;12;13]].
Proof. exact ex_ext2. Qed.
Print Assumptions C12_example_ext2.

(* ====================================================================== *)
(* extension 2b: positions identify tiles; second composite                  *)
(* ====================================================================== *)
Theorem C12_transform_injective : forall pos rc cc spr spc c r c' r',
  ~ (spr == 0)%Q -> ~ (spc == 0)%Q -> independent rc cc ->
  veq (pix2ref pos rc cc spr spc c r) (pix2ref pos rc cc spr spc c' r') -> c = c' /\ r = r'.
Proof. exact pix2ref_injective. Qed.
Print Assumptions C12_transform_injective.

Theorem C12_orthonormal_independent : forall rc cc,
  (dot3 rc rc == 1)%Q -> (dot3 cc cc == 1)%Q -> (dot3 rc cc == 0)%Q -> independent rc cc.
Proof. exact orthonormal_independent. Qed.
Print Assumptions C12_orthonormal_independent.

Theorem C12_positions_identify_tiles : forall R C th tw pos rc cc spr spc o p o' p',
  ~ (spr == 0)%Q -> ~ (spc == 0)%Q -> independent rc cc ->
  In (o, p) (tile_positions R C th tw pos rc cc spr spc) ->
  In (o', p') (tile_positions R C th tw pos rc cc spr spc) ->
  veq p p' -> o = o'.
Proof. exact positions_identify_tiles. Qed.
Print Assumptions C12_positions_identify_tiles.

Theorem C12_iter_positions_identify_tiles : forall nch nfp R C th tw x y rc cc spr spc sbs ch k o p ch' o' p',
  1 <= R -> 1 <= C -> 1 <= th -> 1 <= tw -> ~ (spr == 0)%Q -> ~ (spc == 0)%Q -> independent rc cc ->
  In (ch, k, o, p) (iter_tiled_full nch nfp R C th tw x y rc cc spr spc sbs) ->
  In (ch', k, o', p') (iter_tiled_full nch nfp R C th tw x y rc cc spr spc sbs) ->
  veq p p' -> o = o'.
Proof. exact iter_positions_identify_tiles. Qed.
Print Assumptions C12_iter_positions_identify_tiles.

Theorem C12_one_tiling_helpers : forall R C th tw x y rc cc spr spc sl M pad,
  1 <= R -> 1 <= C -> 1 <= th -> 1 <= tw -> wf_matrix M R C ->
  ~ (spr == 0)%Q -> ~ (spc == 0)%Q -> independent rc cc ->
  let TP := tile_positions R C th tw (V3 x y (slice_z sl)) rc cc spr spc in
  helper_positions R C th tw x y rc cc spr spc sl = map Ok TP /\
  map fst TP = grid R C th tw /\
  are_tiled_full_code (map rc_of TP) th tw = true /\
  (forall ps, Permutation ps (map rc_of TP) -> are_tiled_full_code ps th tw = true -> ps = map rc_of TP) /\
  (forall o p o' p', In (o, p) TP -> In (o', p') TP -> veq p p' -> o = o') /\
  paste_all R C th tw (cut_all M R C th tw pad) = M.
Proof. exact one_tiling_helpers. Qed.
Print Assumptions C12_one_tiling_helpers.

Example C12_example_geometry :
  independent (V3 (3 # 5) (4 # 5) 0) (V3 (-4 # 5) (3 # 5) 0) /\
  map fst (tile_positions 3 3 2 2 (V3 0 0 0) (V3 (3 # 5) (4 # 5) 0) (V3 (-4 # 5) (3 # 5) 0) 1 1) =
    [(1, 1); (3, 1); (1, 3); (3, 3)] /\
  ~ veq (pix2ref (V3 0 0 0) (V3 (3 # 5) (4 # 5) 0) (V3 (-4 # 5) (3 # 5) 0) 1 1 2 0)
        (pix2ref (V3 0 0 0) (V3 (3 # 5) (4 # 5) 0) (V3 (-4 # 5) (3 # 5) 0) 1 1 0 2).
Proof. exact ex_geom. Qed.
Print Assumptions C12_example_geometry.

(* extension 2c: the full-tiling test on all integer tile sizes *)
Theorem C12_tiled_full_domain_agrees : forall ps th tw, 1 <= th -> 1 <= tw ->
  are_tiled_full_dom ps th tw = Ok (are_tiled_full_code ps th tw).
Proof. exact tiled_full_dom_agrees. Qed.
Print Assumptions C12_tiled_full_domain_agrees.

Theorem C12_tiled_full_domain_error : forall ps th tw,
  are_tiled_full_dom ps th tw = Err "ValueError"%string <-> (th = 0 \/ tw = 0).
Proof. exact tiled_full_dom_error. Qed.
Print Assumptions C12_tiled_full_domain_error.

Theorem C12_tiled_full_domain_negative : forall ps th tw, th < 0 -> tw < 0 ->
  are_tiled_full_dom ps th tw = Ok false.
Proof. exact tiled_full_dom_negative. Qed.
Print Assumptions C12_tiled_full_domain_negative.

Theorem C12_tiled_full_domain_one_negative : forall ps th tw, (th < 0 /\ 0 < tw) \/ (0 < th /\ tw < 0) ->
  are_tiled_full_dom ps th tw = Ok (match ps with [] => true | _ => false end).
Proof. exact tiled_full_dom_one_negative. Qed.
Print Assumptions C12_tiled_full_domain_one_negative.
