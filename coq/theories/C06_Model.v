(* C06 - model of the pixel-transform pipeline of highdicom.
   Mirrors (src/highdicom):
     image.py   _CombinedPixelTransform.__init__ (flag resolution, discovery
                root / shared / per-frame, folding) and __call__
     pixels.py  _select_voi_window_center_width, _select_voi_lut,
                _select_real_world_value_map, apply_voi_window, apply_lut,
                _check_rescale_dtype, _parse_palette_color_lut_attributes,
                _get_combined_palette_color_lut
     content.py LUT (descriptor, lut_data, get_scaled_lut_data,
                get_inverted_lut_data, apply), VOILUTTransformation.apply,
                ModalityLUTTransformation.apply
     pm/content.py RealWorldValueMapping.apply
   Stored values and LUT entries are Z, every real quantity is an exact
   rational (Q).  exp enters only as a function parameter [E : Q -> Q].
   NO proofs in this file. *)
From Coq Require Import String ZArith List Bool QArith Qminmax.
From HD Require Import Base.Val.
Import ListNotations.
Open Scope Z_scope.

(* ------------------------------------------------------------------ *)
(* 1. small python helpers                                             *)
(* ------------------------------------------------------------------ *)
Definition zlen {A} (l : list A) : Z := Z.of_nat (length l).

(* python list indexing l[i] (negative indices allowed); None = IndexError *)
Definition py_nth {A} (l : list A) (i : Z) : option A :=
  let n := zlen l in
  if (0 <=? i) && (i <? n) then nth_error l (Z.to_nat i)
  else if (- n <=? i) && (i <? 0) then nth_error l (Z.to_nat (i + n))
  else None.

(* python list.index: position of the first element equal to k *)
Fixpoint index_of {A} (eqb : A -> A -> bool) (k : A) (l : list A) : option Z :=
  match l with
  | [] => None
  | x :: t => if eqb x k then Some 0
              else match index_of eqb k t with Some i => Some (i + 1) | None => None end
  end.

Definition opt_string_eqb (a b : option string) : bool :=
  match a, b with
  | Some x, Some y => String.eqb x y
  | None, None => true
  | _, _ => false
  end.

Definition list_min (d : Z) (l : list Z) : Z := fold_left Z.min l d.
Definition list_max (d : Z) (l : list Z) : Z := fold_left Z.max l d.
Definition lmin (l : list Z) : Z := match l with [] => 0 | a :: t => list_min a t end.
Definition lmax (l : list Z) : Z := match l with [] => 0 | a :: t => list_max a t end.

Definition Qclip (lo hi y : Q) : Q := Qmax lo (Qmin hi y).
Definition Zclip (lo hi y : Z) : Z := Z.max lo (Z.min hi y).
Definition Qis_int (q : Q) : bool := Z.eqb (Z.modulo (Qnum q) (Zpos (Qden q))) 0.
Definition Qfloor' (q : Q) : Z := Z.div (Qnum q) (Zpos (Qden q)).

(* ------------------------------------------------------------------ *)
(* 2. numpy dtypes (only what decides errors)                          *)
(* ------------------------------------------------------------------ *)
Inductive dkind := KU | KI | KF.
Record dtype := DT { dk : dkind; dbits : Z }.
Definition F64 := DT KF 64.
Definition dkind_eqb (a b : dkind) : bool :=
  match a, b with KU, KU | KI, KI | KF, KF => true | _, _ => false end.
Definition dtype_eqb (a b : dtype) : bool := dkind_eqb (dk a) (dk b) && (dbits a =? dbits b).
(* numpy.can_cast(a, b, 'safe') on u/i 8..64 and f 32/64 *)
Definition can_cast_safe (a b : dtype) : bool :=
  match dk a, dk b with
  | KU, KU => dbits a <=? dbits b
  | KI, KI => dbits a <=? dbits b
  | KU, KI => dbits a <? dbits b
  | KI, KU => false
  | KF, KF => dbits a <=? dbits b
  | KF, _ => false
  | _, KF => (dbits b =? 64) || (dbits a <=? 16)
  end.
Definition is_float (d : dtype) : bool := dkind_eqb (dk d) KF.
Definition type_min (d : dtype) : Z :=
  match dk d with KI => - 2 ^ (dbits d - 1) | _ => 0 end.
Definition type_max (d : dtype) : Z :=
  match dk d with KI => 2 ^ (dbits d - 1) - 1 | _ => 2 ^ dbits d - 1 end.

(* ------------------------------------------------------------------ *)
(* 3. LUT objects (content.py LUT)                                     *)
(* ------------------------------------------------------------------ *)
(* a LUT dataset: descriptor (n, first, bits) and the LUTData bytes *)
(* [ld_scalar]: LUTData came back from a file as a bare python int (pydicom resolves the
   LUTData of a ONE-entry table to VR US, VM 1) *)
Record lutds := LutDS { ld_n : Z; ld_first : Z; ld_bits : Z; ld_bytes : list Z;
                        ld_expl : option string; ld_scalar : bool }.

Definition enc16 (l : list Z) : list Z := flat_map (fun v => [v mod 256; v / 256]) l.
Fixpoint dec16 (l : list Z) : list Z :=
  match l with
  | a :: b :: t => (a + 256 * b) :: dec16 t
  | _ => []
  end.

(* LUT.__init__ : accepted iff 0 <= first < 2^16, 1 <= len <= 2^16, dtype u8/u16.
   8-bit tables with an odd number of entries are stored with one zero pad byte (LUTData is OW:
   even length), in memory exactly as in a file.
   [pad] = the dataset went through a file (dcmwrite + dcmread): the bytes are unchanged, but the
   LUTData of a one-entry table (2 bytes) is handed back by pydicom as a bare int (VR US) *)
Definition mk_lut (first : Z) (data : list Z) (bits : Z) (expl : option string) (pad : bool)
  : res lutds :=
  if first <? 0 then Err "ValueError"
  else if 65536 <=? first then Err "ValueError"
  else
    let n := zlen data in
    if n =? 0 then Err "ValueError"
    else if 65536 <? n then Err "ValueError"
    else if negb ((bits =? 8) || (bits =? 16)) then Err "ValueError"
    else
      let n' := if n =? 65536 then 0 else n in
      let bytes := if bits =? 8 then data else enc16 data in
      let bytes' := if zlen bytes mod 2 =? 1 then bytes ++ [0] else bytes in
      Ok (LutDS n' first bits bytes' expl (pad && (n =? 1))).

(* LUT.number_of_entries *)
Definition lut_entries (l : lutds) : Z := if ld_n l =? 0 then 65536 else ld_n l.

(* LUT.lut_data.  The pad byte is stripped from byte values only; a bare int (VR US, one-entry
   table read from a file) is the 16-bit word b0 + 256 * b1 and becomes a one-entry array
   (numpy refuses a value > 255 for uint8: OverflowError) *)
Definition lut_data (l : lutds) : res (list Z) :=
  if negb ((ld_bits l =? 8) || (ld_bits l =? 16)) then Err "RuntimeError"
  else
    let len := lut_entries l in
    let data := ld_bytes l in
    if ld_scalar l then
      let arr := dec16 data in
      if (ld_bits l =? 8) && existsb (fun v => 256 <=? v) arr then Err "OverflowError"
      else if zlen arr =? len then Ok arr else Err "RuntimeError"
    else
    let data := if (ld_bits l =? 8) && (len mod 2 =? 1) && (zlen data =? len + 1)
                then removelast data else data in
    let arr := if ld_bits l =? 8 then data else dec16 data in
    if zlen arr =? len then Ok arr else Err "RuntimeError".

(* pixels.apply_lut on one value, clip=True: index after clipping *)
Definition lut_index (first n x : Z) : Z := Zclip first (first + n - 1) x - first.
Definition lut_lookup {A} (d : A) (first : Z) (data : list A) (x : Z) : A :=
  nth (Z.to_nat (lut_index first (zlen data) x)) data d.
Definition in_lut_range {A} (first : Z) (data : list A) (x : Z) : bool :=
  (first <=? x) && (x <=? first + zlen data - 1).

(* LUT.get_scaled_lut_data (exact arithmetic); a constant table divides by
   zero in the code (NaN entries) - not mirrored, reported as its own kind *)
Definition scaled_lut_data (data : list Z) (ymin ymax : Q) (invert : bool) : res (list Q) :=
  let mn := lmin data in let mx := lmax data in
  if Qle_bool (ymax - ymin) 0 then Err "ValueError"
  else if mx =? mn then Err "ConstantLUT"
  else
    let scale := ((ymax - ymin) / inject_Z (mx - mn))%Q in
    Ok (map (fun v => if invert then (inject_Z (mx - v) * scale + ymin)%Q
                      else (inject_Z (v - mn) * scale + ymin)%Q) data).

(* LUT.get_inverted_lut_data: numpy computes min + max - v in the unsigned
   dtype of the table, i.e. modulo 2^bits *)
Definition inverted_lut_data (bits : Z) (data : list Z) : list Z :=
  let mn := lmin data in let mx := lmax data in
  map (fun v => (((mn + mx) mod 2 ^ bits) - v) mod 2 ^ bits) data.

(* ------------------------------------------------------------------ *)
(* 4. window functions (pixels.apply_voi_window), exact                *)
(* ------------------------------------------------------------------ *)
Inductive vfn := Linear | LinearExact | Sigmoid.

Section WithExp.
Variable E : Q -> Q.       (* exp *)

Definition window (fn : vfn) (c w ymin ymax : Q) (invert : bool) (x : Q) : Q :=
  match fn with
  | Sigmoid =>
      let off := if invert then (c - x)%Q else (x - c)%Q in
      ((ymax - ymin) / (1 + E (- (4) * off / w)) + ymin)%Q
  | _ =>
      let scale := match fn with
                   | Linear => ((ymax - ymin) / (w - 1))%Q
                   | _ => ((ymax - ymin) / w)%Q
                   end in
      let wmin := (c - w / 2)%Q in
      Qclip ymin ymax (if invert then ((wmin - x) * scale + ymax)%Q
                       else ((x - wmin) * scale + ymin)%Q)
  end.

(* ------------------------------------------------------------------ *)
(* 5. dataset, flags, selectors                                        *)
(* ------------------------------------------------------------------ *)
Inductive tri := TT | TF | TN.
Inductive ctype := Mono | Palette | Color.
Record flags := Flags { f_rwvm : tri; f_mod : tri; f_voi : tri; f_pres : bool;
                        f_pal : tri; f_icc : tri }.

Inductive rwvm_kind :=
| RLin (slope icpt first last : Q)
| RLut (first : Z) (data : list Q).
Record rwvm := Rwvm { r_label : string; r_unit : Z; r_kind : rwvm_kind }.

Record windows := Windows { w_centers : list Q; w_widths : list Q;
                            w_expl : option (list string); w_fn : option vfn }.

(* one place where parameters may sit: the image root, the shared functional
   group or one per-frame functional group *)
Record level := Level { lv_rwvm : option (list rwvm);
                        lv_slope : option Q; lv_icpt : option Q;
                        lv_win : option windows }.

Record palette := Pal { p_desc : Z * Z * Z; p_r : list Z; p_g : list Z; p_b : list Z }.

Record dataset := DS {
  d_ctype : ctype;
  d_mono1 : bool;                 (* PhotometricInterpretation = MONOCHROME1 *)
  d_pls : option bool;            (* PresentationLUTShape, Some true = INVERSE *)
  d_float_in : bool;              (* float pixels (parametric map, > 16 bits) *)
  d_signed : bool; d_bits_stored : Z;
  d_in : dtype;                   (* input dtype *)
  d_modlut : option lutds;        (* ModalityLUTSequence[0] (root only) *)
  d_voiluts : option (list lutds);(* VOILUTSequence (root only) *)
  d_root : level; d_shared : option level; d_perframe : option (list level);
  d_palette : option palette;
  d_icc : bool }.

Inductive sel :=
| SIdx (i : Z) | SStr (s : string) | SCode (u : Z)
| SUserWin (centers widths : list Q) (fn : option vfn)   (* user VOILUTTransformation, windows *)
| SUserLut (ls : list lutds).            (* user VOILUTTransformation with LUTs *)

Record uses := Uses { use_rwvm : bool; req_rwvm : bool; use_mod : bool; req_mod : bool;
                      use_voi : bool; req_voi : bool; use_pal : bool; req_pal : bool;
                      use_icc : bool; req_icc : bool }.

Definition tri_use (t : tri) : bool := match t with TF => false | _ => true end.
Definition tri_req (t : tri) : bool := match t with TT => true | _ => false end.
Definition is_mono (c : ctype) : bool := match c with Mono => true | _ => false end.
Definition is_pal (c : ctype) : bool := match c with Palette => true | _ => false end.

(* image.py:316-410, same order of checks *)
Definition gate (f : flags) (ct : ctype) : res uses :=
  let rq_rw := tri_req (f_rwvm f) in
  let rq_mo := tri_req (f_mod f) in
  if rq_mo && rq_rw then Err "ValueError"
  else
    let us_rw := if rq_mo then false else tri_use (f_rwvm f) in
    let rq_vo := tri_req (f_voi f) in
    let us_mo := if rq_rw then false else tri_use (f_mod f) in
    let us_vo := if rq_rw && negb rq_vo then false else tri_use (f_voi f) in
    if us_vo && negb us_mo then Err "ValueError"
    else if rq_rw && negb (is_mono ct) then Err "ValueError"
    else if rq_mo && negb (is_mono ct) then Err "ValueError"
    else if rq_vo && negb (is_mono ct) then Err "ValueError"
    else
      let us_pa := tri_use (f_pal f) in
      let rq_pa := tri_req (f_pal f) in
      if rq_pa && negb (is_pal ct) then Err "ValueError"
      else
        let us_ic := tri_use (f_icc f) in
        let rq_ic := tri_req (f_icc f) in
        if us_ic && negb us_pa then Err "ValueError"
        else if rq_ic && is_mono ct then Err "ValueError"
        else Ok (Uses us_rw rq_rw us_mo rq_mo us_vo rq_vo us_pa rq_pa us_ic rq_ic).

(* ---- selectors ---- *)
(* pixels._select_voi_window_center_width *)
Definition pick_window (w : windows) (i : Z) : option (Q * Q) :=
  match py_nth (w_widths w) i with
  | None => None
  | Some wd => match py_nth (w_centers w) i with
               | None => None
               | Some c => Some (c, wd)
               end
  end.
Definition select_window (w : windows) (s : sel) : option (Q * Q) :=
  match s with
  | SStr k => match w_expl w with
              | None => None
              | Some es => match index_of String.eqb k es with
                           | None => None
                           | Some i => pick_window w i
                           end
              end
  | SIdx i => pick_window w i
  | _ => None
  end.
(* pixels._select_voi_lut *)
Definition select_voi_lut (ls : list lutds) (s : sel) : option lutds :=
  match s with
  | SStr k => match index_of opt_string_eqb (Some k) (map ld_expl ls) with
              | None => None
              | Some i => py_nth ls i
              end
  | SIdx i => py_nth ls i
  | _ => None
  end.
(* pixels._select_real_world_value_map *)
Definition select_rwvm (rs : list rwvm) (s : sel) : option rwvm :=
  match s with
  | SIdx i => py_nth rs i
  | SStr k => match index_of String.eqb k (map r_label rs) with
              | None => None
              | Some i => py_nth rs i
              end
  | SCode u => match index_of Z.eqb u (map r_unit rs) with
               | None => None
               | Some i => py_nth rs i
               end
  | _ => None
  end.

(* ---- discovery: what applies to frame [fi] ---- *)
Definition levels (ds : dataset) (fi : Z) : res (list level) :=
  let sh := match d_shared ds with Some l => [l] | None => [] end in
  match d_perframe ds with
  | None => Ok (d_root ds :: sh)
  | Some pf => match (if 0 <=? fi then nth_error pf (Z.to_nat fi) else None) with
               | Some l => Ok (d_root ds :: l :: sh)      (* per-frame before shared *)
               | None => Err "IndexError"
               end
  end.

Definition first_some {A B} (f : A -> option B) (l : list A) : option B :=
  fold_right (fun a acc => match f a with Some b => Some b | None => acc end) None l.

Definition level_rescale (l : level) : option (Q * Q) :=
  match lv_slope l, lv_icpt l with
  | None, None => None
  | s, i => Some (match s with Some v => v | None => 1%Q end,
                  match i with Some v => v | None => 0%Q end)
  end.

(* the parameters found for one frame *)
Record found := Found {
  fd_rwvm : option rwvm_kind;
  fd_modlut : option lutds;
  fd_rescale : option (Q * Q);
  fd_voilut : option lutds;
  fd_window : option (Q * Q);
  fd_fn : vfn;
  fd_invert : bool }.

Definition ds_invert (ds : dataset) : bool :=
  match d_pls ds with Some b => b | None => d_mono1 ds end.

(* the discovery, given what the search over the levels returned for each kind of parameter
   (image.py: the three `for ds, is_shared in datasets` loops) *)
Definition discover_at (u : uses) (pres : bool) (ds : dataset) (rsel vsel : sel)
           (o_rwvm : option (list rwvm)) (o_resc : option (Q * Q)) (o_win : option windows)
  : res found :=
  let invert := pres && ds_invert ds in
  (* real world value map *)
  bind (if use_rwvm u then
          match o_rwvm with
          | None => Ok None
          | Some rs => match select_rwvm rs rsel with
                       | None => Err "IndexError"
                       | Some r => Ok (Some (r_kind r))
                       end
          end
        else Ok None) (fun rw =>
  let has_rwvm := match rw with Some _ => true | None => false end in
  if req_rwvm u && negb has_rwvm then Err "RuntimeError"
  else
    (* modality *)
    let look_mod := negb has_rwvm && use_mod u in
    let modlut := if look_mod then d_modlut ds else None in
    let rescale := if look_mod then
                     match d_modlut ds with
                     | Some _ => None
                     | None => o_resc
                     end
                   else None in
    if req_mod u && match modlut, rescale with None, None => true | _, _ => false end
    then Err "RuntimeError"
    else
      (* VOI *)
      bind (if negb has_rwvm && use_voi u then
              match vsel with
              | SUserLut ls =>
                  match ls with
                  | [l] => Ok (Some l, None, Linear)
                  | _ => Err "ValueError"
                  end
              | SUserWin cs ws ufn =>
                  match cs, ws with
                  | [c], [w] => Ok (None, Some (c, w), match ufn with Some f => f | None => Linear end)
                  | _, _ => Err "ValueError"
                  end
              | _ =>
                  match d_voiluts ds with
                  | Some ls => match select_voi_lut ls vsel with
                               | None => Err "IndexError"
                               | Some l => Ok (Some l, None, Linear)
                               end
                  | None =>
                      match o_win with
                      | None => Ok (None, None, Linear)
                      | Some w =>
                          match select_window w vsel with
                          | None => Err "IndexError"
                          | Some cw => Ok (None, Some cw,
                                           match w_fn w with Some f => f | None => Linear end)
                          end
                      end
                  end
              end
            else Ok (None, None, Linear)) (fun v =>
      match v with (voilut, win, fn) =>
        if req_voi u && match voilut, win with None, None => true | _, _ => false end
        then Err "RuntimeError"
        else Ok (Found rw modlut rescale voilut win fn invert)
      end)).

Definition discover (u : uses) (pres : bool) (ds : dataset) (rsel vsel : sel) (fi : Z)
  : res found :=
  bind (levels ds fi) (fun lvls =>
  discover_at u pres ds rsel vsel (first_some lv_rwvm lvls) (first_some level_rescale lvls)
              (first_some lv_win lvls)).

(* ------------------------------------------------------------------ *)
(* 6. folding into one effective transform (image.py:714-843)          *)
(* ------------------------------------------------------------------ *)
Inductive eff :=
| ENone
| ELut (first : Z) (data : list Q) (clip : bool) (ldt : dtype)
| EAffine (s i : Q)
| EWindow (c w : Q) (fn : vfn) (inv : bool).

Definition fits_dtype (d : dtype) (v : Z) : bool := (type_min d <=? v) && (v <=? type_max d).

(* data[::m] for m >= 1 (python slicing), plus the appended last entry *)
Definition stride {A} (d : A) (m : Z) (l : list A) : list A :=
  let k := (zlen l - 1) / m in
  map (fun i => nth (Z.to_nat (m * Z.of_nat i)) l d) (seq 0 (Z.to_nat (k + 1))).

Definition udt (bits : Z) : dtype := DT KU bits.

Definition fold (f : found) (ymin ymax : Q) (odt : dtype) (imin imax : option Z)
  : res (eff * option (Q * Q)) :=
  match fd_rwvm f with
  | Some (RLut first data) => Ok (ELut first data false F64, None)
  | Some (RLin s i a b) => Ok (EAffine s i, Some (a, b))
  | None =>
    match fd_modlut f with
    | Some ml =>
        bind (lut_data ml) (fun mdata =>
        match fd_window f with
        | Some (c, w) =>
            if negb (is_float odt) then Err "ValueError"
            else Ok (ELut (ld_first ml)
                          (map (fun v => window (fd_fn f) c w ymin ymax (fd_invert f) (inject_Z v)) mdata)
                          true odt, None)
        | None =>
            match fd_voilut f with
            | Some vl =>
                if negb (is_float odt) then Err "ValueError"
                else
                bind (lut_data vl) (fun vdata =>
                bind (scaled_lut_data vdata ymin ymax (fd_invert f)) (fun sdata =>
                Ok (ELut (ld_first ml)
                         (map (fun v => lut_lookup 0%Q (ld_first vl) sdata v) mdata)
                         true odt, None)))
            | None =>
                Ok (ELut (ld_first ml)
                         (map inject_Z (if fd_invert f then inverted_lut_data (ld_bits ml) mdata
                                        else mdata))
                         true (udt (ld_bits ml)), None)
            end
        end)
    | None =>
        let si := match fd_rescale f with Some p => p | None => (1%Q, 0%Q) end in
        let slope := fst si in let icpt := snd si in
        match fd_window f with
        | Some (c, w) =>
            if Qeq_bool slope 0 then Err "ZeroDivisionError"
            else
              Ok (match fd_fn f with
                  | Linear => EWindow ((c - (1#2) - icpt) / slope + (1#2)) ((w - 1) / slope + 1)
                                      Linear (fd_invert f)
                  | fn => EWindow ((c - icpt) / slope) (w / slope) fn (fd_invert f)
                  end, None)
        | None =>
            match fd_voilut f with
            | Some vl =>
                if negb (Qis_int icpt && Qis_int slope) then Err "ValueError"
                else
                  let b := Qfloor' icpt in let m := Qfloor' slope in
                  if m <=? 0 then Err "ValueError"
                  else if negb (is_float odt) then Err "ValueError"
                  else
                  bind (lut_data vl) (fun vdata =>
                  bind (scaled_lut_data vdata ymin ymax (fd_invert f)) (fun sdata =>
                    let edata :=
                      if m =? 1 then sdata
                      else
                        let sub := stride 0%Q m sdata in
                        if (zlen sdata - 1) mod m =? 0 then sub
                        else sub ++ [last sdata 0%Q] in
                    if negb ((ld_first vl - b) mod m =? 0) then Err "ValueError"
                    else Ok (ELut ((ld_first vl - b) / m) edata true odt, None)))
            | None =>
                if fd_invert f then
                  Ok (EAffine (- slope)
                        (match imin, imax with
                         | Some a, Some b => slope * inject_Z (a + b) + icpt
                         | _, _ => - icpt
                         end)%Q, None)
                else
                  Ok (match fd_rescale f with Some (s, i) => EAffine s i | None => ENone end, None)
            end
        end
    end
  end.

(* pixels._check_rescale_dtype *)
Definition check_rescale (slope icpt : Q) (odt idt : dtype) (imin imax : option Z) : res unit :=
  if is_float odt then Ok tt
  else if negb (Qis_int slope && Qis_int icpt) then Err "ValueError"
  else if is_float idt then Err "ValueError"
  else if dkind_eqb (dk odt) KU && Qle_bool icpt 0 && negb (Qeq_bool icpt 0) then Err "ValueError"
  else
    let lo := match imin with Some a => a | None => type_min idt end in
    let hi := match imax with Some a => a | None => type_max idt end in
    let e1 := (inject_Z hi * slope + icpt)%Q in
    let e2 := (inject_Z lo * slope + icpt)%Q in
    let omax := Qmax e1 e2 in
    let omin := Qmin e1 e2 in
    if negb (Qle_bool omax (inject_Z (type_max odt))) || negb (Qle_bool (inject_Z (type_min odt)) omin)
    then Err "ValueError" else Ok tt.

(* image.py:907-949 *)
Definition finish (e : eff) (odt : dtype) (ds : dataset) (imin imax : option Z) : res eff :=
  match e with
  | ELut first data clip ldt =>
      if negb (dtype_eqb ldt odt) && negb (can_cast_safe ldt odt) then Err "TypeError"
      else if d_float_in ds then Err "ValueError"
      else Ok e
  | EAffine s i =>
      if Qeq_bool s 1 && Qeq_bool i 0 then Ok ENone
      else bind (check_rescale s i odt (d_in ds) imin imax) (fun _ => Ok e)
  | EWindow _ _ _ _ => if is_float odt then Ok e else Err "ValueError"
  | ENone => Ok ENone
  end.

Definition input_range (ds : dataset) : option Z * option Z :=
  if d_float_in ds then (None, None)
  else if d_signed ds then (Some (- 2 ^ (d_bits_stored ds - 1)), Some (2 ^ (d_bits_stored ds - 1) - 1))
  else (Some 0, Some (2 ^ d_bits_stored ds - 1)).

(* _CombinedPixelTransform.__init__ for a monochrome image *)
Definition combined (ds : dataset) (fl : flags) (rsel vsel : sel) (ymin ymax : Q)
           (odt : dtype) (fi : Z) : res (eff * option (Q * Q)) :=
  bind (gate fl (d_ctype ds)) (fun u =>
  if Qle_bool ymax ymin then Err "ValueError"
  else
    let ir := input_range ds in
    bind (discover u (f_pres fl) ds rsel vsel fi) (fun fd =>
    bind (fold fd ymin ymax odt (fst ir) (snd ir)) (fun er =>
    if use_icc u && d_icc ds then Err "ICCNotModelled"
    else if req_icc u then Err "RuntimeError"
    else bind (finish (fst er) odt ds (fst ir) (snd ir)) (fun e => Ok (e, snd er))))).

(* ------------------------------------------------------------------ *)
(* 7. application to a frame (__call__)                                *)
(* ------------------------------------------------------------------ *)
Definition eff_apply_r (ymin ymax : Q) (e : eff) (x : Z) : Q :=
  match e with
  | ENone => inject_Z x
  | ELut first data _ _ => lut_lookup 0%Q first data x
  | EAffine s i => (inject_Z x * s + i)%Q
  | EWindow c w fn inv => window fn c w ymin ymax inv (inject_Z x)
  end.

(* final astype(output dtype): integer dtypes wrap (C cast) *)
Definition wrap_int (d : dtype) (v : Z) : Z :=
  let m := 2 ^ dbits d in
  let r := v mod m in
  match dk d with
  | KI => if m / 2 <=? r then r - m else r
  | _ => r
  end.
Definition cast_out (d : dtype) (q : Q) : Q :=
  if is_float d then q else inject_Z (wrap_int d (Qfloor' q)).

Definition apply_frame (ymin ymax : Q) (idt odt : dtype) (er : eff * option (Q * Q)) (xs : list Z)
  : res (list Q) :=
  let e := fst er in
  if match snd er with
     | Some (a, b) => existsb (fun x => negb (Qle_bool a (inject_Z x)) || negb (Qle_bool (inject_Z x) b)) xs
     | None => false
     end then Err "ValueError"
  else
    match e with
    | ELut first data false _ =>
        if existsb (fun x => negb (in_lut_range first data x)) xs then Err "ValueError"
        else Ok (map (eff_apply_r ymin ymax e) xs)
    | ELut first data true _ => Ok (map (eff_apply_r ymin ymax e) xs)
    | EWindow _ _ _ _ => Ok (map (eff_apply_r ymin ymax e) xs)
    | ENone =>
        (* values are cast unchanged: integer -> integer must fit (actual values of the frame) *)
        if negb (is_float odt) && negb (is_float idt) && negb (dtype_eqb idt odt)
           && existsb (fun x => negb (fits_dtype odt x)) xs
        then Err "ValueError"
        else Ok (map (fun x => cast_out odt (eff_apply_r ymin ymax e x)) xs)
    | _ => Ok (map (fun x => cast_out odt (eff_apply_r ymin ymax e x)) xs)
    end.

(* get_frame on a monochrome image *)
Definition get_frame (ds : dataset) (fl : flags) (rsel vsel : sel) (ymin ymax : Q)
           (odt : dtype) (frames : list (list Z)) (fi : Z) : res (list Q) :=
  match (if 0 <=? fi then nth_error frames (Z.to_nat fi) else None) with
  | None => Err "IndexError"
  | Some xs =>
      bind (combined ds fl rsel vsel ymin ymax odt fi) (fun er => apply_frame ymin ymax (d_in ds) odt er xs)
  end.

(* ------------------------------------------------------------------ *)
(* 7b. several frames in one call: get_frames, _get_pixels_by_frame     *)
(*     (get_volume, get_total_pixel_matrix), get_volume_from_series     *)
(* ------------------------------------------------------------------ *)
(* the datasets searched for frame fi with their is_shared flag *)
Definition tagged_levels (ds : dataset) (fi : Z) : res (list (level * bool)) :=
  let sh := match d_shared ds with Some l => [(l, true)] | None => [] end in
  match d_perframe ds with
  | None => Ok ((d_root ds, true) :: sh)
  | Some pf => match (if 0 <=? fi then nth_error pf (Z.to_nat fi) else None) with
               | Some l => Ok ((d_root ds, true) :: (l, false) :: sh)
               | None => Err "IndexError"
               end
  end.
(* is_shared of the level at which a search stops (nothing found: nothing changes the flag) *)
Definition found_shared {B} (f : level -> option B) (l : list (level * bool)) : bool :=
  fold_right (fun a acc => match f (fst a) with Some _ => snd a | None => acc end) true l.

(* _CombinedPixelTransform.applies_to_all_frames of a transform that was built without error
   for frame fi (ICC / optical paths are not modelled) *)
Definition applies_all (u : uses) (ds : dataset) (vsel : sel) (fi : Z) : bool :=
  match tagged_levels ds fi with
  | Err _ => true
  | Ok tl =>
      let has_rwvm := use_rwvm u &&
                      match first_some lv_rwvm (map fst tl) with Some _ => true | None => false end in
      let a1 := if use_rwvm u then found_shared lv_rwvm tl else true in
      let a2 := if negb has_rwvm && use_mod u then
                  match d_modlut ds with Some _ => true | None => found_shared level_rescale tl end
                else true in
      let a3 := if negb has_rwvm && use_voi u then
                  match vsel with
                  | SUserLut _ => true
                  | SUserWin _ _ _ => true
                  | _ => match d_voiluts ds with Some _ => true | None => found_shared lv_win tl end
                  end
                else true in
      a1 && a2 && a3
  end.

Fixpoint mapM {A B} (f : A -> res B) (l : list A) : res (list B) :=
  match l with
  | [] => Ok []
  | a :: t => bind (f a) (fun b => bind (mapM f t) (fun bs => Ok (b :: bs)))
  end.

Definition frame_at (frames : list (list Z)) (fi : Z) : res (list Z) :=
  match (if 0 <=? fi then nth_error frames (Z.to_nat fi) else None) with
  | Some xs => Ok xs
  | None => Err "IndexError"
  end.

(* the loop shared by get_frames and _get_pixels_by_frame: one transform is built for frame
   [first]; it is reused for every requested frame iff it applies to all frames, otherwise a
   new transform is built per frame *)
Definition frames_with (ds : dataset) (fl : flags) (rsel vsel : sel) (ymin ymax : Q) (odt : dtype)
           (frames : list (list Z)) (first : Z) (fis : list Z) : res (list (list Q)) :=
  bind (combined ds fl rsel vsel ymin ymax odt first) (fun er0 =>
  bind (gate fl (d_ctype ds)) (fun u =>
  let all := applies_all u ds vsel first in
  mapM (fun fi =>
          bind (frame_at frames fi) (fun xs =>
          bind (if all then Ok er0 else combined ds fl rsel vsel ymin ymax odt fi) (fun er =>
          apply_frame ymin ymax (d_in ds) odt er xs))) fis)).

(* Image.get_frames(frame indices): the shared transform is built from the FIRST requested frame *)
Definition get_frames (ds : dataset) (fl : flags) (rsel vsel : sel) (ymin ymax : Q) (odt : dtype)
           (frames : list (list Z)) (fis : list Z) : res (list (list Q)) :=
  match fis with
  | [] => bind (combined ds fl rsel vsel ymin ymax odt 0) (fun _ => Err "ValueError")  (* np.stack([]) *)
  | f0 :: _ => bind (frame_at frames f0) (fun _ => frames_with ds fl rsel vsel ymin ymax odt frames f0 fis)
  end.

(* Image._get_pixels_by_frame (get_volume of a multi-frame image, get_total_pixel_matrix): the
   shared transform is built with the default frame index 0; [fis] = the frames in the order
   in which the index iterator yields them *)
Definition get_pixels_by_frame (ds : dataset) (fl : flags) (rsel vsel : sel) (ymin ymax : Q)
           (odt : dtype) (frames : list (list Z)) (fis : list Z) : res (list (list Q)) :=
  frames_with ds fl rsel vsel ymin ymax odt frames 0 fis.

(* get_volume_from_series: one single-frame dataset per slice, a new transform for each *)
Definition get_series (fl : flags) (rsel vsel : sel) (ymin ymax : Q) (odt : dtype)
           (slices : list (dataset * list Z)) : res (list (list Q)) :=
  mapM (fun s => get_frame (fst s) fl rsel vsel ymin ymax odt [snd s] 0) slices.

(* ------------------------------------------------------------------ *)
(* 8. the standard's pipeline, stage by stage (the specification)      *)
(* ------------------------------------------------------------------ *)
(* PS3.3 C.11.2.1.2 window functions *)
Definition std_window (fn : vfn) (c w ymin ymax : Q) (x : Q) : Q :=
  match fn with
  | Linear =>
      if Qle_bool x (c - (1#2) - (w - 1) / 2) then ymin
      else if negb (Qle_bool x (c - (1#2) + (w - 1) / 2)) then ymax
      else (((x - (c - (1#2))) / (w - 1) + (1#2)) * (ymax - ymin) + ymin)%Q
  | LinearExact =>
      if Qle_bool x (c - w / 2) then ymin
      else if negb (Qle_bool x (c + w / 2)) then ymax
      else (((x - c) / w + (1#2)) * (ymax - ymin) + ymin)%Q
  | Sigmoid => ((ymax - ymin) / (1 + E (- (4) * (x - c) / w)) + ymin)%Q
  end.

Inductive mod_stage := MLut (first : Z) (data : list Z) | MRescale (m b : Q) | MNone.
Inductive voi_stage := VWin (fn : vfn) (c w : Q) | VLut (first : Z) (data : list Z) | VNone.

(* modality stage: stored value -> modality value *)
Definition st_modality (m : mod_stage) (x : Z) : Q :=
  match m with
  | MLut first data => inject_Z (lut_lookup 0 first data x)
  | MRescale s b => (s * inject_Z x + b)%Q
  | MNone => inject_Z x
  end.
(* VOI stage on a modality value (a LUT needs an integer input) *)
Definition st_voi (v : voi_stage) (ymin ymax : Q) (y : Q) : Q :=
  match v with
  | VWin fn c w => std_window fn c w ymin ymax y
  | VLut first data =>
      let mn := lmin data in let mx := lmax data in
      (ymin + inject_Z (lut_lookup 0%Z first data (Qfloor' y) - mn)%Z / inject_Z (mx - mn)%Z * (ymax - ymin))%Q
  | VNone => y
  end.
(* range of the values entering the presentation stage *)
Definition st_range (m : mod_stage) (v : voi_stage) (ymin ymax : Q) (imin imax : Z) : Q * Q :=
  match v with
  | VNone => match m with
             | MLut _ data => (inject_Z (lmin data), inject_Z (lmax data))
             | MRescale s b => ((s * inject_Z imin + b)%Q, (s * inject_Z imax + b)%Q)
             | MNone => (inject_Z imin, inject_Z imax)
             end
  | _ => (ymin, ymax)
  end.
(* presentation stage: inversion within the range *)
Definition st_present (invert : bool) (r : Q * Q) (y : Q) : Q :=
  if invert then (fst r + snd r - y)%Q else y.

Definition staged (m : mod_stage) (v : voi_stage) (invert : bool) (ymin ymax : Q)
           (imin imax : Z) (x : Z) : Q :=
  st_present invert (st_range m v ymin ymax imin imax)
             (st_voi v ymin ymax (st_modality m x)).

End WithExp.

(* ------------------------------------------------------------------ *)
(* 9. palette colour (pixels._get_combined_palette_color_lut)          *)
(* ------------------------------------------------------------------ *)
Definition palette_lut (p : palette) : res (Z * list (Z * Z * Z) * Z) :=
  match p_desc p with
  | (n0, first, bits) =>
      let n := if n0 =? 0 then 65536 else n0 in
      if negb ((bits =? 8) || (bits =? 16)) then Err "RuntimeError"
      else
        let strip := (bits =? 8) && (n mod 2 =? 1) in
        let expected := if bits =? 8 then (if strip then n + 1 else n) else n * 2 in
        if negb ((zlen (p_r p) =? expected) && (zlen (p_g p) =? expected) && (zlen (p_b p) =? expected))
        then Err "RuntimeError"
        else
          let dec := fun bytes => let b := if strip then removelast bytes else bytes in
                                  if bits =? 8 then b else dec16 b in
          Ok (first, combine (combine (dec (p_r p)) (dec (p_g p))) (dec (p_b p)), bits)
  end.

Definition get_frame_palette (ds : dataset) (fl : flags) (odt : dtype) (xs : list Z)
  : res (list (list Z)) :=
  bind (gate fl (d_ctype ds)) (fun u =>
  if negb (is_pal (d_ctype ds)) then Err "NotPalette"
  else if negb (use_pal u) then Ok (map (fun x => [x]) xs)
  else
    match d_palette ds with
    | None => Err "AttributeError"
    | Some p =>
        bind (palette_lut p) (fun t =>
        match t with (first, rows, bits) =>
          if use_icc u && d_icc ds then Err "ICCNotModelled"
          else if req_icc u then Err "RuntimeError"
          else if negb (dtype_eqb (udt bits) odt) && negb (can_cast_safe (udt bits) odt)
          then Err "TypeError"
          else Ok (map (fun x => match lut_lookup (0, 0, 0) first rows x with
                                 | (r, g, b) => [r; g; b] end) xs)
        end)
    end).

(* ------------------------------------------------------------------ *)
(* 10. stand-alone transformation objects                              *)
(* ------------------------------------------------------------------ *)
Section WithExp2.
Variable E : Q -> Q.
(* VOILUTTransformation.apply *)
Definition voi_transformation_apply (wins : option windows) (luts : option (list lutds))
           (s : sel) (ymin ymax : Q) (invert prefer_lut : bool) (odt_float : bool)
           (xs : list Z) : res (list Q) :=
  if negb odt_float then Err "ValueError"
  else
    let use_lut := match wins with None => true | Some _ =>
                     match luts with Some _ => prefer_lut | None => false end end in
    if use_lut then
      match luts with
      | None => Err "AttributeError"
      | Some ls =>
          match select_voi_lut ls s with
          | None => Err "IndexError"
          | Some l =>
              bind (lut_data l) (fun d =>
              bind (scaled_lut_data d ymin ymax invert) (fun sd =>
              Ok (map (lut_lookup 0%Q (ld_first l) sd) xs)))
          end
      end
    else
      match wins with
      | None => Err "AttributeError"
      | Some w =>
          match select_window w s with
          | None => Err "IndexError"
          | Some (c, wd) =>
              if Qle_bool ymax ymin then Err "ValueError"
              else Ok (map (fun x => window E (match w_fn w with Some f => f | None => Linear end)
                                            c wd ymin ymax invert (inject_Z x)) xs)
          end
      end.

(* RealWorldValueMapping.apply *)
Definition rwvm_apply (r : rwvm_kind) (xs : list Z) : res (list Q) :=
  match r with
  | RLut first data =>
      if existsb (fun x => negb (in_lut_range first data x)) xs then Err "ValueError"
      else Ok (map (lut_lookup 0%Q first data) xs)
  | RLin s i a b =>
      if existsb (fun x => negb (Qle_bool a (inject_Z x)) || negb (Qle_bool (inject_Z x) b)) xs
      then Err "ValueError"
      else Ok (map (fun x => (inject_Z x * s + i)%Q) xs)
  end.
End WithExp2.

(* ------------------------------------------------------------------ *)
(* 11. boundary functions for the correspondence run                   *)
(* ------------------------------------------------------------------ *)
(* exp given as a finite table computed by the harness (oracle premise) *)
Definition exp_table (tab : list (Q * Q)) (t : Q) : Q :=
  match find (fun p => Qeq_bool (fst p) t) tab with
  | Some p => snd p
  | None => (-1)%Q
  end.

Definition run_get_frame (tab : list (Q * Q)) ds fl rsel vsel ymin ymax odt frames fi : val :=
  vres vq_list (get_frame (exp_table tab) ds fl rsel vsel ymin ymax odt frames fi).
(* only accept / reject + error class (float32 outputs) *)
Definition run_get_frame_status (tab : list (Q * Q)) ds fl rsel vsel ymin ymax odt frames fi : val :=
  vres (fun _ => VS "ok") (get_frame (exp_table tab) ds fl rsel vsel ymin ymax odt frames fi).
Definition run_palette ds fl odt xs : val := vres vz_list2 (get_frame_palette ds fl odt xs).
Fixpoint gen_from (n : nat) (i a b m : Z) : list Z :=
  match n with
  | O => []
  | S n' => ((a * i + b) mod m) :: gen_from n' (i + 1) a b m
  end.
Definition gen_data (L a b bits : Z) : list Z := gen_from (Z.to_nat L) 0 a b (2 ^ bits).
Definition checksum (l : list Z) : Z :=
  snd (fold_left (fun st v => (fst st + 1, (snd st + (fst st + 1) * v) mod 1000000007)) l (0, 0)).
Definition summary (l : list Z) : val :=
  if zlen l <=? 40 then vz_list l
  else VL [VZ (zlen l); VZ (checksum l); VZ (nth 0 l 0); VZ (nth 1 l 0);
           VZ (nth (length l - 2) l 0); VZ (nth (length l - 1) l 0)].
Definition run_lut_roundtrip first data bits pad : val :=
  vres (fun l => VL [VZ (ld_n l); VZ (ld_first l); VZ (ld_bits l); VZ (zlen (ld_bytes l));
                     vres summary (lut_data l)])
       (mk_lut first data bits None pad).
Definition run_lut_big first L a b bits pad xs : val :=
  vres (fun l => VL [VZ (ld_n l); VZ (ld_first l); VZ (ld_bits l); VZ (zlen (ld_bytes l));
                     VZ (lut_entries l); vres summary (lut_data l);
                     vres (fun d => vz_list (map (lut_lookup 0 (ld_first l) d) xs)) (lut_data l)])
       (mk_lut first (gen_data L a b bits) bits None pad).
Definition run_lut_ctor first data bits : val :=
  vres (fun _ => VS "accepted") (mk_lut first data bits None false).
(* get_frames: every frame in order, the first rejection aborts the call *)
Definition run_all_frames (f : Z -> val) (n : Z) : val :=
  let rs := map (fun i => f (Z.of_nat i)) (seq 0 (Z.to_nat n)) in
  match find (fun v => match v with VErr _ => true | _ => false end) rs with
  | Some e => e
  | None => VL rs
  end.
Definition run_lut_apply first data bits xs : val :=
  vres (fun l => vres (fun d => vz_list (map (lut_lookup 0 (ld_first l) d) xs)) (lut_data l))
       (mk_lut first data bits None false).
Definition run_lut_scaled first data bits ymin ymax invert : val :=
  vres (fun l => vres (fun d => vres vq_list (scaled_lut_data d ymin ymax invert)) (lut_data l))
       (mk_lut first data bits None false).
Definition run_lut_inverted first data bits : val :=
  vres (fun l => vres (fun d => vz_list (inverted_lut_data bits d)) (lut_data l))
       (mk_lut first data bits None false).
Definition run_voi_apply (tab : list (Q * Q)) wins luts s ymin ymax invert prefer xs : val :=
  vres vq_list (voi_transformation_apply (exp_table tab) wins luts s ymin ymax invert prefer true xs).
Definition run_rwvm_apply r xs : val := vres vq_list (rwvm_apply r xs).
Definition run_window (tab : list (Q * Q)) fn c w ymin ymax invert xs : val :=
  if Qle_bool ymax ymin then VErr "ValueError"
  else vq_list (map (fun x => window (exp_table tab) fn c w ymin ymax invert x) xs).
Definition run_gate fl ct : val :=
  vres (fun _ => VS "ok") (gate fl ct).

(* several frames in one call *)
Definition vq_list2 (l : list (list Q)) : val := VL (map vq_list l).
Definition run_get_frames (tab : list (Q * Q)) ds fl rsel vsel ymin ymax odt frames fis : val :=
  vres vq_list2 (get_frames (exp_table tab) ds fl rsel vsel ymin ymax odt frames fis).
Definition run_pixels_by_frame (tab : list (Q * Q)) ds fl rsel vsel ymin ymax odt frames fis : val :=
  vres vq_list2 (get_pixels_by_frame (exp_table tab) ds fl rsel vsel ymin ymax odt frames fis).
Definition run_series (tab : list (Q * Q)) fl rsel vsel ymin ymax odt slices : val :=
  vres vq_list2 (get_series (exp_table tab) fl rsel vsel ymin ymax odt slices).
Definition vstatus {A} (r : res A) : val := vres (fun _ => VS "ok") r.
Definition run_get_frames_status (tab : list (Q * Q)) ds fl rsel vsel ymin ymax odt frames fis : val :=
  vstatus (get_frames (exp_table tab) ds fl rsel vsel ymin ymax odt frames fis).
Definition run_pixels_by_frame_status (tab : list (Q * Q)) ds fl rsel vsel ymin ymax odt frames fis : val :=
  vstatus (get_pixels_by_frame (exp_table tab) ds fl rsel vsel ymin ymax odt frames fis).
Definition run_series_status (tab : list (Q * Q)) fl rsel vsel ymin ymax odt slices : val :=
  vstatus (get_series (exp_table tab) fl rsel vsel ymin ymax odt slices).

(* ------------------------------------------------------------------ *)
(* 12. memory layout of the numpy array handed to LUT(...)             *)
(* ------------------------------------------------------------------ *)
(* A one-dimensional numpy array as the caller owns it: a strided view (byte offset, byte stride -
   possibly negative -, number of items, item size 1 or 2) into a byte buffer, 16-bit items in
   big- or little-endian byte order.  What LUT.__init__ is GIVEN is the array's logical values
   [na_values]; what it must store is their little-endian encoding, whatever the layout
   (content.py: lut_data.astype(dtype.newbyteorder('<')).tobytes()). *)
Record nparr := NpArr { na_buf : list Z; na_off : Z; na_stride : Z; na_n : Z;
                        na_item : Z; na_big : bool }.
Definition na_byte (a : nparr) (p : Z) : Z := nth (Z.to_nat p) (na_buf a) 0.
Definition na_pos (a : nparr) (i : Z) : Z := na_off a + i * na_stride a.
Definition na_elem (a : nparr) (i : Z) : Z :=
  let p := na_pos a i in
  if na_item a =? 1 then na_byte a p
  else if na_big a then 256 * na_byte a p + na_byte a (p + 1)
  else na_byte a p + 256 * na_byte a (p + 1).
Definition na_values (a : nparr) : list Z :=
  map (fun i => na_elem a (Z.of_nat i)) (seq 0 (Z.to_nat (na_n a))).
(* every item lies inside the buffer (numpy guarantees it for a view), all bytes are bytes *)
Definition na_inside (a : nparr) : bool :=
  forallb (fun i => let p := na_pos a (Z.of_nat i) in (0 <=? p) && (p + na_item a <=? zlen (na_buf a)))
          (seq 0 (Z.to_nat (na_n a))).
Definition na_bytes_ok (a : nparr) : bool := forallb (fun b => (0 <=? b) && (b <? 256)) (na_buf a).

(* LUT.__init__ on such an array: bits from dtype.type (= item size), entries = logical values *)
Definition mk_lut_arr (first : Z) (a : nparr) (expl : option string) (pad : bool) : res lutds :=
  mk_lut first (na_values a) (8 * na_item a) expl pad.

(* the array's own bytes in item order (numpy.ascontiguousarray(a).tobytes(): contiguous, but the
   byte order of the dtype is kept) - NOT what the code stores; used only for the refutation
   theorem that shows the byte-order normalisation is necessary *)
Definition na_own_bytes (a : nparr) : list Z :=
  flat_map (fun i => let p := na_pos a (Z.of_nat i) in
                     if na_item a =? 1 then [na_byte a p] else [na_byte a p; na_byte a (p + 1)])
           (seq 0 (Z.to_nat (na_n a))).
Definition mk_lut_arr_own_bytes (first : Z) (a : nparr) : lutds :=
  let n := na_n a in
  let b := na_own_bytes a in
  LutDS (if n =? 65536 then 0 else n) first (8 * na_item a)
        (if zlen b mod 2 =? 1 then b ++ [0] else b) None false.

(* observed: descriptor, number of stored bytes, the stored bytes, lut_data, lookups *)
Definition run_lut_layout first buf off stride n item big pad xs : val :=
  let a := NpArr buf off stride n item big in
  if negb (na_inside a && na_bytes_ok a) then VErr "BadLayout"
  else
  vres (fun l => VL [VZ (ld_n l); VZ (ld_first l); VZ (ld_bits l); VZ (zlen (ld_bytes l));
                     summary (ld_bytes l); vres summary (lut_data l);
                     vres (fun d => vz_list (map (lut_lookup 0 (ld_first l) d) xs)) (lut_data l)])
       (mk_lut_arr first a None pad).

(* ------------------------------------------------------------------ *)
(* 13. histories: one image object (or the datasets of one series)     *)
(*     asked several times                                             *)
(* ------------------------------------------------------------------ *)
(* The stored values live in PixelData ([fst st]).  The first access of .pixel_array decodes them
   into a cache ([snd st]: Image._pixel_array; pydicom's Dataset._pixel_array for the instances
   handed to get_volume_from_series); from then on every read is FED FROM THE CACHE instead of
   decoding PixelData again (image.py get_stored_frame / get_frame / get_frames /
   _get_pixels_by_frame: `if self._pixel_array is None: ... else: frame = self.pixel_array[i]`).
   A read returns its result and writes neither PixelData nor the cache. *)
Inductive hop (Op : Type) := HTouch | HRead (o : Op).
Arguments HTouch {Op}.
Arguments HRead {Op} o.

Section Hist.
  Context {St Op R : Type}.
  Variable read : Op -> St -> R.      (* a read, as a function of the stored values it is fed *)
  Variable touch : St -> R.           (* what .pixel_array returns *)
  Definition hstate := (St * option St)%type.
  Definition hsource (st : hstate) : St := match snd st with Some a => a | None => fst st end.
  Definition hstep (st : hstate) (h : hop Op) : hstate * R :=
    match h with
    | HTouch => ((fst st, Some (hsource st)), touch (hsource st))
    | HRead o => (st, read o (hsource st))
    end.
  Fixpoint hrun (st : hstate) (hs : list (hop Op)) : list R * hstate :=
    match hs with
    | [] => ([], st)
    | h :: t => let r := hstep st h in
                let rest := hrun (fst r) t in (snd r :: fst rest, snd rest)
    end.
End Hist.

(* the reads of one image object; status = only accept / reject is observed (float32) *)
Inductive iread :=
| IFrame (status : bool) (odt : dtype) (fi : Z)           (* get_frame(fi + 1, dtype=odt, ...) *)
| IFrames (status : bool) (odt : dtype) (fis : list Z)    (* get_frames([...], dtype=odt, ...) *)
| IPixels (status : bool) (odt : dtype) (fis : list Z)    (* get_volume / get_total_pixel_matrix *)
| IStored (fi : Z).                                       (* get_stored_frame(fi + 1) *)

Definition vres_or_status {A} (status : bool) (f : A -> val) (r : res A) : val :=
  if status then vstatus r else vres f r.

Definition image_read (E : Q -> Q) ds fl rsel vsel ymin ymax (o : iread) (frames : list (list Z)) : val :=
  match o with
  | IFrame s odt fi => vres_or_status s vq_list (get_frame E ds fl rsel vsel ymin ymax odt frames fi)
  | IFrames s odt fis => vres_or_status s vq_list2 (get_frames E ds fl rsel vsel ymin ymax odt frames fis)
  | IPixels s odt fis => vres_or_status s vq_list2 (get_pixels_by_frame E ds fl rsel vsel ymin ymax odt frames fis)
  | IStored fi => vres vz_list (frame_at frames fi)
  end.

(* all reads of one history share the flags, selectors and output range of the case; the output
   dtype and the frames asked for vary from read to read *)
Definition run_history (tab : list (Q * Q)) ds fl rsel vsel ymin ymax frames (ops : list (hop iread)) : val :=
  VL (fst (hrun (image_read (exp_table tab) ds fl rsel vsel ymin ymax) vz_list2 (frames, None) ops)).

(* get_volume_from_series called several times on the SAME datasets (given in slice order); the
   stored values of instance k are [nth k px]; HTouch = .pixel_array of every dataset *)
Inductive sread := SVolume (status : bool) (odt : dtype).
Definition series_read (E : Q -> Q) fl rsel vsel ymin ymax (dss : list dataset) (o : sread)
           (px : list (list Z)) : val :=
  match o with
  | SVolume s odt => vres_or_status s vq_list2 (get_series E fl rsel vsel ymin ymax odt (combine dss px))
  end.
Definition run_series_history (tab : list (Q * Q)) fl rsel vsel ymin ymax dss px (ops : list (hop sread)) : val :=
  VL (fst (hrun (series_read (exp_table tab) fl rsel vsel ymin ymax dss) vz_list2 (px, None) ops)).
