(* C16 - the exactness theorems for reports with foreign content around and between the groups. *)
From Coq Require Import String ZArith List Bool Lia.
From HD Require Import Base.Val C16_Model C16_Proofs.
Import ListNotations.
Open Scope Z_scope.

Lemma find_items_app a b n v r : find_items (a ++ b) n v r = find_items a n v r ++ find_items b n v r.
Proof. apply filter_app. Qed.
Lemma find_im_head ks post :
  find_items (Item cImagingMeasurements CONTAINER CONTAINS 0 0 None ks :: post)
             (Some cImagingMeasurements) (Some CONTAINER) None
  = Item cImagingMeasurements CONTAINER CONTAINS 0 0 None ks
    :: find_items post (Some cImagingMeasurements) (Some CONTAINER) None.
Proof. reflexivity. Qed.
Lemma find_group_head g l :
  find_items (build g :: l) (Some cMeasurementGroup) (Some CONTAINER) None
  = build g :: find_items l (Some cMeasurementGroup) (Some CONTAINER) None.
Proof. reflexivity. Qed.

Lemma find_groups_mixed pre xs post : no_im pre = true -> others_ok xs = true ->
  find_measurement_groups (report_mixed pre xs post) = map build (groups_of xs).
Proof.
  intros Hp Ho. unfold find_measurement_groups, report_mixed. cbn [kids].
  rewrite find_items_app. cbn [app]. rewrite find_im_head.
  replace (find_items pre (Some cImagingMeasurements) (Some CONTAINER) None) with (@nil item).
  2:{ symmetry. apply filter_none. intros x Hx. unfold no_im in Hp. rewrite forallb_forall in Hp.
      specialize (Hp x Hx). unfold is_im in Hp. cbn [has_name has_vt has_rl].
      apply negb_true_iff in Hp. rewrite Hp. reflexivity. }
  cbn [app kids]. clear Hp. unfold mixed_items, groups_of.
  induction xs as [|[i|g] xs IH]; cbn [map flat_map app]; [reflexivity| |].
  - cbn [others_ok forallb] in Ho. apply andb_true_iff in Ho as [Hi Ho].
    unfold not_group in Hi. apply negb_true_iff in Hi. unfold find_items. cbn [filter].
    cbn [has_name has_vt has_rl]. rewrite Hi. cbn [andb]. now apply IH.
  - cbn [others_ok forallb] in Ho. rewrite find_group_head. cbn [map]. f_equal. now apply IH.
Qed.

Theorem query_exact_planar_mixed pre xs post f : no_im pre = true -> others_ok xs = true ->
  Forall good (groups_of xs) -> check_planar f = Ok tt ->
  get_planar (report_mixed pre xs post) f
  = Ok (map build (filter (fun g => kind_eqb (g_kind g) Planar && sat f g) (groups_of xs))).
Proof.
  intros Hp Ho Hg Hc. unfold get_planar. rewrite Hc. cbn [bind]. rewrite find_groups_mixed by assumption.
  apply (collect_map_build _ _ good); [|assumption]. intros g Hgood. now apply planar_group_test_build.
Qed.
Theorem query_exact_volumetric_mixed pre xs post f : no_im pre = true -> others_ok xs = true ->
  Forall good (groups_of xs) -> check_volumetric f = Ok tt ->
  get_volumetric (report_mixed pre xs post) f
  = Ok (map build (filter (fun g => kind_eqb (g_kind g) Volumetric && sat f g) (groups_of xs))).
Proof.
  intros Hp Ho Hg Hc. unfold get_volumetric. rewrite Hc. cbn [bind]. rewrite find_groups_mixed by assumption.
  apply (collect_map_build _ _ good); [|assumption]. intros g Hgood. now apply volumetric_group_test_build.
Qed.
Theorem query_exact_image_mixed pre xs post f : no_im pre = true -> others_ok xs = true ->
  Forall good (groups_of xs) ->
  get_image (report_mixed pre xs post) f
  = Ok (map build (filter (fun g => kind_eqb (g_kind g) ImageK && sat_image f g) (groups_of xs))).
Proof.
  intros Hp Ho Hg. unfold get_image. rewrite find_groups_mixed by assumption.
  apply (collect_map_build _ _ good); [|assumption]. intros g Hgood. now apply image_group_test_build.
Qed.
