(* C06 - property theorems.  Only statements, `exact <lemma>` and Print Assumptions.
   exp enters as a universally quantified function E with explicit premises
   (E respects ==, E(-t)*E(t) = 1, E > 0); everything else is closed. *)
From Coq Require Import String ZArith List Bool QArith Lia.
From HD Require Import Base.Val C06_Model C06_Proofs C06_Proofs_Fold C06_Proofs_E2E C06_Proofs_Series C06_Proofs_Layout C06_Proofs_History.
Import ListNotations.
Open Scope Z_scope.

(* ---- flags_tristate ---------------------------------------------------- *)
(* whole domain 3^5 x 2 flag vectors x 3 colour types (forallb lifted with forallb_forall):
   the gate rejects exactly the listed incompatibilities, always with ValueError, and otherwise
   True = required, False = not used, None = used but not required (a required real world value
   map switches modality and a non-required VOI off; a required VOI with it is an incompatibility). *)
Theorem C06_flags_tristate_gate : forall f ct,
  (gate f ct = Err "ValueError" <-> incompatible f ct = true) /\
  (forall k, gate f ct = Err k -> k = "ValueError"%string) /\
  (forall u, gate f ct = Ok u -> incompatible f ct = false /\ u = expected_uses f).
Proof. exact gate_spec. Qed.
Print Assumptions C06_flags_tristate_gate.

(* a stage that is not used is never found; a required stage is found or the result is Err;
   a used-not-required stage is found iff present (real world value map shown; it supersedes the others) *)
Theorem C06_flags_tristate_rwvm : forall u pres ds rsel vsel fi fd,
  discover u pres ds rsel vsel fi = Ok fd ->
  (use_rwvm u = false -> fd_rwvm fd = None) /\
  (req_rwvm u = true -> fd_rwvm fd <> None) /\
  (use_rwvm u = true -> forall lvls, levels ds fi = Ok lvls ->
     (fd_rwvm fd <> None <-> first_some lv_rwvm lvls <> None)).
Proof. exact discover_rwvm. Qed.
Print Assumptions C06_flags_tristate_rwvm.

Theorem C06_flags_tristate_modality : forall u pres ds rsel vsel fi fd,
  discover u pres ds rsel vsel fi = Ok fd ->
  (use_mod u = false -> fd_modlut fd = None /\ fd_rescale fd = None) /\
  (req_mod u = true -> fd_modlut fd <> None \/ fd_rescale fd <> None) /\
  (fd_rwvm fd <> None -> fd_modlut fd = None /\ fd_rescale fd = None /\
                         fd_voilut fd = None /\ fd_window fd = None) /\
  (use_mod u = true -> fd_rwvm fd = None -> forall lvls, levels ds fi = Ok lvls ->
     fd_modlut fd = d_modlut ds /\
     fd_rescale fd = match d_modlut ds with Some _ => None | None => first_some level_rescale lvls end).
Proof. exact discover_modality. Qed.
Print Assumptions C06_flags_tristate_modality.

Theorem C06_flags_tristate_voi_presentation : forall u pres ds rsel vsel fi fd,
  discover u pres ds rsel vsel fi = Ok fd ->
  (use_voi u = false -> fd_voilut fd = None /\ fd_window fd = None) /\
  (req_voi u = true -> fd_voilut fd <> None \/ fd_window fd <> None) /\
  (pres = false -> fd_invert fd = false) /\
  fd_invert fd = pres && ds_invert ds.
Proof. exact discover_voi. Qed.
Print Assumptions C06_flags_tristate_voi_presentation.

(* ---- fold_sound, one theorem per folding case -------------------------------- *)
Definition exp_like (E : Q -> Q) : Prop :=
  (forall a b, (a == b)%Q -> (E a == E b)%Q) /\ (forall t, (E (- t) * E t == 1)%Q) /\ (forall t, (0 < E t)%Q).

Theorem C06_fold_sound_rescale_window : forall E, exp_like E ->
  forall f c w m b ymin ymax odt imin imax x,
  fd_rwvm f = None -> fd_modlut f = None -> fd_window f = Some (c, w) ->
  fd_rescale f = Some (m, b) -> ~ (m == 0)%Q -> (ymin <= ymax)%Q -> fn_guard (fd_fn f) w ->
  exists e, fold E f ymin ymax odt (Some imin) (Some imax) = Ok (e, None) /\
    (eff_apply_r E ymin ymax e x ==
     staged E (MRescale m b) (VWin (fd_fn f) c w) (fd_invert f) ymin ymax imin imax x)%Q.
Proof. intros E (H1 & H2 & H3). exact (fold_rescale_window_sound E H1 H2 H3). Qed.
Print Assumptions C06_fold_sound_rescale_window.

Theorem C06_fold_sound_window_alone : forall E, exp_like E ->
  forall f c w ymin ymax odt imin imax x,
  fd_rwvm f = None -> fd_modlut f = None -> fd_window f = Some (c, w) ->
  fd_rescale f = None -> (ymin <= ymax)%Q -> fn_guard (fd_fn f) w ->
  exists e, fold E f ymin ymax odt (Some imin) (Some imax) = Ok (e, None) /\
    (eff_apply_r E ymin ymax e x ==
     staged E MNone (VWin (fd_fn f) c w) (fd_invert f) ymin ymax imin imax x)%Q.
Proof. intros E (H1 & H2 & H3). exact (fold_window_alone_sound E H1 H2 H3). Qed.
Print Assumptions C06_fold_sound_window_alone.

Theorem C06_fold_sound_modlut_window : forall E, exp_like E ->
  forall f ml mdata c w ymin ymax odt imin imax x,
  fd_rwvm f = None -> fd_modlut f = Some ml -> lut_data ml = Ok mdata -> mdata <> [] ->
  fd_window f = Some (c, w) -> is_float odt = true -> (ymin <= ymax)%Q -> fn_guard (fd_fn f) w ->
  exists e, fold E f ymin ymax odt (Some imin) (Some imax) = Ok (e, None) /\
    (eff_apply_r E ymin ymax e x ==
     staged E (MLut (ld_first ml) mdata) (VWin (fd_fn f) c w) (fd_invert f) ymin ymax imin imax x)%Q.
Proof. intros E (H1 & H2 & H3). exact (fold_modlut_window_sound E H1 H2 H3). Qed.
Print Assumptions C06_fold_sound_modlut_window.

Theorem C06_fold_sound_rescale_alone : forall E f m b ymin ymax odt imin imax x,
  fd_rwvm f = None -> fd_modlut f = None -> fd_window f = None -> fd_voilut f = None ->
  fd_rescale f = Some (m, b) ->
  exists e, fold E f ymin ymax odt (Some imin) (Some imax) = Ok (e, None) /\
    (eff_apply_r E ymin ymax e x ==
     staged E (MRescale m b) VNone (fd_invert f) ymin ymax imin imax x)%Q.
Proof. exact fold_rescale_alone_sound. Qed.
Print Assumptions C06_fold_sound_rescale_alone.

Theorem C06_fold_sound_nothing : forall E f ymin ymax odt imin imax x,
  fd_rwvm f = None -> fd_modlut f = None -> fd_window f = None -> fd_voilut f = None ->
  fd_rescale f = None ->
  exists e, fold E f ymin ymax odt (Some imin) (Some imax) = Ok (e, None) /\
    (eff_apply_r E ymin ymax e x ==
     staged E MNone VNone (fd_invert f) ymin ymax imin imax x)%Q.
Proof. exact fold_nothing_sound. Qed.
Print Assumptions C06_fold_sound_nothing.

Theorem C06_fold_sound_modlut_alone : forall E f ml mdata ymin ymax odt imin imax x,
  fd_rwvm f = None -> fd_modlut f = Some ml -> lut_data ml = Ok mdata -> mdata <> [] ->
  fd_window f = None -> fd_voilut f = None -> 0 < ld_bits ml ->
  Forall (fun v => 0 <= v < 2 ^ ld_bits ml) mdata ->
  exists e, fold E f ymin ymax odt (Some imin) (Some imax) = Ok (e, None) /\
    (eff_apply_r E ymin ymax e x ==
     staged E (MLut (ld_first ml) mdata) VNone (fd_invert f) ymin ymax imin imax x)%Q.
Proof. exact fold_modlut_alone_sound. Qed.
Print Assumptions C06_fold_sound_modlut_alone.

(* VOI LUT through a rescale: sound for integer slope >= 1 (with the divisibility the code checks),
   refused (ValueError) for every other slope: non-positive integer, or non-integer slope/intercept *)
Theorem C06_fold_sound_rescale_voilut : forall E f vl vdata (m b : Z) ymin ymax odt imin imax x,
  fd_rwvm f = None -> fd_modlut f = None -> fd_window f = None ->
  fd_voilut f = Some vl -> lut_data vl = Ok vdata -> vdata <> [] -> lmin vdata < lmax vdata ->
  fd_rescale f = Some (inject_Z m, inject_Z b) -> 1 <= m -> (ld_first vl - b) mod m = 0 ->
  is_float odt = true -> (ymin < ymax)%Q ->
  exists e, fold E f ymin ymax odt (Some imin) (Some imax) = Ok (e, None) /\
    (eff_apply_r E ymin ymax e x ==
     staged E (MRescale (inject_Z m) (inject_Z b)) (VLut (ld_first vl) vdata) (fd_invert f)
            ymin ymax imin imax x)%Q.
Proof. exact fold_rescale_voilut_sound. Qed.
Print Assumptions C06_fold_sound_rescale_voilut.

Theorem C06_fold_rescale_voilut_refuses_nonpositive : forall E f vl (m b : Z) ymin ymax odt imin imax,
  fd_rwvm f = None -> fd_modlut f = None -> fd_window f = None -> fd_voilut f = Some vl ->
  fd_rescale f = Some (inject_Z m, inject_Z b) -> m <= 0 ->
  fold E f ymin ymax odt imin imax = Err "ValueError".
Proof. exact fold_rescale_voilut_nonpositive. Qed.
Print Assumptions C06_fold_rescale_voilut_refuses_nonpositive.

Theorem C06_fold_rescale_voilut_refuses_nonint : forall E f vl m b ymin ymax odt imin imax,
  fd_rwvm f = None -> fd_modlut f = None -> fd_window f = None -> fd_voilut f = Some vl ->
  fd_rescale f = Some (m, b) -> Qis_int b && Qis_int m = false ->
  fold E f ymin ymax odt imin imax = Err "ValueError".
Proof. exact fold_rescale_voilut_nonint. Qed.
Print Assumptions C06_fold_rescale_voilut_refuses_nonint.

(* LUT o LUT: modality table then VOI table scaled to the output range, inverted if asked *)
Theorem C06_fold_sound_lut_lut : forall E f ml mdata vl vdata ymin ymax odt imin imax x,
  fd_rwvm f = None -> fd_modlut f = Some ml -> lut_data ml = Ok mdata -> mdata <> [] ->
  fd_window f = None -> fd_voilut f = Some vl -> lut_data vl = Ok vdata -> vdata <> [] ->
  lmin vdata < lmax vdata -> is_float odt = true -> (ymin < ymax)%Q ->
  exists e, fold E f ymin ymax odt (Some imin) (Some imax) = Ok (e, None) /\
    (eff_apply_r E ymin ymax e x ==
     staged E (MLut (ld_first ml) mdata) (VLut (ld_first vl) vdata) (fd_invert f)
            ymin ymax imin imax x)%Q.
Proof. exact fold_lut_lut_sound. Qed.
Print Assumptions C06_fold_sound_lut_lut.

Theorem C06_fold_rwvm : forall E f r ymin ymax odt imin imax,
  fd_rwvm f = Some r ->
  fold E f ymin ymax odt imin imax =
  Ok (match r with
      | RLut first data => (ELut first data false F64, None)
      | RLin s i a b => (EAffine s i, Some (a, b))
      end).
Proof. exact fold_rwvm_sound. Qed.
Print Assumptions C06_fold_rwvm.

(* ---- lut_identity ---------------------------------------------------------------- *)
(* (strengthened: the former exception "one-entry 8-bit table read from a file" is gone, D102 fixed) *)
Theorem C06_lut_identity : forall first data bits expl pad,
  lut_ok first data bits ->
  exists l, mk_lut first data bits expl pad = Ok l /\
            lut_data l = Ok data /\ ld_first l = first /\ ld_bits l = bits /\
            lut_entries l = zlen data /\
            ld_n l = (if zlen data =? 65536 then 0 else zlen data).
Proof. exact lut_identity_full. Qed.
Print Assumptions C06_lut_identity.

Theorem C06_lut_clip_below : forall (d : Z) first a t x, x <= first -> lut_lookup d first (a :: t) x = a.
Proof. intros. now apply lut_lookup_below. Qed.
Print Assumptions C06_lut_clip_below.

Theorem C06_lut_clip_above : forall (d : Z) first l z x,
  first + zlen l <= x -> lut_lookup d first (l ++ [z]) x = z.
Proof. intros. now apply lut_lookup_above. Qed.
Print Assumptions C06_lut_clip_above.

Theorem C06_lut_inside : forall (d : Z) first data x, first <= x < first + zlen data ->
  nth_error data (Z.to_nat (x - first)) = Some (lut_lookup d first data x).
Proof. intros. now apply lut_lookup_inside. Qed.
Print Assumptions C06_lut_inside.

Theorem C06_lut_inverted_exact : forall bits data, 0 < bits ->
  Forall (fun v => 0 <= v < 2 ^ bits) data ->
  inverted_lut_data bits data = map (fun v => lmin data + lmax data - v) data.
Proof. exact inverted_lut_exact. Qed.
Print Assumptions C06_lut_inverted_exact.

(* ---- selector_exact ------------------------------------------------------------------ *)
Theorem C06_selector_index : forall (l : list lutds) i v,
  py_nth l i = Some v <->
  exists k, 0 <= k < zlen l /\ (i = k \/ i = k - zlen l) /\ nth_error l (Z.to_nat k) = Some v.
Proof. intros. apply py_nth_spec. Qed.
Print Assumptions C06_selector_index.

Theorem C06_selector_index_missing : forall (l : list lutds) i,
  py_nth l i = None <-> (i < - zlen l \/ zlen l <= i).
Proof. intros. apply py_nth_none. Qed.
Print Assumptions C06_selector_index_missing.

Theorem C06_selector_key_first_match : forall (k : string) l i,
  index_of String.eqb k l = Some i <->
  0 <= i /\ (exists x, nth_error l (Z.to_nat i) = Some x /\ String.eqb x k = true) /\
  (forall j x, 0 <= j < i -> nth_error l (Z.to_nat j) = Some x -> String.eqb x k = false).
Proof. intros. apply index_of_spec. Qed.
Print Assumptions C06_selector_key_first_match.

Theorem C06_selector_window : forall w i c wd,
  select_window w (SIdx i) = Some (c, wd) <->
  py_nth (w_centers w) i = Some c /\ py_nth (w_widths w) i = Some wd.
Proof. intros. rewrite select_window_idx. apply pick_window_spec. Qed.
Print Assumptions C06_selector_window.

(* ---- per_frame_params ------------------------------------------------------------------ *)
(* the parameters used for frame fi are those of frame fi's own functional group: per-frame over shared *)
Theorem C06_per_frame_params : forall ds fi pf l b,
  d_perframe ds = Some pf -> 0 <= fi -> nth_error pf (Z.to_nat fi) = Some l ->
  lv_win (d_root ds) = None -> lv_win l = Some b ->
  exists lvls, levels ds fi = Ok lvls /\ first_some lv_win lvls = Some b.
Proof. intros. now apply per_frame_wins with (pf := pf) (l := l). Qed.
Print Assumptions C06_per_frame_params.

Theorem C06_per_frame_params_rescale : forall ds fi pf l b,
  d_perframe ds = Some pf -> 0 <= fi -> nth_error pf (Z.to_nat fi) = Some l ->
  level_rescale (d_root ds) = None -> level_rescale l = Some b ->
  exists lvls, levels ds fi = Ok lvls /\ first_some level_rescale lvls = Some b.
Proof. intros. now apply per_frame_wins with (pf := pf) (l := l). Qed.
Print Assumptions C06_per_frame_params_rescale.

Theorem C06_shared_params_fallback : forall ds fi pf l s,
  d_perframe ds = Some pf -> 0 <= fi -> nth_error pf (Z.to_nat fi) = Some l ->
  lv_win (d_root ds) = None -> lv_win l = None -> d_shared ds = Some s ->
  exists lvls, levels ds fi = Ok lvls /\ first_some lv_win lvls = lv_win s.
Proof. intros. now apply shared_fallback with (pf := pf) (l := l). Qed.
Print Assumptions C06_shared_params_fallback.

(* ---- non-vacuity ------------------------------------------------------------------ *)
(* a concrete instance of the VOI-LUT folding hypotheses: slope 2, intercept 1, table of 6
   entries starting at 3 (3 - 1 divisible by 2), 6 - 1 not divisible by 2 (last entry appended) *)
Example C06_nonvacuous_voilut :
  let vl := LutDS 6 3 16 (enc16 [10; 20; 40; 80; 160; 320]) None false in
  let f := Found None None (Some (inject_Z 2, inject_Z 1)) (Some vl) None Linear true in
  lut_data vl = Ok [10; 20; 40; 80; 160; 320] /\ (ld_first vl - 1) mod 2 = 0 /\
  map (fun x => match fold E0 f 0 1 F64 (Some 0) (Some 255) with
                | Ok (e, _) => Qred (eff_apply_r E0 0 1 e x) | Err _ => (-1)%Q end) [0; 1; 2; 3; 4; 9]
  = map (fun x => Qred (staged E0 (MRescale (inject_Z 2) (inject_Z 1)) (VLut 3 [10; 20; 40; 80; 160; 320]) true
                               0 1 0 255 x)) [0; 1; 2; 3; 4; 9].
Proof. vm_compute. repeat split. Qed.
Print Assumptions C06_nonvacuous_voilut.

Example C06_nonvacuous_lut_ok : lut_ok 65535 [255; 0; 7] 8 /\ lut_ok 0 [65535] 16.
Proof. unfold lut_ok, zlen; cbn [length Z.of_nat Pos.of_succ_nat Pos.succ]. repeat split; try lia; auto; repeat (constructor; try lia). Qed.
Print Assumptions C06_nonvacuous_lut_ok.

Example C06_nonvacuous_gate :
  gate (Flags TN TN TT true TN TN) Mono = Ok (expected_uses (Flags TN TN TT true TN TN)) /\
  gate (Flags TT TN TT true TN TN) Mono = Err "ValueError" /\
  gate (Flags TT TN TN true TN TN) Mono = Ok (expected_uses (Flags TT TN TN true TN TN)) /\
  incompatible (Flags TN TT TF false TF TF) Mono = false.
Proof. vm_compute. repeat split. Qed.
Print Assumptions C06_nonvacuous_gate.

(* ==== extension: end-to-end statements (C06_Proofs_E2E.v) ================================== *)
(* fold_sound as ONE theorem over every folding case: whatever was discovered (no real world value
   map), a successful folding equals modality -> VOI -> presentation on the stages found *)
Theorem C06_fold_sound : forall E, exp_like E ->
  forall fd ymin ymax odt imin imax e r,
  fd_rwvm fd = None -> fd_guards fd -> (ymin < ymax)%Q ->
  fold E fd ymin ymax odt (Some imin) (Some imax) = Ok (e, r) ->
  r = None /\
  forall x, (eff_apply_r E ymin ymax e x ==
             staged E (stage_mod fd) (stage_voi fd) (fd_invert fd) ymin ymax imin imax x)%Q.
Proof. intros E (H1 & H2 & H3). exact (fold_staged E H1 H2 H3). Qed.
Print Assumptions C06_fold_sound.

(* VOI LUT through a rescale for ANY rational slope / intercept: whenever the code accepts, it is sound *)
Theorem C06_fold_sound_rescale_voilut_general : forall E f vl vdata ymin ymax odt imin imax e r x,
  fd_rwvm f = None -> fd_modlut f = None -> fd_window f = None ->
  fd_voilut f = Some vl -> lut_data vl = Ok vdata -> (ymin < ymax)%Q ->
  fold E f ymin ymax odt (Some imin) (Some imax) = Ok (e, r) ->
  r = None /\
  (eff_apply_r E ymin ymax e x ==
   staged E (match fd_rescale f with Some (m, b) => MRescale m b | None => MNone end)
          (VLut (ld_first vl) vdata) (fd_invert f) ymin ymax imin imax x)%Q.
Proof. exact fold_rescale_voilut_general. Qed.
Print Assumptions C06_fold_sound_rescale_voilut_general.

(* THE property sentence: for every dataset, flag vector, selectors, output range and floating point
   output dtype, a returned frame equals - value by value - the stored frame passed through the
   stages let through by the flag gate and found for THIS frame (per-frame over shared): the selected
   real world value map alone, or else modality -> VOI -> presentation inversion *)
Theorem C06_get_frame_staged : forall E, exp_like E ->
  forall ds fl rsel vsel ymin ymax odt frames fi ys,
  d_float_in ds = false -> is_float odt = true ->
  get_frame E ds fl rsel vsel ymin ymax odt frames fi = Ok ys ->
  exists u fd xs,
    gate fl (d_ctype ds) = Ok u /\ (ymin < ymax)%Q /\
    discover u (f_pres fl) ds rsel vsel fi = Ok fd /\
    frame_at frames fi = Ok xs /\
    match fd_rwvm fd with
    | Some r => Forall2 (rwvm_value r) xs ys
    | None => fd_guards fd ->
        Forall2 (fun x y => (y == staged E (stage_mod fd) (stage_voi fd) (fd_invert fd) ymin ymax
                                         (stored_min ds) (stored_max ds) x)%Q) xs ys
    end.
Proof. intros E (H1 & H2 & H3). exact (get_frame_staged E H1 H2 H3). Qed.
Print Assumptions C06_get_frame_staged.

(* several frames in one call (get_frames; _get_pixels_by_frame behind get_volume and
   get_total_pixel_matrix): with uniform per-frame groups the result is get_frame of every requested
   frame, in order; the transform of the first frame is reused only when that changes nothing *)
Theorem C06_get_frames_is_map_get_frame : forall E ds fl rsel vsel ymin ymax odt frames fis,
  uniform ds -> (forall pf, d_perframe ds = Some pf -> length pf = length frames) -> fis <> [] ->
  get_frames E ds fl rsel vsel ymin ymax odt frames fis =
  mapM (fun fi => get_frame E ds fl rsel vsel ymin ymax odt frames fi) fis.
Proof. exact get_frames_is_map_get_frame. Qed.
Print Assumptions C06_get_frames_is_map_get_frame.

Theorem C06_pixels_by_frame_is_map_get_frame : forall E ds fl rsel vsel ymin ymax odt frames fis er0,
  uniform ds -> (forall pf, d_perframe ds = Some pf -> length pf = length frames) ->
  combined E ds fl rsel vsel ymin ymax odt 0 = Ok er0 ->
  get_pixels_by_frame E ds fl rsel vsel ymin ymax odt frames fis =
  mapM (fun fi => get_frame E ds fl rsel vsel ymin ymax odt frames fi) fis.
Proof. intros. unfold get_pixels_by_frame. now apply frames_with_is_map_get_frame with (er0 := er0). Qed.
Print Assumptions C06_pixels_by_frame_is_map_get_frame.

(* get_volume_from_series: one new transform per single-frame dataset *)
Theorem C06_series_is_map_get_frame : forall E fl rsel vsel ymin ymax odt slices,
  get_series E fl rsel vsel ymin ymax odt slices =
  mapM (fun s => get_frame E (fst s) fl rsel vsel ymin ymax odt [snd s] 0) slices.
Proof. reflexivity. Qed.
Print Assumptions C06_series_is_map_get_frame.

(* get_volume_from_series, slice by slice: the call is accepted iff every instance alone is accepted, and
   slice k of the volume is then get_frame of instance k alone (its own rescale, window centre / width /
   function, LUTs, photometric interpretation): no transform is carried over from a neighbouring slice *)
Theorem C06_series_slicewise : forall E fl rsel vsel ymin ymax odt slices yss,
  get_series E fl rsel vsel ymin ymax odt slices = Ok yss <->
  Forall2 (fun s ys => get_frame E (fst s) fl rsel vsel ymin ymax odt [snd s] 0 = Ok ys) slices yss.
Proof. exact series_slicewise. Qed.
Print Assumptions C06_series_slicewise.

(* a refused series: exactly when some instance alone is refused; the first one (in slice order) gives the error *)
Theorem C06_series_error : forall E fl rsel vsel ymin ymax odt slices k,
  get_series E fl rsel vsel ymin ymax odt slices = Err k <->
  exists l1 s l2, slices = l1 ++ s :: l2 /\
                  get_frame E (fst s) fl rsel vsel ymin ymax odt [snd s] 0 = Err k /\
                  Forall (fun x => exists ys, get_frame E (fst x) fl rsel vsel ymin ymax odt [snd x] 0 = Ok ys) l1.
Proof. exact series_error. Qed.
Print Assumptions C06_series_error.

(* neighbour independence: the values an instance gets in the volume depend neither on the other
   instances of the series nor on its position among them *)
Theorem C06_series_neighbour_independent : forall E fl rsel vsel ymin ymax odt l1 l2 l1' l2' s yss yss',
  get_series E fl rsel vsel ymin ymax odt (l1 ++ s :: l2) = Ok yss ->
  get_series E fl rsel vsel ymin ymax odt (l1' ++ s :: l2') = Ok yss' ->
  nth_error yss (length l1) = nth_error yss' (length l1') /\
  nth_error yss (length l1) =
    (match get_frame E (fst s) fl rsel vsel ymin ymax odt [snd s] 0 with Ok ys => Some ys | Err _ => None end).
Proof. exact series_neighbour_independent. Qed.
Print Assumptions C06_series_neighbour_independent.

(* the property sentence for a series (floating point output): every slice of the volume equals - value by
   value - the stored frame of ITS OWN instance through the stages discovered in THAT instance *)
Theorem C06_series_staged : forall E, exp_like E ->
  forall fl rsel vsel ymin ymax odt slices yss,
  is_float odt = true -> Forall (fun s => d_float_in (fst s) = false) slices ->
  get_series E fl rsel vsel ymin ymax odt slices = Ok yss ->
  Forall2 (fun s ys =>
    exists u fd,
      gate fl (d_ctype (fst s)) = Ok u /\ (ymin < ymax)%Q /\
      discover u (f_pres fl) (fst s) rsel vsel 0 = Ok fd /\
      match fd_rwvm fd with
      | Some r => Forall2 (rwvm_value r) (snd s) ys
      | None => fd_guards fd ->
          Forall2 (fun x y => (y == staged E (stage_mod fd) (stage_voi fd) (fd_invert fd) ymin ymax
                                           (stored_min (fst s)) (stored_max (fst s)) x)%Q) (snd s) ys
      end) slices yss.
Proof. intros E (H1 & H2 & H3). exact (series_staged E H1 H2 H3). Qed.
Print Assumptions C06_series_staged.

(* without uniformity the reuse is wrong in the code as it is (reported): frame 1's own window ignored *)
Theorem C06_get_frames_reuse_refuted :
  let fl := Flags TF TN TT true TN TN in
  let frames := [[10; 20]; [10; 20]] in
  exists ys ys',
    get_frames E0 nonuniform_ds fl (SIdx 0) (SIdx 0) 0 1 F64 frames [0; 1] = Ok ys /\
    mapM (fun fi => get_frame E0 nonuniform_ds fl (SIdx 0) (SIdx 0) 0 1 F64 frames fi) [0; 1] = Ok ys' /\
    nth 1 ys [] <> nth 1 ys' [].
Proof. exact get_frames_reuse_refuted. Qed.
Print Assumptions C06_get_frames_reuse_refuted.

(* frame-level range check of real world value maps: accepted iff every value is in the mapped range *)
Theorem C06_rwvm_range_check : forall r xs,
  (forallb (rwvm_in_range r) xs = true ->
     exists ys, rwvm_apply r xs = Ok ys /\ Forall2 (rwvm_value r) xs ys) /\
  (forallb (rwvm_in_range r) xs = false -> rwvm_apply r xs = Err "ValueError").
Proof. exact rwvm_apply_spec. Qed.
Print Assumptions C06_rwvm_range_check.

(* palette colour tables: parsed back to exactly the rows they encode; wrong byte length refused *)
Theorem C06_palette_parse_identity : forall first bits r g b,
  (bits = 8 \/ bits = 16) -> 1 <= zlen r <= 65536 -> zlen g = zlen r -> zlen b = zlen r ->
  Forall (fun v => 0 <= v < 2 ^ bits) r -> Forall (fun v => 0 <= v < 2 ^ bits) g ->
  Forall (fun v => 0 <= v < 2 ^ bits) b ->
  palette_lut (Pal ((if zlen r =? 65536 then 0 else zlen r), first, bits)
                   (pal_encode bits r) (pal_encode bits g) (pal_encode bits b)) =
  Ok (first, combine (combine r g) b, bits).
Proof. exact palette_parse_identity. Qed.
Print Assumptions C06_palette_parse_identity.

Theorem C06_palette_parse_length_mismatch : forall n0 first bits r g b,
  (bits = 8 \/ bits = 16) ->
  let n := if n0 =? 0 then 65536 else n0 in
  let expected := if bits =? 8 then (if n mod 2 =? 1 then n + 1 else n) else n * 2 in
  (zlen r <> expected \/ zlen g <> expected \/ zlen b <> expected) ->
  palette_lut (Pal (n0, first, bits) r g b) = Err "RuntimeError".
Proof. exact palette_parse_length_mismatch. Qed.
Print Assumptions C06_palette_parse_length_mismatch.

(* non-vacuity of the composite statements *)
Example C06_nonvacuous_exp_like : exp_like E0.
Proof. exact E0_exp_like. Qed.
Print Assumptions C06_nonvacuous_exp_like.

Example C06_nonvacuous_get_frame_staged :
  exists ys fd,
    get_frame E0 ex_ds ex_fl (SIdx 0) (SIdx 0) 0 1 F64 [[0; 7; 15]] 0 = Ok ys /\
    discover (expected_uses ex_fl) true ex_ds (SIdx 0) (SIdx 0) 0 = Ok fd /\
    fd_rwvm fd = None /\ fd_guards fd /\ fd_invert fd = true /\
    stage_mod fd = MRescale (inject_Z 2) (inject_Z (-3)) /\
    stage_voi fd = VWin Linear (inject_Z 10) (inject_Z 12) /\
    map Qred ys = [1; 4 # 11; 0]%Q.
Proof. exact get_frame_staged_nonvacuous. Qed.
Print Assumptions C06_nonvacuous_get_frame_staged.

Example C06_nonvacuous_get_frames :
  uniform ex_mf /\ applies_all (expected_uses ex_fl) ex_mf (SIdx 0) 0 = false /\
  exists ys, get_frames E0 ex_mf ex_fl (SIdx 0) (SIdx 0) 0 1 F64 [[0; 7]; [0; 7]] [1; 0] = Ok ys /\
             map (map Qred) ys = [[1 # 11; 1]; [0; 3 # 11]]%Q.
Proof. exact get_frames_nonvacuous. Qed.
Print Assumptions C06_nonvacuous_get_frames.

Example C06_nonvacuous_series :
  exists y0 y1 y2,
    get_series E0 ser_fl (SIdx 0) (SIdx 0) 0 1 F64
      [(ser_slice 40 400 None, [0; 35; 90]); (ser_slice 40 150 None, [0; 35; 90]);
       (ser_slice 40 150 (Some LinearExact), [0; 35; 90])] = Ok [y0; y1; y2] /\
    get_frame E0 (ser_slice 40 150 None) ser_fl (SIdx 0) (SIdx 0) 0 1 F64 [[0; 35; 90]] 0 = Ok y1 /\
    map Qred y0 <> map Qred y1 /\ map Qred y1 <> map Qred y2.
Proof. exact series_nonvacuous. Qed.
Print Assumptions C06_nonvacuous_series.

(* ---- lut_identity over the memory layout of the array that was handed over ------------------- *)
(* "lookup-table objects return the table they were given": for EVERY well-formed numpy view
   (any buffer, byte offset, positive or negative byte stride, 8 bit items or 16 bit items in
   big- or little-endian byte order) LUT(first, array).lut_data is the array's logical values *)
Theorem C06_lut_layout_identity : forall first a expl pad,
  na_valid a -> 0 <= first < 65536 -> 1 <= na_n a <= 65536 ->
  exists l, mk_lut_arr first a expl pad = Ok l /\
            lut_data l = Ok (na_values a) /\ ld_first l = first /\ ld_bits l = 8 * na_item a /\
            lut_entries l = na_n a /\
            ld_n l = (if na_n a =? 65536 then 0 else na_n a).
Proof. exact lut_layout_identity. Qed.
Print Assumptions C06_lut_layout_identity.

Theorem C06_lut_layout_stored_bytes : forall first a expl pad l,
  mk_lut_arr first a expl pad = Ok l -> ld_bytes l = std_bytes (8 * na_item a) (na_values a).
Proof. exact lut_layout_stored_bytes. Qed.
Print Assumptions C06_lut_layout_stored_bytes.

Theorem C06_lut_layout_irrelevant : forall first a b expl pad,
  na_item a = na_item b -> na_values a = na_values b ->
  mk_lut_arr first a expl pad = mk_lut_arr first b expl pad.
Proof. exact lut_layout_irrelevant. Qed.
Print Assumptions C06_lut_layout_irrelevant.

(* the byte-order normalisation is necessary: storing the array's own (contiguous) bytes returns
   another table for a big-endian array *)
Theorem C06_lut_own_bytes_refuted :
  na_valid be_300 /\ na_values be_300 = [300] /\
  lut_data (mk_lut_arr_own_bytes 0 be_300) = Ok [11265].
Proof. exact lut_own_bytes_refuted. Qed.
Print Assumptions C06_lut_own_bytes_refuted.

Example C06_nonvacuous_lut_layout : na_valid be_view /\ na_values be_view = [300; 65000].
Proof. exact be_view_ok. Qed.
Print Assumptions C06_nonvacuous_lut_layout.

(* ---- histories: one object asked several times ------------------------------------------------ *)
(* An image object (or the datasets of one series) holds the stored values in PixelData and, once
   .pixel_array was accessed, in a cache from which every later read is fed.  For EVERY history
   (any sequence of get_frame / get_frames / get_volume / get_total_pixel_matrix / get_stored_frame
   reads in any output dtypes and of .pixel_array accesses, from a fresh object):
   the result of each operation is the result of that operation alone on a fresh object holding the
   stored values (no read depends on what was read before), and at the end PixelData and whatever
   the reads are fed from still are the stored values (reading changes nothing). *)
Theorem C06_history_independent : forall E ds fl rsel vsel ymin ymax frames ops,
  let r := hrun (image_read E ds fl rsel vsel ymin ymax) vz_list2 (frames, None) ops in
  fst r = map (fresh_result (image_read E ds fl rsel vsel ymin ymax) vz_list2 frames) ops /\
  hsource (snd r) = frames /\ fst (snd r) = frames.
Proof. intros. exact (hrun_fresh _ _ frames ops). Qed.
Print Assumptions C06_history_independent.

(* the same for get_volume_from_series called repeatedly on the same datasets *)
Theorem C06_series_history_independent : forall E fl rsel vsel ymin ymax dss px ops,
  let r := hrun (series_read E fl rsel vsel ymin ymax dss) vz_list2 (px, None) ops in
  fst r = map (fresh_result (series_read E fl rsel vsel ymin ymax dss) vz_list2 px) ops /\
  hsource (snd r) = px /\ fst (snd r) = px.
Proof. intros. exact (hrun_fresh _ _ px ops). Qed.
Print Assumptions C06_series_history_independent.

(* the last operation of a history returns the same whatever preceded it *)
Theorem C06_history_last_independent : forall E ds fl rsel vsel ymin ymax frames ops1 ops2 h,
  let rd := image_read E ds fl rsel vsel ymin ymax in
  last (fst (hrun rd vz_list2 (frames, None) (ops1 ++ [h]))) (fresh_result rd vz_list2 frames h) =
  last (fst (hrun rd vz_list2 (frames, None) (ops2 ++ [h]))) (fresh_result rd vz_list2 frames h).
Proof. intros. exact (hrun_last_independent _ _ frames ops1 ops2 h). Qed.
Print Assumptions C06_history_last_independent.

(* THE property sentence inside a history: whatever was read from the object before, a frame that
   get_frame returns (floating point output dtype) equals - value by value - the STORED values passed
   through the stages found for that frame *)
Theorem C06_history_get_frame_staged : forall E, exp_like E ->
  forall ds fl rsel vsel ymin ymax frames ops k odt fi ys,
  d_float_in ds = false -> is_float odt = true ->
  nth_error ops k = Some (HRead (IFrame false odt fi)) ->
  nth_error (fst (hrun (image_read E ds fl rsel vsel ymin ymax) vz_list2 (frames, None) ops)) k =
    Some (vq_list ys) ->
  exists u fd xs,
    gate fl (d_ctype ds) = Ok u /\ (ymin < ymax)%Q /\
    discover u (f_pres fl) ds rsel vsel fi = Ok fd /\
    frame_at frames fi = Ok xs /\
    match fd_rwvm fd with
    | Some r => Forall2 (rwvm_value r) xs ys
    | None => fd_guards fd ->
        Forall2 (fun x y => (y == staged E (stage_mod fd) (stage_voi fd) (fd_invert fd) ymin ymax
                                         (stored_min ds) (stored_max ds) x)%Q) xs ys
    end.
Proof. intros E (H1 & H2 & H3). exact (history_get_frame_staged E H1 H2 H3). Qed.
Print Assumptions C06_history_get_frame_staged.

(* non-vacuous: signed 12-bit CT values, slope 1 / intercept -1024, read as int16, .pixel_array,
   int16 again, float64, get_stored_frame: -1024 applied once each time, stored values intact *)
Example C06_nonvacuous_history :
  run_history [] hist_ds hist_fl (SIdx 0) (SIdx 0) 0 1 [[0; 100; -5]]
    [HRead (IFrame false (DT KI 16) 0); HTouch; HRead (IFrame false (DT KI 16) 0);
     HRead (IFrame false (DT KF 64) 0); HRead (IStored 0)] =
  VL [vq_list [(-1024)%Q; (-924)%Q; (-1029)%Q]; vz_list2 [[0; 100; -5]];
      vq_list [(-1024)%Q; (-924)%Q; (-1029)%Q]; vq_list [(-1024)%Q; (-924)%Q; (-1029)%Q];
      vz_list [0; 100; -5]].
Proof. exact history_nonvacuous. Qed.
Print Assumptions C06_nonvacuous_history.
