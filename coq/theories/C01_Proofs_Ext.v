(* C01 - proofs, part 7 (extension): the round trip for EVERY request list;
   the combine_segments=True read characterised completely (result or refusal
   class) from the input alone; quantisation error bound. *)
From Coq Require Import String ZArith List Bool Lia ZifyBool Arith Permutation.
From HD Require Import Base.Val Base.ListZ Base.BitWindow C01_Model C01_Proofs C01_Proofs_Frames
  C01_Proofs_Lut C01_Proofs_Value C01_Proofs_Full C01_Proofs_Hist.
Import ListNotations.
Open Scope Z_scope.
Ltac Zify.zify_post_hook ::= Z.to_euclidean_division_equations.

(* ------------------------------------------------------------------ *)
(* sources that are not there                                           *)
(* ------------------------------------------------------------------ *)
Lemma constructed_planes_in_src : forall c i perm st s j,
  Permutation perm (zrange (nsrc c)) -> construct c i perm = Ok st ->
  In (s, j) (s_meta st) -> in_src c j = true /\ In s (seg_iter c).
Proof.
  intros c i perm st s j Hperm Hc Hin.
  destruct (construct_inv c i perm st Hc) as (a & inc & om & _ & _ & _ & _ & Hst).
  cbv zeta in Hst. destruct Hst as (_ & ->). cbn [s_meta] in Hin.
  apply in_map_iff in Hin as (f & Hk & Hf). apply in_frames_of in Hf as (Hs & Hj & _ & _).
  unfold key_of in Hk. injection Hk as <- <-. split; [|exact Hs].
  apply filter_In in Hj as (Hj & _). apply (Permutation_in _ Hperm) in Hj. apply in_zrange in Hj.
  unfold in_src. lia.
Qed.

Lemma find_frame_out : forall c i perm st s j,
  Permutation perm (zrange (nsrc c)) -> construct c i perm = Ok st -> in_src c j = false ->
  find_frame st s j = None.
Proof.
  intros c i perm st s j Hperm Hc Hout. unfold find_frame. apply find_from_none. intros Hin.
  destruct (constructed_planes_in_src c i perm st s j Hperm Hc Hin) as (E & _). congruence.
Qed.

Lemma map_const_eq {A B C} : forall (x : C) (l : list A) (l' : list B), length l = length l' ->
  map (fun _ => x) l = map (fun _ => x) l'.
Proof.
  induction l as [|a l IH]; destruct l' as [|b l']; cbn [length map]; intros H;
    try discriminate; try reflexivity.
  f_equal. apply IH. lia.
Qed.

Lemma map_repeat_const {A B C} : forall (f : A -> B) x (l : list C),
  map f (repeat x (length l)) = map (fun _ => f x) l.
Proof. induction l as [|y l IH]; cbn [length repeat map]; [reflexivity|now f_equal]. Qed.

Lemma remap_from_notin : forall l i v, ~ In v l -> remap_from i v l = 0.
Proof.
  induction l as [|x t IH]; intros i v H; [reflexivity|]. cbn [remap_from].
  destruct (x =? v) eqn:E.
  - exfalso. apply H. left. lia.
  - apply IH. intros Hin. apply H. now right.
Qed.

Lemma read_plane_g_out : forall c i perm st g j,
  valid c i = true -> Permutation perm (zrange (nsrc c)) -> construct c i perm = Ok st ->
  in_src c j = false -> read_plane_g g st j = expected_plane c i j.
Proof.
  intros c i perm st g j Hv Hperm Hc Hout.
  destruct (valid_basic c i Hv) as (Hsn & Hn & _).
  destruct (segs_facts c Hsn) as (_ & Hpos & _).
  pose proof (constructed_cfg c i perm st Hc) as Hcfg.
  assert (Hf : forall s, fetch_g g st s j = zeros (npix c)).
  { intros s. unfold fetch_g. rewrite (find_frame_out c i perm st s j Hperm Hc Hout). now rewrite Hcfg. }
  unfold read_plane_g, expected_plane. rewrite Hcfg, Hout. cbv zeta.
  destruct (ty c).
  1, 2: apply map_ext; intros p; rewrite map_map;
        rewrite (map_ext _ (fun _ => 0)) by (intros s; rewrite Hf; apply nthz_zeros);
        apply map_const_eq; rewrite zrange_length; unfold zlen; lia.
  rewrite Hf. unfold zeros. rewrite <- (zrange_length (npix c)), map_repeat_const.
  apply map_ext. intros _.
  rewrite remap_from_notin by (intros H0; specialize (Hpos 0 H0); lia).
  unfold one_to. rewrite map_map. apply map_ext_in. intros k Hk. apply in_zrange in Hk.
  destruct (0 =? k + 1) eqn:E; [lia|reflexivity].
Qed.

Lemma read_plane_g_any : forall c i perm st a lazy warm j,
  valid c i = true -> Permutation perm (zrange (nsrc c)) -> construct c i perm = Ok st ->
  check_and_cast c i = Ok a ->
  read_plane_g (frame_getter lazy warm st) st j = expected_plane c i j.
Proof.
  intros c i perm st a lazy warm j Hv Hperm Hc Ha.
  destruct (in_src c j) eqn:Hin; [|now apply (read_plane_g_out c i perm)].
  rewrite (read_plane_g_ext _ (stored_frame lazy st)).
  - rewrite read_plane_g_stored. unfold expected_plane. rewrite Hin.
    apply (read_plane_expected c i perm st a lazy j Hv Hperm Hc Ha). unfold in_src in Hin. lia.
  - intros k Hk. now apply (getter_history_independent c i perm).
Qed.

(* THE PROPERTY for every request list: any sub-list, repetition or reordering
   of the sources (and, with assert_missing_frames_are_empty, sources that are not
   there) that passes the query guards reads back as the input planes in the
   order requested (zeros for absent sources), from every object and cache state *)
Theorem roundtrip_any_request : forall c i perm st,
  valid c i = true -> Permutation perm (zrange (nsrc c)) -> construct c i perm = Ok st ->
  forall lazy warm req byframe am,
    read_guard st req byframe am = Ok tt ->
    read_g (frame_getter lazy warm st) st req byframe am = Ok (expected_req c i byframe req).
Proof.
  intros c i perm st Hv Hperm Hc lazy warm req byframe am Hg.
  destruct (construct_inv c i perm st Hc) as (a & _ & _ & _ & Ha & _).
  unfold read_g. rewrite Hg. cbn [bind]. f_equal. unfold expected_req.
  apply map_ext. intros r. now apply (read_plane_g_any c i perm st a).
Qed.

(* the guard of get_pixels_by_source_instance, characterised *)
Theorem read_guard_instance_iff : forall st req am,
  nodup_keys (s_meta st) = true ->
  (read_guard st req false am = Ok tt <->
   req <> [] /\ (am = true \/ forall r, In r req -> in_src (s_cfg st) r = true)) /\
  (read_guard st req false am = Err "KeyError"%string <->
   req <> [] /\ am = false /\ exists r, In r req /\ in_src (s_cfg st) r = false) /\
  (read_guard st req false am = Err "ValueError"%string <-> req = []).
Proof.
  intros st req am Hk. unfold read_guard, read_by_instance. rewrite Hk. cbn [negb].
  destruct req as [|r0 rs].
  { split; [|split]; split; try discriminate; try reflexivity.
    - intros (H & _). now contradiction H.
    - intros (H & _). now contradiction H. }
  set (req := r0 :: rs). assert (Hne : req <> []) by discriminate.
  destruct (existsb (fun j => (j <? 0) || (nsrc (s_cfg st) <=? j)) req) eqn:E.
  - apply existsb_exists in E as (r & Hr & Hb).
    destruct am; cbn [negb andb]; (split; [|split]); split; try discriminate.
    + intros _. split; [exact Hne|now left].
    + reflexivity.
    + intros (_ & H & _). discriminate.
    + intros (_ & [H | H]); [discriminate|]. specialize (H r Hr). unfold in_src in H. lia.
    + intros _. split; [exact Hne|]. split; [reflexivity|]. exists r. split; [exact Hr|]. unfold in_src. lia.
    + reflexivity.
  - assert (Hall : forall r, In r req -> in_src (s_cfg st) r = true).
    { intros r Hr. destruct (in_src (s_cfg st) r) eqn:Ei; [reflexivity|]. exfalso.
      assert (existsb (fun j => (j <? 0) || (nsrc (s_cfg st) <=? j)) req = true).
      { apply existsb_exists. exists r. split; [exact Hr|]. unfold in_src in Ei. lia. }
      congruence. }
    rewrite andb_false_r. (split; [|split]); split; try discriminate.
    + intros _. split; [exact Hne|now right].
    + reflexivity.
    + intros (_ & _ & r & Hr & Hb). rewrite (Hall r Hr) in Hb. discriminate.
Qed.

(* ------------------------------------------------------------------ *)
(* combine_segments=True: result or refusal, completely                  *)
(* ------------------------------------------------------------------ *)
Lemma overlap2_maps : forall (f g : Z -> Z) (l : list Z),
  overlap2 (map f l) (map g l) = existsb (fun p => (0 <? f p) && (0 <? g p)) l.
Proof. induction l as [|x l IH]; cbn [map overlap2 existsb]; [reflexivity|now rewrite IH]. Qed.

Lemma max2_maps : forall (f g : Z -> Z) (l : list Z),
  max2 (map f l) (map g l) = map (fun p => Z.max (f p) (g p)) l.
Proof. induction l as [|x l IH]; cbn [map max2]; [reflexivity|now rewrite IH]. Qed.

Lemma existsb_ext_in {A} : forall (f g : A -> bool) l, (forall x, In x l -> f x = g x) ->
  existsb f l = existsb g l.
Proof.
  intros f g l. induction l as [|x l IH]; intros H; [reflexivity|]. cbn [existsb].
  rewrite (H x) by now left. rewrite IH; [reflexivity|]. intros y Hy. apply H. now right.
Qed.

Lemma existsb_map_comp {A B} : forall (f : B -> bool) (g : A -> B) l,
  existsb f (map g l) = existsb (fun x => f (g x)) l.
Proof. induction l as [|x l IH]; cbn [map existsb]; [reflexivity|now rewrite IH]. Qed.

Lemma existsb_false_in {A} : forall (f : A -> bool) l x, existsb f l = false -> In x l -> f x = false.
Proof.
  intros f l x H Hx. destruct (f x) eqn:E; [|reflexivity].
  assert (existsb f l = true) by (apply existsb_exists; now exists x). congruence.
Qed.

Lemma first_some_app {A B} : forall (f : A -> option B) l l',
  first_some f (l ++ l') = match first_some f l with Some y => Some y | None => first_some f l' end.
Proof.
  induction l as [|x l IH]; intros l'; [reflexivity|]. cbn [app first_some].
  destruct (f x); [reflexivity|apply IH].
Qed.

Lemma first_some_none {A B} : forall (f : A -> option B) l, first_some f l = None ->
  forall x, In x l -> f x = None.
Proof.
  induction l as [|y l IH]; intros H x Hx; [contradiction|]. cbn [first_some] in H.
  destruct (f y) eqn:E; [discriminate|]. destruct Hx as [<- | Hx]; [exact E|now apply IH].
Qed.

Lemma zeros_as_map : forall n, zeros n = map (fun _ => 0) (zrange n).
Proof.
  intros n. unfold zeros. rewrite <- (zrange_length n).
  induction (zrange n) as [|x l IH]; cbn [length repeat map]; [reflexivity|now f_equal].
Qed.

Lemma psum_zero : forall c i j p, psum c i j p 0 = 0.
Proof. reflexivity. Qed.

Lemma occupied_succ : forall c i j p m, 0 <= m ->
  occupied_before c i j p (m + 1) = occupied_before c i j p m || negb (expected_pixel c i j p m =? 0).
Proof.
  intros c i j p m Hm. unfold occupied_before. rewrite zrange_succ by exact Hm.
  rewrite existsb_app. cbn [existsb]. now rewrite orb_false_r.
Qed.

Lemma psum_pos_iff : forall c i j p, (forall s, In s (segs c) -> 1 <= s) ->
  forall n : nat, (n <= length (segs c))%nat ->
  0 <= psum c i j p (Z.of_nat n) /\
  (0 <? psum c i j p (Z.of_nat n)) = occupied_before c i j p (Z.of_nat n).
Proof.
  intros c i j p Hpos. induction n as [|n IH]; intros Hn.
  - change (Z.of_nat 0) with 0. rewrite psum_zero. split; [lia|reflexivity].
  - destruct (IH ltac:(lia)) as (H0 & Hocc).
    replace (Z.of_nat (S n)) with (Z.of_nat n + 1) by lia.
    rewrite psum_succ, occupied_succ by lia. rewrite <- Hocc.
    assert (Hs : 1 <= nthz (Z.of_nat n) (segs c) 0) by (apply Hpos, nthz_in; unfold zlen; lia).
    destruct (expected_pixel c i j p (Z.of_nat n) =? 0); cbn [negb]; split; try lia.
Qed.

(* one visited frame, on lists *)
Lemma step_core : forall (Zs : list Z) (h ps bv : Z -> Z) (occ : Z -> bool) s,
  1 <= s ->
  (forall p, In p Zs -> 0 <= ps p /\ (0 <? ps p) = occ p) ->
  (forall p, In p Zs -> (h p = 0 /\ bv p = 0) \/ (h p <> 0 /\ bv p = 1)) ->
  overlap2 (map bv Zs) (map ps Zs) = existsb (fun p => negb (h p =? 0) && occ p) Zs /\
  (existsb (fun p => negb (h p =? 0) && occ p) Zs = false ->
   max2 (map (fun v => v * s) (map bv Zs)) (map ps Zs)
   = map (fun p => ps p + (if h p =? 0 then 0 else s)) Zs).
Proof.
  intros Zs h ps bv occ s Hs Hps Hb. split.
  - rewrite overlap2_maps. apply existsb_ext_in. intros p Hp.
    destruct (Hps p Hp) as (_ & <-).
    destruct (Hb p Hp) as [(E1 & E2) | (E1 & E2)]; rewrite E2.
    + rewrite E1. reflexivity.
    + replace (h p =? 0) with false by lia. reflexivity.
  - intros Hex. rewrite map_map, max2_maps. apply map_ext_in. intros p Hp.
    pose proof (existsb_false_in _ _ p Hex Hp) as Hf. cbv beta in Hf.
    destruct (Hps p Hp) as (Hn & Ho). rewrite <- Ho in Hf.
    destruct (Hb p Hp) as [(E1 & E2) | (E1 & E2)]; rewrite E2.
    + rewrite E1. change (0 =? 0) with true. cbv iota. lia.
    + replace (h p =? 0) with false in * by lia. cbn [negb andb] in Hf. lia.
Qed.

Lemma combine_step_err : forall g st j e s, combine_step g st j (Err e) s = Err e.
Proof. reflexivity. Qed.

Lemma combine_fold_err : forall g st j l e, fold_left (combine_step g st j) l (Err e) = Err e.
Proof. induction l as [|s l IH]; intros e; [reflexivity|]. cbn [fold_left]. rewrite combine_step_err. apply IH. Qed.

Lemma combine_step_total : forall c i perm st a lazy j m,
  valid c i = true -> Permutation perm (zrange (nsrc c)) -> construct c i perm = Ok st ->
  check_and_cast c i = Ok a -> ty c <> LABELMAP -> 0 <= j < nsrc c -> 0 <= m < zlen (segs c) ->
  combine_step (stored_frame lazy st) st j
    (Ok (map (fun p => psum c i j p m) (zrange (npix c)))) (nthz m (segs c) 0)
  = match seg_defect c i j m with
    | Some e => Err e
    | None => Ok (map (fun p => psum c i j p (m + 1)) (zrange (npix c)))
    end.
Proof.
  intros c i perm st a lazy j m Hv Hperm Hc Ha Hty Hj Hm.
  destruct (valid_basic c i Hv) as (Hsn & Hn & _ & _ & _ & _ & Hmf & _).
  destruct (segs_facts c Hsn) as (_ & Hpos & _).
  set (s := nthz m (segs c) 0).
  assert (Hs_in : In s (seg_iter c)).
  { unfold seg_iter. destruct (ty c); try (apply nthz_in; exact Hm). contradiction. }
  assert (Hs1 : 1 <= s). { apply Hpos. apply nthz_in. exact Hm. }
  pose proof (fetch_correct c i perm st a lazy s j Hv Hperm Hc Ha Hs_in Hj) as Hfetch.
  pose proof (seg_plane_zlen c i a s j Hv Ha Hj) as Hcl.
  set (h := fun p => expected_pixel c i j p m).
  assert (Hcv : forall p, 0 <= p < npix c -> nthz p (seg_plane c a s j) 0 = h p /\ value_range c (h p)).
  { intros p Hp. apply (seg_plane_expected c i a j m p Hv Ha Hty Hj Hm Hp). }
  assert (Hcol : seg_plane c a s j = map h (zrange (npix c))).
  { apply (list_eq_map_nth _ (npix c) h Hcl). intros p Hp. apply (Hcv p Hp). }
  assert (Hps : forall p, In p (zrange (npix c)) ->
            0 <= psum c i j p m /\ (0 <? psum c i j p m) = occupied_before c i j p m).
  { intros p _. replace m with (Z.of_nat (Z.to_nat m)) by lia.
    apply (psum_pos_iff c i j p Hpos). unfold zlen in Hm. lia. }
  assert (Hsucc : forall p, psum c i j p (m + 1) = psum c i j p m + (if h p =? 0 then 0 else s)).
  { intros p. apply psum_succ. lia. }
  pose proof (constructed_cfg c i perm st Hc) as Hcfg.
  unfold combine_step. cbn [bind]. unfold fetch in Hfetch. rewrite Hcfg in *.
  unfold seg_defect. cbv zeta. subst h. cbv beta in *.
  destruct (find_frame st s j) as [idx|].
  - rewrite Hfetch, Hcol. unfold nonbinary. rewrite existsb_map_comp. cbv beta.
    destruct (match ty c with FRACTIONAL => true | _ => false end &&
              existsb (fun p => negb ((expected_pixel c i j p m =? 0) || (expected_pixel c i j p m =? maxfrac c)))
                      (zrange (npix c))) eqn:Enb;
      [reflexivity|].
    (* the frame is binary: b holds 0 / 1 *)
    set (bv := fun p => match ty c with FRACTIONAL => expected_pixel c i j p m / maxfrac c
                                   | _ => expected_pixel c i j p m end).
    assert (Hb : (if match ty c with FRACTIONAL => true | _ => false end
                  then map (fun v => v / maxfrac c) (map (fun p => expected_pixel c i j p m) (zrange (npix c)))
                  else map (fun p => expected_pixel c i j p m) (zrange (npix c))) = map bv (zrange (npix c))).
    { unfold bv. destruct (ty c); try reflexivity. now rewrite map_map. }
    rewrite Hb.
    assert (Hbv : forall p, In p (zrange (npix c)) ->
              (expected_pixel c i j p m = 0 /\ bv p = 0) \/ (expected_pixel c i j p m <> 0 /\ bv p = 1)).
    { intros p Hp. pose proof Hp as Hp'. apply in_zrange in Hp'. destruct (Hcv p Hp') as (_ & Hvr).
      unfold value_range in Hvr. unfold bv. destruct (ty c) eqn:Et; [lia| |contradiction].
      cbn [andb] in Enb. pose proof (existsb_false_in _ _ p Enb Hp) as Hf. cbv beta in Hf.
      specialize (Hmf eq_refl).
      destruct (Z.eq_dec (expected_pixel c i j p m) 0) as [E0 | E0].
      - left. split; [exact E0|]. rewrite E0. apply Zdiv_0_l.
      - right. split; [exact E0|]. assert (E1 : expected_pixel c i j p m = maxfrac c) by lia.
        rewrite E1. apply Z.div_same. lia. }
    destruct (step_core (zrange (npix c)) (fun p => expected_pixel c i j p m) (fun p => psum c i j p m) bv
                        (fun p => occupied_before c i j p m) s Hs1 Hps Hbv) as (Hov & Hmax).
    cbv beta in Hov, Hmax. rewrite Hov.
    destruct (existsb (fun p => negb (expected_pixel c i j p m =? 0) && occupied_before c i j p m)
                      (zrange (npix c))) eqn:Eov; [reflexivity|].
    rewrite (Hmax eq_refl). f_equal. apply map_ext. intros p. now rewrite Hsucc.
  - (* no stored frame: the plane of this segment is empty *)
    assert (Hz : forall p, In p (zrange (npix c)) -> expected_pixel c i j p m = 0).
    { intros p Hp. apply in_zrange in Hp. destruct (Hcv p Hp) as (<- & _).
      rewrite <- Hfetch. apply nthz_zeros. }
    rewrite (existsb_false_of_forall
               (fun p => negb ((expected_pixel c i j p m =? 0) || (expected_pixel c i j p m =? maxfrac c)))).
    2:{ intros p Hp. rewrite (Hz p Hp). reflexivity. }
    rewrite andb_false_r.
    rewrite (existsb_false_of_forall (fun p => negb (expected_pixel c i j p m =? 0) && occupied_before c i j p m)).
    2:{ intros p Hp. rewrite (Hz p Hp). reflexivity. }
    f_equal. apply map_ext_in. intros p Hp. rewrite Hsucc, (Hz p Hp). change (0 =? 0) with true. cbv iota. lia.
Qed.

Lemma combine_fold_total : forall c i perm st a lazy j,
  valid c i = true -> Permutation perm (zrange (nsrc c)) -> construct c i perm = Ok st ->
  check_and_cast c i = Ok a -> ty c <> LABELMAP -> 0 <= j < nsrc c ->
  forall n : nat, (n <= length (segs c))%nat ->
  fold_left (combine_step (stored_frame lazy st) st j) (firstn n (segs c)) (Ok (zeros (npix c))) =
  match first_some (seg_defect c i j) (zrange (Z.of_nat n)) with
  | Some e => Err e
  | None => Ok (map (fun p => psum c i j p (Z.of_nat n)) (zrange (npix c)))
  end.
Proof.
  intros c i perm st a lazy j Hv Hperm Hc Ha Hty Hj. induction n as [|n IH]; intros Hn.
  - change (Z.of_nat 0) with 0. change (zrange 0) with (@nil Z). cbn [firstn fold_left first_some]. f_equal.
    rewrite zeros_as_map. apply map_ext. intros p. now rewrite psum_zero.
  - rewrite (firstn_succ (segs c) n 0) by lia. rewrite fold_left_app, (IH ltac:(lia)).
    replace (Z.of_nat (S n)) with (Z.of_nat n + 1) by lia. rewrite zrange_succ by lia.
    rewrite first_some_app.
    destruct (first_some (seg_defect c i j) (zrange (Z.of_nat n))) as [e|]; cbn [fold_left first_some].
    + reflexivity.
    + replace (nth n (segs c) 0) with (nthz (Z.of_nat n) (segs c) 0) by (unfold nthz; now rewrite Nat2Z.id).
      rewrite (combine_step_total c i perm st a lazy j (Z.of_nat n)); auto; [|unfold zlen; lia].
      destruct (seg_defect c i j (Z.of_nat n)); reflexivity.
Qed.

Lemma combine_fold_none : forall g st j l out, (forall s, find_frame st s j = None) ->
  fold_left (combine_step g st j) l (Ok out) = Ok out.
Proof.
  intros g st j l out H. induction l as [|s l IH]; [reflexivity|]. cbn [fold_left].
  unfold combine_step at 2. cbn [bind]. rewrite H. exact IH.
Qed.

(* one output plane of the combined read: the label map of the input plane, or
   the refusal its first defect (in the order of the described segments) causes *)
Theorem combine_plane_total : forall c i perm st a lazy j,
  valid c i = true -> Permutation perm (zrange (nsrc c)) -> construct c i perm = Ok st ->
  check_and_cast c i = Ok a ->
  combine_plane (stored_frame lazy st) st j =
  match plane_defect c i j with Some e => Err e | None => Ok (expected_label_plane c i j) end.
Proof.
  intros c i perm st a lazy j Hv Hperm Hc Ha.
  destruct (valid_basic c i Hv) as (Hsn & Hn & _).
  pose proof (constructed_cfg c i perm st Hc) as Hcfg.
  destruct (segs_facts c Hsn) as (Hnd & Hpos & _).
  unfold combine_plane, plane_defect, expected_label_plane. rewrite Hcfg. cbv zeta.
  destruct (in_src c j) eqn:Hin.
  - assert (Hj : 0 <= j < nsrc c) by (unfold in_src in Hin; lia).
    destruct (ty c) eqn:Et.
    1, 2: pose proof (combine_fold_total c i perm st a lazy j Hv Hperm Hc Ha ltac:(congruence) Hj
                        (length (segs c)) (le_n _)) as F;
          rewrite firstn_all in F; rewrite F;
          change (Z.of_nat (length (segs c))) with (zlen (segs c));
          destruct (first_some (seg_defect c i j) (zrange (zlen (segs c)))); reflexivity.
    (* LABELMAP *)
    f_equal. change (fetch_g (stored_frame lazy st) st 0 j) with (fetch lazy st 0 j).
    rewrite (fetch_correct c i perm st a lazy 0 j Hv Hperm Hc Ha); auto;
      [|unfold seg_iter; rewrite Et; now left].
    apply (list_eq_map_nth _ (npix c)); [now apply (seg_plane_zlen c i)|].
    intros p Hp.
    destruct (label_plane_expected c i a j p Hv Ha Et Hj Hp) as (HL & Hone). cbv zeta in HL, Hone.
    set (L := nthz p (seg_plane c a 0 j) 0) in *.
    unfold expected_label.
    assert (E : map (fun k => if expected_pixel c i j p k =? 0 then 0 else nthz k (segs c) 0) (zrange (zlen (segs c)))
              = map (fun k => (fun x => if L =? x then L else 0) (nthz k (segs c) 0)) (zrange (zlen (segs c)))).
    { apply map_ext_in. intros k Hk. apply in_zrange in Hk. rewrite <- (Hone k Hk).
      pose proof (remap_spec (segs c) 1 L k ltac:(lia) Hnd Hk) as R.
      replace (1 + k) with (k + 1) in R by lia. rewrite R.
      destruct (L =? nthz k (segs c) 0) eqn:EL; cbn [Z.eqb]; [|reflexivity].
      assert (L = nthz k (segs c) 0) by lia. lia. }
    rewrite E, <- (map_map (fun k => nthz k (segs c) 0) (fun x => if L =? x then L else 0)).
    rewrite <- (list_as_map_nth (segs c) 0).
    symmetry. apply sum_pick; [exact Hnd|]. destruct HL as [<- | HL]; [now right|now left].
  - (* a source that is not there: no frame at all *)
    assert (Hnone : forall s, find_frame st s j = None) by (intros s; now apply (find_frame_out c i perm)).
    rewrite <- zeros_as_map.
    destruct (ty c).
    1, 2: now rewrite combine_fold_none.
    unfold fetch_g. now rewrite Hnone, Hcfg.
Qed.

(* THE PROPERTY for the label-map view, complete: for EVERY valid input and every
   request list that passes the query guards, combine_segments=True returns
   exactly what the input determines - the label map of the requested planes, or
   the refusal (ValueError: a truly fractional frame; RuntimeError: a pixel in two
   segments) of the first defective plane - from every object and cache state *)
Theorem combined_total : forall c i perm st,
  valid c i = true -> Permutation perm (zrange (nsrc c)) -> construct c i perm = Ok st ->
  forall lazy warm req byframe am,
    read_guard st req byframe am = Ok tt ->
    read_combined (frame_getter lazy warm st) st req byframe am = spec_combined c i byframe req.
Proof.
  intros c i perm st Hv Hperm Hc lazy warm req byframe am Hg.
  destruct (construct_inv c i perm st Hc) as (a & _ & _ & _ & Ha & _).
  rewrite (combined_history_independent c i perm st lazy warm) by assumption.
  unfold read_combined, spec_combined. rewrite Hg. cbn [bind].
  apply map_res_ext. intros r. now apply (combine_plane_total c i perm st a).
Qed.

Lemma map_res_ok_iff {A B} : forall (f : A -> res B) l,
  (exists ys, map_res f l = Ok ys) <-> (forall x, In x l -> exists y, f x = Ok y).
Proof.
  intros f l. induction l as [|x l IH].
  - split; [intros _ y []|intros _; now exists []].
  - cbn [map_res]. split.
    + intros (ys & H). destruct (f x) as [y|e] eqn:E; [|discriminate]. cbn [bind] in H.
      destruct (map_res f l) as [r|e] eqn:E'; [|discriminate].
      intros z [<- | Hz]; [now exists y|]. apply (proj1 IH); [now exists r|exact Hz].
    + intros H. destruct (H x (or_introl eq_refl)) as (y & ->). cbn [bind].
      destruct (proj2 IH ltac:(intros z Hz; apply H; now right)) as (r & ->). cbn [bind]. now eexists.
Qed.

Lemma map_res_err {A B} : forall (f : A -> res B) l e, map_res f l = Err e ->
  exists x, In x l /\ f x = Err e.
Proof.
  intros f l e. induction l as [|x l IH]; [discriminate|]. cbn [map_res].
  destruct (f x) as [y|e'] eqn:E; cbn [bind].
  - destruct (map_res f l) as [r|e''] eqn:E'; cbn [bind]; [discriminate|].
    intros H. injection H as ->. destruct (IH eq_refl) as (z & Hz & Hf). exists z. split; [now right|exact Hf].
  - intros H. injection H as ->. exists x. split; [now left|exact E].
Qed.

(* refusals of the combined read, as an iff: it succeeds exactly when no
   requested plane has a defect, and a refusal is the defect of a requested plane *)
Theorem combined_refusal_iff : forall c i perm st,
  valid c i = true -> Permutation perm (zrange (nsrc c)) -> construct c i perm = Ok st ->
  forall lazy warm req byframe am,
    read_guard st req byframe am = Ok tt ->
    ((exists x, read_combined (frame_getter lazy warm st) st req byframe am = Ok x) <->
     (forall r, In r req -> plane_defect c i (src_index byframe r) = None)) /\
    (forall e, read_combined (frame_getter lazy warm st) st req byframe am = Err e ->
       exists r, In r req /\ plane_defect c i (src_index byframe r) = Some e).
Proof.
  intros c i perm st Hv Hperm Hc lazy warm req byframe am Hg.
  rewrite (combined_total c i perm st Hv Hperm Hc lazy warm req byframe am Hg).
  unfold spec_combined. split.
  - rewrite map_res_ok_iff. split.
    + intros H r Hr. destruct (H r Hr) as (y & Hy). cbv zeta in Hy.
      destruct (plane_defect c i (src_index byframe r)); [discriminate|reflexivity].
    + intros H r Hr. cbv zeta. rewrite (H r Hr). now eexists.
  - intros e H. apply map_res_err in H as (r & Hr & Hf). exists r. split; [exact Hr|].
    cbv zeta in Hf. destruct (plane_defect c i (src_index byframe r)) as [e'|]; [|discriminate].
    now injection Hf as ->.
Qed.

(* ------------------------------------------------------------------ *)
(* quantisation error of the rescaled read                              *)
(* ------------------------------------------------------------------ *)
(* a FRACTIONAL float value k/den is stored as v with |v/maxfrac - k/den| <=
   1/(2 maxfrac), written without division: 2 |v den - k maxfrac| <= den *)
Theorem rescaled_error_bound : forall c i j p k,
  valid c i = true -> dt c = DFloat -> ty c = FRACTIONAL ->
  let v := expected_pixel c i j p k in
  let x := match i with
           | Label ps => nthz p (nthz j ps []) 0
           | Stack ps => nthz k (nthz p (nthz j ps []) []) 0
           end in
  2 * Z.abs (v * den c - x * maxfrac c) <= den c.
Proof.
  intros c i j p k Hv Hd Ht. cbv zeta.
  destruct (valid_basic c i Hv) as (_ & _ & _ & _ & _ & Hval & _).
  unfold values_ok in Hval. rewrite Hd in Hval.
  assert (Hden : 0 < den c) by (destruct (is_stack i), (list_eqb (segs c) [1]); lia).
  unfold expected_pixel. rewrite Hd, Ht. cbv zeta.
  destruct i as [ps|ps]; apply (rhe_is_nearest_even _ _ Hden).
Qed.
