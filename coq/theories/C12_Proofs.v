(* C12 - proofs about the tiling model. *)
From Coq Require Import String ZArith List Bool Lia ZifyBool Arith QArith.
From HD Require Import Base.Val Base.ListZ C12_Model.
Import ListNotations.
Ltac Zify.zify_post_hook ::= Z.to_euclidean_division_equations.
Open Scope Z_scope.

Lemma in_zrange : forall n k, In k (zrange n) <-> 0 <= k < n.
Proof.
  intros n k. unfold zrange. rewrite in_map_iff. split.
  - intros (i & Hi & Hin). apply in_seq in Hin. lia.
  - intros H. exists (Z.to_nat k). split; [lia|]. apply in_seq. lia.
Qed.

Lemma length_zrange : forall n, length (zrange n) = Z.to_nat n.
Proof. intros. unfold zrange. now rewrite map_length, seq_length. Qed.

Lemma NoDup_zrange : forall n, NoDup (zrange n).
Proof.
  intros n. unfold zrange. apply NoDup_map_inj; [|apply seq_NoDup].
  intros x y _ _ H. lia.
Qed.

Lemma cdiv_eq : forall a b, 1 <= a -> 1 <= b -> cdiv a b = (a - 1) / b + 1.
Proof. intros a b Ha Hb. unfold cdiv. nia. Qed.

Lemma cdiv_pos : forall a b, 1 <= a -> 1 <= b -> 1 <= cdiv a b.
Proof. intros a b Ha Hb. rewrite cdiv_eq by lia. assert (0 <= (a - 1) / b) by (apply Z.div_pos; lia). lia. Qed.

(* ---- the one grid ------------------------------------------------------ *)
(* row-major list of 1-based (column offset, row offset) *)
Definition grid (R C th tw : Z) : list (Z * Z) :=
  flat_map (fun a => map (fun b => (b * tw + 1, a * th + 1)) (zrange (cdiv C tw)))
           (zrange (cdiv R th)).

Lemma tile_offsets_is_grid : forall R C th tw, 1 <= R -> 1 <= C -> 1 <= th -> 1 <= tw ->
  tile_offsets R C th tw = grid R C th tw.
Proof.
  intros. unfold tile_offsets, grid, tiles_per_column, tiles_per_row.
  now rewrite !cdiv_eq by lia.
Qed.

Lemma tile_pixel_matrix_is_grid : forall R C th tw,
  map (fun t => ((fst t - 1) * tw + 1, (snd t - 1) * th + 1)) (tile_pixel_matrix R C th tw)
  = grid R C th tw.
Proof.
  intros. unfold tile_pixel_matrix, grid. rewrite map_flat_map.
  apply flat_map_ext. intros a. rewrite map_map. apply map_ext. intros b. cbn [fst snd].
  f_equal; lia.
Qed.

Lemma same_grid : forall R C th tw, 1 <= R -> 1 <= C -> 1 <= th -> 1 <= tw ->
  tile_offsets R C th tw =
  map (fun t => ((fst t - 1) * tw + 1, (snd t - 1) * th + 1)) (tile_pixel_matrix R C th tw).
Proof. intros. rewrite tile_pixel_matrix_is_grid. now apply tile_offsets_is_grid. Qed.

Lemma grid_count : forall R C th tw, 1 <= R -> 1 <= C -> 1 <= th -> 1 <= tw ->
  Z.of_nat (length (grid R C th tw)) = cdiv R th * cdiv C tw.
Proof.
  intros R C th tw HR HC Hh Hw. unfold grid.
  rewrite (length_flat_map_const _ _ (Z.to_nat (cdiv C tw))).
  - rewrite length_zrange. pose proof (cdiv_pos R th HR Hh). pose proof (cdiv_pos C tw HC Hw). nia.
  - intros x _. now rewrite map_length, length_zrange.
Qed.

Lemma in_grid : forall R C th tw pc pr,
  In (pc, pr) (grid R C th tw) <->
  exists a b, 0 <= a < cdiv R th /\ 0 <= b < cdiv C tw /\ pc = b * tw + 1 /\ pr = a * th + 1.
Proof.
  intros. unfold grid. rewrite in_flat_map. split.
  - intros (a & Ha & Hin). apply in_map_iff in Hin as (b & Heq & Hb).
    apply in_zrange in Ha. apply in_zrange in Hb. inversion Heq; subst. exists a, b. lia.
  - intros (a & b & Ha & Hb & -> & ->). exists a. split; [now apply in_zrange|].
    apply in_map_iff. exists b. split; [reflexivity|now apply in_zrange].
Qed.

Lemma grid_NoDup : forall R C th tw, 1 <= th -> 1 <= tw -> NoDup (grid R C th tw).
Proof.
  intros R C th tw Hh Hw. unfold grid. apply NoDup_flat_map.
  - apply NoDup_zrange.
  - intros a _. apply NoDup_map_inj; [|apply NoDup_zrange]. intros x y _ _ E. inversion E. nia.
  - intros x y z _ _ Hx Hy. apply in_map_iff in Hx as (b & <- & _). apply in_map_iff in Hy as (b' & E & _).
    inversion E. nia.
Qed.

(* the tile holding 1-based pixel coordinate x, for tile length t *)
Definition tile_of (t x : Z) : Z := ((x - 1) / t) * t + 1.

(* every pixel of the matrix lies in exactly one tile of the grid *)
Lemma cover_exists : forall R C th tw r c, 1 <= th -> 1 <= tw -> 1 <= r <= R -> 1 <= c <= C ->
  In (tile_of tw c, tile_of th r) (grid R C th tw) /\
  tile_of th r <= r < tile_of th r + th /\ tile_of tw c <= c < tile_of tw c + tw.
Proof.
  intros R C th tw r c Hh Hw Hr Hc. split; [|unfold tile_of; lia].
  apply in_grid. exists ((r - 1) / th), ((c - 1) / tw). unfold tile_of.
  rewrite !cdiv_eq by lia.
  assert (0 <= (r - 1) / th) by (apply Z.div_pos; lia).
  assert (0 <= (c - 1) / tw) by (apply Z.div_pos; lia).
  assert ((r - 1) / th <= (R - 1) / th) by (apply Z.div_le_mono; lia).
  assert ((c - 1) / tw <= (C - 1) / tw) by (apply Z.div_le_mono; lia).
  repeat split; lia.
Qed.

Lemma cover_unique : forall R C th tw r c pc pr, 1 <= th -> 1 <= tw ->
  In (pc, pr) (grid R C th tw) -> pr <= r < pr + th -> pc <= c < pc + tw ->
  pc = tile_of tw c /\ pr = tile_of th r.
Proof.
  intros R C th tw r c pc pr Hh Hw Hin Hr Hc.
  apply in_grid in Hin as (a & b & Ha & Hb & -> & ->). unfold tile_of.
  assert (a = (r - 1) / th) by (apply Z.div_unique with (r := r - 1 - a * th); lia).
  assert (b = (c - 1) / tw) by (apply Z.div_unique with (r := c - 1 - b * tw); lia).
  subst. lia.
Qed.

(* tiles stay inside the matrix at their start: offsets are <= R, C *)
Lemma grid_offsets_in_matrix : forall R C th tw pc pr, 1 <= R -> 1 <= C -> 1 <= th -> 1 <= tw ->
  In (pc, pr) (grid R C th tw) -> 1 <= pr <= R /\ 1 <= pc <= C.
Proof.
  intros R C th tw pc pr HR HC Hh Hw Hin. apply in_grid in Hin as (a & b & Ha & Hb & -> & ->).
  rewrite cdiv_eq in Ha, Hb by lia. nia.
Qed.

(* ---- positions are transforms of the offsets -------------------------------- *)
Lemma positions_are_transforms : forall R C th tw pos rc cc spr spc o p,
  In (o, p) (tile_positions R C th tw pos rc cc spr spc) ->
  In o (tile_offsets R C th tw) /\ p = pix2ref pos rc cc spr spc (fst o - 1) (snd o - 1).
Proof.
  intros. unfold tile_positions in H. apply in_map_iff in H as (o' & E & Hin). inversion E; subst. auto.
Qed.

Lemma positions_offsets : forall R C th tw pos rc cc spr spc,
  map fst (tile_positions R C th tw pos rc cc spr spc) = tile_offsets R C th tw.
Proof. intros. unfold tile_positions. rewrite map_map. cbn. apply map_id. Qed.

(* the single-tile helper agrees with the enumeration *)
Lemma plane_position_agrees : forall R C th tw x y rc cc spr spc a b,
  1 <= R -> 1 <= C -> 1 <= th -> 1 <= tw -> 0 <= a < cdiv R th -> 0 <= b < cdiv C tw ->
  exists o p, plane_position_tiled_full (a + 1) (b + 1) x y th tw rc cc spr spc None = Ok (o, p) /\
              In (o, p) (tile_positions R C th tw (V3 x y 0) rc cc spr spc).
Proof.
  intros R C th tw x y rc cc spr spc a b HR HC Hh Hw Ha Hb.
  unfold plane_position_tiled_full.
  replace ((a + 1 <? 1) || (b + 1 <? 1)) with false by lia.
  eexists. eexists. split; [reflexivity|].
  unfold tile_positions. apply in_map_iff.
  exists ((b + 1 - 1) * tw + 1, (a + 1 - 1) * th + 1). cbn [fst snd]. split.
  - f_equal. f_equal; lia.
  - rewrite tile_offsets_is_grid by lia. apply in_grid. exists a, b. lia.
Qed.

Lemma plane_position_refuses : forall ri ci x y th tw rc cc spr spc sl,
  (ri < 1 \/ ci < 1) <-> plane_position_tiled_full ri ci x y th tw rc cc spr spc sl = Err "ValueError"%string.
Proof.
  intros. unfold plane_position_tiled_full. split.
  - intros H. replace ((ri <? 1) || (ci <? 1)) with true by lia. reflexivity.
  - destruct ((ri <? 1) || (ci <? 1)) eqn:E; [lia|discriminate].
Qed.

(* ---- the full-tiling predicate ------------------------------------------------ *)
Lemma pair_eqb_eq : forall a b, pair_eqb a b = true <-> a = b.
Proof. intros [a1 a2] [b1 b2]. unfold pair_eqb. cbn. split; [intros; f_equal; lia|intros E; inversion E; lia]. Qed.

Lemma list_eqb_eq : forall a b, list_eqb a b = true <-> a = b.
Proof.
  induction a as [|x a IH]; intros [|y b]; cbn; try (split; [discriminate|discriminate]); [tauto|].
  rewrite andb_true_iff, pair_eqb_eq, IH. split; [intros [-> ->]; reflexivity|intros E; inversion E; auto].
Qed.

(* soundness and completeness in one: accepted iff the list IS the row-major
   grid implied by its own largest row / column position *)
Lemma tiled_full_iff : forall ps th tw,
  are_tiled_full ps th tw = true <->
  ps = expected_positions (max_from (-1) (map fst ps)) (max_from (-1) (map snd ps)) th tw.
Proof. intros. unfold are_tiled_full. rewrite list_eqb_eq. split; intros H; now symmetry. Qed.

Lemma max_from_ge : forall l i, i <= max_from i l.
Proof. unfold max_from. induction l as [|x l IH]; intros i; cbn [fold_left]; [lia|]. specialize (IH (Z.max i x)). lia. Qed.
Lemma max_from_in : forall l i x, In x l -> x <= max_from i l.
Proof.
  induction l as [|y l IH]; intros i x H; [contradiction|]. unfold max_from in *. cbn [fold_left]. destruct H as [->|H].
  - pose proof (max_from_ge l (Z.max i x)). unfold max_from in *. lia.
  - now apply IH.
Qed.
Lemma max_from_bound : forall l i m, i <= m -> (forall x, In x l -> x <= m) -> max_from i l <= m.
Proof.
  unfold max_from. induction l as [|y l IH]; intros i m Hi H; cbn [fold_left]; [exact Hi|]. apply IH.
  - pose proof (H y (or_introl eq_refl)). lia.
  - intros x Hx. apply H. now right.
Qed.

Lemma in_range1 : forall m step x, 1 <= step -> In x (range1 m step) <->
  exists k, 0 <= k /\ x = 1 + k * step /\ x <= m.
Proof.
  intros m step x Hs. unfold range1. rewrite in_map_iff. split.
  - intros (k & <- & Hk). apply in_zrange in Hk. exists k. destruct (m <? 1) eqn:E; [lia|]. nia.
  - intros (k & Hk & -> & Hm). exists k. split; [reflexivity|]. apply in_zrange.
    destruct (m <? 1) eqn:E; [nia|]. split; [lia|].
    assert (k <= (m - 1) / step) by (apply Z.div_le_lower_bound; lia). lia.
Qed.

(* the positions of a complete grid (as (row, column) pairs) are accepted:
   the predicate is complete for every matrix and tile size *)
Definition grid_rc (R C th tw : Z) : list (Z * Z) :=
  flat_map (fun a => map (fun b => (a * th + 1, b * tw + 1)) (zrange (cdiv C tw))) (zrange (cdiv R th)).

Lemma range1_grid : forall n t, 1 <= n -> 1 <= t ->
  range1 (((n - 1) / t) * t + 1) t = map (fun k => 1 + k * t) (zrange (cdiv n t)).
Proof.
  intros n t Hn Ht. unfold range1. rewrite cdiv_eq by lia.
  assert (0 <= (n - 1) / t) by (apply Z.div_pos; lia).
  replace (((n - 1) / t * t + 1 <? 1)) with false by lia.
  replace ((((n - 1) / t) * t + 1 - 1) / t) with ((n - 1) / t); [reflexivity|].
  replace ((n - 1) / t * t + 1 - 1) with ((n - 1) / t * t) by lia. now rewrite Z.div_mul by lia.
Qed.

Lemma max_fst_grid_rc : forall R C th tw, 1 <= R -> 1 <= C -> 1 <= th -> 1 <= tw ->
  max_from (-1) (map fst (grid_rc R C th tw)) = ((R - 1) / th) * th + 1 /\
  max_from (-1) (map snd (grid_rc R C th tw)) = ((C - 1) / tw) * tw + 1.
Proof.
  intros R C th tw HR HC Hh Hw.
  assert (0 <= (R - 1) / th) by (apply Z.div_pos; lia).
  assert (0 <= (C - 1) / tw) by (apply Z.div_pos; lia).
  assert (Hin : forall r c, In (r, c) (grid_rc R C th tw) <->
     exists a b, 0 <= a < cdiv R th /\ 0 <= b < cdiv C tw /\ r = a * th + 1 /\ c = b * tw + 1).
  { intros r c. unfold grid_rc. rewrite in_flat_map. split.
    - intros (a & Ha & Hi). apply in_map_iff in Hi as (b & E & Hb). apply in_zrange in Ha, Hb.
      inversion E; subst. exists a, b. lia.
    - intros (a & b & Ha & Hb & -> & ->). exists a. split; [now apply in_zrange|].
      apply in_map_iff. exists b. split; [reflexivity|now apply in_zrange]. }
  split; apply Z.le_antisymm.
  - apply max_from_bound; [lia|]. intros x Hx. apply in_map_iff in Hx as ([r c] & <- & Hrc).
    apply Hin in Hrc as (a & b & Ha & Hb & -> & ->). cbn. rewrite cdiv_eq in Ha by lia. nia.
  - apply max_from_in. apply in_map_iff. exists (((R - 1) / th) * th + 1, 0 * tw + 1). split; [reflexivity|].
    apply Hin. exists ((R - 1) / th), 0. rewrite !cdiv_eq by lia. lia.
  - apply max_from_bound; [lia|]. intros x Hx. apply in_map_iff in Hx as ([r c] & <- & Hrc).
    apply Hin in Hrc as (a & b & Ha & Hb & -> & ->). cbn. rewrite cdiv_eq in Hb by lia. nia.
  - apply max_from_in. apply in_map_iff. exists (0 * th + 1, ((C - 1) / tw) * tw + 1). split; [reflexivity|].
    apply Hin. exists 0, ((C - 1) / tw). rewrite !cdiv_eq by lia. lia.
Qed.

Lemma tiled_full_complete : forall R C th tw, 1 <= R -> 1 <= C -> 1 <= th -> 1 <= tw ->
  are_tiled_full (grid_rc R C th tw) th tw = true.
Proof.
  intros R C th tw HR HC Hh Hw. apply tiled_full_iff.
  destruct (max_fst_grid_rc R C th tw HR HC Hh Hw) as [-> ->].
  unfold expected_positions. rewrite !range1_grid by lia. unfold grid_rc.
  generalize (zrange (cdiv R th)) as la. generalize (zrange (cdiv C tw)) as lb. intros lb la.
  induction la as [|a la IH]; cbn [flat_map map]; [reflexivity|]. rewrite <- IH. f_equal.
  rewrite !map_map. apply map_ext. intros b. f_equal; lia.
Qed.

(* a list that is accepted contains no duplicates and is sorted row-major:
   in particular permuted lists and lists with a hole are refused *)
Lemma expected_NoDup : forall mr mc th tw, 1 <= th -> 1 <= tw -> NoDup (expected_positions mr mc th tw).
Proof.
  intros mr mc th tw Hh Hw. unfold expected_positions, range1. apply NoDup_flat_map.
  - apply NoDup_map_inj; [|apply NoDup_zrange]. intros x y _ _ E. nia.
  - intros r _. apply NoDup_map_inj; [|apply NoDup_map_inj; [|apply NoDup_zrange]].
    + intros x y _ _ E. now inversion E.
    + intros x y _ _ E. nia.
  - intros x y z _ _ Hx Hy. apply in_map_iff in Hx as (c & <- & _). apply in_map_iff in Hy as (c' & E & _).
    now inversion E.
Qed.

Lemma tiled_full_NoDup : forall ps th tw, 1 <= th -> 1 <= tw -> are_tiled_full ps th tw = true -> NoDup ps.
Proof. intros ps th tw Hh Hw H. apply tiled_full_iff in H. rewrite H. now apply expected_NoDup. Qed.

(* ---- cutting tiles and pasting them back ----------------------------------------- *)
Definition wf_matrix (M : list (list Z)) (R C : Z) : Prop :=
  Z.of_nat (length M) = R /\ forall row, In row M -> Z.of_nat (length row) = C.

Lemma nth_slice : forall {A} (l : list A) a b i d, 0 <= a -> 0 <= i < b - a ->
  nth (Z.to_nat i) (slice_list a b l) d = nth (Z.to_nat (a + i)) l d.
Proof.
  intros A l a b i d Ha Hi. unfold slice_list. rewrite nth_firstn' by lia. rewrite nth_skipn'. f_equal. lia.
Qed.

Lemma length_slice : forall {A} (l : list A) a b, 0 <= a <= b -> b <= Z.of_nat (length l) ->
  Z.of_nat (length (slice_list a b l)) = b - a.
Proof. intros A l a b Ha Hb. unfold slice_list. rewrite firstn_length, skipn_length. lia. Qed.

Lemma nth_slice_gen : forall {A} (l : list A) a b i d, 0 <= a -> 0 <= i ->
  nth (Z.to_nat i) (slice_list a b l) d = if i <? b - a then nth (Z.to_nat (a + i)) l d else d.
Proof.
  intros A l a b i d Ha Hi. destruct (i <? b - a) eqn:E.
  - apply nth_slice; lia.
  - apply nth_overflow. unfold slice_list. rewrite firstn_length. lia.
Qed.

Lemma slice_nil : forall {A} a b, @slice_list A a b [] = [].
Proof. intros. unfold slice_list. now rewrite skipn_nil, firstn_nil. Qed.

Lemma nth_pad_right : forall {A} (l : list A) d n i, nth i (pad_right d n l) d = nth i l d.
Proof.
  intros A l d n i. unfold pad_right. destruct (Nat.lt_ge_cases i (length l)) as [H|H].
  - now apply app_nth1.
  - rewrite app_nth2 by lia. rewrite (nth_overflow l) by lia.
    destruct (nth_in_or_default (i - length l) (repeat d (Z.to_nat n)) d) as [Hi|Hd]; [|exact Hd].
    now apply repeat_spec in Hi.
Qed.

Lemma nth_nth_pad_rows : forall (l : list (list Z)) k n a b,
  nth b (nth a (pad_right (repeat 0 k) n l) []) 0 = nth b (nth a l []) 0.
Proof.
  intros l k n a b. unfold pad_right. destruct (Nat.lt_ge_cases a (length l)) as [H|H].
  - now rewrite app_nth1.
  - rewrite app_nth2 by lia. rewrite (nth_overflow l) by lia.
    assert (E : forall (r : list Z), (forall x, In x r -> x = 0) -> nth b r 0 = 0).
    { intros r Hr. destruct (nth_in_or_default b r 0) as [Hi|Hd]; [now apply Hr|exact Hd]. }
    rewrite E; [now destruct b|].
    intros x Hx. destruct (nth_in_or_default (a - length l) (repeat (repeat 0 k) (Z.to_nat n)) []) as [Hi|Hd].
    + apply repeat_spec in Hi. rewrite Hi in Hx. now apply repeat_spec in Hx.
    + rewrite Hd in Hx. contradiction.
Qed.

Lemma nth_nth_pad_cols : forall (l : list (list Z)) n a b,
  nth b (nth a (map (pad_right 0 n) l) []) 0 = nth b (nth a l []) 0.
Proof.
  intros l n a b. destruct (Nat.lt_ge_cases a (length l)) as [H|H].
  - rewrite nth_indep with (d' := pad_right 0 n []) by (now rewrite map_length).
    rewrite map_nth. apply nth_pad_right.
  - rewrite (nth_overflow (map (pad_right 0 n) l)) by (rewrite map_length; lia).
    rewrite (nth_overflow l) by lia. reflexivity.
Qed.

(* Every cell (a, b) of the padded tile cut at 1-based offset (ro, co) is the
   matrix cell (ro-1+a, co-1+b) when that lies inside the matrix, 0 otherwise. *)
Lemma tile_cell : forall M R C ro co th tw a b T, wf_matrix M R C ->
  1 <= th -> 1 <= tw -> 0 <= a < th -> 0 <= b < tw ->
  get_tile_array M R C ro co th tw true = Ok T ->
  cell T a b = if (ro - 1 + a <? R) && (co - 1 + b <? C) then cell M (ro - 1 + a) (co - 1 + b) else 0.
Proof.
  intros M R C ro co th tw a b T [HlenM Hrows] Hh Hw Ha Hb. unfold get_tile_array.
  destruct ((ro <? 1) || (R <? ro)) eqn:E1; [discriminate|].
  destruct ((co <? 1) || (C <? co)) eqn:E2; [discriminate|].
  intros E; inversion E; subst T; clear E. unfold cell.
  rewrite nth_nth_pad_rows, nth_nth_pad_cols.
  rewrite <- (slice_nil (co - 1) (Z.min (co - 1 + tw) C)) at 1. rewrite map_nth.
  rewrite !nth_slice_gen by lia.
  destruct (ro - 1 + a <? R) eqn:Er; destruct (co - 1 + b <? C) eqn:Ec; cbn [andb].
  - replace (b <? Z.min (co - 1 + tw) C - (co - 1)) with true by lia.
    replace (a <? Z.min (ro - 1 + th) R - (ro - 1)) with true by lia. reflexivity.
  - replace (b <? Z.min (co - 1 + tw) C - (co - 1)) with false by lia. reflexivity.
  - replace (a <? Z.min (ro - 1 + th) R - (ro - 1)) with false by lia.
    destruct (b <? Z.min (co - 1 + tw) C - (co - 1)); [|reflexivity]. now destruct (Z.to_nat (co - 1 + b)).
  - replace (b <? Z.min (co - 1 + tw) C - (co - 1)) with false by lia. reflexivity.
Qed.

(* cut-and-paste identity: for every matrix pixel, the tile of the grid that
   holds it (there is exactly one, see cover_exists, cover_unique) carries its value at the
   corresponding local position; tile cells outside the matrix are 0. *)
Lemma cut_paste_identity : forall M R C th tw r c T, wf_matrix M R C ->
  1 <= th -> 1 <= tw -> 1 <= r <= R -> 1 <= c <= C ->
  get_tile_array M R C (tile_of th r) (tile_of tw c) th tw true = Ok T ->
  cell T (r - tile_of th r) (c - tile_of tw c) = cell M (r - 1) (c - 1).
Proof.
  intros M R C th tw r c T Hwf Hh Hw Hr Hc HT.
  rewrite (tile_cell M R C _ _ th tw _ _ T Hwf Hh Hw) by (try exact HT; unfold tile_of; lia).
  replace (tile_of th r - 1 + (r - tile_of th r)) with (r - 1) by lia.
  replace (tile_of tw c - 1 + (c - tile_of tw c)) with (c - 1) by lia.
  replace ((r - 1 <? R) && (c - 1 <? C)) with true by lia. reflexivity.
Qed.

Lemma tile_array_accepts_grid : forall M R C th tw pc pr, 1 <= R -> 1 <= C -> 1 <= th -> 1 <= tw ->
  In (pc, pr) (grid R C th tw) -> exists T, get_tile_array M R C pr pc th tw true = Ok T.
Proof.
  intros M R C th tw pc pr HR HC Hh Hw Hin.
  destruct (grid_offsets_in_matrix R C th tw pc pr HR HC Hh Hw Hin) as [Hr Hc].
  unfold get_tile_array. replace ((pr <? 1) || (R <? pr)) with false by lia.
  replace ((pc <? 1) || (C <? pc)) with false by lia. eexists; reflexivity.
Qed.

Lemma tile_array_refuses : forall M R C ro co th tw pad,
  (ro < 1 \/ R < ro \/ co < 1 \/ C < co) <-> get_tile_array M R C ro co th tw pad = Err "ValueError"%string.
Proof.
  intros. unfold get_tile_array. split.
  - intros H. destruct ((ro <? 1) || (R <? ro)) eqn:E1; [reflexivity|].
    destruct ((co <? 1) || (C <? co)) eqn:E2; [reflexivity|]. lia.
  - destruct ((ro <? 1) || (R <? ro)) eqn:E1; [lia|].
    destruct ((co <? 1) || (C <? co)) eqn:E2; [lia|]. destruct pad; discriminate.
Qed.
