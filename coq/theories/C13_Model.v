(* C13 - model of the SR content items (src/highdicom/sr/value_types.py,
   sr/coding.py, spatial.are_points_coplanar).

   Abstract dataset [dval]: keyword -> value with nested sequences.
     DStr   text-like VRs (CS, LO, UT, UI, PN, SH, UC, UR)
     DInts  integer VRs (IS, UL, US), always as a list (VM 1 = singleton)
     DNums  decimal / float VRs (DS, FL, FD) as exact rationals
     DTemp  DA / TM / DT values as tuples of their fields
              DA [y;m;d]   TM [h;m;s;us]   DT [y;mo;d;h;mi;s;us;has_tz;offset_minutes]
     DSeq   sequence of datasets,  DSet  a dataset
   The string / byte encoding of single values by pydicom is NOT modelled
   (oracle premise W1).

   [item]    abstract content of a content item: class tag, name,
             relationship, value (sum over the 15 value types), children.
   [to_ds]   the attributes the constructors write.
   [parse]   X.from_dataset (Some X) / ContentSequence.from_sequence dispatch
             (None), followed by reading every accessor of the parsed item.
   [construct]  constructor validation.
   No proofs in this file. *)
From Coq Require Import String ZArith List Bool QArith Ascii.
From HD Require Import Base.Val.
Import ListNotations.
Open Scope string_scope.
Open Scope list_scope.
Open Scope Z_scope.

(* ------------------------------------------------------------------ *)
(* abstract datasets                                                    *)
Inductive dval : Type :=
| DStr (s : string)
| DInts (l : list Z)
| DNums (l : list Q)
| DTemp (l : list (list Z))
| DSeq (items : list dval)
| DSet (attrs : list (string * dval)).

Definition attrs := list (string * dval).

Fixpoint lookup (k : string) (l : attrs) : option dval :=
  match l with
  | [] => None
  | (k', v) :: l' => if String.eqb k' k then Some v else lookup k l'
  end.

Definition has (k : string) (l : attrs) : bool :=
  match lookup k l with Some _ => true | None => false end.

Definition EAttr := "AttributeError".
Definition EValue := "ValueError".
Definition EType := "TypeError".
Definition EIndex := "IndexError".
Definition EKey := "KeyError".

Definition get (k : string) (l : attrs) : res dval :=
  match lookup k l with Some v => Ok v | None => Err EAttr end.

Definition get_str (k : string) (l : attrs) : res string :=
  bind (get k l) (fun v => match v with DStr s => Ok s | _ => Err EType end).

Definition opt_str (k : string) (l : attrs) : res (option string) :=
  match lookup k l with
  | None => Ok None
  | Some (DStr s) => Ok (Some s)
  | Some _ => Err EType
  end.

(* dataset.Seq[0] : the first item of a sequence attribute, as attrs *)
Definition first_item (v : dval) : res attrs :=
  match v with
  | DSeq (DSet a :: _) => Ok a
  | DSeq (_ :: _) => Err EType
  | DSeq [] => Err EIndex
  | _ => Err EType
  end.

Definition mapM {A B} (f : A -> res B) : list A -> res (list B) :=
  fix go (l : list A) : res (list B) :=
    match l with
    | [] => Ok []
    | x :: l' => bind (f x) (fun y => bind (go l') (fun ys => Ok (y :: ys)))
    end.

(* ------------------------------------------------------------------ *)
(* coded concepts (sr/coding.py)                                        *)
Record code := Code { c_value : string; c_scheme : string; c_meaning : string;
                      c_version : option string }.

Fixpoint contains (pat s : string) : bool :=
  prefix pat s || match s with EmptyString => false | String _ s' => contains pat s' end.

Definition slen (s : string) : Z := Z.of_nat (String.length s).

(* CodedConcept.__init__: which of the three code value attributes is used *)
Definition code_kw (v : string) : string :=
  if prefix "urn" v || contains "://" v then "URNCodeValue"
  else if 16 <? slen v then "LongCodeValue" else "CodeValue".

Definition code_check (c : code) : res unit :=
  if 64 <? slen (c_meaning c) then Err EValue else Ok tt.

Definition code_attrs (c : code) : attrs :=
  [(code_kw (c_value c), DStr (c_value c));
   ("CodeMeaning", DStr (c_meaning c));
   ("CodingSchemeDesignator", DStr (c_scheme c))]
  ++ match c_version c with Some v => [("CodingSchemeVersion", DStr v)] | None => [] end.

Definition code_ds (c : code) : dval := DSet (code_attrs c).

(* CodedConcept.from_code(code) = cls( *code ): a pydicom Code (value, scheme
   designator, meaning, scheme version) becomes a CodedConcept with all four
   fields; an existing CodedConcept is returned as is *)
Definition from_code (c : code) : code :=
  Code (c_value c) (c_scheme c) (c_meaning c) (c_version c).

Definition b2z (b : bool) : Z := if b then 1 else 0.

(* CodedConcept.from_dataset followed by the accessors value / meaning /
   scheme_designator / scheme_version *)
Definition code_from (d : dval) : res code :=
  match d with
  | DSet a =>
      if negb (b2z (has "CodeValue" a) + b2z (has "LongCodeValue" a) + b2z (has "URNCodeValue" a) =? 1)
      then Err EAttr
      else if negb (has "CodeMeaning" a) then Err EAttr
      else if negb (has "CodingSchemeDesignator" a) then Err EAttr
      else
        bind (match lookup "CodeValue" a with
              | Some _ => get_str "CodeValue" a
              | None => match lookup "LongCodeValue" a with
                        | Some _ => get_str "LongCodeValue" a
                        | None => get_str "URNCodeValue" a
                        end
              end) (fun v =>
        bind (get_str "CodeMeaning" a) (fun m =>
        bind (get_str "CodingSchemeDesignator" a) (fun s =>
        bind (opt_str "CodingSchemeVersion" a) (fun ver =>
        Ok (Code v s m ver)))))
  | _ => Err EType
  end.

(* CodedConcept.from_dataset ALONE (no accessor read): exactly one of the three
   code value attributes, then Code Meaning, then Coding Scheme Designator -
   the last two whichever attribute carries the code value *)
Definition carriers : list string := ["CodeValue"; "LongCodeValue"; "URNCodeValue"].
Definition n_carriers (a : attrs) : Z :=
  fold_right (fun k n => b2z (has k a) + n) 0 carriers.
Definition code_accept (d : dval) : res unit :=
  match d with
  | DSet a =>
      if negb (n_carriers a =? 1) then Err EAttr
      else if negb (has "CodeMeaning" a) then Err EAttr
      else if negb (has "CodingSchemeDesignator" a) then Err EAttr
      else Ok tt
  | _ => Err EType
  end.

(* seq[0] parsed as a coded concept *)
Definition code_first (v : dval) : res code :=
  match v with
  | DSeq (d :: _) => code_from d
  | DSeq [] => Err EIndex
  | _ => Err EType
  end.

(* ------------------------------------------------------------------ *)
(* enumerations                                                         *)
Inductive vt := CODE | COMPOSITE | CONTAINER | DATE | DATETIME | IMAGE | NUM | PNAME
              | SCOORD | SCOORD3D | TCOORD | TIME | TEXT | UIDREF | WAVEFORM.

Definition all_vt : list vt :=
  [CODE; COMPOSITE; CONTAINER; DATE; DATETIME; IMAGE; NUM; PNAME; SCOORD; SCOORD3D;
   TCOORD; TIME; TEXT; UIDREF; WAVEFORM].

Definition vt_str (v : vt) : string :=
  match v with
  | CODE => "CODE" | COMPOSITE => "COMPOSITE" | CONTAINER => "CONTAINER" | DATE => "DATE"
  | DATETIME => "DATETIME" | IMAGE => "IMAGE" | NUM => "NUM" | PNAME => "PNAME"
  | SCOORD => "SCOORD" | SCOORD3D => "SCOORD3D" | TCOORD => "TCOORD" | TIME => "TIME"
  | TEXT => "TEXT" | UIDREF => "UIDREF" | WAVEFORM => "WAVEFORM"
  end.

Definition vt_eqb (a b : vt) : bool := String.eqb (vt_str a) (vt_str b).

Fixpoint find_by {A} (str : A -> string) (l : list A) (s : string) : option A :=
  match l with
  | [] => None
  | x :: l' => if String.eqb (str x) s then Some x else find_by str l' s
  end.

(* ValueTypeValues(s) *)
Definition vt_of_str (s : string) : option vt := find_by vt_str all_vt s.

(* python classes *)
Inductive ctag := CodeContentItem | CompositeContentItem | ContainerContentItem
  | DateContentItem | DateTimeContentItem | ImageContentItem | NumContentItem
  | PnameContentItem | ScoordContentItem | Scoord3DContentItem | TcoordContentItem
  | TimeContentItem | TextContentItem | UIDRefContentItem | WaveformContentItem.

Definition ctag_str (c : ctag) : string :=
  match c with
  | CodeContentItem => "CodeContentItem" | CompositeContentItem => "CompositeContentItem"
  | ContainerContentItem => "ContainerContentItem" | DateContentItem => "DateContentItem"
  | DateTimeContentItem => "DateTimeContentItem" | ImageContentItem => "ImageContentItem"
  | NumContentItem => "NumContentItem" | PnameContentItem => "PnameContentItem"
  | ScoordContentItem => "ScoordContentItem" | Scoord3DContentItem => "Scoord3DContentItem"
  | TcoordContentItem => "TcoordContentItem" | TimeContentItem => "TimeContentItem"
  | TextContentItem => "TextContentItem" | UIDRefContentItem => "UIDRefContentItem"
  | WaveformContentItem => "WaveformContentItem"
  end.

Definition all_ctag : list ctag :=
  [CodeContentItem; CompositeContentItem; ContainerContentItem; DateContentItem;
   DateTimeContentItem; ImageContentItem; NumContentItem; PnameContentItem;
   ScoordContentItem; Scoord3DContentItem; TcoordContentItem; TimeContentItem;
   TextContentItem; UIDRefContentItem; WaveformContentItem].

Definition ctag_of_str (s : string) : option ctag := find_by ctag_str all_ctag s.

(* the value type each class's from_dataset asserts (constant in each
   from_dataset body) *)
Definition class_vt (c : ctag) : vt :=
  match c with
  | CodeContentItem => CODE | CompositeContentItem => COMPOSITE
  | ContainerContentItem => CONTAINER | DateContentItem => DATE
  | DateTimeContentItem => DATETIME | ImageContentItem => IMAGE
  | NumContentItem => NUM | PnameContentItem => PNAME
  | ScoordContentItem => SCOORD | Scoord3DContentItem => SCOORD3D
  | TcoordContentItem => TCOORD | TimeContentItem => TIME
  | TextContentItem => TEXT | UIDRefContentItem => UIDREF
  | WaveformContentItem => WAVEFORM
  end.

(* the two parse tables, as association lists on the *strings*, so that the
   translator can regenerate them from the source (C13_Tables.v is compared
   with these on every run) *)
Definition class_table : list (string * string) :=
  [("CODE", "CodeContentItem"); ("COMPOSITE", "CompositeContentItem");
   ("CONTAINER", "ContainerContentItem"); ("DATE", "DateContentItem");
   ("DATETIME", "DateTimeContentItem"); ("IMAGE", "ImageContentItem");
   ("NUM", "NumContentItem"); ("PNAME", "PnameContentItem");
   ("SCOORD", "ScoordContentItem"); ("SCOORD3D", "Scoord3DContentItem");
   ("TCOORD", "TcoordContentItem"); ("TIME", "TimeContentItem");
   ("TEXT", "TextContentItem"); ("UIDREF", "UIDRefContentItem");
   ("WAVEFORM", "WaveformContentItem")].

Definition required_table : list (string * list string) :=
  [("CODE", ["ConceptCodeSequence"]); ("COMPOSITE", ["ReferencedSOPSequence"]);
   ("CONTAINER", ["ContinuityOfContent"]); ("DATE", ["Date"]); ("DATETIME", ["DateTime"]);
   ("IMAGE", ["ReferencedSOPSequence"]); ("NUM", ["MeasuredValueSequence"]);
   ("PNAME", ["PersonName"]); ("SCOORD", ["GraphicType"; "GraphicData"]);
   ("SCOORD3D", ["GraphicType"; "GraphicData"]); ("TCOORD", ["TemporalRangeType"]);
   ("TIME", ["Time"]); ("TEXT", ["TextValue"]); ("UIDREF", ["UID"]);
   ("WAVEFORM", ["ReferencedSOPSequence"])].

Definition optional_name_classes : list string :=
  ["CompositeContentItem"; "ImageContentItem"; "ScoordContentItem"; "Scoord3DContentItem";
   "TcoordContentItem"; "WaveformContentItem"].

Fixpoint assoc {B} (k : string) (l : list (string * B)) : option B :=
  match l with
  | [] => None
  | (k', v) :: l' => if String.eqb k' k then Some v else assoc k l'
  end.

Fixpoint mem (s : string) (l : list string) : bool :=
  match l with [] => false | x :: l' => String.eqb x s || mem s l' end.

(* _get_content_item_class : KeyError when the table has no entry *)
Definition get_class_in (tbl : list (string * string)) (v : vt) : res ctag :=
  match assoc (vt_str v) tbl with
  | None => Err EKey
  | Some s => match ctag_of_str s with Some c => Ok c | None => Err EKey end
  end.
Definition get_class := get_class_in class_table.

Inductive reltype := CONTAINS | HAS_ACQ_CONTEXT | HAS_CONCEPT_MOD | HAS_OBS_CONTEXT
                   | HAS_PROPERTIES | INFERRED_FROM | SELECTED_FROM.
Definition all_rel := [CONTAINS; HAS_ACQ_CONTEXT; HAS_CONCEPT_MOD; HAS_OBS_CONTEXT;
                       HAS_PROPERTIES; INFERRED_FROM; SELECTED_FROM].
Definition rel_str (r : reltype) : string :=
  match r with
  | CONTAINS => "CONTAINS" | HAS_ACQ_CONTEXT => "HAS ACQ CONTEXT"
  | HAS_CONCEPT_MOD => "HAS CONCEPT MOD" | HAS_OBS_CONTEXT => "HAS OBS CONTEXT"
  | HAS_PROPERTIES => "HAS PROPERTIES" | INFERRED_FROM => "INFERRED FROM"
  | SELECTED_FROM => "SELECTED FROM"
  end.
Definition rel_of_str (s : string) : option reltype := find_by rel_str all_rel s.

(* SCOORD graphic types *)
Inductive g2 := G2Circle | G2Ellipse | G2Multipoint | G2Point | G2Polyline.
Definition all_g2 := [G2Circle; G2Ellipse; G2Multipoint; G2Point; G2Polyline].
Definition g2_str (g : g2) : string :=
  match g with G2Circle => "CIRCLE" | G2Ellipse => "ELLIPSE" | G2Multipoint => "MULTIPOINT"
             | G2Point => "POINT" | G2Polyline => "POLYLINE" end.
Definition g2_of_str (s : string) : option g2 := find_by g2_str all_g2 s.

(* SCOORD3D graphic types *)
Inductive g3 := G3Ellipse | G3Ellipsoid | G3Multipoint | G3Point | G3Polyline | G3Polygon.
Definition all_g3 := [G3Ellipse; G3Ellipsoid; G3Multipoint; G3Point; G3Polyline; G3Polygon].
Definition g3_str (g : g3) : string :=
  match g with G3Ellipse => "ELLIPSE" | G3Ellipsoid => "ELLIPSOID" | G3Multipoint => "MULTIPOINT"
             | G3Point => "POINT" | G3Polyline => "POLYLINE" | G3Polygon => "POLYGON" end.
Definition g3_of_str (s : string) : option g3 := find_by g3_str all_g3 s.

Inductive trt := TBegin | TEnd | TMultipoint | TMultisegment | TPoint | TSegment.
Definition all_trt := [TBegin; TEnd; TMultipoint; TMultisegment; TPoint; TSegment].
Definition trt_str (t : trt) : string :=
  match t with TBegin => "BEGIN" | TEnd => "END" | TMultipoint => "MULTIPOINT"
             | TMultisegment => "MULTISEGMENT" | TPoint => "POINT" | TSegment => "SEGMENT" end.
Definition trt_of_str (s : string) : option trt := find_by trt_str all_trt s.

Definition poi_ok (s : string) : bool := String.eqb s "FRAME" || String.eqb s "VOLUME".

(* ------------------------------------------------------------------ *)
(* items                                                                *)
Inductive tref := TSamples (l : list Z) | TOffsets (l : list Q) | TDateTimes (l : list (list Z)).

Inductive value : Type :=
| VCode (c : code)
| VComposite (cls inst : string)
| VContainer (continuity : string) (template : option string)
| VDate (d : list Z)
| VDateTime (d : list Z)
| VImage (cls inst : string) (frames segments : option (list Z))
| VNum (q : Q) (has_float : bool) (unit : code) (qualifier : option code)
| VPname (s : string)
| VScoord (gt : g2) (pts : list (list Q)) (poi fiducial : option string)
| VScoord3d (gt : g3) (pts : list (list Q)) (for_uid : string) (fiducial : option string)
| VTcoord (t : trt) (r : tref)
| VTime (d : list Z)
| VText (s : string)
| VUidref (s : string)
| VWaveform (cls inst : string) (channels : option (list (Z * Z))).

Inductive item : Type :=
| Item (cls : ctag) (name : code) (rel : option reltype) (v : value) (kids : list item).

Definition i_cls (t : item) := match t with Item c _ _ _ _ => c end.
Definition i_name (t : item) := match t with Item _ n _ _ _ => n end.
Definition i_rel (t : item) := match t with Item _ _ r _ _ => r end.
Definition i_value (t : item) := match t with Item _ _ _ v _ => v end.
Definition i_kids (t : item) := match t with Item _ _ _ _ k => k end.

(* the class whose constructor produces this kind of value *)
Definition value_class (v : value) : ctag :=
  match v with
  | VCode _ => CodeContentItem | VComposite _ _ => CompositeContentItem
  | VContainer _ _ => ContainerContentItem | VDate _ => DateContentItem
  | VDateTime _ => DateTimeContentItem | VImage _ _ _ _ => ImageContentItem
  | VNum _ _ _ _ => NumContentItem | VPname _ => PnameContentItem
  | VScoord _ _ _ _ => ScoordContentItem | VScoord3d _ _ _ _ => Scoord3DContentItem
  | VTcoord _ _ => TcoordContentItem | VTime _ => TimeContentItem
  | VText _ => TextContentItem | VUidref _ => UIDRefContentItem
  | VWaveform _ _ _ => WaveformContentItem
  end.

(* ------------------------------------------------------------------ *)
(* what the constructors write                                          *)
Definition opt_attr (k : string) (o : option string) : attrs :=
  match o with Some s => [(k, DStr s)] | None => [] end.

Definition flat_pairs (l : list (Z * Z)) : list Z :=
  flat_map (fun p => [fst p; snd p]) l.

Definition sop_item (cls inst : string) (extra : attrs) : dval :=
  DSeq [DSet ([("ReferencedSOPClassUID", DStr cls); ("ReferencedSOPInstanceUID", DStr inst)] ++ extra)].

Definition value_attrs (v : value) : attrs :=
  match v with
  | VCode c => [("ConceptCodeSequence", DSeq [code_ds c])]
  | VComposite c i => [("ReferencedSOPSequence", sop_item c i [])]
  | VContainer cont tmpl =>
      ("ContinuityOfContent", DStr cont) ::
      match tmpl with
      | Some t => [("ContentTemplateSequence",
                    DSeq [DSet [("MappingResource", DStr "DCMR"); ("TemplateIdentifier", DStr t)]])]
      | None => []
      end
  | VDate d => [("Date", DTemp [d])]
  | VDateTime d => [("DateTime", DTemp [d])]
  | VImage c i fr sg =>
      [("ReferencedSOPSequence",
        sop_item c i (match fr with Some l => [("ReferencedFrameNumber", DInts l)] | None => [] end ++
                      match sg with Some l => [("ReferencedSegmentNumber", DInts l)] | None => [] end))]
  | VNum q fl u ql =>
      ("MeasuredValueSequence",
       DSeq [DSet ([("NumericValue", DNums [q])] ++
                   (if fl then [("FloatingPointValue", DNums [q])] else []) ++
                   [("MeasurementUnitsCodeSequence", DSeq [code_ds u])])]) ::
      match ql with
      | Some c => [("NumericValueQualifierCodeSequence", DSeq [code_ds c])]
      | None => []
      end
  | VPname s => [("PersonName", DStr s)]
  | VScoord g pts poi fid =>
      [("GraphicType", DStr (g2_str g)); ("GraphicData", DNums (concat pts))]
      ++ opt_attr "PixelOriginInterpretation" poi ++ opt_attr "FiducialUID" fid
  | VScoord3d g pts for_uid fid =>
      [("GraphicType", DStr (g3_str g)); ("GraphicData", DNums (concat pts));
       ("ReferencedFrameOfReferenceUID", DStr for_uid)] ++ opt_attr "FiducialUID" fid
  | VTcoord t r =>
      [("TemporalRangeType", DStr (trt_str t));
       match r with
       | TSamples l => ("ReferencedSamplePositions", DInts l)
       | TOffsets l => ("ReferencedTimeOffsets", DNums l)
       | TDateTimes l => ("ReferencedDateTime", DTemp l)
       end]
  | VTime d => [("Time", DTemp [d])]
  | VText s => [("TextValue", DStr s)]
  | VUidref s => [("UID", DStr s)]
  | VWaveform c i ch =>
      [("ReferencedSOPSequence",
        sop_item c i (match ch with
                      | Some l => [("ReferencedWaveformChannels", DInts (flat_pairs l))]
                      | None => [] end))]
  end.

Definition rel_attr (r : option reltype) : attrs :=
  match r with Some x => [("RelationshipType", DStr (rel_str x))] | None => [] end.

Definition kids_attr (ks : list dval) : attrs :=
  match ks with [] => [] | _ => [("ContentSequence", DSeq ks)] end.

Fixpoint to_attrs (t : item) : attrs :=
  match t with
  | Item _ name rel v kids =>
      [("ValueType", DStr (vt_str (class_vt (value_class v))));
       ("ConceptNameCodeSequence", DSeq [code_ds name])]
      ++ rel_attr rel ++ value_attrs v
      ++ kids_attr (map (fun k => DSet (to_attrs k)) kids)
  end.
Definition to_ds (t : item) : dval := DSet (to_attrs t).

(* ------------------------------------------------------------------ *)
(* constructor validation                                               *)
Definition len {A} (l : list A) : Z := Z.of_nat (List.length l).

Definition rows_dim (d : Z) (pts : list (list Q)) : bool :=
  forallb (fun r => len r =? d) pts.

(* ScoordContentItem.__init__ : the if / elif chain on the graphic type *)
Definition scoord_count_ok (g : g2) (n : Z) : bool :=
  match g with
  | G2Point => n =? 1
  | G2Circle => n =? 2
  | G2Ellipse => n =? 4
  | _ => 1 <? n
  end.

Definition scoord3d_count_ok (g : g3) (n : Z) : bool :=
  match g with
  | G3Point => n =? 1
  | G3Ellipse => n =? 4
  | G3Ellipsoid => n =? 6
  | _ => 1 <? n
  end.

Fixpoint qlist_eqb (a b : list Q) : bool :=
  match a, b with
  | [], [] => true
  | x :: a', y :: b' => Qeq_bool x y && qlist_eqb a' b'
  | _, _ => false
  end.

(* np.array_equal(graphic_data[0], graphic_data[-1]) *)
Definition closed (pts : list (list Q)) : bool :=
  match pts with
  | [] => false
  | p :: _ => qlist_eqb p (last pts p)
  end.

(* exact coplanarity: rank of the difference vectors <= 2, i.e. every 3x3
   minor vanishes (are_points_coplanar decides this up to 1e-5 with an SVD) *)
Definition v3 := (Q * Q * Q)%type.
Definition to_v3 (r : list Q) : v3 :=
  match r with [x; y; z] => (x, y, z) | _ => (0, 0, 0)%Q end.
Definition vsub (a b : v3) : v3 :=
  let '(a1, a2, a3) := a in let '(b1, b2, b3) := b in (a1 - b1, a2 - b2, a3 - b3)%Q.
Definition det3 (a b c : v3) : Q :=
  let '(a1, a2, a3) := a in let '(b1, b2, b3) := b in let '(c1, c2, c3) := c in
  (a1 * (b2 * c3 - b3 * c2) - a2 * (b1 * c3 - b3 * c1) + a3 * (b1 * c2 - b2 * c1))%Q.
Definition coplanar_v (ps : list v3) : bool :=
  match ps with
  | [] => true
  | p0 :: rest =>
      let ds := map (fun p => vsub p p0) rest in
      forallb (fun a => forallb (fun b => forallb (fun c => Qeq_bool (det3 a b c) 0) ds) ds) ds
  end.
Definition coplanar (pts : list (list Q)) : bool := coplanar_v (map to_v3 pts).

Definition ok_if (b : bool) (e : string) : res unit := if b then Ok tt else Err e.

Definition opt_check {A} (f : A -> res unit) (o : option A) : res unit :=
  match o with Some x => f x | None => Ok tt end.

Definition scoord_check (g : g2) (pts : list (list Q)) : res unit :=
  ok_if (scoord_count_ok g (len pts) && rows_dim 2 pts) EValue.

Definition scoord3d_check (g : g3) (pts : list (list Q)) : res unit :=
  bind (ok_if (scoord3d_count_ok g (len pts) && rows_dim 3 pts) EValue) (fun _ =>
  bind (match g with G3Polygon => ok_if (closed pts) EValue | _ => Ok tt end) (fun _ =>
  match g with
  | G3Polygon | G3Ellipse => ok_if (coplanar pts) EValue
  | _ => Ok tt
  end)).

Definition value_check (v : value) : res unit :=
  match v with
  | VCode c => code_check c
  | VNum _ _ u ql => bind (code_check u) (fun _ => opt_check code_check ql)
  | VScoord g pts poi _ =>
      bind (scoord_check g pts) (fun _ => opt_check (fun s => ok_if (poi_ok s) EValue) poi)
  | VScoord3d g pts _ _ => scoord3d_check g pts
  | _ => Ok tt
  end.

(* ContentSequence(items) with is_root = False, is_sr = True *)
Definition seq_check (kids : list item) : res unit :=
  if forallb (fun k => match i_rel k with Some _ => true | None => false end) kids
  then Ok tt else Err EAttr.

(* X(name, value..., relationship_type) and item.ContentSequence = ContentSequence(kids) *)
Fixpoint construct (t : item) : res item :=
  match t with
  | Item cls name rel v kids =>
      bind (code_check name) (fun _ =>
      bind (value_check v) (fun _ =>
      bind (mapM construct kids) (fun kids' =>
      bind (seq_check kids') (fun _ =>
      Ok (Item (value_class v) name rel v kids')))))
  end.

(* ------------------------------------------------------------------ *)
(* reading the accessors                                                *)
Fixpoint chunk (fuel : nat) (k : nat) (l : list Q) : res (list (list Q)) :=
  match l with
  | [] => Ok []
  | _ => match fuel with
         | O => Err EValue
         | S f => if Nat.ltb (List.length l) k then Err EValue
                  else bind (chunk f k (skipn k l)) (fun r => Ok (firstn k l :: r))
         end
  end.
(* np.array(GraphicData).reshape(-1, k) *)
Definition reshape (k : nat) (l : list Q) : res (list (list Q)) := chunk (List.length l) k l.

(* [(val[i], val[i+1]) for i in range(0, len(val) - 1, 2)] *)
Fixpoint pair_up (l : list Z) : list (Z * Z) :=
  match l with
  | a :: b :: l' => (a, b) :: pair_up l'
  | _ => []
  end.

Definition get_ints (k : string) (a : attrs) : res (option (list Z)) :=
  match lookup k a with
  | None => Ok None
  | Some (DInts []) => Err EType     (* int(None) *)
  | Some (DInts l) => Ok (Some l)
  | Some _ => Err EType
  end.

Definition get_nums (k : string) (a : attrs) : res (list Q) :=
  bind (get k a) (fun v => match v with DNums l => Ok l | _ => Err EType end).

Definition get_temp1 (k : string) (a : attrs) : res (list Z) :=
  bind (get k a) (fun v => match v with DTemp [d] => Ok d | _ => Err EType end).

Definition enum_of {A} (f : string -> option A) (s : string) : res A :=
  match f s with Some x => Ok x | None => Err EValue end.

Definition read_sop (a : attrs) : res (attrs * string * string) :=
  bind (get "ReferencedSOPSequence" a) (fun s =>
  bind (first_item s) (fun it =>
  bind (get_str "ReferencedSOPClassUID" it) (fun c =>
  bind (get_str "ReferencedSOPInstanceUID" it) (fun i => Ok (it, c, i))))).

Definition read_value (c : ctag) (a : attrs) : res value :=
  match c with
  | CodeContentItem =>
      bind (get "ConceptCodeSequence" a) (fun s => bind (code_first s) (fun c => Ok (VCode c)))
  | CompositeContentItem =>
      bind (read_sop a) (fun '(_, c, i) => Ok (VComposite c i))
  | ContainerContentItem =>
      bind (get_str "ContinuityOfContent" a) (fun cont =>
      bind (match lookup "ContentTemplateSequence" a with
            | None => Ok None
            | Some (DSeq []) => Ok None          (* IndexError caught by template_id *)
            | Some s => bind (first_item s) (fun it =>
                        match lookup "TemplateIdentifier" it with
                        | None => Ok None         (* AttributeError caught *)
                        | Some (DStr t) => Ok (Some t)
                        | Some _ => Err EType
                        end)
            end) (fun tmpl => Ok (VContainer cont tmpl)))
  | DateContentItem => bind (get_temp1 "Date" a) (fun d => Ok (VDate d))
  | DateTimeContentItem => bind (get_temp1 "DateTime" a) (fun d => Ok (VDateTime d))
  | ImageContentItem =>
      bind (read_sop a) (fun '(it, c, i) =>
      bind (get_ints "ReferencedFrameNumber" it) (fun fr =>
      bind (get_ints "ReferencedSegmentNumber" it) (fun sg => Ok (VImage c i fr sg))))
  | NumContentItem =>
      bind (get "MeasuredValueSequence" a) (fun s =>
      bind (first_item s) (fun it =>
      bind (bind (get "MeasurementUnitsCodeSequence" it) code_first) (fun u =>
      bind (match lookup "NumericValueQualifierCodeSequence" a with
            | None => Ok None
            | Some s => bind (code_first s) (fun c => Ok (Some c))
            end) (fun ql =>
      match lookup "FloatingPointValue" it with
      | Some (DNums [q]) => Ok (VNum q true u ql)
      | Some _ => Err EType
      | None => bind (get_nums "NumericValue" it) (fun l =>
                match l with [q] => Ok (VNum q false u ql) | _ => Err EType end)
      end))))
  | PnameContentItem => bind (get_str "PersonName" a) (fun s => Ok (VPname s))
  | ScoordContentItem =>
      bind (bind (get_str "GraphicType" a) (enum_of g2_of_str)) (fun g =>
      bind (bind (get_nums "GraphicData" a) (reshape 2)) (fun pts =>
      bind (opt_str "PixelOriginInterpretation" a) (fun poi =>
      bind (opt_str "FiducialUID" a) (fun fid => Ok (VScoord g pts poi fid)))))
  | Scoord3DContentItem =>
      bind (bind (get_str "GraphicType" a) (enum_of g3_of_str)) (fun g =>
      bind (bind (get_nums "GraphicData" a) (reshape 3)) (fun pts =>
      bind (get_str "ReferencedFrameOfReferenceUID" a) (fun fu =>
      bind (opt_str "FiducialUID" a) (fun fid => Ok (VScoord3d g pts fu fid)))))
  | TcoordContentItem =>
      bind (bind (get_str "TemporalRangeType" a) (enum_of trt_of_str)) (fun t =>
      match lookup "ReferencedSamplePositions" a with
      | Some (DInts l) => Ok (VTcoord t (TSamples l))
      | Some _ => Err EType
      | None =>
          match lookup "ReferencedTimeOffsets" a with
          | Some (DNums l) => Ok (VTcoord t (TOffsets l))
          | Some _ => Err EType
          | None =>
              match lookup "ReferencedDateTime" a with
              | Some (DTemp l) => Ok (VTcoord t (TDateTimes l))
              | Some _ => Err EType
              | None => Err EAttr
              end
          end
      end)
  | TimeContentItem => bind (get_temp1 "Time" a) (fun d => Ok (VTime d))
  | TextContentItem => bind (get_str "TextValue" a) (fun s => Ok (VText s))
  | UIDRefContentItem => bind (get_str "UID" a) (fun s => Ok (VUidref s))
  | WaveformContentItem =>
      bind (read_sop a) (fun '(it, c, i) =>
      match lookup "ReferencedWaveformChannels" it with
      | None => Ok (VWaveform c i None)
      | Some (DInts l) => Ok (VWaveform c i (Some (pair_up l)))
      | Some _ => Err EType
      end)
  end.

(* .relationship_type *)
Definition read_rel (a : attrs) : res (option reltype) :=
  match lookup "RelationshipType" a with
  | None => Ok None
  | Some (DStr s) => bind (enum_of rel_of_str s) (fun r => Ok (Some r))
  | Some _ => Err EType
  end.

(* ------------------------------------------------------------------ *)
(* parsing                                                              *)
Definition default_name : code := Code "260753009" "SCT" "Source" None.

(* _assert_value_type(dataset, class_vt c) with the required-attribute table *)
Definition assert_value_type_in (req : list (string * list string)) (v : vt) (a : attrs) : res unit :=
  match lookup "ValueType" a with
  | None => Err EAttr
  | Some d =>
      if negb (match d with DStr s => String.eqb s (vt_str v) | _ => false end) then Err EValue
      else match assoc (vt_str v) req with
           | None => Err EKey
           | Some ks => if forallb (fun k => has k a) ks then Ok tt else Err EAttr
           end
  end.
Definition assert_value_type := assert_value_type_in required_table.

(* ContentSequence._check_dataset (is_root = False, is_sr = True) followed by
   the dispatch of ContentItem._from_dataset_derived *)
Definition check_and_dispatch (a : attrs) : res ctag :=
  match lookup "ValueType" a with
  | None => Err EAttr
  | Some (DStr s) =>
      match vt_of_str s with
      | None => Err EValue
      | Some v => if negb (has "RelationshipType" a) then Err EAttr else get_class v
      end
  | Some _ => Err EValue
  end.

(* everything of X.from_dataset + accessors except the recursion;
   [kids] is the already-converted ContentSequence (None = attribute absent) *)
Definition parse_body (c : option ctag) (a : attrs) (kids : option (res (list item))) : res item :=
  bind (match c with Some c => Ok c | None => check_and_dispatch a end) (fun c =>
  bind (assert_value_type (class_vt c) a) (fun _ =>
  bind (match lookup "ConceptNameCodeSequence" a with
        | Some s => Ok (Some s)
        | None => if mem (ctag_str c) optional_name_classes then Ok None else Err EAttr
        end) (fun name_seq =>
  bind (match kids with None => Ok [] | Some r => r end) (fun ks =>
  bind (seq_check ks) (fun _ =>
  bind (match name_seq with Some s => code_first s | None => Ok default_name end) (fun name =>
  bind (read_value c a) (fun v =>
  bind (read_rel a) (fun rel =>
  Ok (Item c name rel v ks))))))))).

Fixpoint parse (c : option ctag) (d : dval) {struct d} : res item :=
  match d with
  | DSet a =>
      parse_body c a
        ((fix find (l : attrs) : option (res (list item)) :=
            match l with
            | [] => None
            | (k, v) :: l' =>
                if String.eqb k "ContentSequence" then
                  Some (match v with
                        | DSeq items =>
                            (fix go (is : list dval) : res (list item) :=
                               match is with
                               | [] => Ok []
                               | i :: is' => bind (parse None i) (fun x =>
                                             bind (go is') (fun xs => Ok (x :: xs)))
                               end) items
                        | _ => Err EType
                        end)
                else find l'
            end) a)
  | _ => Err EType
  end.

(* ContentSequence.from_sequence(items) (is_root = False, is_sr = True) *)
Definition from_sequence (items : list dval) : res (list item) :=
  bind (mapM (parse None) items) (fun ks => bind (seq_check ks) (fun _ => Ok ks)).

(* ------------------------------------------------------------------ *)
(* parse-time checks only (what X.from_dataset / from_sequence themselves
   raise, before any accessor is read) *)
Definition discard {A} (r : res A) : res unit := bind r (fun _ => Ok tt).

Definition accept_body (c : option ctag) (a : attrs) (kids : option (res unit)) : res unit :=
  bind (match c with Some c => Ok c | None => check_and_dispatch a end) (fun c =>
  bind (assert_value_type (class_vt c) a) (fun _ =>
  bind (match lookup "ConceptNameCodeSequence" a with
        | Some s => Ok (Some s)
        | None => if mem (ctag_str c) optional_name_classes then Ok None else Err EAttr
        end) (fun name_seq =>
  bind (match kids with None => Ok tt | Some r => r end) (fun _ =>
  bind (match name_seq with Some s => discard (code_first s) | None => Ok tt end) (fun _ =>
  match c with
  | CodeContentItem => discard (bind (get "ConceptCodeSequence" a) code_first)
  | NumContentItem =>
      bind (get "MeasuredValueSequence" a) (fun s =>
      bind (first_item s) (fun it =>
      bind (discard (bind (get "MeasurementUnitsCodeSequence" it) code_first)) (fun _ =>
      match lookup "NumericValueQualifierCodeSequence" a with
      | None => Ok tt
      | Some s => discard (code_first s)
      end)))
  | _ => Ok tt
  end))))).

(* ContentSequence.__init__ evaluates relationship_type of every item *)
Definition rel_present (d : dval) : res unit :=
  match d with
  | DSet a => bind (read_rel a) (fun r => match r with Some _ => Ok tt | None => Err EAttr end)
  | _ => Err EType
  end.

Fixpoint accept (c : option ctag) (d : dval) {struct d} : res unit :=
  match d with
  | DSet a =>
      accept_body c a
        ((fix find (l : attrs) : option (res unit) :=
            match l with
            | [] => None
            | (k, v) :: l' =>
                if String.eqb k "ContentSequence" then
                  Some (match v with
                        | DSeq items =>
                            bind ((fix go (is : list dval) : res unit :=
                                     match is with
                                     | [] => Ok tt
                                     | i :: is' => bind (accept None i) (fun _ => go is')
                                     end) items)
                                 (fun _ => discard (mapM rel_present items))
                        | _ => Err EType
                        end)
                else find l'
            end) a)
  | _ => Err EType
  end.

Definition accept_sequence (items : list dval) : res unit :=
  bind (discard (mapM (accept None) items)) (fun _ => discard (mapM rel_present items)).

(* ------------------------------------------------------------------ *)
(* two-phase parsing, faithful about error precedence: X.from_dataset /
   from_sequence run ALL their checks over the whole tree first ([accept]);
   only then are accessors read, per node in the order relationship_type,
   children, name, value ([read]).  [parse2] = [accept] then [read];
   C13_Proofs_Seq.parse_two_phase: it succeeds exactly when [parse] does,
   with the same item. *)
Definition read_body (c : option ctag) (a : attrs) (kids : option (res (list item))) : res item :=
  bind (match c with Some c => Ok c | None => check_and_dispatch a end) (fun c =>
  bind (read_rel a) (fun rel =>
  bind (match kids with None => Ok [] | Some r => r end) (fun ks =>
  bind (match lookup "ConceptNameCodeSequence" a with
        | Some s => code_first s
        | None => Ok default_name       (* inserted by _from_dataset_base *)
        end) (fun name =>
  bind (read_value c a) (fun v =>
  Ok (Item c name rel v ks)))))).

Fixpoint read (c : option ctag) (d : dval) {struct d} : res item :=
  match d with
  | DSet a =>
      read_body c a
        ((fix find (l : attrs) : option (res (list item)) :=
            match l with
            | [] => None
            | (k, v) :: l' =>
                if String.eqb k "ContentSequence" then
                  Some (match v with
                        | DSeq items =>
                            (fix go (is : list dval) : res (list item) :=
                               match is with
                               | [] => Ok []
                               | i :: is' => bind (read None i) (fun x =>
                                             bind (go is') (fun xs => Ok (x :: xs)))
                               end) items
                        | _ => Err EType
                        end)
                else find l'
            end) a)
  | _ => Err EType
  end.

Definition parse2 (c : option ctag) (d : dval) : res item :=
  bind (accept c d) (fun _ => read c d).
Definition from_sequence2 (items : list dval) : res (list item) :=
  bind (accept_sequence items) (fun _ => mapM (read None) items).

(* ------------------------------------------------------------------ *)
(* ContentSequence: the three kinds of sequence (is_root, is_sr)         *)
Inductive smode := MRoot | MSr | MCtx.

(* ContentSequence.__init__: is_root and not is_sr -> ValueError *)
Definition mode_of (is_root is_sr : bool) : res smode :=
  match is_root, is_sr with
  | true, true => Ok MRoot
  | true, false => Err EValue
  | false, true => Ok MSr
  | false, false => Ok MCtx
  end.

Definition is_container (c : ctag) : bool :=
  match c with ContainerContentItem => true | _ => false end.

(* the rule of ContentSequence._check_item on (relationship_type, class) *)
Definition mode_rule (m : smode) (r : option reltype) (c : ctag) : res unit :=
  match m with
  | MRoot => match r with
             | Some _ => Err EAttr
             | None => if is_container c then Ok tt else Err EType
             end
  | MSr => match r with Some _ => Ok tt | None => Err EAttr end
  | MCtx => match r with Some _ => Err EAttr | None => Ok tt end
  end.

Definition check_item (m : smode) (i : item) : res unit := mode_rule m (i_rel i) (i_cls i).

(* ContentSequence._check_dataset(is_root, is_sr) + class dispatch *)
Definition dispatch_m (m : smode) (a : attrs) : res ctag :=
  match lookup "ValueType" a with
  | None => Err EAttr
  | Some (DStr s) =>
      match vt_of_str s with
      | None => Err EValue
      | Some v =>
          if (match m with MSr => true | _ => false end) && negb (has "RelationshipType" a)
          then Err EAttr else get_class v
      end
  | Some _ => Err EValue
  end.

(* one dataset of from_sequence(..., is_root, is_sr): check, dispatch,
   from_dataset of the dispatched class (nested sequences are always parsed
   with the default flags) *)
Definition accept_item_m (m : smode) (d : dval) : res ctag :=
  match d with
  | DSet a => bind (dispatch_m m a) (fun c => bind (accept (Some c) d) (fun _ => Ok c))
  | _ => Err EType
  end.

(* ContentSequence.__init__ on the parsed items: relationship_type is read
   (ValueError for a string outside the enumeration) and judged by the mode *)
Definition present_m (m : smode) (cd : ctag * dval) : res unit :=
  match snd cd with
  | DSet a => bind (read_rel a) (fun r => mode_rule m r (fst cd))
  | _ => Err EType
  end.

Definition accept_sequence_m (m : smode) (items : list dval) : res (list ctag) :=
  bind (mapM (accept_item_m m) items) (fun cs =>
  bind (mapM (present_m m) (combine cs items)) (fun _ => Ok cs)).

Definition from_sequence_m (m : smode) (items : list dval) : res (list item) :=
  bind (accept_sequence_m m items) (fun cs =>
  mapM (fun cd => read (Some (fst cd)) (snd cd)) (combine cs items)).

(* ------------------------------------------------------------------ *)
(* ContentSequence as a mutable container.  [q_items] is the list itself,
   [q_log] the name look-up table: self._lut is a dict of lists keyed by the
   item name, always appended at the end - represented here by the single
   insertion log, _lut[k] = the entries of the log whose name has key k.     *)
Record cseq := CSeq { q_mode : smode; q_items : list item; q_log : list item }.

(* Code.__eq__ : value, scheme designator and scheme version (the meaning is
   ignored; the SRT -> SCT mapping of pydicom is not modelled) *)
Definition ostr_eqb (a b : option string) : bool :=
  match a, b with
  | Some x, Some y => String.eqb x y
  | None, None => true
  | _, _ => false
  end.
Definition key_eqb (a b : code) : bool :=
  String.eqb (c_value a) (c_value b) && String.eqb (c_scheme a) (c_scheme b)
  && ostr_eqb (c_version a) (c_version b).
Definition named (n : code) (i : item) : bool := key_eqb n (i_name i).
Definition has_kids (i : item) : bool := match i_kids i with [] => false | _ => true end.

(* ------------------------------------------------------------------ *)
(* boundary: rendering as [val]                                         *)
Definition vstr_opt (o : option string) : val := vopt VS o.
Definition obs_code (c : code) : val :=
  VL [VS (c_value c); VS (c_scheme c); VS (c_meaning c); vstr_opt (c_version c)].
Definition vq_rows (l : list (list Q)) : val := VL (map vq_list l).
Definition vz_rows (l : list (list Z)) : val := VL (map vz_list l).
Definition vz_opt (o : option (list Z)) : val := vopt vz_list o.

Definition obs_value (v : value) : val :=
  match v with
  | VCode c => obs_code c
  | VComposite c i => VL [VS c; VS i]
  | VContainer cont t => VL [VS cont; vstr_opt t]
  | VDate d | VDateTime d | VTime d => vz_list d
  | VImage c i fr sg => VL [VS c; VS i; vz_opt fr; vz_opt sg]
  | VNum q fl u ql => VL [VQ q; VB fl; obs_code u; vopt obs_code ql]
  | VPname s | VText s | VUidref s => VS s
  | VScoord g pts poi fid => VL [VS (g2_str g); vq_rows pts; vstr_opt poi; vstr_opt fid]
  | VScoord3d g pts fu fid => VL [VS (g3_str g); vq_rows pts; VS fu; vstr_opt fid]
  | VTcoord t r => VL [VS (trt_str t);
                       match r with
                       | TSamples l => VL [VS "samples"; vz_list l]
                       | TOffsets l => VL [VS "offsets"; vq_list l]
                       | TDateTimes l => VL [VS "datetimes"; vz_rows l]
                       end]
  | VWaveform c i ch =>
      VL [VS c; VS i; vopt (fun l => VL (map (fun p => vz_list [fst p; snd p]) l)) ch]
  end.

Fixpoint obs_item (t : item) : val :=
  match t with
  | Item c name rel v kids =>
      VL [VS (ctag_str c); obs_code name; vopt (fun r => VS (rel_str r)) rel; obs_value v;
          VL (map obs_item kids)]
  end.

(* canonical rendering of a dataset: attributes sorted by keyword *)
Fixpoint insert_kv (kv : string * val) (l : list (string * val)) : list (string * val) :=
  match l with
  | [] => [kv]
  | x :: l' => if String.leb (fst kv) (fst x) then kv :: l else x :: insert_kv kv l'
  end.

Fixpoint ds_val (d : dval) : val :=
  match d with
  | DStr s => VS s
  | DInts l => vz_list l
  | DNums l => vq_list l
  | DTemp l => vz_rows l
  | DSeq items => VL (map ds_val items)
  | DSet a =>
      VL (map (fun kv => VL [VS (fst kv); snd kv])
              (fold_right insert_kv [] (map (fun kv => (fst kv, ds_val (snd kv))) a)))
  end.

(* kind 'tree': built item, its plain dataset, own-class from_dataset,
   from_sequence dispatch *)
Definition run_tree (t : item) : val :=
  match construct t with
  | Err k => VErr k
  | Ok t' =>
      VL [obs_item t'; ds_val (to_ds t');
          vres obs_item (parse (Some (i_cls t')) (to_ds t'));
          vres (fun l => VL (map obs_item l)) (from_sequence [to_ds t']);
          (* after dcmwrite + dcmread (premise W1: same abstract dataset) *)
          ds_val (to_ds t');
          vres (fun l => VL (map obs_item l)) (from_sequence [to_ds t']);
          vres obs_item (parse (Some (i_cls t')) (to_ds t'));
          (* every coded concept == its constructor argument on every path *)
          VB true]
  end.

(* kind 'malformed': an arbitrary dataset parsed by class [c] and by dispatch *)
Definition vstatus (r : res unit) : val := vres (fun _ => VS "ok") r.
Definition run_parse (c : ctag) (d : dval) : val :=
  VL [vstatus (accept (Some c) d); vres obs_item (parse (Some c) d);
      vstatus (accept_sequence [d]); vres (fun l => VL (map obs_item l)) (from_sequence [d])].

(* kind 'code' *)
Definition run_code (c : code) : val :=
  match code_check c with
  | Err k => VErr k
  | Ok _ => VL [VS (code_kw (c_value c)); ds_val (code_ds c); vres obs_code (code_from (code_ds c));
                obs_code (from_code c)]
  end.
(* kind 'code_from': from_dataset alone, then from_dataset + the four accessors *)
Definition run_code_from (d : dval) : val :=
  VL [vstatus (code_accept d); vres obs_code (code_from d)].

(* kinds 'scoord_count', 'scoord3d' *)
Definition run_scoord (g : g2) (pts : list (list Q)) : val :=
  vres (fun _ => VB true) (scoord_check g pts).
Definition run_scoord3d (g : g3) (pts : list (list Q)) : val :=
  vres (fun _ => VB true) (scoord3d_check g pts).

(* ------------------------------------------------------------------ *)
(* ContentSequence operations.  Dataset.__eq__ is equality of content:
   two items are equal iff all their observations are, code meanings apart
   ([val_beq] is the structural equality of [val]).                       *)
Fixpoint val_beq (a b : val) {struct a} : bool :=
  match a, b with
  | VZ x, VZ y => Z.eqb x y
  | VB x, VB y => Bool.eqb x y
  | VNone, VNone => true
  | VS x, VS y => String.eqb x y
  | VQ x, VQ y => Z.eqb (Qnum x) (Qnum y) && Pos.eqb (Qden x) (Qden y)
  | VErr x, VErr y => String.eqb x y
  | VL xs, VL ys =>
      (fix go (xs ys : list val) {struct xs} : bool :=
         match xs, ys with
         | [], [] => true
         | x :: xs', y :: ys' => val_beq x y && go xs' ys'
         | _, _ => false
         end) xs ys
  | _, _ => false
  end.

(* CodedConcept.__eq__ ignores the code meaning, hence so does the equality
   of the datasets that contain coded concepts *)
Definition blank_code (c : code) : code := Code (c_value c) (c_scheme c) "" (c_version c).
Definition blank_value (v : value) : value :=
  match v with
  | VCode c => VCode (blank_code c)
  | VNum q f u ql => VNum q f (blank_code u)
                       (match ql with Some c => Some (blank_code c) | None => None end)
  | _ => v
  end.
Fixpoint blank (t : item) : item :=
  match t with
  | Item c n r v ks => Item c (blank_code n) r (blank_value v) (map blank ks)
  end.
Definition item_eqb (a b : item) : bool := val_beq (obs_item (blank a)) (obs_item (blank b)).

(* seq[idx] for an int: IndexError outside -n <= idx < n *)
Definition norm_idx (n k : Z) : option nat :=
  if (k <? - n) || (n <=? k) then None else Some (Z.to_nat (if k <? 0 then k + n else k)).
(* slice bound / list.insert position: clamped *)
Definition clamp (n k : Z) : nat :=
  Z.to_nat (if k <? 0 then Z.max 0 (k + n) else Z.min k n).
Definition insert_at {A} (k : nat) (x : A) (l : list A) : list A := firstn k l ++ x :: skipn k l.
Definition splice {A} (lo hi : nat) (mid l : list A) : list A := firstn lo l ++ mid ++ skipn hi l.

(* del lst[lst.index(x)] ; None = ValueError of list.index *)
Fixpoint remove_first {A} (p : A -> bool) (l : list A) : option (list A) :=
  match l with
  | [] => None
  | x :: l' => if p x then Some l'
               else match remove_first p l' with Some r => Some (x :: r) | None => None end
  end.
Fixpoint log_remove (olds log : list item) : option (list item) :=
  match olds with
  | [] => Some log
  | o :: os => match remove_first (item_eqb o) log with
               | None => None
               | Some log' => log_remove os log'
               end
  end.

Fixpoint find_index {A} (p : A -> bool) (l : list A) : option Z :=
  match l with
  | [] => None
  | x :: l' => if p x then Some 0
               else match find_index p l' with Some k => Some (k + 1) | None => None end
  end.

Definition seq_new (m : smode) (items : list item) : res cseq :=
  bind (mapM (check_item m) items) (fun _ => Ok (CSeq m items items)).

Inductive sop :=
| OAppend (i : item) | OInsert (pos : Z) (i : item) | OSet (idx : Z) (i : item) | ODel (idx : Z)
| OExtend (l : list item) | OSetSlice (lo hi : Z) (l : list item) | ODelSlice (lo hi : Z).

Definition seq_append (s : cseq) (i : item) : cseq :=
  CSeq (q_mode s) (q_items s ++ [i]) (q_log s ++ [i]).

(* extend appends item by item: a refused item leaves the earlier ones in *)
Fixpoint seq_extend (s : cseq) (l : list item) : cseq * res unit :=
  match l with
  | [] => (s, Ok tt)
  | i :: l' => match check_item (q_mode s) i with
               | Err e => (s, Err e)
               | Ok _ => seq_extend (seq_append s i) l'
               end
  end.

(* the state after the call, and how the call ended *)
Definition seq_step (s : cseq) (o : sop) : cseq * res unit :=
  let m := q_mode s in let its := q_items s in let lg := q_log s in let n := len its in
  match o with
  | OAppend i =>
      match check_item m i with Err e => (s, Err e) | Ok _ => (seq_append s i, Ok tt) end
  | OInsert pos i =>
      match check_item m i with
      | Err e => (s, Err e)
      | Ok _ => (CSeq m (insert_at (clamp n pos) i its) (lg ++ [i]), Ok tt)
      end
  | OSet idx i =>
      match norm_idx n idx with
      | None => (s, Err EIndex)
      | Some k =>
          match check_item m i with
          | Err e => (s, Err e)
          | Ok _ =>
              let its' := splice k (S k) [i] its in
              match log_remove (firstn 1 (skipn k its)) lg with
              | None => (CSeq m its' lg, Err EValue)
              | Some lg' => (CSeq m its' (lg' ++ [i]), Ok tt)
              end
          end
      end
  | ODel idx =>
      match norm_idx n idx with
      | None => (s, Err EIndex)
      | Some k =>
          match log_remove (firstn 1 (skipn k its)) lg with
          | None => (s, Err EValue)
          | Some lg' => (CSeq m (splice k (S k) [] its) lg', Ok tt)
          end
      end
  | OExtend l => seq_extend s l
  | OSetSlice lo hi l =>
      let a := clamp n lo in let b := Nat.max a (clamp n hi) in
      match mapM (check_item m) l with
      | Err e => (s, Err e)
      | Ok _ =>
          let its' := splice a b l its in
          match log_remove (firstn (b - a) (skipn a its)) lg with
          | None => (CSeq m its' lg, Err EValue)
          | Some lg' => (CSeq m its' (lg' ++ l), Ok tt)
          end
      end
  | ODelSlice lo hi =>
      let a := clamp n lo in let b := Nat.max a (clamp n hi) in
      match log_remove (firstn (b - a) (skipn a its)) lg with
      | None => (s, Err EValue)
      | Some lg' => (CSeq m (splice a b [] its) lg', Ok tt)
      end
  end.

Fixpoint seq_run (s : cseq) (ops : list sop) : cseq * list (res unit) :=
  match ops with
  | [] => (s, [])
  | o :: ops' => let '(s1, r) := seq_step s o in
                 let '(s2, rs) := seq_run s1 ops' in (s2, r :: rs)
  end.

(* find(name) = ContentSequence(self._lut[name], is_root, is_sr) *)
Definition seq_find (s : cseq) (n : code) : res (list item) :=
  let sel := filter (named n) (q_log s) in
  bind (mapM (check_item (q_mode s)) sel) (fun _ => Ok sel).
(* get_nodes() *)
Definition seq_nodes (s : cseq) : res (list item) :=
  let sel := filter has_kids (q_items s) in
  bind (mapM (check_item (q_mode s)) sel) (fun _ => Ok sel).
(* index(val): ValueError unless the table of val.name holds an equal item *)
Definition seq_index (s : cseq) (v : item) : res Z :=
  if existsb (item_eqb v) (filter (named (i_name v)) (q_log s)) then
    match find_index (item_eqb v) (q_items s) with Some k => Ok k | None => Err EValue end
  else Err EValue.
Definition seq_contains (s : cseq) (v : item) : bool :=
  match seq_index s v with Ok _ => true | Err _ => false end.

(* kind 'seqops' *)
Definition vitems (l : list item) : val := VL (map obs_item l).
Definition run_seqops (is_root is_sr : bool) (init : list item) (ops : list sop)
    (names : list code) (probes : list item) : val :=
  match bind (mode_of is_root is_sr) (fun m => seq_new m init) with
  | Err k => VErr k
  | Ok s0 =>
      let '(s, rs) := seq_run s0 ops in
      VL [VL (map vstatus rs); vitems (q_items s);
          VL (map (fun n => vres vitems (seq_find s n)) names);
          vres vitems (seq_nodes s);
          VL (map (fun v => VL [vres VZ (seq_index s v); VB (seq_contains s v)]) probes)]
  end.

(* kind 'seqmode': ContentSequence(items, is_root, is_sr) and
   from_sequence(datasets, is_root, is_sr) on the serialised items *)
Definition run_seqmode (is_root is_sr : bool) (items : list item) : val :=
  match mode_of is_root is_sr with
  | Err k => VL [VErr k; VErr k]
  | Ok m =>
      VL [vstatus (discard (seq_new m items));
          vres vitems (from_sequence_m m (map to_ds items))]
  end.

(* kind 'malformed' with several faults: the two-phase functions *)
Definition run_parse2 (c : ctag) (d : dval) : val :=
  VL [vstatus (accept (Some c) d); vres obs_item (parse2 (Some c) d);
      vstatus (accept_sequence [d]); vres vitems (from_sequence2 [d])].

(* ------------------------------------------------------------------ *)
(* the template content items of sr/content.py (ImageRegion, FindingSite,
   SourceImageFor..., ...: subclasses of a value-type class [parent]).  Their
   from_dataset calls ContentItem._from_dataset_base directly: Value Type
   present, concept name required (their class names are not in the
   optional-name tuple), children through from_sequence, name converted; no
   conversion of the value's coded concepts.  [asserts] = "this from_dataset
   calls _assert_value_type(dataset_copy, <value type of parent>) first", read
   off the source on every run (true for all twelve since defect D103 was
   fixed; false before).                                                    *)
Definition sub_kids (a : attrs) : option (res unit) :=
  match lookup "ContentSequence" a with
  | None => None
  | Some (DSeq items) => Some (bind (discard (mapM (accept None) items))
                                    (fun _ => discard (mapM rel_present items)))
  | Some _ => Some (Err EType)
  end.

Definition accept_sub (asserts : bool) (parent : ctag) (d : dval) : res unit :=
  match d with
  | DSet a =>
      bind (if asserts then assert_value_type (class_vt parent) a else Ok tt) (fun _ =>
      bind (if has "ValueType" a then Ok tt else Err EAttr) (fun _ =>
      bind (get "ConceptNameCodeSequence" a) (fun s =>
      bind (match sub_kids a with None => Ok tt | Some r => r end) (fun _ =>
      discard (code_first s)))))
  | _ => Err EType
  end.

(* kind 'subclass' *)
Definition run_sub (asserts : bool) (parent : ctag) (d : dval) : val :=
  vstatus (accept_sub asserts parent d).

(* ------------------------------------------------------------------ *)
(* NumContentItem.__init__, int values: `len(str(value)) <= 16` decides
   whether the exact decimal string is stored as NumericValue (otherwise the
   value goes through pydicom's 16-character float formatting, which is not
   modelled).  .value = float(NumericValue): the int comes back unchanged iff
   it is also exactly representable as a double.                          *)
Fixpoint ndigits (fuel : nat) (a : Z) : Z :=
  match fuel with
  | O => 1
  | S f => if a <? 10 then 1 else 1 + ndigits f (a / 10)
  end.
(* len(str(z)) *)
Definition int_strlen (z : Z) : Z :=
  (if z <? 0 then 1 else 0) + ndigits (S (Z.to_nat (Z.log2 (Z.abs z)))) (Z.abs z).
Definition num_int_exact (z : Z) : bool := int_strlen z <=? 16.
(* float(z) == z *)
Definition dbl_exact (z : Z) : bool :=
  let a := Z.abs z in
  (a <? 2 ^ 53) || (a mod 2 ^ (Z.log2 a - 52) =? 0).

(* what the constructor stores for the int z: NumericValue = the exact decimal
   string iff it fits in 16 characters; otherwise (fix of D111, /repo 1fabebb)
   FloatingPointValue = float(z) as well, so that .value does not fall back on
   the rounded DS string after an encoding.  The number an accessor can report
   is float(z) in both cases - z itself iff z is an exact double.           *)
Definition num_int_has_float (z : Z) : bool := negb (num_int_exact z).
Definition num_of_int (z : Z) (u : code) (ql : option code) : value :=
  VNum (inject_Z z) (num_int_has_float z) u ql.

(* kind 'num_int': exact decimal string stored? FloatingPointValue written?
   .value == z, on the constructed item and after bytes + from_dataset?      *)
Definition run_num_int (z : Z) : val :=
  VL [VB (num_int_exact z); VB (num_int_has_float z); VB (dbl_exact z)].

(* ------------------------------------------------------------------ *)
(* kind 'coplanar': highdicom.spatial.are_points_coplanar driven directly
   (any number of points, open contours): ValueError unless n x 3, otherwise
   the exact rank test (n < 4 is always coplanar - [coplanar] agrees).      *)
Definition run_coplanar (pts : list (list Q)) : val :=
  if rows_dim 3 pts then VB (coplanar pts) else VErr EValue.

(* ------------------------------------------------------------------ *)
(* kind 'history': reads of .value on ONE SCOORD / SCOORD3D item over time.
   ScoordContentItem.value / Scoord3DContentItem.value build a NEW array from
   GraphicData on every access, and the constructor stores a copy
   (graphic_data.flatten().tolist()): whatever a caller does to an array it
   obtained earlier, to the array it passed to the constructor or to the
   dataset the item was parsed from cannot reach the item.  In-place edits of
   item.GraphicData and its re-assignment do.  State = the flat GraphicData. *)
Inductive hop :=
| HRead                       (* item.value, observed *)
| HScribble                   (* in-place change of an array obtained earlier / of the
                                 constructor argument / of the source dataset *)
| HEdit (i : Z) (q : Q)       (* item.GraphicData[i] = q *)
| HAssign (l : list Q)        (* item.GraphicData = l *)
| HRoundTrip.                 (* .value of the serialised-and-parsed copy, read, scribbled on, read again *)

Definition set_nth {A} (k : nat) (x : A) (l : list A) : list A := firstn k l ++ x :: skipn (S k) l.

(* np.array(GraphicData).reshape(-1, k) *)
Definition read_rows (k : nat) (data : list Q) : val := vres vq_rows (reshape k data).

Definition hist_step (k : nat) (data : list Q) (o : hop) : list val * list Q :=
  match o with
  | HRead => ([read_rows k data], data)
  | HScribble => ([], data)
  | HEdit i q =>
      match norm_idx (len data) i with
      | None => ([VErr EIndex], data)
      | Some n => ([VS "ok"], set_nth n q data)
      end
  | HAssign l => ([], l)
  | HRoundTrip => ([read_rows k data; read_rows k data], data)
  end.

Fixpoint hist_run (k : nat) (data : list Q) (ops : list hop) : list val * list Q :=
  match ops with
  | [] => ([], data)
  | o :: ops' =>
      let '(e, d) := hist_step k data o in
      let '(es, d') := hist_run k d ops' in (e ++ es, d')
  end.

(* the observations of the calls in order, then the final GraphicData *)
Definition run_hist (k : Z) (pts : list (list Q)) (ops : list hop) : val :=
  let '(es, d) := hist_run (Z.to_nat k) (concat pts) ops in VL [VL es; vq_list d].
