(* C18 - proofs, part 4: what decode returns without the z_agree guard.
   When the z column is constant as floats the code stores ONE z (the model:
   the first row's) and re-inserts it everywhere; the returned z words are
   IEEE-equal to the given ones (they differ only as +0.0 / -0.0). *)
From Coq Require Import String ZArith List Bool Lia ZifyBool Arith.
From HD Require Import Base.Val Base.ListZ C18_Model C18_Proofs.
Import ListNotations.
Ltac Zify.zify_post_hook ::= Z.to_euclidean_division_equations.
Open Scope Z_scope.

Definition fixz (z0 : word) (r : row) : row := firstn 2 r ++ [z0].
Definition z0_of (gd : list annot) : word := match concat gd with r0 :: _ => third r0 | [] => 0 end.
Definition returned (dbl : bool) (gd : list annot) : list annot :=
  if common_z dbl gd then map (map (fixz (z0_of gd))) gd else gd.

Lemma zlen_map {A B} : forall (f : A -> B) l, zlen (map f l) = zlen l.
Proof. intros. unfold zlen. now rewrite map_length. Qed.

Lemma point_index_list_lens : forall sd (gd gd' : list annot),
  map zlen gd = map zlen gd' -> point_index_list sd gd = point_index_list sd gd'.
Proof.
  intros sd gd gd' H. unfold point_index_list. do 4 f_equal.
  transitivity (map (fun n => n * sd) (map zlen gd)); [now rewrite map_map|].
  rewrite H. now rewrite map_map.
Qed.

Lemma split_recover_count : forall gt (gd : list annot) sd, 0 < sd -> gd <> [] ->
  (forall a, In a gd -> count_ok gt (zlen a) = true) ->
  split_for gt sd (if is_poly gt then Some (point_index_list sd gd) else None) (concat gd) = Ok gd.
Proof.
  intros gt gd sd Hsd Hne Hc.
  assert (Hn : 0 < zlen gd) by (destruct gd; [congruence|rewrite zlen_cons; pose proof (zlen_nonneg gd); lia]).
  destruct gt; cbn [split_for is_poly].
  - apply (split_sections_concat 1); [lia|exact Hne| |].
    + intros a Ha. specialize (Hc a Ha). cbn in Hc. lia.
    + rewrite (zlen_concat_const 1); [lia|]. intros a Ha. specialize (Hc a Ha). cbn in Hc. lia.
  - rewrite zlen_concat, (div_points sd gd Hsd Hne). f_equal. apply (split_bounds gd []).
  - rewrite zlen_concat, (div_points sd gd Hsd Hne). f_equal. apply (split_bounds gd []).
  - apply (split_sections_concat 4); [lia|exact Hne| |].
    + intros a Ha. specialize (Hc a Ha). cbn in Hc. lia.
    + rewrite (zlen_concat_const 4); [|intros a Ha; specialize (Hc a Ha); cbn in Hc; lia]. lia.
  - apply (split_sections_concat 4); [lia|exact Hne| |].
    + intros a Ha. specialize (Hc a Ha). cbn in Hc. lia.
    + rewrite (zlen_concat_const 4); [|intros a Ha; specialize (Hc a Ha); cbn in Hc; lia]. lia.
Qed.

Lemma decode_general : forall dbl gt gd e,
  encode dbl gt gd = Ok e -> decode e (dim gd) = Ok (returned dbl gd).
Proof.
  intros dbl gt gd e He.
  destruct (encode_inv _ _ _ _ He) as (r0 & rest & Erows & Hok & Hlen & Hd & _ & ->).
  assert (Hne : gd <> []) by (intros ->; discriminate).
  assert (Hc : forall a, In a gd -> count_ok gt (zlen a) = true)
    by (intros a Ha; apply (annot_ok_count dbl); exact (forallb_In _ _ _ Hok Ha)).
  rewrite decode_unfold. cbn [e_cz e_data e_gt e_idx]. unfold stored_dim, returned.
  destruct (common_z dbl gd) eqn:Ec; cbn zeta.
  - unfold common_z in Ec. rewrite Erows in Ec. apply andb_prop in Ec as [E3 _].
    assert (Hd3 : dim gd = 3) by (unfold dim; rewrite Erows; lia).
    rewrite reshape_dropz by (intros r Hr; rewrite (Hlen r Hr); exact Hd3).
    cbn [bind]. unfold z0_of. rewrite Erows. rewrite <- Erows.
    set (z0 := third r0).
    assert (Erows' : map (fun r => r ++ [z0]) (map (firstn 2) (concat gd)) = concat (map (map (fixz z0)) gd)).
    { rewrite map_map. change (fun x : list word => firstn 2 x ++ [z0]) with (fixz z0).
      apply concat_map. }
    rewrite Erows'.
    rewrite (point_index_list_lens 2 gd (map (map (fixz z0)) gd))
      by (rewrite map_map; apply map_ext; intros a; now rewrite zlen_map).
    apply split_recover_count; [lia| |].
    + destruct gd; [congruence|discriminate].
    + intros a Ha. apply in_map_iff in Ha as (a0 & <- & Ha0). rewrite zlen_map. now apply Hc.
  - rewrite reshape_concat by (try exact Hlen; lia). cbn [bind].
    apply split_recover_count; [lia|exact Hne|exact Hc].
Qed.

(* with the guard nothing changes (re-derives the guarded theorem's content) *)
Lemma returned_same : forall dbl gt gd e, encode dbl gt gd = Ok e -> z_agree dbl gd = true -> returned dbl gd = gd.
Proof.
  intros dbl gt gd e He Hz. pose proof (decode_general _ _ _ _ He) as H1.
  rewrite (graphic_roundtrip _ _ _ _ He Hz) in H1. congruence.
Qed.

Lemma Forall2_map_r {A B} : forall (R : A -> B -> Prop) (f : A -> B) l,
  (forall x, In x l -> R x (f x)) -> Forall2 R l (map f l).
Proof.
  induction l as [|x t IH]; intros H; cbn [map]; constructor; [apply H; now left|].
  apply IH. intros y Hy. apply H. now right.
Qed.

Lemma Forall2_refl_in {A} : forall (R : A -> A -> Prop) l, (forall x, In x l -> R x x) -> Forall2 R l l.
Proof.
  induction l as [|x t IH]; intros H; constructor; [apply H; now left|]. apply IH. intros y Hy. apply H. now right.
Qed.

(* row relation: same x and y words, z words equal as IEEE numbers (or no z at all) *)
Definition row_same (dbl : bool) (r r' : row) : Prop :=
  zlen r = zlen r' /\ firstn 2 r = firstn 2 r' /\
  (zlen r = 3 -> feq dbl (third r') (third r) = true).

Lemma feq_refl_finite : forall dbl w, is_finite dbl w = true -> feq dbl w w = true.
Proof.
  intros dbl w H. unfold feq, is_nan. unfold is_finite in H. apply negb_true_iff in H. rewrite H.
  cbn [andb negb]. now rewrite Z.eqb_refl.
Qed.

Lemma graphic_roundtrip_numeric : forall dbl gt gd e,
  encode dbl gt gd = Ok e ->
  exists gd', decode e (dim gd) = Ok gd' /\ Forall2 (Forall2 (row_same dbl)) gd gd'.
Proof.
  intros dbl gt gd e He. exists (returned dbl gd). split; [now apply (decode_general dbl gt)|].
  destruct (encode_inv _ _ _ _ He) as (r0 & rest & Erows & Hok & Hlen & Hd & Hfin & _).
  unfold returned. destruct (common_z dbl gd) eqn:Ec.
  - unfold common_z in Ec. rewrite Erows in Ec. apply andb_prop in Ec as [E3 Efeq]. rewrite <- Erows in Efeq.
    assert (Hd3 : dim gd = 3) by (unfold dim; rewrite Erows; lia).
    unfold z0_of. rewrite Erows.
    apply Forall2_map_r. intros a Ha. apply Forall2_map_r. intros r Hr.
    assert (Hin : In r (concat gd)) by (apply in_concat; eauto).
    pose proof (Hlen r Hin) as Hl. rewrite Hd3 in Hl.
    pose proof (forallb_In _ _ _ Efeq Hin) as Hf. cbn beta in Hf.
    destruct r as [|x [|y [|z [|w r']]]]; unfold zlen in Hl; cbn [length] in Hl; try lia.
    unfold row_same, fixz, third in *. cbn in *. repeat split. intros _. exact Hf.
  - apply Forall2_refl_in. intros a Ha. apply Forall2_refl_in. intros r Hr.
    repeat split. intros H3. apply feq_refl_finite.
    assert (Hin : In r (concat gd)) by (apply in_concat; eauto).
    apply (Hfin r (third r) Hin).
    destruct r as [|x [|y [|z [|w r']]]]; unfold zlen in H3; cbn [length] in H3; try lia.
    unfold third. cbn. auto.
Qed.

(* ---- integer input ---------------------------------------------------------------------------
   single precision is chosen only if every integer has the shape m * 2^e with
   |m| < 2^24 (the binary32-representable integers); so the cast changes no value *)
Lemma fits32_sound : forall v, fits32 v = true ->
  exists m e, v = m * 2 ^ e /\ Z.abs m < 2 ^ 24 /\ 0 <= e.
Proof.
  intros v H. unfold fits32 in H. cbn zeta in H.
  destruct (Z.abs v =? 0) eqn:E0.
  - exists 0, 0. lia.
  - assert (Ha : 0 < Z.abs v) by lia.
    destruct (Z.log2 (Z.abs v) <? 24) eqn:Ek; cbn [orb] in H.
    + exists v, 0. split; [lia|]. split; [|lia].
      apply Z.log2_lt_pow2; [exact Ha|lia].
    + set (k := Z.log2 (Z.abs v)) in *. assert (Hk : 24 <= k) by lia.
      pose proof (Z.log2_spec (Z.abs v) Ha) as [Hlo Hhi]. fold k in Hlo, Hhi.
      set (p := 2 ^ (k - 23)) in *.
      assert (Hp : 0 < p) by (apply Z.pow_pos_nonneg; lia).
      assert (Hsplit : 2 ^ (Z.succ k) = 2 ^ 24 * p).
      { unfold p. rewrite <- Z.pow_add_r by lia. f_equal. lia. }
      assert (Hq : Z.abs v = (Z.abs v / p) * p) by (pose proof (Z.div_mod (Z.abs v) p); lia).
      exists (Z.sgn v * (Z.abs v / p)), (k - 23). fold p. repeat split; [| |lia].
      * rewrite <- Z.mul_assoc, <- Hq. destruct (Z.sgn_spec v) as [[? ->]|[[? ->]|[? ->]]]; lia.
      * change (2 ^ 24) with 16777216 in *.
        assert (0 <= Z.abs v / p) by (apply Z.div_pos; lia).
        assert (Z.abs v / p < 16777216) by (apply Z.div_lt_upper_bound; lia).
        destruct (Z.sgn_spec v) as [[? ->]|[[? ->]|[? ->]]]; lia.
Qed.

Lemma single_precision_ints_exact : forall vs, ints_double vs = false ->
  forall v, In v vs -> exists m e, v = m * 2 ^ e /\ Z.abs m < 2 ^ 24 /\ 0 <= e.
Proof.
  intros vs H v Hv. unfold ints_double in H. apply negb_false_iff in H.
  apply fits32_sound. exact (forallb_In _ _ _ H Hv).
Qed.

(* and the converse for the boundary that matters: anything up to 2^24 fits *)
Lemma fits32_small : forall v, Z.abs v <= 2 ^ 24 -> fits32 v = true.
Proof.
  intros v H. unfold fits32. cbn zeta. destruct (Z.abs v =? 0) eqn:E0; [reflexivity|].
  assert (Ha : 0 < Z.abs v) by lia.
  destruct (Z.eq_dec (Z.abs v) (2 ^ 24)) as [E|E].
  - rewrite E. reflexivity.
  - replace (Z.log2 (Z.abs v) <? 24) with true; [reflexivity|].
    symmetry. apply Z.ltb_lt. apply Z.log2_lt_pow2; lia.
Qed.

Lemma small_ints_single : forall vs, (forall v, In v vs -> Z.abs v <= 2 ^ 24) -> ints_double vs = false.
Proof.
  intros vs H. unfold ints_double. apply negb_false_iff. apply forallb_forall.
  intros v Hv. apply fits32_small. now apply H.
Qed.

Lemma guard_ints_iff : forall vs r, r <> VErr "ValueError" ->
  (guard_ints vs r = VErr "ValueError" <-> exists v, In v vs /\ 2 ^ 53 < Z.abs v).
Proof.
  intros vs r Hr. unfold guard_ints, ints_ok. change (2 ^ 53) with 9007199254740992. split.
  - destruct (forallb (fun v => Z.abs v <=? 9007199254740992) vs) eqn:E; [congruence|]. intros _.
    destruct (existsb (fun v => negb (Z.abs v <=? 9007199254740992)) vs) eqn:Ex.
    + apply existsb_exists in Ex as (v & Hv & Hb). exists v. split; [exact Hv|]. apply negb_true_iff in Hb. lia.
    + exfalso. assert (forallb (fun v => Z.abs v <=? 9007199254740992) vs = true); [|congruence].
      apply forallb_forall. intros v Hv.
      destruct (Z.abs v <=? 9007199254740992) eqn:Ev; [reflexivity|].
      assert (existsb (fun v => negb (Z.abs v <=? 9007199254740992)) vs = true); [|congruence].
      apply existsb_exists. exists v. split; [exact Hv|]. now rewrite Ev.
  - intros (v & Hv & Hlt).
    destruct (forallb (fun v => Z.abs v <=? 9007199254740992) vs) eqn:E; [|reflexivity].
    pose proof (forallb_In _ _ _ E Hv) as Hb. cbn beta in Hb. lia.
Qed.
