(* C05 - proofs about a LAZILY read image (frames fetched from the file on demand, the whole
   array cached by highdicom itself in self._pixel_array and, since the D105 fix, validated against
   the current pixel description): every read answers exactly as the cache-free reference does, for
   EVERY history of reads and header edits; so a lazily read image answers exactly as the in-memory
   image does. *)
From Coq Require Import String ZArith List Bool Lia ZifyBool Arith.
From HD Require Import Base.Val Base.ListZ C05_Model C05_Proofs C05_Proofs_State.
Import ListNotations.
Open Scope Z_scope.
Ltac Zify.zify_post_hook ::= Z.to_euclidean_division_equations.

Definition lcontent (st : limg) : cfmt * list Z := (l_c st, l_pd st).

(* the cached array, if any, is the decode of the file under the description it was cached with *)
Definition lcoherent (st : limg) : Prop :=
  match l_cache st with
  | None => True
  | Some (c0, fs) => fs = map (spec_frame_c c0 (l_pd st)) (zrange (f_frames (c_fmt c0)))
  end.

Definition op_of_lop (o : lop) : op :=
  match o with
  | LWhole => OWhole | LOne f ai => OOne f ai | LBatch fs ai => OBatch fs ai
  | LRaw f ai => ORaw f ai | LDecodeRaw f ai => ODecodeRaw f ai | LHeader c => OHeader c
  | LFrames fs ai => OFrames fs ai
  end.

Lemma lz_fresh_one_spec : forall c pd f ai, valid_c c -> enough (c_fmt c) pd ->
  lz_fresh_one c pd f ai = ref_one c pd f ai.
Proof.
  intros c pd f ai Hv He. unfold lz_fresh_one, ref_one.
  destruct (index_total (f_frames (c_fmt c)) f ai) as [(i & E & Hi) | E]; rewrite E; cbn [bind]; [|reflexivity].
  rewrite frame_lazy_c_eager. apply (frame_eager_c_ok c pd i Hv He Hi).
Qed.

Lemma In_zrange : forall n k, In k (zrange n) -> 0 <= k < n.
Proof.
  intros n k H. unfold zrange in H. apply in_map_iff in H. destruct H as (j & <- & Hj).
  apply in_seq in Hj. lia.
Qed.

Lemma sequence_all_ok : forall {A B} (g : A -> res B) (h : A -> B) l,
  (forall x, In x l -> g x = Ok (h x)) -> sequence (map g l) = Ok (map h l).
Proof.
  induction l as [|x l IH]; intros H; [reflexivity|]. cbn [map sequence].
  rewrite (H x (or_introl eq_refl)), IH by (intros y Hy; apply H; now right). reflexivity.
Qed.

(* what pixel_array decodes from the file, frame by frame: the decode of the whole content *)
Lemma lz_fresh_all_spec : forall c pd, valid_c c -> enough (c_fmt c) pd ->
  lz_fresh_all c pd = Ok (map (spec_frame_c c pd) (zrange (f_frames (c_fmt c)))).
Proof.
  intros c pd Hv He. unfold lz_fresh_all. cbv zeta. set (n := f_frames (c_fmt c)).
  assert (Hn : 1 <= n) by (destruct Hv as ((_ & _ & H) & _); exact H).
  destruct (n =? 1) eqn:N.
  - rewrite lz_fresh_one_spec by assumption. unfold ref_one. fold n.
    assert (E : std_index n 1 false = Ok 0) by (apply index_rule; right; repeat split; lia).
    rewrite E. cbn [bind rmap]. assert (H1 : n = 1) by lia. rewrite H1. reflexivity.
  - destruct (map (fun k => k + 1) (zrange n)) as [|x r] eqn:M.
    { exfalso. assert (L : length (map (fun k => k + 1) (zrange n)) = Z.to_nat n) by now rewrite map_length, zrange_length.
      rewrite M in L. cbn [length] in L. lia. }
    rewrite <- M. rewrite map_map. apply sequence_all_ok. intros k Hk. apply In_zrange in Hk.
    rewrite lz_fresh_one_spec by assumption. unfold ref_one. fold n.
    assert (E : std_index n (k + 1) false = Ok k) by (apply index_rule; right; repeat split; lia).
    rewrite E. reflexivity.
Qed.

(* Image.pixel_array of a lazily read image in ANY coherent cache state *)
Lemma lz_whole_spec : forall st, valid_c (l_c st) -> enough (c_fmt (l_c st)) (l_pd st) -> lcoherent st ->
  snd (lz_whole st) = Ok (map (spec_frame_c (l_c st) (l_pd st)) (zrange (f_frames (c_fmt (l_c st))))) /\
  lcontent (fst (lz_whole st)) = lcontent st /\ lcoherent (fst (lz_whole st)) /\
  l_cache (fst (lz_whole st)) <> None.
Proof.
  intros [c pd cache] Hv He Hc. unfold lz_whole, lcontent, lcoherent in *. cbn [l_c l_pd l_cache] in *.
  assert (F : forall p : limg * res (list (list Z)),
            p = match lz_fresh_all c pd with
                | Ok fs => (LImg c pd (Some (c, fs)), Ok fs)
                | Err k => (LImg c pd None, Err k)
                end ->
            snd p = Ok (map (spec_frame_c c pd) (zrange (f_frames (c_fmt c)))) /\
            (l_c (fst p), l_pd (fst p)) = (c, pd) /\
            match l_cache (fst p) with
            | Some (c0, fs) => fs = map (spec_frame_c c0 (l_pd (fst p))) (zrange (f_frames (c_fmt c0)))
            | None => True
            end /\ l_cache (fst p) <> None).
  { intros p ->. rewrite lz_fresh_all_spec by assumption. cbn [fst snd l_c l_pd l_cache].
    split; [reflexivity|]. split; [reflexivity|]. split; [reflexivity|discriminate]. }
  destruct cache as [[c0 fs]|].
  - destruct (cfmt_eqb c0 c) eqn:E.
    + apply cfmt_eqb_eq in E. subst c0. cbn [fst snd l_c l_pd l_cache].
      split; [now rewrite Hc|]. split; [reflexivity|]. split; [exact Hc|discriminate].
    + exact (F _ eq_refl).
  - exact (F _ eq_refl).
Qed.

(* get_stored_frame *)
Lemma lz_one_spec : forall st f ai, valid_c (l_c st) -> enough (c_fmt (l_c st)) (l_pd st) -> lcoherent st ->
  snd (lz_one st f ai) = ref_one (l_c st) (l_pd st) f ai /\
  lcontent (fst (lz_one st f ai)) = lcontent st /\ lcoherent (fst (lz_one st f ai)).
Proof.
  intros st f ai Hv He Hc. unfold lz_one, ref_one. cbv zeta.
  set (n := f_frames (c_fmt (l_c st))).
  destruct (index_total n f ai) as [(i & E & Hi) | E]; rewrite E; cbn [bind fst snd];
    [|split; [reflexivity|split; [reflexivity|exact Hc]]].
  destruct (l_cache st) as [k|] eqn:C; cbn [fst snd].
  - destruct (lz_whole_spec st Hv He Hc) as (W1 & W2 & W3 & _). rewrite W1. cbn [bind]. fold n.
    split; [|split; [exact W2|exact W3]].
    destruct (n =? 1) eqn:N.
    + assert (i = 0) by lia. subst i. rewrite nth_map_zrange by lia. reflexivity.
    + rewrite nth_error_map, nth_error_zrange by lia. cbn [option_map]. now rewrite Z2Nat.id by lia.
  - split; [|split; [reflexivity|exact Hc]].
    rewrite frame_lazy_c_eager. apply (frame_eager_c_ok (l_c st) (l_pd st) i Hv He Hi).
Qed.

Lemma lz_batch_loop_spec : forall fs st ai, valid_c (l_c st) -> enough (c_fmt (l_c st)) (l_pd st) -> lcoherent st ->
  snd (lz_batch_loop st fs ai) = sequence (map (fun f => ref_one (l_c st) (l_pd st) f ai) fs) /\
  lcontent (fst (lz_batch_loop st fs ai)) = lcontent st /\ lcoherent (fst (lz_batch_loop st fs ai)).
Proof.
  induction fs as [|f r IH]; intros st ai Hv He Hc; cbn [lz_batch_loop map sequence];
    [split; [reflexivity|split; [reflexivity|exact Hc]]|].
  destruct (lz_one_spec st f ai Hv He Hc) as (S1 & S2 & S3).
  destruct (lz_one st f ai) as [st' [a|k]]; cbn [fst snd] in *; rewrite <- S1; cbn [bind fst snd];
    [|split; [reflexivity|split; [exact S2|exact S3]]].
  unfold lcontent in S2. inversion S2 as [[Sc Sp]].
  assert (Hv' : valid_c (l_c st')) by now rewrite Sc.
  assert (He' : enough (c_fmt (l_c st')) (l_pd st')) by now rewrite Sc, Sp.
  destruct (IH st' ai Hv' He' S3) as (B1 & B2 & B3). rewrite B1, Sc, Sp. split; [reflexivity|].
  split; [|exact B3]. rewrite B2. unfold lcontent. now rewrite Sc, Sp.
Qed.

Lemma lz_batch_spec : forall fs st ai, valid_c (l_c st) -> enough (c_fmt (l_c st)) (l_pd st) -> lcoherent st ->
  snd (lz_batch st fs ai) = ref_batch (l_c st) (l_pd st) fs ai /\
  lcontent (fst (lz_batch st fs ai)) = lcontent st /\ lcoherent (fst (lz_batch st fs ai)).
Proof.
  intros fs st ai Hv He Hc. unfold lz_batch, ref_batch.
  destruct (lz_batch_loop_spec fs st ai Hv He Hc) as (B1 & B2 & B3).
  destruct fs as [|f r].
  - cbn [lz_batch_loop fst snd]. split; [reflexivity|split; [reflexivity|exact Hc]].
  - destruct (snd (lz_batch_loop st (f :: r) ai)) eqn:S; rewrite <- B1; (split; [exact S|split; [exact B2|exact B3]]).
Qed.

(* get_frames with the transforms off on a lazily read image = get_stored_frames: same answer and same
   cache afterwards, in every state, for every request *)
Lemma lz_frames_one_eq : forall st f ai, lz_frames_one st f ai = lz_one st f ai.
Proof.
  intros st f ai. unfold lz_frames_one, lz_one. cbv zeta.
  destruct (index_total (f_frames (c_fmt (l_c st))) f ai) as [(i & E & Hi) | E]; rewrite E; [|reflexivity].
  destruct (l_cache st) as [k|]; [|reflexivity].
  destruct (f_frames (c_fmt (l_c st)) =? 1) eqn:N; [|reflexivity].
  assert (i = 0) by lia. subst i. reflexivity.
Qed.

Lemma lz_frames_loop_eq : forall fs st ai, lz_frames_loop st fs ai = lz_batch_loop st fs ai.
Proof.
  induction fs as [|f r IH]; intros st ai; cbn [lz_frames_loop lz_batch_loop]; [reflexivity|].
  rewrite lz_frames_one_eq. destruct (snd (lz_one st f ai)); [|reflexivity]. now rewrite IH.
Qed.

Lemma lz_frames_eq : forall fs st ai, lz_frames st fs ai = lz_batch st fs ai.
Proof.
  intros [|f0 r] st ai; unfold lz_frames, lz_batch; [reflexivity|].
  set (n := f_frames (c_fmt (l_c st))).
  destruct (std_index n f0 ai) as [i|k] eqn:E.
  - rewrite lz_frames_loop_eq. cbv zeta. destruct (snd (lz_batch_loop st (f0 :: r) ai)); reflexivity.
  - assert (L : lz_batch_loop st (f0 :: r) ai = (st, Err k)).
    { cbn [lz_batch_loop]. unfold lz_one. cbv zeta. fold n. rewrite E. reflexivity. }
    cbv zeta. rewrite L. reflexivity.
Qed.

Lemma lz_decode_raw_spec : forall st f ai, valid_c (l_c st) -> enough (c_fmt (l_c st)) (l_pd st) ->
  lz_decode_raw st f ai = ref_one (l_c st) (l_pd st) f ai.
Proof.
  intros st f ai Hv He. unfold lz_decode_raw, ref_one. cbv zeta. rewrite raw_frame_lazy_eager. unfold get_raw_frame.
  destruct (index_total (f_frames (c_fmt (l_c st))) f ai) as [(i & E & Hi) | E]; rewrite E; cbn [bind]; [|reflexivity].
  apply (frame_eager_c_ok (l_c st) (l_pd st) i Hv He Hi).
Qed.

Lemma lstep_spec : forall st o, valid_c (l_c st) -> enough (c_fmt (l_c st)) (l_pd st) -> lcoherent st ->
  snd (lstep st o) = snd (ref_step (lcontent st) (op_of_lop o)) /\
  lcontent (fst (lstep st o)) = fst (ref_step (lcontent st) (op_of_lop o)) /\
  lcoherent (fst (lstep st o)).
Proof.
  intros st o Hv He Hc.
  destruct o as [|f ai|fs ai|f ai|f ai|c'|fs ai]; unfold lstep, ref_step, op_of_lop; cbv zeta; cbn [fst snd].
  - destruct (lz_whole_spec st Hv He Hc) as (W1 & W2 & W3 & _). rewrite W1.
    split; [reflexivity|split; [exact W2|exact W3]].
  - destruct (lz_one_spec st f ai Hv He Hc) as (S1 & S2 & S3). rewrite S1.
    split; [reflexivity|split; [exact S2|exact S3]].
  - destruct (lz_batch_spec fs st ai Hv He Hc) as (S1 & S2 & S3). rewrite S1.
    split; [reflexivity|split; [exact S2|exact S3]].
  - rewrite raw_frame_lazy_eager. split; [reflexivity|split; [reflexivity|exact Hc]].
  - rewrite lz_decode_raw_spec by assumption. split; [reflexivity|split; [reflexivity|exact Hc]].
  - unfold lcontent, lcoherent in *. cbn [l_c l_pd l_cache fst snd]. split; [reflexivity|split; [reflexivity|exact Hc]].
  - rewrite lz_frames_eq. destruct (lz_batch_spec fs st ai Hv He Hc) as (S1 & S2 & S3). rewrite S1.
    split; [reflexivity|split; [exact S2|exact S3]].
Qed.

(* ANY history of reads and header edits, from any coherent state: every answer is the one a
   cache-free reading of the current description and the file gives *)
Lemma lazy_history : forall ops st, lcoherent st -> ops_valid (lcontent st) (map op_of_lop ops) ->
  lrun_ops st ops = ref_ops (lcontent st) (map op_of_lop ops).
Proof.
  induction ops as [|o r IH]; intros st Hc Hval; [reflexivity|].
  cbn [map ops_valid] in Hval. destruct Hval as (Hv & He & Hr). cbn [lcontent fst snd] in Hv, He.
  destruct (lstep_spec st o Hv He Hc) as (S1 & S2 & S3).
  cbn [lrun_ops map ref_ops]. rewrite S1. f_equal.
  rewrite <- S2 in Hr. rewrite (IH _ S3 Hr). now rewrite S2.
Qed.

(* a lazily read image answers every history exactly as the in-memory image does *)
Lemma lazy_equals_in_memory : forall ops c pd, ops_valid (c, pd) (map op_of_lop ops) ->
  lrun_ops (LImg c pd None) ops = run_ops (Img c pd None) (map op_of_lop ops) /\
  lrun_ops (LImg c pd None) ops = ref_ops (c, pd) (map op_of_lop ops).
Proof.
  intros ops c pd H.
  assert (L : lrun_ops (LImg c pd None) ops = ref_ops (c, pd) (map op_of_lop ops))
    by (apply (lazy_history ops (LImg c pd None)); [exact I|exact H]).
  split; [|exact L]. rewrite L. symmetry.
  apply (history_irrelevant (map op_of_lop ops) (Img c pd None)). exact H.
Qed.

(* the theorem is not vacuous about the cache: pixel_array always leaves an array cached, so later
   reads do go through the validation branch *)
Lemma lazy_cache_filled : forall st, valid_c (l_c st) -> enough (c_fmt (l_c st)) (l_pd st) -> lcoherent st ->
  l_cache (fst (lz_whole st)) <> None.
Proof. intros st Hv He Hc. exact (proj2 (proj2 (proj2 (lz_whole_spec st Hv He Hc)))). Qed.

(* the D105 witness: two 16-bit frames of two pixels; whole array read, PixelRepresentation set to
   signed, frame 1 read *)
Definition wit_c : cfmt := CFmt (Fmt 16 16 false 2 2) 1 false 1.
Definition wit_c' : cfmt := CFmt (Fmt 16 16 true 2 2) 1 false 1.
Definition wit_pd : list Z := [255; 255; 1; 0; 2; 0; 3; 0].
