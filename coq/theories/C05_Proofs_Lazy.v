(* C05 - proofs about a LAZILY read image (frames fetched from the file on demand, the whole
   array cached by highdicom itself in self._pixel_array):
   - as long as the cached array, if any, was decoded from the current description, every read
     answers exactly as the cache-free reference does (so: reads in ANY order, and header edits made
     before pixel_array was first called, are history-independent; and a lazily read image answers
     exactly as the in-memory image does);
   - a header edit made AFTER pixel_array was called is ignored by every later read: refuted with a
     concrete witness (the code never validates or drops self._pixel_array of a lazily read image). *)
From Coq Require Import String ZArith List Bool Lia ZifyBool Arith.
From HD Require Import Base.Val Base.ListZ C05_Model C05_Proofs C05_Proofs_State.
Import ListNotations.
Open Scope Z_scope.
Ltac Zify.zify_post_hook ::= Z.to_euclidean_division_equations.

Definition lcontent (st : limg) : cfmt * list Z := (l_c st, l_pd st).

(* the cached array, if any, is the decode of the current content *)
Definition lcoherent (st : limg) : Prop :=
  match l_cache st with
  | None => True
  | Some (c0, fs) => c0 = l_c st /\ fs = map (spec_frame_c (l_c st) (l_pd st)) (zrange (f_frames (c_fmt (l_c st))))
  end.

Definition op_of_lop (o : lop) : op :=
  match o with
  | LWhole => OWhole | LOne f ai => OOne f ai | LBatch fs ai => OBatch fs ai
  | LRaw f ai => ORaw f ai | LDecodeRaw f ai => ODecodeRaw f ai | LHeader c => OHeader c
  end.

Lemma lz_one_spec : forall st f ai, valid_c (l_c st) -> enough (c_fmt (l_c st)) (l_pd st) -> lcoherent st ->
  lz_one st f ai = rmap (pair (l_c st)) (ref_one (l_c st) (l_pd st) f ai).
Proof.
  intros [c pd cache] f ai Hv He Hc. unfold lz_one, ref_one, lcoherent in *. cbn [l_c l_pd l_cache] in *.
  set (n := f_frames (c_fmt c)) in *.
  destruct (index_total n f ai) as [(i & E & Hi) | E]; rewrite E; cbn [bind rmap]; [|reflexivity].
  destruct cache as [[c0 fs]|].
  - destruct Hc as [-> ->].
    destruct (n =? 1) eqn:N.
    + assert (i = 0) by lia. subst i. rewrite nth_map_zrange by lia. reflexivity.
    + rewrite nth_error_map, nth_error_zrange by lia. cbn [option_map]. now rewrite Z2Nat.id by lia.
  - rewrite frame_lazy_c_eager, (frame_eager_c_ok c pd i Hv He Hi). reflexivity.
Qed.

Lemma lz_batch_loop_spec : forall fs st ai, valid_c (l_c st) -> enough (c_fmt (l_c st)) (l_pd st) -> lcoherent st ->
  lz_batch_loop st fs ai = rmap (map (pair (l_c st))) (sequence (map (fun f => ref_one (l_c st) (l_pd st) f ai) fs)).
Proof.
  induction fs as [|f r IH]; intros st ai Hv He Hc; cbn [lz_batch_loop map sequence]; [reflexivity|].
  rewrite lz_one_spec, IH by assumption.
  destruct (ref_one (l_c st) (l_pd st) f ai); cbn [rmap bind]; [|reflexivity].
  destruct (sequence _); reflexivity.
Qed.

Lemma lz_batch_spec : forall fs st ai, valid_c (l_c st) -> enough (c_fmt (l_c st)) (l_pd st) -> lcoherent st ->
  lz_batch st fs ai = rmap (pair (l_c st)) (ref_batch (l_c st) (l_pd st) fs ai).
Proof.
  intros fs st ai Hv He Hc. unfold lz_batch, ref_batch. rewrite lz_batch_loop_spec by assumption.
  destruct fs as [|f r]; [reflexivity|].
  destruct (sequence (map (fun f0 => ref_one (l_c st) (l_pd st) f0 ai) (f :: r))) as [l|k] eqn:S; cbn [rmap bind]; [|reflexivity].
  destruct l as [|a l].
  - exfalso. cbn [map sequence] in S. destruct (ref_one _ _ f ai); cbn [bind] in S; [|discriminate].
    destruct (sequence _); discriminate.
  - cbn [map]. f_equal. f_equal. cbn [snd]. f_equal. rewrite map_map. cbn [snd]. now rewrite map_id.
Qed.

Lemma In_zrange : forall n k, In k (zrange n) -> 0 <= k < n.
Proof.
  intros n k H. unfold zrange in H. apply in_map_iff in H. destruct H as (j & <- & Hj).
  apply in_seq in Hj. lia.
Qed.

Lemma sequence_all_ok : forall {A B} (g : A -> res B) (h : A -> B) l,
  (forall x, In x l -> g x = Ok (h x)) -> sequence (map g l) = Ok (map h l).
Proof.
  induction l as [|x l IH]; intros H; [reflexivity|]. cbn [map sequence].
  rewrite (H x (or_introl eq_refl)), IH by (intros y Hy; apply H; now right). reflexivity.
Qed.

(* all frames, by number: the decode of the whole content *)
Lemma all_frames_ref : forall c pd, 0 <= f_frames (c_fmt c) ->
  sequence (map (fun f => ref_one c pd f false) (map (fun k => k + 1) (zrange (f_frames (c_fmt c)))))
  = Ok (map (spec_frame_c c pd) (zrange (f_frames (c_fmt c)))).
Proof.
  intros c pd Hn. rewrite map_map. apply sequence_all_ok. intros k Hk. apply In_zrange in Hk.
  unfold ref_one.
  assert (E : std_index (f_frames (c_fmt c)) (k + 1) false = Ok k) by (apply index_rule; right; repeat split; lia).
  rewrite E. reflexivity.
Qed.

Lemma lz_whole_spec : forall st, valid_c (l_c st) -> enough (c_fmt (l_c st)) (l_pd st) -> lcoherent st ->
  let all := map (spec_frame_c (l_c st) (l_pd st)) (zrange (f_frames (c_fmt (l_c st)))) in
  snd (lz_whole st) = Ok (l_c st, all) /\
  fst (lz_whole st) = LImg (l_c st) (l_pd st) (Some (l_c st, all)).
Proof.
  intros [c pd cache] Hv He Hc. cbn [l_c l_pd] in *. cbv zeta. unfold lz_whole. cbn [l_c l_pd l_cache].
  set (n := f_frames (c_fmt c)) in *.
  assert (Hn : 1 <= n) by (destruct Hv as ((_ & _ & H) & _); exact H).
  destruct cache as [[c0 fs]|].
  - unfold lcoherent in Hc. cbn [l_c l_pd l_cache] in Hc. destruct Hc as [-> ->]. split; reflexivity.
  - destruct (n =? 1) eqn:N.
    + rewrite lz_one_spec by assumption. cbn [l_c l_pd]. unfold ref_one. fold n.
      assert (E : std_index n 1 false = Ok 0) by (apply index_rule; right; repeat split; lia).
      rewrite E. cbn [bind rmap fst snd].
      assert (n = 1) by lia. replace (zrange n) with [0] by (rewrite H; reflexivity).
      split; reflexivity.
    + rewrite lz_batch_spec by assumption. cbn [l_c l_pd]. unfold ref_batch. fold n.
      destruct (map (fun k => k + 1) (zrange n)) as [|x r] eqn:M.
      { exfalso. assert (L : length (map (fun k => k + 1) (zrange n)) = Z.to_nat n) by now rewrite map_length, zrange_length.
        rewrite M in L. cbn [length] in L. lia. }
      rewrite <- M. unfold n. rewrite all_frames_ref by (fold n; lia). cbn [rmap bind fst snd]. split; reflexivity.
Qed.

Lemma lz_decode_raw_spec : forall st f ai, valid_c (l_c st) -> enough (c_fmt (l_c st)) (l_pd st) ->
  lz_decode_raw st f ai = ref_one (l_c st) (l_pd st) f ai.
Proof.
  intros st f ai Hv He. unfold lz_decode_raw, ref_one. cbv zeta. rewrite raw_frame_lazy_eager. unfold get_raw_frame.
  destruct (index_total (f_frames (c_fmt (l_c st))) f ai) as [(i & E & Hi) | E]; rewrite E; cbn [bind]; [|reflexivity].
  apply (frame_eager_c_ok (l_c st) (l_pd st) i Hv He Hi).
Qed.

Lemma vans2_pair : forall {A} c (g : A -> val) r, vans2 g (rmap (pair c) r) = vans c g r.
Proof. intros A c g [a|k]; reflexivity. Qed.

(* a header edit is harmless when nothing is cached yet, or when it changes nothing *)
Definition edit_ok (st : limg) (o : lop) : Prop :=
  match o with LHeader c' => l_cache st = None \/ c' = l_c st | _ => True end.

Lemma lstep_spec : forall st o, valid_c (l_c st) -> enough (c_fmt (l_c st)) (l_pd st) -> lcoherent st -> edit_ok st o ->
  snd (lstep st o) = snd (ref_step (lcontent st) (op_of_lop o)) /\
  lcontent (fst (lstep st o)) = fst (ref_step (lcontent st) (op_of_lop o)) /\
  lcoherent (fst (lstep st o)).
Proof.
  intros st o Hv He Hc Hed.
  destruct o as [|f ai|fs ai|f ai|f ai|c']; unfold lstep, ref_step, lcontent, op_of_lop; cbn [fst snd].
  - destruct (lz_whole_spec st Hv He Hc) as [W1 W2]. rewrite W1, W2. cbn [l_c l_pd]. repeat split.
  - rewrite lz_one_spec by assumption. rewrite vans2_pair. split; [reflexivity|split; [reflexivity|exact Hc]].
  - rewrite lz_batch_spec by assumption. rewrite vans2_pair. split; [reflexivity|split; [reflexivity|exact Hc]].
  - rewrite raw_frame_lazy_eager. split; [reflexivity|split; [reflexivity|exact Hc]].
  - rewrite lz_decode_raw_spec by assumption. split; [reflexivity|split; [reflexivity|exact Hc]].
  - cbn [l_c l_pd]. split; [reflexivity|]. split; [reflexivity|].
    unfold lcoherent in *. cbn [l_c l_pd l_cache]. cbn [edit_ok] in Hed.
    destruct Hed as [-> | ->]; [exact I|exact Hc].
Qed.

(* the history is acceptable: the image is valid initially and after every edit, and header edits
   that change something happen only while nothing is cached (cached over-approximates "pixel_array
   has been called") *)
Fixpoint lops_valid (x : cfmt * list Z) (cached : bool) (ops : list lop) : Prop :=
  valid_c (fst x) /\ enough (c_fmt (fst x)) (snd x) /\
  match ops with
  | [] => True
  | LHeader c' :: r => (cached = false \/ c' = fst x) /\ lops_valid (c', snd x) cached r
  | LWhole :: r => lops_valid x true r
  | _ :: r => lops_valid x cached r
  end.

Lemma lazy_history : forall ops st cached, lcoherent st -> (l_cache st <> None -> cached = true) ->
  lops_valid (lcontent st) cached ops ->
  lrun_ops st ops = ref_ops (lcontent st) (map op_of_lop ops).
Proof.
  induction ops as [|o r IH]; intros st cached Hc Hf Hval; [reflexivity|].
  assert (Hv : valid_c (l_c st)) by (destruct o; exact (proj1 Hval)).
  assert (He : enough (c_fmt (l_c st)) (l_pd st)) by (destruct o; exact (proj1 (proj2 Hval))).
  assert (Hed : edit_ok st o).
  { destruct o as [| | | | |c']; try exact I. cbn [lops_valid] in Hval. destruct Hval as (_ & _ & [H | H] & _).
    - left. destruct (l_cache st) eqn:C; [|reflexivity]. rewrite Hf in H by discriminate. discriminate.
    - right. exact H. }
  destruct (lstep_spec st o Hv He Hc Hed) as (S1 & S2 & S3).
  cbn [lrun_ops map ref_ops]. rewrite S1. f_equal. rewrite <- S2.
  destruct o as [|f ai|fs ai|f ai|f ai|c'].
  - apply (IH _ true S3 (fun _ => eq_refl)). rewrite S2. exact (proj2 (proj2 Hval)).
  - apply (IH _ cached S3); [exact Hf|]. rewrite S2. exact (proj2 (proj2 Hval)).
  - apply (IH _ cached S3); [exact Hf|]. rewrite S2. exact (proj2 (proj2 Hval)).
  - apply (IH _ cached S3); [exact Hf|]. rewrite S2. exact (proj2 (proj2 Hval)).
  - apply (IH _ cached S3); [exact Hf|]. rewrite S2. exact (proj2 (proj2 Hval)).
  - apply (IH _ cached S3); [exact Hf|]. rewrite S2. exact (proj2 (proj2 (proj2 Hval))).
Qed.

Lemma lops_valid_ops_valid : forall ops x cached, lops_valid x cached ops -> ops_valid x (map op_of_lop ops).
Proof.
  induction ops as [|o r IH]; intros x cached H.
  - cbn [map ops_valid]. destruct H as (Hv & He & _). split; [exact Hv|split; [exact He|exact I]].
  - assert (Hv : valid_c (fst x)) by (destruct o; exact (proj1 H)).
    assert (He : enough (c_fmt (fst x)) (snd x)) by (destruct o; exact (proj1 (proj2 H))).
    cbn [map ops_valid]. split; [exact Hv|]. split; [exact He|].
    destruct o as [|f ai|fs ai|f ai|f ai|c']; cbn [op_of_lop ref_step fst snd];
      try (replace x with (fst x, snd x) in H by (destruct x; reflexivity)).
    + destruct x. exact (IH _ true (proj2 (proj2 H))).
    + destruct x. exact (IH _ cached (proj2 (proj2 H))).
    + destruct x. exact (IH _ cached (proj2 (proj2 H))).
    + destruct x. exact (IH _ cached (proj2 (proj2 H))).
    + destruct x. exact (IH _ cached (proj2 (proj2 H))).
    + exact (IH _ cached (proj2 (proj2 (proj2 H)))).
Qed.

(* a freshly opened lazily read image answers every acceptable history exactly as the in-memory
   image does (both equal the cache-free reference) *)
Lemma lazy_equals_in_memory : forall ops c pd, lops_valid (c, pd) false ops ->
  lrun_ops (LImg c pd None) ops = run_ops (Img c pd None) (map op_of_lop ops) /\
  lrun_ops (LImg c pd None) ops = ref_ops (c, pd) (map op_of_lop ops).
Proof.
  intros ops c pd H.
  assert (L : lrun_ops (LImg c pd None) ops = ref_ops (c, pd) (map op_of_lop ops)).
  { apply (lazy_history ops (LImg c pd None) false); [exact I|intros X; now contradiction X|exact H]. }
  split; [|exact L]. rewrite L. symmetry.
  apply (history_irrelevant (map op_of_lop ops) (Img c pd None)).
  exact (lops_valid_ops_valid ops (c, pd) false H).
Qed.

(* reads only: any order, any number, any mix - no hypothesis about the cache flag is needed *)
Definition is_read (o : lop) : bool := match o with LHeader _ => false | _ => true end.

Lemma reads_lops_valid : forall ops x cached, valid_c (fst x) -> enough (c_fmt (fst x)) (snd x) ->
  forallb is_read ops = true -> lops_valid x cached ops.
Proof.
  induction ops as [|o r IH]; intros x cached Hv He H; cbn [lops_valid]; [split; [exact Hv|split; [exact He|exact I]]|].
  cbn [forallb] in H. apply andb_true_iff in H. destruct H as [Ho Hr].
  destruct o; try discriminate; (split; [exact Hv|]); (split; [exact He|]); now apply IH.
Qed.

Lemma lazy_reads_any_order : forall ops c pd, valid_c c -> enough (c_fmt c) pd -> forallb is_read ops = true ->
  lrun_ops (LImg c pd None) ops = ref_ops (c, pd) (map op_of_lop ops).
Proof.
  intros ops c pd Hv He H. apply (lazy_equals_in_memory ops c pd). now apply reads_lops_valid.
Qed.

(* ------------------------------------------------------------------ *)
(* refutation: an edit AFTER pixel_array is ignored                    *)
(* ------------------------------------------------------------------ *)
(* two 16-bit frames of two pixels; whole array read, PixelRepresentation set to signed, frame 1
   read: the lazily read image still answers 65535 as uint16, the reference (and the in-memory
   image, and a lazily read image on which pixel_array was not called) answers -1 as int16 *)
Definition wit_c : cfmt := CFmt (Fmt 16 16 false 2 2) 1 false 1.
Definition wit_c' : cfmt := CFmt (Fmt 16 16 true 2 2) 1 false 1.
Definition wit_pd : list Z := [255; 255; 1; 0; 2; 0; 3; 0].
Definition wit_ops : list lop := [LWhole; LHeader wit_c'; LOne 1 false].

Lemma lazy_history_refuted :
  exists c pd ops, ops_valid (c, pd) (map op_of_lop ops) /\
    lrun_ops (LImg c pd None) ops <> ref_ops (c, pd) (map op_of_lop ops) /\
    lrun_ops (LImg c pd None) ops <> run_ops (Img c pd None) (map op_of_lop ops) /\
    nth 2 (lrun_ops (LImg c pd None) ops) VNone = VL [meta c; vz_list [65535; 1]] /\
    nth 2 (ref_ops (c, pd) (map op_of_lop ops)) VNone = VL [meta wit_c'; vz_list [-1; 1]].
Proof.
  exists wit_c, wit_pd, wit_ops. split; [|split; [|split; [|split]]].
  - cbn [wit_ops map op_of_lop ops_valid ref_step fst snd]. unfold valid_c, valid_fmt, enough.
    cbn [wit_c wit_c' c_fmt c_planar f_bits f_npx f_frames].
    repeat split; try (vm_compute; congruence); auto; try discriminate.
  - intro H. vm_compute in H. discriminate.
  - intro H. vm_compute in H. discriminate.
  - vm_compute. reflexivity.
  - vm_compute. reflexivity.
Qed.
