(* C14 - (1) reading a content sequence: seq[i], seq[a:b:c], reversed(seq) agree with the list itself;
   (2) from_sequence over ALL fifteen value types (ds_check_x / to_item_x / from_sequence_x): exact
   acceptance, error of the first failing dataset, the default name of the optional-name types, reduction
   to __init__ (so that every history theorem applies), and conservativity over the TEXT / CONTAINER model. *)
From Coq Require Import String ZArith List Bool Lia ZifyBool Permutation.
From HD Require Import Base.Val Base.PySlice C14_Model C14_Proofs C14_Proofs_Ext C14_Proofs_Slice C14_Proofs_SliceNth.
Import ListNotations.
Open Scope Z_scope.
Ltac Zify.zify_post_hook ::= Z.to_euclidean_division_equations.

(* ---- reading -------------------------------------------------------------------------------------- *)
(* seq[i]: the item at the normalised position, IndexError iff out of range *)
Theorem getitem_int_spec s i :
  (- zlen (items s) <= i < zlen (items s) ->
   exists v, getitem_int s i = Ok v /\
             nth_error (items s) (Z.to_nat (if i <? 0 then i + zlen (items s) else i)) = Some v) /\
  (~ (- zlen (items s) <= i < zlen (items s)) -> getitem_int s i = Err EINDEX).
Proof.
  split; [|apply getitem_int_out_of_range]. intros Hi.
  destruct (getitem_int_in_range s i Hi) as (p & v & _ & Hn & Hg & Hp). exists v. split; [exact Hg|].
  rewrite <- Hp, Nat2Z.id. exact Hn.
Qed.

(* seq[a:b:c] = [seq[f + k*s] for k in range(len(range(f, l, s)))]; ValueError iff the step is 0 *)
Theorem getitem_slice_spec s a b c f l st d :
  slice_indices a b (step_of c) (zlen (items s)) = (f, l, st) ->
  getitem_slice s a b c =
  if step_of c =? 0 then Err EVALUE
  else Ok (map (fun k => nth (Z.to_nat (f + Z.of_nat k * st)) (items s) d) (seq 0 (Z.to_nat (range_len f l st)))).
Proof.
  intros E. unfold getitem_slice. destruct (step_of c =? 0) eqn:E0; [reflexivity|]. rewrite E.
  assert (Es : st = step_of c) by (unfold slice_indices in E; inversion E; reflexivity).
  f_equal. rewrite <- Es. apply (slice_get_nth a b (step_of c)); [lia|exact E].
Qed.

Lemma nth_error_seq (l : list item) :
  map (fun i => nth_error l i) (seq 0 (length l)) = map Some l.
Proof.
  induction l as [|x l IH]; [reflexivity|]. cbn [length seq map nth_error]. f_equal.
  rewrite <- seq_shift, map_map. exact IH.
Qed.

(* reversed(seq) yields the list backwards and never raises *)
Theorem reversed_spec s : reversed s = map Ok (rev (items s)).
Proof.
  unfold reversed. rewrite !map_rev. f_equal.
  transitivity (map (fun o : option item => match o with Some x => Ok x | None => Err EINDEX end)
                    (map (fun i => nth_error (items s) i) (seq 0 (length (items s))))).
  - rewrite map_map. apply map_ext_in. intros i Hi. apply in_seq in Hi. unfold getitem_int.
    rewrite norm_index_exact by (unfold zlen; lia). now rewrite Nat2Z.id.
  - rewrite nth_error_seq, map_map. reflexivity.
Qed.

(* ---- from_sequence over all value types ------------------------------------------------------------ *)
Definition WellFormedX (root sr : bool) (d : dset) : Prop :=
  d_isds d = true /\ 1 <= d_vt d <= 15 /\ d_hasval d = true /\ (d_hasname d = true \/ 10 <= d_vt d <= 15) /\
  (d_kids d = 0 \/ d_kids d = 1) /\ (root = false -> sr = true -> d_rel d <> 0).

Lemma ds_check_x_none_iff root sr d : ds_check_x root sr d = None <-> WellFormedX root sr d.
Proof.
  unfold ds_check_x, WellFormedX, vt_known, vt_optname.
  destruct (d_isds d), (d_hasval d), (d_hasname d), root, sr; cbn [negb andb orb];
    repeat match goal with |- context[if ?c then _ else _] => destruct c eqn:? end;
    (split; [try discriminate; intros _; repeat split; try reflexivity; try lia; intros; try discriminate; lia
            |try reflexivity; intros (? & ? & ? & ? & ? & ?); try discriminate; exfalso; lia]).
Qed.

Lemma ds_check_x_error root sr d e : ds_check_x root sr d = Some e ->
  (e = ETYPE /\ d_isds d = false) \/
  (e = EVALUE /\ d_isds d = true /\ d_vt d <> 0) \/
  (e = EATTR /\ d_isds d = true).
Proof.
  unfold ds_check_x. destruct (d_isds d); cbn [negb].
  - repeat match goal with |- context[if ?c then _ else _] => destruct c eqn:? end;
      intros H; inversion H; subst; try (right; right; split; reflexivity);
      right; left; repeat split; lia.
  - intros H. inversion H. left. split; reflexivity.
Qed.

(* _check_dataset's relationship rule, for every value type *)
Theorem check_dataset_x_rel_rule root sr d :
  d_isds d = true -> 1 <= d_vt d <= 15 -> d_rel d = 0 -> root = false -> sr = true ->
  ds_check_x root sr d = Some EATTR.
Proof.
  intros H1 H2 H3 -> ->. unfold ds_check_x, vt_known. rewrite H1. cbn [negb andb].
  replace (d_vt d =? 0) with false by lia.
  replace ((1 <=? d_vt d) && (d_vt d <=? 15)) with true by lia. cbn [negb].
  replace (d_rel d =? 0) with true by lia. reflexivity.
Qed.

(* from_sequence is __init__ on the converted datasets *)
Theorem from_sequence_x_ok ds root sr s : from_sequence_x ds root sr = Ok s ->
  construct (FromList (map to_item_x ds)) root sr = Ok s /\ Forall (WellFormedX root sr) ds.
Proof.
  unfold from_sequence_x. destruct (first_err (ds_check_x root sr) ds) eqn:E; [discriminate|].
  intros H. split; [exact H|]. apply first_err_none in E.
  eapply Forall_impl; [|exact E]. intros d. apply ds_check_x_none_iff.
Qed.

Theorem from_sequence_x_ok_iff ds root sr : (exists s, from_sequence_x ds root sr = Ok s) <->
  root && negb sr = false /\ Forall (WellFormedX root sr) ds /\
  Forall (fun d => init_check root sr (to_item_x d) = None) ds.
Proof.
  split.
  - intros [s H]. apply from_sequence_x_ok in H. destruct H as [H W]. cbn [construct] in H.
    assert (Hx : exists s, init (map to_item_x ds) root sr = Ok s) by eauto.
    apply init_err_or_ok in Hx. destruct Hx as [Hf Hc]. repeat split; try assumption.
    rewrite Forall_map in Hc. exact Hc.
  - intros (Hf & W & Hc). unfold from_sequence_x.
    replace (first_err (ds_check_x root sr) ds) with (@None string).
    + apply init_err_or_ok. split; [exact Hf|]. rewrite Forall_map. exact Hc.
    + symmetry. apply first_err_none. eapply Forall_impl; [|exact W]. intros d. apply ds_check_x_none_iff.
Qed.

Theorem from_sequence_x_error ds root sr e : from_sequence_x ds root sr = Err e ->
  (exists pre d post, ds = pre ++ d :: post /\ Forall (WellFormedX root sr) pre /\ ds_check_x root sr d = Some e) \/
  (Forall (WellFormedX root sr) ds /\ init (map to_item_x ds) root sr = Err e).
Proof.
  unfold from_sequence_x. destruct (first_err (ds_check_x root sr) ds) as [e'|] eqn:E.
  - intros H. inversion H; subst e'. left. clear H. induction ds as [|d ds IH]; cbn [first_err] in E; [discriminate|].
    destruct (ds_check_x root sr d) eqn:Ed.
    + inversion E; subst. exists [], d, ds. repeat split; [constructor|exact Ed].
    + destruct (IH E) as (pre & d' & post & -> & Hp & Hd). exists (d :: pre), d', post.
      repeat split; [constructor; [now apply ds_check_x_none_iff|exact Hp]|exact Hd].
  - intros H. right. split; [|exact H]. apply first_err_none in E.
    eapply Forall_impl; [|exact E]. intros d. apply ds_check_x_none_iff.
Qed.

(* the TEXT / CONTAINER model of C14_Model.v is the restriction of this one *)
Lemma ds_check_x_conservative root sr d : ~ (3 <= d_vt d <= 15) -> ds_check_x root sr d = ds_check root sr d.
Proof.
  intros H. unfold ds_check_x, ds_check, vt_known, vt_optname.
  replace ((10 <=? d_vt d) && (d_vt d <=? 15)) with false by lia.
  replace ((1 <=? d_vt d) && (d_vt d <=? 15)) with ((d_vt d =? 1) || (d_vt d =? 2)) by lia.
  rewrite andb_true_r. reflexivity.
Qed.

Theorem from_sequence_x_conservative ds root sr : Forall (fun d => ~ (3 <= d_vt d <= 15)) ds ->
  from_sequence_x ds root sr = from_sequence ds root sr.
Proof.
  intros H. unfold from_sequence_x, from_sequence.
  assert (E : first_err (ds_check_x root sr) ds = first_err (ds_check root sr) ds).
  { induction H as [|d ds Hd _ IH]; [reflexivity|]. cbn [first_err].
    rewrite (ds_check_x_conservative root sr d Hd), IH. reflexivity. }
  rewrite E. destruct (first_err (ds_check root sr) ds) eqn:F; [reflexivity|]. f_equal.
  apply first_err_none in F. apply map_ext_in. intros d Hd. rewrite Forall_forall in F.
  apply F, ds_check_none_iff in Hd. destruct Hd as (_ & _ & _ & Hn & _). unfold to_item_x, to_item. now rewrite Hn.
Qed.

(* the name a dataset is indexed under: its own, or the default name when an optional-name type has none *)
Theorem from_sequence_x_names ds root sr s n : from_sequence_x ds root sr = Ok s ->
  Permutation (lut s n)
    (filter (has n) (map to_item_x ds)) /\
  forall d, In d ds -> iname (to_item_x d) = (if d_hasname d then d_name d else DEFAULT_NAME) /\
                       (d_hasname d = false -> 10 <= d_vt d <= 15).
Proof.
  intros H. destruct (from_sequence_x_ok _ _ _ _ H) as [Hc W]. cbn [construct] in Hc.
  destruct (inv_init _ _ _ _ Hc) as (HI & Hit & _). split.
  - rewrite <- Hit. apply HI.
  - intros d Hd. split; [reflexivity|]. intros Hn. rewrite Forall_forall in W.
    destruct (W d Hd) as (_ & _ & _ & [Hh|Hv] & _); [congruence|exact Hv].
Qed.

(* everything the property says, after any history from from_sequence over any value types *)
Theorem xhistory_summary_x ds root sr s0 ops : from_sequence_x ds root sr = Ok s0 ->
  let t := xrun s0 ops in
  (forall n, Permutation (lut t n) (filter (has n) (items t))) /\
  (forall n, exists r, find t n = Ok r /\ Permutation r (filter (has n) (items t)) /\
     forall x, count_occ item_eq_dec r x = if has n x then count_occ item_eq_dec (items t) x else 0%nat) /\
  (forall x, (forall k, index t x = Ok k ->
                0 <= k < zlen (items t) /\ nth_error (items t) (Z.to_nat k) = Some x /\
                forall j, 0 <= j < k -> nth_error (items t) (Z.to_nat j) <> Some x) /\
             ((exists k, index t x = Ok k) <-> is_item x = true /\ In x (items t)) /\
             (is_item x = true -> (contains t x = Ok true <-> In x (items t)) /\
                                  (contains t x = Ok false <-> ~ In x (items t))) /\
             count t x = Z.of_nat (count_occ item_eq_dec (items t) x)) /\
  get_nodes t = Ok (filter inode (items t)) /\
  Forall (fun x => is_item x = true /\ (is_sr t = true -> (irel x =? 0) = is_root t)) (items t).
Proof.
  intros H. apply from_sequence_x_ok in H. destruct H as [H _].
  apply (xhistory_summary (FromList (map to_item_x ds)) root sr s0 ops H).
Qed.
