(* C07 - the accept table: boolean sweep over the WHOLE parameter matrix, lifted
   with forallb_forall.  Generic in the validation tables [T], so that the
   translator-generated tables (harness/translate_c07.py) are checked by the
   same theorem. *)
From Coq Require Import String ZArith List Bool Lia ZifyBool.
From HD Require Import Base.Val C07_Model.
Import ListNotations.
Open Scope Z_scope.

(* ------------------------------------------------------- the accept table *)
Definition accepts_params (T : tables) (p : params) : bool :=
  match check_hd T p with
  | Some _ => false
  | None =>
      if is_native T p then true
      else if uses_pydicom_encoder p then
        match check_pydicom T p with Some _ => false | None => is_none (check_profile T p) end
      else true
  end.

Lemma accepts_params_of_accepts : forall T p lo hi,
  accepts T p lo hi = true -> accepts_params T p = true.
Proof.
  intros T p lo hi. unfold accepts, accepts_params, check, check_cascade, check_encoder.
  destruct (check_hd T p); [discriminate|].
  destruct (check_hd_content T p lo hi); [discriminate|].
  destruct (is_native T p); [reflexivity|].
  destruct (uses_pydicom_encoder p); [|reflexivity]. cbn.
  destruct (check_pydicom T p); [discriminate|].
  destruct (fits_stored p lo hi); [|discriminate]. cbn.
  destruct (check_profile T p); [discriminate|reflexivity].
Qed.

Definition cell_ok (T : tables) (p : params) : bool :=
  if accepts_params T p then representable p || open_gap p else true.

Definition dom_ts := [TImplicit; TExplicit; TRLE; TJLS; TJLSNear; TJ2KL; TJ2K; TJPEG; TOther].
Definition dom_shape : list (bool * Z) := [(false, 0); (true, 1); (true, 2); (true, 3); (true, 4)].
Definition dom_alloc := [1; 8; 12; 16; 32].
Definition dom_stored := [0; 1; 2; 7; 8; 9; 12; 16; 17; 32; 33].
Definition dom_pi : list (option pinterp) :=
  [None; Some MONO1; Some MONO2; Some PALETTE; Some RGB; Some YBR_FULL; Some YBR_FULL_422;
   Some YBR_PARTIAL_420; Some YBR_ICT; Some YBR_RCT].
Definition dom_pixrep := [0; 1; 2].
Definition dom_planar : list (option Z) := [None; Some 0; Some 1; Some 2].
Definition dom_dtype : list (dkind * Z) :=
  [(KBool, 1); (KUInt, 1); (KUInt, 2); (KInt, 2); (KInt, 1); (KUInt, 4); (KInt, 4)].
Definition dom_size : list (Z * Z) := [(32, 32); (3, 5)].

Definition cell ts (sh : bool * Z) ba bs pi pr pl (dt : dkind * Z) (sz : Z * Z) : params :=
  mkP ts (fst sz) (snd sz) (fst sh) (snd sh) ba bs pi pr pl (fst dt) (snd dt).

Definition matrix_ok (T : tables) : bool :=
  forallb (fun ts => forallb (fun sh => forallb (fun ba => forallb (fun bs =>
  forallb (fun pi => forallb (fun pr => forallb (fun pl => forallb (fun dt => forallb (fun sz =>
    cell_ok T (cell ts sh ba bs pi pr pl dt sz))
  dom_size) dom_dtype) dom_planar) dom_pixrep) dom_pi) dom_stored) dom_alloc) dom_shape) dom_ts.

Lemma matrix_ok_default : matrix_ok default_tables = true.
Proof. vm_compute. reflexivity. Qed.

Lemma all_ts : forall t, In t dom_ts.
Proof. destruct t; cbn; tauto. Qed.
Lemma all_pi : forall o, In o dom_pi.
Proof. destruct o as [[]|]; cbn; tauto. Qed.

(* lifted from the boolean sweep: EVERY cell of the matrix *)
Theorem accept_table_sound_T : forall T, matrix_ok T = true ->
  forall ts sh ba bs pi pr pl dt sz lo hi,
  In sh dom_shape -> In ba dom_alloc -> In bs dom_stored -> In pr dom_pixrep -> In pl dom_planar ->
  In dt dom_dtype -> In sz dom_size ->
  accepts T (cell ts sh ba bs pi pr pl dt sz) lo hi = true ->
  representable (cell ts sh ba bs pi pr pl dt sz) = true \/ open_gap (cell ts sh ba bs pi pr pl dt sz) = true.
Proof.
  intros T H ts sh ba bs pi pr pl dt sz lo hi Hsh Hba Hbs Hpr Hpl Hdt Hsz Hacc.
  unfold matrix_ok in H.
  rewrite forallb_forall in H. specialize (H ts (all_ts ts)).
  rewrite forallb_forall in H. specialize (H sh Hsh).
  rewrite forallb_forall in H. specialize (H ba Hba).
  rewrite forallb_forall in H. specialize (H bs Hbs).
  rewrite forallb_forall in H. specialize (H pi (all_pi pi)).
  rewrite forallb_forall in H. specialize (H pr Hpr).
  rewrite forallb_forall in H. specialize (H pl Hpl).
  rewrite forallb_forall in H. specialize (H dt Hdt).
  rewrite forallb_forall in H. specialize (H sz Hsz).
  unfold cell_ok in H. rewrite (accepts_params_of_accepts _ _ _ _ Hacc) in H.
  apply orb_true_iff in H. exact H.
Qed.

Theorem accept_table_sound_partial : forall ts sh ba bs pi pr pl dt sz lo hi,
  In sh dom_shape -> In ba dom_alloc -> In bs dom_stored -> In pr dom_pixrep -> In pl dom_planar ->
  In dt dom_dtype -> In sz dom_size ->
  accepts default_tables (cell ts sh ba bs pi pr pl dt sz) lo hi = true ->
  representable (cell ts sh ba bs pi pr pl dt sz) = true \/ open_gap (cell ts sh ba bs pi pr pl dt sz) = true.
Proof. exact (accept_table_sound_T default_tables matrix_ok_default). Qed.

(* the gap is real: accepted, not representable *)
Lemma accept_table_refuted_ybr : exists p,
  accepts default_tables p 0 0 = true /\ representable p = false.
Proof. exists (cell TRLE (true, 3) 8 8 (Some YBR_FULL) 0 (Some 0) (KUInt, 1) (3, 5)). split; reflexivity. Qed.

