(* C01 - proofs, part 10: the mask handed over as ONE total pixel matrix
   (tile_pixel_array=True): what get_tile_array cuts out, and the round trip by
   source frame straight from the matrix. *)
From Coq Require Import String ZArith List Bool Lia ZifyBool Arith Permutation.
From HD Require Import Base.Val Base.ListZ C01_Model C01_Proofs C01_Proofs_Frames
  C01_Proofs_Lut C01_Proofs_Value C01_Proofs_Full C01_Proofs_Hist C01_Proofs_Ext C01_Proofs_Accept.
Import ListNotations.
Open Scope Z_scope.
Ltac Zify.zify_post_hook ::= Z.to_euclidean_division_equations.

(* ------------------------------------------------------------------ *)
(* lists of equally long blocks                                         *)
(* ------------------------------------------------------------------ *)
Lemma nth_flat_map_const {A B} : forall (g : A -> list B) (l : list A) (n i j : nat) d a0,
  (forall x, In x l -> length (g x) = n) -> (i < length l)%nat -> (j < n)%nat ->
  nth (i * n + j) (flat_map g l) d = nth j (g (nth i l a0)) d.
Proof.
  intros g l n. induction l as [|x l IH]; intros i j d a0 Hlen Hi Hj; [cbn in Hi; lia|].
  cbn [flat_map]. destruct i as [|i].
  - cbn [Nat.mul Nat.add nth]. apply app_nth1. rewrite (Hlen x (or_introl eq_refl)). exact Hj.
  - rewrite app_nth2; rewrite (Hlen x (or_introl eq_refl)); [|cbn [Nat.mul]; lia].
    replace (S i * n + j - n)%nat with (i * n + j)%nat by (cbn [Nat.mul]; lia).
    cbn [nth]. apply IH; [|cbn [length] in Hi; lia|exact Hj].
    intros y Hy. apply Hlen. now right.
Qed.

Lemma nth_repeat_in {A} : forall (z d : A) n k, (k < n)%nat -> nth k (repeat z n) d = z.
Proof.
  intros z d n. induction n as [|n IH]; intros k Hk; [lia|].
  destruct k; cbn [repeat nth]; [reflexivity|]. apply IH. lia.
Qed.

Lemma slice_length {A} : forall a b (l : list A), 0 <= a <= b -> b <= zlen l ->
  length (slice a b l) = Z.to_nat (b - a).
Proof.
  intros a b l Hab Hb. unfold slice, zlen in *. rewrite firstn_length, skipn_length. lia.
Qed.

Lemma slice_nth {A} : forall a b (l : list A) j d, 0 <= a <= b -> (j < Z.to_nat (b - a))%nat ->
  nth j (slice a b l) d = nth (Z.to_nat a + j) l d.
Proof.
  intros a b l j d Hab Hj. unfold slice. rewrite nth_firstn' by exact Hj. apply nth_skipn'.
Qed.

Lemma nth_zrange_nat : forall n k d, (k < Z.to_nat n)%nat -> nth k (zrange n) d = Z.of_nat k.
Proof.
  intros n k d Hk. unfold zrange.
  rewrite nth_indep with (d' := Z.of_nat 0) by (rewrite map_length, seq_length; exact Hk).
  rewrite map_nth, seq_nth by exact Hk. reflexivity.
Qed.

(* ------------------------------------------------------------------ *)
(* get_tile_array                                                       *)
(* ------------------------------------------------------------------ *)
(* the guards: refused exactly when the (1-based) offset lies outside the matrix *)
Lemma get_tile_array_err_iff {A} : forall (z : A) R C m ro co th tw,
  (exists e, get_tile_array z R C m ro co th tw = Err e) <->
  (ro < 1 \/ R < ro \/ co < 1 \/ C < co).
Proof.
  intros z R C m ro co th tw. unfold get_tile_array.
  destruct ((ro <? 1) || (R <? ro)) eqn:E1.
  - split; [intros _; lia|intros _; now eexists].
  - destruct ((co <? 1) || (C <? co)) eqn:E2.
    + split; [intros _; lia|intros _; now eexists].
    + split; [intros (e & H); discriminate|lia].
Qed.

(* THE TILE: th*tw pixels; in-tile pixel (i, j) is the matrix pixel
   (row_offset-1+i, column_offset-1+j) when that lies inside the matrix and the
   zero pixel otherwise - i.e. the data stay at the top / left of the tile and
   the padding goes below / right *)
Lemma get_tile_array_spec {A} : forall (z d : A) R C m ro co th tw,
  zlen m = R * C -> 1 <= ro <= R -> 1 <= co <= C -> 1 <= th -> 1 <= tw ->
  exists tile, get_tile_array z R C m ro co th tw = Ok tile /\ zlen tile = th * tw /\
    forall i j, 0 <= i < th -> 0 <= j < tw ->
      nthz (i * tw + j) tile d =
      if (ro - 1 + i <? R) && (co - 1 + j <? C) then nthz ((ro - 1 + i) * C + (co - 1 + j)) m d else z.
Proof.
  intros z d R C m ro co th tw Hm Hro Hco Hth Htw. unfold get_tile_array.
  replace ((ro <? 1) || (R <? ro)) with false by lia.
  replace ((co <? 1) || (C <? co)) with false by lia.
  set (ro' := ro - 1). set (co' := co - 1).
  set (row_end := if R <? ro' + th then R else ro' + th).
  set (pad_rows := if R <? ro' + th then ro' + th - R else 0).
  set (col_end := if C <? co' + tw then C else co' + tw).
  set (pad_cols := if C <? co' + tw then co' + tw - C else 0).
  set (g := fun k => slice ((ro' + k) * C + co') ((ro' + k) * C + col_end) m ++ repeat z (Z.to_nat pad_cols)).
  assert (Hre : ro' < row_end <= R /\ row_end <= ro' + th /\ pad_rows = ro' + th - row_end /\ 0 <= pad_rows /\
                (row_end = R \/ row_end = ro' + th))
    by (unfold row_end, pad_rows, ro'; destruct (R <? ro - 1 + th) eqn:E; lia).
  assert (Hce : co' < col_end <= C /\ col_end <= co' + tw /\ pad_cols = co' + tw - col_end /\ 0 <= pad_cols /\
                (col_end = C \/ col_end = co' + tw))
    by (unfold col_end, pad_cols, co'; destruct (C <? co - 1 + tw) eqn:E; lia).
  assert (Hro' : 0 <= ro') by (unfold ro'; lia). assert (Hco' : 0 <= co') by (unfold co'; lia).
  clearbody row_end pad_rows col_end pad_cols ro' co'.
  assert (Hbound : forall k, 0 <= k < row_end - ro' ->
            0 <= (ro' + k) * C + co' <= (ro' + k) * C + col_end /\ (ro' + k) * C + col_end <= zlen m).
  { intros k Hk. rewrite Hm.
    assert (P1 : 0 <= (ro' + k) * C) by (apply Z.mul_nonneg_nonneg; lia).
    assert (P2 : (ro' + k) * C <= (R - 1) * C) by (apply Z.mul_le_mono_nonneg_r; lia).
    replace ((R - 1) * C) with (R * C - C) in P2 by ring. lia. }
  assert (Hg : forall k, In k (zrange (row_end - ro')) -> length (g k) = Z.to_nat tw).
  { intros k Hk. apply in_zrange in Hk. unfold g. rewrite app_length, repeat_length.
    destruct (Hbound k Hk) as (B1 & B2). rewrite slice_length by assumption. lia. }
  eexists. split; [reflexivity|]. split.
  - unfold zlen. rewrite app_length, repeat_length.
    rewrite (length_flat_map_const g _ (Z.to_nat tw) Hg), zrange_length. nia.
  - intros i j Hi Hj. unfold nthz.
    replace (Z.to_nat (i * tw + j)) with (Z.to_nat i * Z.to_nat tw + Z.to_nat j)%nat by nia.
    assert (Hlenfm : length (flat_map g (zrange (row_end - ro'))) = (Z.to_nat (row_end - ro') * Z.to_nat tw)%nat).
    { rewrite (length_flat_map_const g _ (Z.to_nat tw) Hg), zrange_length. reflexivity. }
    destruct (ro' + i <? R) eqn:Er; cbn [andb].
    + (* a row of the matrix *)
      assert (Hi' : 0 <= i < row_end - ro') by lia.
      rewrite app_nth1 by (rewrite Hlenfm; nia).
      rewrite (nth_flat_map_const g _ (Z.to_nat tw) _ _ d 0 Hg)
        by (try rewrite zrange_length; lia).
      rewrite nth_zrange_nat by lia. rewrite Z2Nat.id by lia. unfold g.
      destruct (Hbound i Hi') as (B1 & B2).
      destruct (co' + j <? C) eqn:Ec.
      * rewrite app_nth1 by (rewrite slice_length by assumption; lia).
        rewrite slice_nth by lia. f_equal. nia.
      * rewrite app_nth2 by (rewrite slice_length by assumption; lia).
        apply nth_repeat_in. rewrite slice_length by assumption. lia.
    + (* below the last row of the matrix *)
      rewrite app_nth2 by (rewrite Hlenfm; nia).
      apply nth_repeat_in. rewrite Hlenfm. nia.
Qed.

(* ------------------------------------------------------------------ *)
(* the tile grid                                                        *)
(* ------------------------------------------------------------------ *)
Lemma n_tiles_along_facts : forall e t, 1 <= e -> 1 <= t ->
  1 <= n_tiles_along e t /\ (n_tiles_along e t - 1) * t <= e - 1 /\ e <= n_tiles_along e t * t.
Proof. intros e t He Ht. unfold n_tiles_along. nia. Qed.

Lemma nth_map_zrange {B} : forall (f : Z -> B) n k d, (k < Z.to_nat n)%nat ->
  nth k (map f (zrange n)) d = f (Z.of_nat k).
Proof.
  intros f n k d Hk. rewrite nth_indep with (d' := f 0) by (rewrite map_length, zrange_length; exact Hk).
  rewrite map_nth. now rewrite nth_zrange_nat.
Qed.

Lemma tile_offsets_spec : forall R C th tw, 1 <= R -> 1 <= C -> 1 <= th -> 1 <= tw ->
  zlen (tile_offsets R C th tw) = n_tiles R C th tw /\
  forall t d, 0 <= t < n_tiles R C th tw ->
    nthz t (tile_offsets R C th tw) d =
    ((t / n_tiles_along C tw) * th + 1, (t mod n_tiles_along C tw) * tw + 1).
Proof.
  intros R C th tw HR HC Hth Htw. unfold tile_offsets, n_tiles.
  destruct (n_tiles_along_facts R th HR Hth) as (Hr1 & _).
  destruct (n_tiles_along_facts C tw HC Htw) as (Hc1 & _).
  set (ntr := n_tiles_along R th) in *. set (ntc := n_tiles_along C tw) in *.
  set (g := fun r => map (fun q => (r * th + 1, q * tw + 1)) (zrange ntc)).
  assert (Hg : forall r, In r (zrange ntr) -> length (g r) = Z.to_nat ntc)
    by (intros r _; unfold g; now rewrite map_length, zrange_length).
  split.
  - unfold zlen. rewrite (length_flat_map_const g _ (Z.to_nat ntc) Hg), zrange_length. nia.
  - intros t d Ht. unfold nthz.
    assert (Hq : 0 <= t / ntc < ntr) by (split; [apply Z.div_pos; lia|apply Z.div_lt_upper_bound; lia]).
    assert (Hm : 0 <= t mod ntc < ntc) by (apply Z.mod_pos_bound; lia).
    replace (Z.to_nat t) with (Z.to_nat (t / ntc) * Z.to_nat ntc + Z.to_nat (t mod ntc))%nat
      by (rewrite <- Z2Nat.inj_mul, <- Z2Nat.inj_add by lia; f_equal;
          rewrite (Z.div_mod t ntc) at 3 by lia; ring).
    rewrite (nth_flat_map_const g _ (Z.to_nat ntc) _ _ d 0 Hg) by (try rewrite zrange_length; lia).
    rewrite nth_zrange_nat by lia. unfold g. rewrite nth_map_zrange by lia.
    now rewrite !Z2Nat.id by lia.
Qed.

Lemma map_res_nth {A B} : forall (f : A -> res B) l ys, map_res f l = Ok ys ->
  length ys = length l /\
  forall k a0 b0, (k < length l)%nat -> f (nth k l a0) = Ok (nth k ys b0).
Proof.
  intros f l. induction l as [|x l IH]; intros ys H; cbn [map_res] in H.
  - injection H as <-. split; [reflexivity|]. intros k a0 b0 Hk. cbn in Hk. lia.
  - destruct (f x) as [y|e] eqn:E; cbn [bind] in H; [|discriminate].
    destruct (map_res f l) as [r|e] eqn:E'; cbn [bind] in H; [|discriminate].
    injection H as <-. destruct (IH r eq_refl) as (Hl & Hn). split; [cbn [length]; now rewrite Hl|].
    intros k a0 b0 Hk. destruct k; cbn [nth]; [exact E|]. apply Hn. cbn [length] in Hk. lia.
Qed.

(* all tiles of a matrix: n_tiles of them, in row-major order of the tile grid,
   tile t holding under in-tile pixel p the matrix pixel
   ((t / ntc) * th + p / tw, (t mod ntc) * tw + p mod tw), zero beyond the edge;
   no offset is ever refused *)
Lemma tile_planes_spec {A} : forall (z d : A) R C th tw m,
  zlen m = R * C -> 1 <= R -> 1 <= C -> 1 <= th -> 1 <= tw ->
  exists tiles, tile_planes z R C th tw m = Ok tiles /\ zlen tiles = n_tiles R C th tw /\
    forall t, 0 <= t < n_tiles R C th tw ->
      zlen (nthz t tiles []) = th * tw /\
      forall p, 0 <= p < th * tw ->
        let r := (t / n_tiles_along C tw) * th + p / tw in
        let q := (t mod n_tiles_along C tw) * tw + p mod tw in
        nthz p (nthz t tiles []) d = if (r <? R) && (q <? C) then nthz (r * C + q) m d else z.
Proof.
  intros z d R C th tw m Hm HR HC Hth Htw.
  destruct (tile_offsets_spec R C th tw HR HC Hth Htw) as (Hlen & Hoff).
  destruct (n_tiles_along_facts R th HR Hth) as (Hr1 & Hr2 & _).
  destruct (n_tiles_along_facts C tw HC Htw) as (Hc1 & Hc2 & _).
  assert (Hrange : forall t, 0 <= t < n_tiles R C th tw ->
            1 <= (t / n_tiles_along C tw) * th + 1 <= R /\ 1 <= (t mod n_tiles_along C tw) * tw + 1 <= C).
  { intros t Ht. unfold n_tiles in Ht.
    assert (Hq : 0 <= t / n_tiles_along C tw < n_tiles_along R th)
      by (split; [apply Z.div_pos; lia|apply Z.div_lt_upper_bound; lia]).
    assert (Hmo : 0 <= t mod n_tiles_along C tw < n_tiles_along C tw) by (apply Z.mod_pos_bound; lia).
    split; nia. }
  assert (Hall : forall rc, In rc (tile_offsets R C th tw) ->
            exists y, get_tile_array z R C m (fst rc) (snd rc) th tw = Ok y).
  { intros rc Hin. destruct (In_nth _ _ (0, 0) Hin) as (k & Hk & Hnth).
    assert (Hk' : 0 <= Z.of_nat k < n_tiles R C th tw) by (unfold zlen in Hlen; lia).
    specialize (Hoff (Z.of_nat k) (0, 0) Hk'). unfold nthz in Hoff. rewrite Nat2Z.id, Hnth in Hoff.
    destruct (Hrange _ Hk') as (H1 & H2). rewrite Hoff. cbn [fst snd].
    destruct (get_tile_array_spec z d R C m _ _ th tw Hm H1 H2 Hth Htw) as (tile & Ht & _).
    now exists tile. }
  destruct (proj2 (map_res_ok_iff _ _) Hall) as (tiles & Htiles).
  exists tiles. split; [exact Htiles|].
  destruct (map_res_nth _ _ _ Htiles) as (Hl & Hn). split; [unfold zlen in *; lia|].
  intros t Ht. destruct (Hrange t Ht) as (H1 & H2).
  specialize (Hn (Z.to_nat t) (0, 0) [] ltac:(unfold zlen in Hlen; lia)).
  specialize (Hoff t (0, 0) Ht). unfold nthz in Hoff. rewrite Hoff in Hn. cbn [fst snd] in Hn.
  destruct (get_tile_array_spec z d R C m _ _ th tw Hm H1 H2 Hth Htw) as (tile & Htile & Hlt & Hpix).
  rewrite Htile in Hn. injection Hn as Hn. unfold nthz at 1 3. rewrite <- Hn.
  split; [exact Hlt|]. intros p Hp. cbv zeta.
  assert (Hpd : 0 <= p / tw < th) by (split; [apply Z.div_pos; lia|apply Z.div_lt_upper_bound; lia]).
  assert (Hpm : 0 <= p mod tw < tw) by (apply Z.mod_pos_bound; lia).
  specialize (Hpix (p / tw) (p mod tw) Hpd Hpm).
  replace (p / tw * tw + p mod tw) with p in Hpix by (rewrite (Z.div_mod p tw) at 1 by lia; ring).
  rewrite Hpix.
  replace (t / n_tiles_along C tw * th + 1 - 1 + p / tw) with (t / n_tiles_along C tw * th + p / tw) by ring.
  replace (t mod n_tiles_along C tw * tw + 1 - 1 + p mod tw) with (t mod n_tiles_along C tw * tw + p mod tw) by ring.
  reflexivity.
Qed.

(* ------------------------------------------------------------------ *)
(* the tiled input and its specification                                *)
(* ------------------------------------------------------------------ *)
Lemma one_plane {A} : forall (ps : list A) d, zlen ps = 1 -> ps = [nthz 0 ps d].
Proof.
  intros ps d H. unfold zlen in H. destruct ps as [|x [|y t]]; cbn [length] in H; try lia. reflexivity.
Qed.

Lemma in_nthz_gen {A} : forall (l : list A) x d, In x l -> exists k, 0 <= k < zlen l /\ nthz k l d = x.
Proof.
  intros l x d H. destruct (In_nth l x d H) as (k & Hk & E). exists (Z.of_nat k).
  unfold nthz, zlen. rewrite Nat2Z.id. split; [lia|exact E].
Qed.

(* the facts of a well-formed matrix *)
Lemma wf_tiled_facts : forall c R C i, well_formed_tiled c R C i = true ->
  1 <= rows c /\ 1 <= cols c /\ 1 <= R /\ 1 <= C /\ n_planes i = 1 /\
  well_formed (tpm_cfg c R C) i = true /\
  match i with
  | Label ps => ps = [nthz 0 ps []] /\ zlen (nthz 0 ps []) = R * C
  | Stack ps => ps = [nthz 0 ps []] /\ zlen (nthz 0 ps []) = R * C
  end.
Proof.
  intros c R C i H. unfold well_formed_tiled in H. split_andb.
  assert (Hn : n_planes i = 1) by lia.
  repeat (split; [lia || assumption|]).
  match goal with Hw : well_formed _ _ = true |- _ => unfold well_formed in Hw; split_andb end.
  match goal with Hs : planes_shaped _ _ = true |- _ => rename Hs into Hsh end.
  destruct i as [ps|ps]; cbn [n_planes planes_shaped] in *.
  - destruct ps as [|m [|y t]]; unfold zlen in Hn; cbn [length] in Hn; try lia.
    change (nthz 0 [m] []) with m. split; [reflexivity|].
    cbn [forallb] in Hsh. unfold npix in Hsh. cbn [tpm_cfg rows cols] in Hsh. lia.
  - destruct ps as [|m [|y t]]; unfold zlen in Hn; cbn [length] in Hn; try lia.
    change (nthz 0 [m] []) with m. split; [reflexivity|].
    cbn [forallb] in Hsh. unfold npix in Hsh. cbn [tpm_cfg rows cols] in Hsh. lia.
Qed.

Lemma n_tiles_pos : forall R C th tw, 1 <= R -> 1 <= C -> 1 <= th -> 1 <= tw -> 1 <= n_tiles R C th tw.
Proof.
  intros R C th tw HR HC Hth Htw. unfold n_tiles.
  destruct (n_tiles_along_facts R th HR Hth) as (H1 & _).
  destruct (n_tiles_along_facts C tw HC Htw) as (H2 & _). nia.
Qed.

(* every well-formed matrix is cut (no refusal), into tiles that are again
   well-formed frames *)
Lemma tile_input_ok : forall c R C i, well_formed_tiled c R C i = true ->
  exists ti, tile_input c R C i = Ok ti /\ well_formed (tiled_cfg c R C) ti = true.
Proof.
  intros c R C i H. destruct (wf_tiled_facts c R C i H) as (Hth & Htw & HR & HC & Hn & Hw & Hi).
  pose proof (n_tiles_pos R C (rows c) (cols c) HR HC Hth Htw) as Hnt.
  unfold well_formed in Hw. split_andb.
  match goal with Hs : planes_shaped _ _ = true |- _ => clear Hs end.
  match goal with Hs : (0 <=? maxfrac _) = true |- _ => rename Hs into Hmf end.
  match goal with Hs : match dt _ with _ => _ end = true |- _ => rename Hs into Hdt end.
  cbn [tpm_cfg dt maxfrac segs den] in Hmf, Hdt.
  destruct i as [ps|ps]; destruct Hi as (Eps & Hm); unfold tile_input.
  - destruct (tile_planes_spec 0 0 R C (rows c) (cols c) (nthz 0 ps []) Hm HR HC Hth Htw)
      as (tiles & Ht & Hlen & Hpix).
    rewrite Ht. cbn [bind]. eexists. split; [reflexivity|].
    unfold well_formed, npix. cbn [tiled_cfg nsrc rows cols maxfrac dt den segs planes_shaped is_stack all_pixels].
    replace (1 <=? rows c * cols c) with true by nia.
    replace (1 <=? n_tiles R C (rows c) (cols c)) with true by lia. rewrite Hmf. cbn [andb].
    apply andb_true_intro. split.
    + apply forallb_forall. intros pl Hpl. destruct (in_nthz_gen tiles pl [] Hpl) as (t & Ht' & <-).
      destruct (Hpix t ltac:(lia)) as (Hl & _). rewrite Hl. apply Z.eqb_refl.
    + destruct (dt c); [|exact Hdt|reflexivity].
      apply forallb_forall. intros v Hv. apply in_concat in Hv as (pl & Hpl & Hv).
      destruct (in_nthz_gen tiles pl [] Hpl) as (t & Ht' & <-).
      destruct (Hpix t ltac:(lia)) as (Hl & Hp).
      destruct (in_nthz_gen _ v 0 Hv) as (p & Hp' & <-). rewrite Hp by lia.
      match goal with |- (0 <=? (if ?b then _ else _)) = true => destruct b eqn:Eb end; [|reflexivity].
      rewrite forallb_forall in Hdt. apply Hdt. cbn [all_pixels]. rewrite Eps. cbn [concat]. rewrite app_nil_r.
      apply nthz_in. rewrite Hm.
      destruct (n_tiles_along_facts C (cols c) HC Htw) as (Hc1 & _).
      assert (0 <= t / n_tiles_along C (cols c)) by (apply Z.div_pos; lia).
      assert (0 <= t mod n_tiles_along C (cols c)) by (apply Z.mod_pos_bound; lia).
      assert (0 <= p / cols c) by (apply Z.div_pos; lia).
      assert (0 <= p mod cols c) by (apply Z.mod_pos_bound; lia).
      nia.
  - destruct (tile_planes_spec (zeros (zlen (segs c))) [] R C (rows c) (cols c) (nthz 0 ps []) Hm HR HC Hth Htw)
      as (tiles & Ht & Hlen & Hpix).
    rewrite Ht. cbn [bind]. eexists. split; [reflexivity|].
    unfold well_formed, npix. cbn [tiled_cfg nsrc rows cols maxfrac dt den segs planes_shaped is_stack].
    replace (1 <=? rows c * cols c) with true by nia.
    replace (1 <=? n_tiles R C (rows c) (cols c)) with true by lia. rewrite Hmf. cbn [andb].
    apply andb_true_intro. split.
    + apply forallb_forall. intros pl Hpl. destruct (in_nthz_gen tiles pl [] Hpl) as (t & Ht' & <-).
      destruct (Hpix t ltac:(lia)) as (Hl & _). rewrite Hl. apply Z.eqb_refl.
    + destruct (dt c); [|exact Hdt|reflexivity].
      apply forallb_forall. intros v Hv. cbn [all_pixels] in Hv.
      apply in_concat in Hv as (l & Hl & Hv). apply in_map_iff in Hl as (pl & <- & Hpl).
      apply in_concat in Hv as (ch & Hch & Hv).
      destruct (in_nthz_gen tiles pl [] Hpl) as (t & Ht' & <-).
      destruct (Hpix t ltac:(lia)) as (Hl & Hp).
      destruct (in_nthz_gen _ ch [] Hch) as (p & Hp' & <-). rewrite Hp in Hv by lia.
      match type of Hv with In v (if ?b then _ else _) => destruct b eqn:Eb end.
      * rewrite forallb_forall in Hdt. apply Hdt.
        apply (in_stack_all ps (nthz 0 ps []) (nthz ((t / n_tiles_along C (cols c) * rows c + p / cols c) * C +
                 (t mod n_tiles_along C (cols c) * cols c + p mod cols c)) (nthz 0 ps []) []) v); [|
          |exact Hv].
        -- rewrite Eps at 2. now left.
        -- apply nthz_in. rewrite Hm.
           destruct (n_tiles_along_facts C (cols c) HC Htw) as (Hc1 & _).
           assert (0 <= t / n_tiles_along C (cols c)) by (apply Z.div_pos; lia).
           assert (0 <= t mod n_tiles_along C (cols c)) by (apply Z.mod_pos_bound; lia).
           assert (0 <= p / cols c) by (apply Z.div_pos; lia).
           assert (0 <= p mod cols c) by (apply Z.mod_pos_bound; lia).
           nia.
      * unfold zeros in Hv. apply repeat_spec in Hv. subst v. reflexivity.
Qed.

(* the stored value the specification assigns to a zero pixel is zero *)
Lemma zero_pixel_label : forall c (ps : list (list Z)) j p k,
  nthz p (nthz j ps []) 0 = 0 -> nthz k (segs c) 0 <> 0 -> (dt c = DFloat -> 0 < den c) ->
  expected_pixel c (Label ps) j p k = 0.
Proof.
  intros c ps j p k Hv Hs Hd. unfold expected_pixel. rewrite Hv.
  destruct (dt c) eqn:Ed; destruct (ty c); cbn [Z.mul];
    try rewrite Z.div_0_l by (specialize (Hd eq_refl); lia);
    try (replace (0 =? nthz k (segs c) 0) with false by lia; reflexivity);
    apply rhe_zero; now apply Hd.
Qed.

Lemma zero_pixel_stack : forall c (ps : list (list (list Z))) j p k,
  nthz k (nthz p (nthz j ps []) []) 0 = 0 -> (dt c = DFloat -> 0 < den c) ->
  expected_pixel c (Stack ps) j p k = 0.
Proof.
  intros c ps j p k Hv Hd. unfold expected_pixel. rewrite Hv.
  destruct (dt c) eqn:Ed; destruct (ty c); cbn [Z.mul];
    try rewrite Z.div_0_l by (specialize (Hd eq_refl); lia);
    try reflexivity; apply rhe_zero; now apply Hd.
Qed.

(* expected_pixel looks at the configuration only through type, dtype, den,
   max_fractional_value and the segment numbers *)
Lemma expected_pixel_cfg : forall c c' i j p k,
  ty c = ty c' -> dt c = dt c' -> den c = den c' -> maxfrac c = maxfrac c' -> segs c = segs c' ->
  expected_pixel c i j p k = expected_pixel c' i j p k.
Proof. intros c c' i j p k E1 E2 E3 E4 E5. unfold expected_pixel. now rewrite E1, E2, E3, E4, E5. Qed.

(* THE SPECIFICATION OF THE CUT: what the frame loop is given for tile t is, value
   for value, what the matrix holds under that tile (zero beyond the edge) *)
Lemma tiled_expected_pixel : forall c R C i ti,
  well_formed_tiled c R C i = true -> tile_input c R C i = Ok ti ->
  (forall s, In s (segs c) -> 1 <= s) -> (dt c = DFloat -> 0 < den c) ->
  forall t p k, 0 <= t < n_tiles R C (rows c) (cols c) -> 0 <= p < rows c * cols c ->
    0 <= k < zlen (segs c) ->
    expected_pixel (tiled_cfg c R C) ti t p k = expected_tile_pixel c R C i t p k.
Proof.
  intros c R C i ti H Hti Hsg Hden t p k Ht Hp Hk.
  destruct (wf_tiled_facts c R C i H) as (Hth & Htw & HR & HC & Hn & Hw & Hi).
  assert (Hs : nthz k (segs c) 0 <> 0) by (specialize (Hsg _ (nthz_in (segs c) k 0 Hk)); lia).
  unfold expected_tile_pixel.
  replace ((0 <=? t) && (t <? n_tiles R C (rows c) (cols c))) with true by lia. cbn [andb].
  rewrite (expected_pixel_cfg (tiled_cfg c R C) c) by reflexivity.
  rewrite (expected_pixel_cfg (tpm_cfg c R C) c) by reflexivity.
  destruct i as [ps|ps]; destruct Hi as (Eps & Hm); unfold tile_input in Hti.
  - destruct (tile_planes_spec 0 0 R C (rows c) (cols c) (nthz 0 ps []) Hm HR HC Hth Htw)
      as (tiles & Htl & Hlen & Hpix).
    rewrite Htl in Hti. cbn [bind] in Hti. injection Hti as <-.
    destruct (Hpix t Ht) as (_ & Hpx). specialize (Hpx p Hp). cbv zeta in Hpx.
    destruct ((t / n_tiles_along C (cols c) * rows c + p / cols c <? R) &&
              (t mod n_tiles_along C (cols c) * cols c + p mod cols c <? C)) eqn:Eb.
    + unfold expected_pixel. now rewrite Hpx.
    + now apply zero_pixel_label.
  - destruct (tile_planes_spec (zeros (zlen (segs c))) [] R C (rows c) (cols c) (nthz 0 ps []) Hm HR HC Hth Htw)
      as (tiles & Htl & Hlen & Hpix).
    rewrite Htl in Hti. cbn [bind] in Hti. injection Hti as <-.
    destruct (Hpix t Ht) as (_ & Hpx). specialize (Hpx p Hp). cbv zeta in Hpx.
    destruct ((t / n_tiles_along C (cols c) * rows c + p / cols c <? R) &&
              (t mod n_tiles_along C (cols c) * cols c + p mod cols c <? C)) eqn:Eb.
    + unfold expected_pixel. now rewrite Hpx.
    + apply zero_pixel_stack; [|exact Hden]. rewrite Hpx. apply nthz_zeros.
Qed.

(* ------------------------------------------------------------------ *)
(* the round trip of a total pixel matrix                               *)
(* ------------------------------------------------------------------ *)
Lemma construct_tiled_inv : forall c R C full i st, construct_tiled c R C full i = Ok st ->
  n_planes i = 1 /\ R = srows c /\ C = scols c /\
  exists ti, tile_input c R C i = Ok ti /\
             construct (tiled_cfg c R C) ti (zrange (nsrc (tiled_cfg c R C))) = Ok st /\
             (full = true -> omit_on (tiled_cfg c R C) ti = false).
Proof.
  intros c R C full i st H. unfold construct_tiled in H.
  destruct (n_planes i =? 1) eqn:E1; cbn [negb] in H; [|discriminate].
  destruct (tile_input c R C i) as [ti|e] eqn:E2; cbn [bind] in H; [|discriminate].
  destruct (construct (tiled_cfg c R C) ti (zrange (nsrc (tiled_cfg c R C)))) as [st0|e] eqn:E3;
    cbn [bind] in H; [|discriminate].
  destruct ((R =? srows c) && (C =? scols c)) eqn:E4; cbn [negb] in H; [|discriminate].
  destruct (full && omit_on (tiled_cfg c R C) ti) eqn:E5; [discriminate|]. injection H as <-.
  split; [lia|]. split; [lia|]. split; [lia|]. exists ti. split; [reflexivity|]. split; [exact E3|].
  intros ->. exact E5.
Qed.

Lemma expected_req_tiled : forall c R C i ti,
  well_formed_tiled c R C i = true -> tile_input c R C i = Ok ti ->
  (forall s, In s (segs c) -> 1 <= s) -> (dt c = DFloat -> 0 < den c) ->
  forall req, expected_req (tiled_cfg c R C) ti true req = expected_tiled_req c R C i req.
Proof.
  intros c R C i ti H Hti Hsg Hden req. unfold expected_req, expected_tiled_req.
  apply map_ext. intros f. unfold src_index, expected_plane, expected_tile_plane, npix.
  cbn [tiled_cfg rows cols segs]. apply map_ext_in. intros p Hp. apply in_zrange in Hp.
  apply map_ext_in. intros k Hk. apply in_zrange in Hk.
  unfold in_src. change (nsrc (tiled_cfg c R C)) with (n_tiles R C (rows c) (cols c)).
  destruct ((0 <=? f - 1) && (f - 1 <? n_tiles R C (rows c) (cols c))) eqn:Ein.
  - apply (tiled_expected_pixel c R C i ti); auto. lia.
  - unfold expected_tile_pixel. now rewrite Ein.
Qed.

(* THE PROPERTY for a mask handed over as ONE total pixel matrix, no hypothesis on
   its content: whatever well-formed matrix the constructor accepts (any tile size,
   the matrix a whole number of tiles or not, TILED_SPARSE or TILED_FULL) reads
   back, for every list of source frame numbers passing the guards, from every
   object and cache state, as the part of the matrix under each requested frame
   - zero beyond the bottom / right edge, zero planes for frames that are not there *)
Theorem tiled_no_silent_corruption : forall c R C full i st,
  well_formed_tiled c R C i = true -> construct_tiled c R C full i = Ok st ->
  forall lazy warm req am,
    read_guard st req true am = Ok tt ->
    read_g (frame_getter lazy warm st) st req true am = Ok (expected_tiled_req c R C i req).
Proof.
  intros c R C full i st H Hc lazy warm req am Hg.
  destruct (construct_tiled_inv c R C full i st Hc) as (_ & _ & _ & ti & Hti & Hcon & _).
  destruct (tile_input_ok c R C i H) as (ti' & Hti' & Hwf). rewrite Hti in Hti'. injection Hti' as <-.
  pose proof (construct_ok_valid _ _ _ _ Hcon Hwf) as Hv.
  destruct (valid_basic _ _ Hv) as (Hsn & _). cbn [tiled_cfg ty segs] in Hsn.
  destruct (segs_facts c Hsn) as (_ & Hsg & _).
  assert (Hden : dt c = DFloat -> 0 < den c).
  { intros Ed. unfold well_formed in Hwf. cbn [tiled_cfg dt den] in Hwf. rewrite Ed in Hwf. split_andb. lia. }
  rewrite <- (expected_req_tiled c R C i ti H Hti Hsg Hden req).
  apply (no_silent_corruption (tiled_cfg c R C) ti (zrange (nsrc (tiled_cfg c R C))) st); auto.
Qed.

(* in particular: all source frames in order, eagerly and lazily *)
Theorem tiled_roundtrip_by_frame : forall c R C full i st,
  well_formed_tiled c R C i = true -> construct_tiled c R C full i = Ok st ->
  forall lazy, read_by_frame lazy st (one_to (n_tiles R C (rows c) (cols c))) true
               = Ok (expected_tiled_req c R C i (one_to (n_tiles R C (rows c) (cols c)))).
Proof.
  intros c R C full i st H Hc lazy.
  destruct (construct_tiled_inv c R C full i st Hc) as (_ & _ & _ & ti & Hti & Hcon & _).
  destruct (tile_input_ok c R C i H) as (ti' & Hti' & Hwf). rewrite Hti in Hti'. injection Hti' as <-.
  pose proof (construct_ok_valid _ _ _ _ Hcon Hwf) as Hv.
  destruct (valid_basic _ _ Hv) as (Hsn & _ & _ & Hnp & _). cbn [tiled_cfg ty segs] in Hsn.
  destruct (segs_facts c Hsn) as (_ & Hsg & _).
  assert (Hden : dt c = DFloat -> 0 < den c).
  { intros Ed. unfold well_formed in Hwf. cbn [tiled_cfg dt den] in Hwf. rewrite Ed in Hwf. split_andb. lia. }
  pose proof (roundtrip_by_frame (tiled_cfg c R C) ti _ st Hv (Permutation_refl _) Hcon lazy) as Hr.
  change (nsrc (tiled_cfg c R C)) with (n_tiles R C (rows c) (cols c)) in Hr, Hnp.
  rewrite Hr. f_equal. unfold expected, expected_tiled_req, one_to. rewrite Hnp, map_map.
  apply map_ext_in. intros j Hj. apply in_zrange in Hj.
  replace (j + 1 - 1) with j by ring. unfold expected_tile_plane, npix.
  change (rows (tiled_cfg c R C)) with (rows c). change (cols (tiled_cfg c R C)) with (cols c).
  change (segs (tiled_cfg c R C)) with (segs c).
  apply map_ext_in. intros p Hp. apply in_zrange in Hp.
  apply map_ext_in. intros k Hk. apply in_zrange in Hk.
  now apply (tiled_expected_pixel c R C i ti).
Qed.

(* non-vacuity: a 3 x 5 label map in tiles of 2 x 3 (2 x 2 tiles, the last tile
   row and the last tile column only partly covered): the tiles, with the zeros
   BELOW / RIGHT of the data; the matrix is well-formed and valid, the constructor
   accepts it, stores every tile and the by-frame read returns the tiles *)
Lemma nonvacuous_tiled :
  let c := Cfg LABELMAP DInt 1 1 false [1; 2] 2 3 3 5 4 true in
  let m := [1;1;0;2;2;  0;1;0;0;2;  2;0;0;1;1] in
  tile_planes 0 3 5 2 3 m = Ok [[1;1;0; 0;1;0]; [2;2;0; 0;2;0]; [2;0;0; 0;0;0]; [1;1;0; 0;0;0]] /\
  get_tile_array 0 3 5 m 3 4 2 3 = Ok [1;1;0; 0;0;0] /\
  get_tile_array 0 3 5 m 4 1 2 3 = Err "ValueError"%string /\
  well_formed_tiled c 3 5 (Label [m]) = true /\ valid_tiled c 3 5 (Label [m]) = true /\
  tiled_spec_holds c 3 5 false (Label [m]) = true /\
  match construct_tiled c 3 5 false (Label [m]) with
  | Ok st => s_meta st = [(0, 0); (0, 1); (0, 2); (0, 3)] /\
             read_by_frame true st [4; 1] false
               = Ok [[[1;0];[1;0];[0;0]; [0;0];[0;0];[0;0]]; [[1;0];[1;0];[0;0]; [0;0];[1;0];[0;0]]]
  | Err _ => False
  end /\
  construct_tiled c 3 5 true (Label [m]) <> construct_tiled c 3 4 true (Label [m]).
Proof. vm_compute. repeat split; discriminate. Qed.

(* ------------------------------------------------------------------ *)
(* the order of the source frames (finding D113)                        *)
(* ------------------------------------------------------------------ *)
Lemma expected_tile_plane_out : forall c R C i t t',
  (0 <=? t) && (t <? n_tiles R C (rows c) (cols c)) = false ->
  (0 <=? t') && (t' <? n_tiles R C (rows c) (cols c)) = false ->
  expected_tile_plane c R C i t = expected_tile_plane c R C i t'.
Proof.
  intros c R C i t t' H H'. unfold expected_tile_plane. apply map_ext. intros p. apply map_ext. intros k.
  unfold expected_tile_pixel. now rewrite H, H'.
Qed.

(* a source that lists its frames in row-major tile order: the demand of the
   property is the specification the theorems above are stated with *)
Lemma order_row_major : forall c R C i req,
  expected_tiled_req_order c R C i (zrange (n_tiles R C (rows c) (cols c))) req
  = expected_tiled_req c R C i req.
Proof.
  intros c R C i req. unfold expected_tiled_req_order, expected_tiled_req. apply map_ext. intros f.
  unfold frame_tile. set (n := n_tiles R C (rows c) (cols c)).
  assert (Hl : zlen (zrange n) = Z.max 0 n) by (unfold zlen; rewrite zrange_length; lia).
  rewrite Hl. destruct ((1 <=? f) && (f <=? Z.max 0 n)) eqn:E.
  - rewrite nthz_zrange by lia. reflexivity.
  - apply expected_tile_plane_out; fold n; lia.
Qed.

(* THE PROPERTY for tile_pixel_array=True, under the hypothesis it needs in the
   code as it is: the source lists its frames in row-major tile order *)
Theorem tiled_row_major_order : forall c R C full i st,
  well_formed_tiled c R C i = true -> construct_tiled c R C full i = Ok st ->
  forall lazy warm req am,
    read_guard st req true am = Ok tt ->
    read_g (frame_getter lazy warm st) st req true am
    = Ok (expected_tiled_req_order c R C i (zrange (n_tiles R C (rows c) (cols c))) req).
Proof.
  intros c R C full i st H Hc lazy warm req am Hg. rewrite order_row_major.
  now apply (tiled_no_silent_corruption c R C full i st).
Qed.

(* ... and WITHOUT that hypothesis the property is refuted (finding D113, open):
   a 4 x 6 matrix in 2 x 3 tiles whose only non-zero pixel is the top-left one,
   the source listing its four frames bottom-right first; the top-left pixel
   lies under source frame 4, the by-frame read shows it under frame 1 *)
Theorem tiled_any_order_refuted :
  exists c R C i forder,
    well_formed_tiled c R C i = true /\ valid_tiled c R C i = true /\
    Permutation forder (zrange (n_tiles R C (rows c) (cols c))) /\
    match construct_tiled c R C false i with
    | Ok st => read_by_frame false st [1; 2; 3; 4] false
               <> Ok (expected_tiled_req_order c R C i forder [1; 2; 3; 4]) /\
               read_by_frame false st [1; 2; 3; 4] false
               = Ok [[[1];[0];[0];[0];[0];[0]]; [[0];[0];[0];[0];[0];[0]];
                     [[0];[0];[0];[0];[0];[0]]; [[0];[0];[0];[0];[0];[0]]] /\
               expected_tiled_req_order c R C i forder [4] = [[[1];[0];[0];[0];[0];[0]]]
    | Err _ => False
    end.
Proof.
  exists (Cfg BINARY DInt 1 1 false [1] 2 3 4 6 4 true), 4, 6,
         (Label [[1;0;0;0;0;0; 0;0;0;0;0;0; 0;0;0;0;0;0; 0;0;0;0;0;0]]), [3; 2; 1; 0].
  split; [reflexivity|]. split; [reflexivity|]. split.
  - change (Permutation (rev [0; 1; 2; 3]) [0; 1; 2; 3]). apply Permutation_sym, Permutation_rev.
  - vm_compute. repeat split. discriminate.
Qed.
