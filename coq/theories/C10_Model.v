(* C10 - coordinate transforms: executable model over Q of
   highdicom/spatial.py  (get_normal_vector, create_rotation_matrix,
   create_affine_matrix_from_attributes, _create_inv_affine_matrix_from_attributes,
   rotation_for_patient_orientation, create_affine_matrix_from_components,
   _is_matrix_orthogonal, get_closest_patient_orientation, _transform_affine_matrix,
   _transform_affine_to_convention, _are_images_coplanar, the six transformer
   classes, map_pixel_into_coordinate_system, map_coordinate_into_pixel_matrix)
   and highdicom/volume.py (VolumeGeometry.from_attributes / from_components and
   the accessors spacing, position, center_position, direction_cosines, handedness,
   get_affine).
   Exact rational arithmetic stands for float64; np.linalg.inv is the adjugate
   formula; np.allclose tolerances are explicit rationals.  NO proofs here. *)
From Coq Require Import String Ascii ZArith List Bool QArith Qabs Qround.
From HD Require Import Base.Val.
Import ListNotations.
Open Scope Q_scope.

Definition EValue : string := "ValueError"%string.
Definition EType : string := "TypeError"%string.
Definition ERuntime : string := "RuntimeError"%string.

(* ------------------------------------------------------------------ *)
(* 3-vectors, 3x3 matrices (stored by columns), affine maps            *)
(* ------------------------------------------------------------------ *)
Record vec := V3 { vx : Q; vy : Q; vz : Q }.
Definition vadd a b := V3 (vx a + vx b) (vy a + vy b) (vz a + vz b).
Definition vsub a b := V3 (vx a - vx b) (vy a - vy b) (vz a - vz b).
Definition vneg a := V3 (- vx a) (- vy a) (- vz a).
Definition smul k a := V3 (k * vx a) (k * vy a) (k * vz a).
Definition dot a b := vx a * vx b + vy a * vy b + vz a * vz b.
Definition cross a b :=
  V3 (vy a * vz b - vz a * vy b) (vz a * vx b - vx a * vz b) (vx a * vy b - vy a * vx b).

Record mat := M3 { c0 : vec; c1 : vec; c2 : vec }.
Definition mapply M p := vadd (vadd (smul (vx p) (c0 M)) (smul (vy p) (c1 M))) (smul (vz p) (c2 M)).
Definition mmul A B := M3 (mapply A (c0 B)) (mapply A (c1 B)) (mapply A (c2 B)).
Definition det M := dot (c0 M) (cross (c1 M) (c2 M)).
Definition row0 M := V3 (vx (c0 M)) (vx (c1 M)) (vx (c2 M)).
Definition row1 M := V3 (vy (c0 M)) (vy (c1 M)) (vy (c2 M)).
Definition row2 M := V3 (vz (c0 M)) (vz (c1 M)) (vz (c2 M)).
Definition transpose M := M3 (row0 M) (row1 M) (row2 M).
Definition mident := M3 (V3 1 0 0) (V3 0 1 0) (V3 0 0 1).

(* np.linalg.inv, exact: rows of the inverse are the cross products of the
   columns divided by the determinant; a singular matrix raises LinAlgError,
   which is a subclass of ValueError *)
(* [vred] only normalises the representation of the fractions (Qred q == q);
   it keeps vm_compute fast through chains of products *)
Definition vred (v : vec) : vec := V3 (Qred (vx v)) (Qred (vy v)) (Qred (vz v)).
Definition mred (M : mat) : mat := M3 (vred (c0 M)) (vred (c1 M)) (vred (c2 M)).
Definition inv3 (M : mat) : res mat :=
  let d := Qred (det M) in
  if Qeq_bool d 0 then Err EValue
  else Ok (mred (transpose (M3 (smul (/ d) (cross (c1 M) (c2 M)))
                               (smul (/ d) (cross (c2 M) (c0 M)))
                               (smul (/ d) (cross (c0 M) (c1 M)))))).

Record aff := Aff { lin : mat; tr : vec }.
Definition aapply A p := vadd (mapply (lin A) p) (tr A).
(* 4x4 matrix product of two affines whose last row is 0 0 0 1 *)
Definition acomp A B :=
  Aff (mred (mmul (lin A) (lin B))) (vred (vadd (mapply (lin A) (tr B)) (tr A))).
Definition shift2 (h : Q) : aff := Aff mident (V3 h h 0).   (* the +-0.5 correction matrices *)

Definition Qlt_b (a b : Q) : bool := negb (Qle_bool b a).

(* np.around / round: half to even *)
Definition rne (q : Q) : Z :=
  let f := Qfloor q in
  match Qcompare (q - inject_Z f) (1 # 2) with
  | Lt => f
  | Gt => (f + 1)%Z
  | Eq => if Z.even f then f else (f + 1)%Z
  end.
(* astype(int) of a float: truncation toward zero *)
Definition qtrunc (q : Q) : Z := if Qle_bool 0 q then Qfloor q else Qceiling q.

(* ------------------------------------------------------------------ *)
(* argument shapes at the Python boundary                              *)
(* ------------------------------------------------------------------ *)
Inductive arg := ASeq (l : list Q) | AScalar (q : Q).
Definition seq_len (n : nat) (a : arg) : res (list Q) :=
  match a with
  | AScalar _ => Err EType
  | ASeq l => if Nat.eqb (length l) n then Ok l else Err EValue
  end.
Definition vec_of (l : list Q) : res vec :=
  match l with [a; b; c] => Ok (V3 a b c) | _ => Err EValue end.
Definition ori_of (l : list Q) : res (vec * vec) :=
  match l with [a; b; c; d; e; f] => Ok (V3 a b c, V3 d e f) | _ => Err EValue end.
Definition pair_of (l : list Q) : res (Q * Q) :=
  match l with [a; b] => Ok (a, b) | _ => Err EValue end.

Inductive pdir := PR | PL | PD | PU.
Inductive hand := RH | LH.
Definition pdir_of_ascii (a : ascii) : option pdir :=
  if Ascii.eqb a "R" then Some PR else if Ascii.eqb a "L" then Some PL
  else if Ascii.eqb a "D" then Some PD else if Ascii.eqb a "U" then Some PU else None.
Definition pdir_eqb (a b : pdir) : bool :=
  match a, b with PR, PR | PL, PL | PD, PD | PU, PU => true | _, _ => false end.
Definition is_horizontal d := match d with PR | PL => true | _ => false end.

(* _normalize_pixel_index_convention *)
Definition normalize_pix (s : list ascii) : res (pdir * pdir) :=
  match s with
  | [a; b] =>
      match pdir_of_ascii a, pdir_of_ascii b with
      | Some d0, Some d1 =>
          (* exactly one of L/R and exactly one of U/D *)
          if xorb (is_horizontal d0) (is_horizontal d1) then Ok (d0, d1) else Err EValue
      | _, _ => Err EValue
      end
  | _ => Err EValue
  end.
Definition hand_of_string (s : string) : res hand :=
  if String.eqb s "RIGHT_HANDED" then Ok RH
  else if String.eqb s "LEFT_HANDED" then Ok LH else Err EValue.

(* ------------------------------------------------------------------ *)
(* get_normal_vector, create_rotation_matrix                           *)
(* ------------------------------------------------------------------ *)
Definition conv_vec (d : pdir) (r c : vec) : vec :=
  match d with PR => r | PL => vneg r | PD => c | PU => vneg c end.
Definition conv_sp (d : pdir) (sr sc : Q) : Q :=
  match d with PR | PL => sc | PD | PU => sr end.
Definition normal (h : hand) (a b : vec) : vec :=
  match h with RH => cross a b | LH => cross b a end.

Definition rotation_core (r c : vec) (d0 d1 : pdir) (sf : bool) (h : hand) (sr sc ss : Q) : mat :=
  let a := conv_vec d0 r c in
  let b := conv_vec d1 r c in
  let n := normal h a b in
  let sa := conv_sp d0 sr sc in
  let sb := conv_sp d1 sr sc in
  if sf then M3 (smul ss n) (smul sa a) (smul sb b)
  else M3 (smul sa a) (smul sb b) (smul ss n).

(* pixel_spacing of create_rotation_matrix: a scalar is used for both *)
Definition spacing2 (sp : arg) : res (Q * Q) :=
  match sp with
  | AScalar q => Ok (q, q)
  | ASeq l => pair_of l
  end.

Definition create_rotation_matrix (ori : list Q) (conv : list ascii) (sf : bool)
    (hs : string) (sp : arg) (ss : Q) : res mat :=
  bind (ori_of ori) (fun rc =>
  bind (normalize_pix conv) (fun dd =>
  bind (hand_of_string hs) (fun h =>
  bind (spacing2 sp) (fun s2 =>
  let '(sr, sc) := s2 in
  if Qle_bool sr 0 || Qle_bool sc 0 then Err EValue
  else Ok (rotation_core (fst rc) (snd rc) (fst dd) (snd dd) sf h sr sc ss))))).

Definition get_normal_vector (ori : list Q) (conv : list ascii) (hs : string) : res vec :=
  bind (ori_of ori) (fun rc =>
  bind (normalize_pix conv) (fun dd =>
  bind (hand_of_string hs) (fun h =>
  Ok (normal h (conv_vec (fst dd) (fst rc) (snd rc)) (conv_vec (snd dd) (fst rc) (snd rc)))))).

(* the type/length checks shared by both affine constructors, in code order *)
Definition check_args (pos ori sp : arg) : res (vec * list Q * list Q) :=
  bind (seq_len 3 pos) (fun p =>
  bind (seq_len 6 ori) (fun o =>
  bind (seq_len 2 sp) (fun s =>
  bind (vec_of p) (fun pv => Ok (pv, o, s))))).

Definition RD : list ascii := ["R"%char; "D"%char].
Definition DR : list ascii := ["D"%char; "R"%char].

(* create_affine_matrix_from_attributes *)
Definition affine_from_attributes (pos ori sp : arg) (ss : Q) (conv : list ascii)
    (sf : bool) (hs : string) : res aff :=
  bind (check_args pos ori sp) (fun a =>
  let '(pv, o, s) := a in
  bind (normalize_pix conv) (fun dd =>
  if pdir_eqb (fst dd) PL || pdir_eqb (fst dd) PU || pdir_eqb (snd dd) PL || pdir_eqb (snd dd) PU
  then Err EValue
  else bind (create_rotation_matrix o conv sf hs (ASeq s) ss) (fun R => Ok (Aff R pv)))).

(* _create_inv_affine_matrix_from_attributes *)
Definition inv_affine_from_attributes (pos ori sp : arg) (ss : Q) : res aff :=
  bind (check_args pos ori sp) (fun a =>
  let '(pv, o, s) := a in
  bind (create_rotation_matrix o RD false "RIGHT_HANDED" (ASeq s) ss) (fun R =>
  bind (inv3 R) (fun Ri => Ok (Aff Ri (vred (vneg (mapply Ri pv))))))).

(* ------------------------------------------------------------------ *)
(* _are_images_coplanar                                                *)
(* ------------------------------------------------------------------ *)
Definition tol5 : Q := 1 # 100000.
Definition coplanar_core (tol : Q) (pa ra ca pb rb cb : vec) : bool :=
  let na := cross ra ca in
  let nb := cross rb cb in
  if Qlt_b tol (1 - Qabs (dot na nb)) then false
  else Qlt_b (Qabs (dot pa na - dot pb na)) tol.
(* numpy raises ValueError for orientations / positions of the wrong size *)
Definition are_images_coplanar (pa oa pb ob : list Q) : res bool :=
  bind (ori_of oa) (fun a =>
  bind (ori_of ob) (fun b =>
  bind (vec_of pa) (fun p =>
  bind (vec_of pb) (fun q =>
  Ok (coplanar_core tol5 p (fst a) (snd a) q (fst b) (snd b)))))).

(* ------------------------------------------------------------------ *)
(* the six transformers                                                *)
(* ------------------------------------------------------------------ *)
Definition RHs : string := "RIGHT_HANDED"%string.

Definition p2r_make (pos ori sp : arg) : res aff := affine_from_attributes pos ori sp 1 RD false RHs.
Definition r2p_make (pos ori sp : arg) (ss : Q) : res aff := inv_affine_from_attributes pos ori sp ss.
Definition i2r_make (pos ori sp : arg) : res aff :=
  bind (affine_from_attributes pos ori sp 1 RD false RHs) (fun A => Ok (acomp A (shift2 (- (1 # 2))))).
Definition r2i_make (pos ori sp : arg) (ss : Q) : res aff :=
  bind (inv_affine_from_attributes pos ori sp ss) (fun A => Ok (acomp (shift2 (1 # 2)) A)).

Definition list_of_arg (a : arg) : res (list Q) :=
  match a with ASeq l => Ok l | AScalar _ => Err EValue end.
Definition coplanar_guard (pos_f ori_f pos_t ori_t : arg) : res unit :=
  bind (list_of_arg ori_f) (fun of_ =>
  bind (list_of_arg ori_t) (fun ot =>
  bind (list_of_arg pos_f) (fun pf =>
  bind (list_of_arg pos_t) (fun pt =>
  bind (are_images_coplanar pf of_ pt ot) (fun ok =>
  if ok then Ok tt else Err EValue))))).

Definition p2p_make (pos_f ori_f sp_f pos_t ori_t sp_t : arg) : res aff :=
  bind (coplanar_guard pos_f ori_f pos_t ori_t) (fun _ =>
  bind (affine_from_attributes pos_f ori_f sp_f 1 RD false RHs) (fun P =>
  bind (inv_affine_from_attributes pos_t ori_t sp_t 1) (fun Rv => Ok (acomp Rv P)))).
Definition i2i_make (pos_f ori_f sp_f pos_t ori_t sp_t : arg) : res aff :=
  bind (coplanar_guard pos_f ori_f pos_t ori_t) (fun _ =>
  bind (inv_affine_from_attributes pos_t ori_t sp_t 1) (fun Rv =>
  bind (affine_from_attributes pos_f ori_f sp_f 1 RD false RHs) (fun P =>
  Ok (acomp (acomp (acomp (shift2 (1 # 2)) Rv) P) (shift2 (- (1 # 2))))))).

(* __call__ bodies on typed points *)
Definition call_2to3 (A : aff) (pts : list (Q * Q)) : list vec :=
  map (fun p => aapply A (V3 (fst p) (snd p) 0)) pts.
Definition call_3to3 (A : aff) (pts : list vec) : list vec := map (aapply A) pts.
Definition call_2to2 (A : aff) (pts : list (Q * Q)) : list (Q * Q) :=
  map (fun p => let v := aapply A (V3 (fst p) (snd p) 0) in (vx v, vy v)) pts.

(* "abs(out[:, 2]).max() > 0.5" *)
Definition off_plane (out : list vec) : bool :=
  existsb (fun v => Qlt_b (1 # 2) (Qabs (vz v))) out.

Inductive pts_out :=
| OutQ3 (l : list vec) | OutQ2 (l : list (Q * Q))
| OutZ3 (l : list (Z * Z * Z)) | OutZ2 (l : list (Z * Z)).

Definition round3 (l : list vec) := map (fun v => (rne (vx v), rne (vy v), rne (vz v))) l.
Definition round2 (l : list (Q * Q)) := map (fun p => (rne (fst p), rne (snd p))) l.
Definition drop3 (l : list vec) : list (Q * Q) := map (fun v => (vx v, vy v)) l.

(* ReferenceToPixelTransformer.__call__ *)
Definition r2p_call (A : aff) (round drop : bool) (pts : list vec) : res pts_out :=
  let out := call_3to3 A pts in
  if drop then
    match out with
    | [] => Err EValue                               (* max() of an empty array *)
    | _ => if off_plane out then Err ERuntime
           else Ok (if round then OutZ2 (round2 (drop3 out)) else OutQ2 (drop3 out))
    end
  else Ok (if round then OutZ3 (round3 out) else OutQ3 out).
(* ReferenceToImageTransformer.__call__ *)
Definition r2i_call (A : aff) (drop : bool) (pts : list vec) : res pts_out :=
  r2p_call A false drop pts.
Definition p2p_call (A : aff) (round : bool) (pts : list (Q * Q)) : pts_out :=
  let out := call_2to2 A pts in if round then OutZ2 (round2 out) else OutQ2 out.

(* single-point helpers *)
Definition map_pixel_into_coordinate_system (idx : Q * Q) (pos ori sp : arg) : res vec :=
  bind (p2r_make pos ori sp) (fun A =>
  (* np.array([index], dtype=int) truncates *)
  match call_2to3 A [(inject_Z (qtrunc (fst idx)), inject_Z (qtrunc (snd idx)))] with
  | [v] => Ok v
  | _ => Err EValue
  end).
Definition map_coordinate_into_pixel_matrix (x : vec) (pos ori sp : arg) (ss : Q) : res (Z * Z * Z) :=
  bind (r2p_make pos ori sp ss) (fun A =>
  bind (r2p_call A true false [x]) (fun o =>
  match o with OutZ3 [t] => Ok t | _ => Err EValue end)).

(* ------------------------------------------------------------------ *)
(* patient orientation letters                                         *)
(* ------------------------------------------------------------------ *)
Inductive letter := oL | oR | oP | oA | oH | oF.
Definition letter_of_ascii (a : ascii) : option letter :=
  if Ascii.eqb a "L" then Some oL else if Ascii.eqb a "R" then Some oR
  else if Ascii.eqb a "P" then Some oP else if Ascii.eqb a "A" then Some oA
  else if Ascii.eqb a "H" then Some oH else if Ascii.eqb a "F" then Some oF else None.
Definition letter_name (l : letter) : string :=
  match l with oL => "L" | oR => "R" | oP => "P" | oA => "A" | oH => "H" | oF => "F" end.
Definition letter_eqb (a b : letter) : bool :=
  match a, b with
  | oL, oL | oR, oR | oP, oP | oA, oA | oH, oH | oF, oF => true
  | _, _ => false
  end.
Definition axis_of (l : letter) : nat :=
  match l with oL | oR => 0 | oP | oA => 1 | oH | oF => 2 end%nat.
Definition opposite (l : letter) : letter :=
  match l with oL => oR | oR => oL | oP => oA | oA => oP | oH => oF | oF => oH end.
Definition letter_vec (l : letter) : vec :=
  match l with
  | oL => V3 1 0 0 | oR => V3 (-1) 0 0
  | oP => V3 0 1 0 | oA => V3 0 (-1) 0
  | oH => V3 0 0 1 | oF => V3 0 0 (-1)
  end.
Definition pos_letter (i : nat) : letter := match i with O => oL | S O => oP | _ => oH end.
Definition neg_letter (i : nat) : letter := match i with O => oR | S O => oA | _ => oF end.

Definition mem_letter (l : letter) (ls : list letter) : bool := existsb (letter_eqb l) ls.
Fixpoint all_some {A} (l : list (option A)) : option (list A) :=
  match l with
  | [] => Some []
  | Some x :: t => match all_some t with Some r => Some (x :: r) | None => None end
  | None :: _ => None
  end.

(* _normalize_patient_orientation *)
Definition valid_po (c : list letter) : bool :=
  xorb (mem_letter oL c) (mem_letter oR c) &&
  xorb (mem_letter oA c) (mem_letter oP c) &&
  xorb (mem_letter oF c) (mem_letter oH c).
Definition normalize_po (s : list ascii) : res (list letter) :=
  if negb (Nat.eqb (length s) 3) then Err EValue
  else match all_some (map letter_of_ascii s) with
       | None => Err EValue
       | Some c => if valid_po c then Ok c else Err EValue
       end.

(* rotation_for_patient_orientation *)
Inductive sarg := SFloat (q : Q) | SInt (z : Z) | SSeq (l : list Q).
Definition rot_for_letters (c : list letter) (s : list Q) : res mat :=
  match c, s with
  | [l0; l1; l2], s0 :: s1 :: s2 :: _ =>
      Ok (M3 (smul s0 (letter_vec l0)) (smul s1 (letter_vec l1)) (smul s2 (letter_vec l2)))
  | _, _ => Err EValue
  end.
Definition rotation_for_patient_orientation (po : list ascii) (sp : sarg) : res mat :=
  bind (normalize_po po) (fun c =>
  match sp with
  | SFloat q => rot_for_letters c [q; q; q]
  | SInt _ => Err EType                      (* zip(..., int) *)
  | SSeq l => rot_for_letters c l            (* model restricted to >= 3 items *)
  end).

(* np.allclose(a, b, atol) entry test: |a-b| <= atol + 1e-5 |b| *)
Definition allclose1 (atol a b : Q) : bool := Qle_bool (Qabs (a - b)) (atol + (1 # 100000) * Qabs b).
(* _is_matrix_orthogonal on a 3x3 matrix *)
Definition is_orthogonal (M : mat) (require_unit : bool) (tol : Q) : bool :=
  let n0 := dot (c0 M) (c0 M) in let n1 := dot (c1 M) (c1 M) in let n2 := dot (c2 M) (c2 M) in
  (if require_unit then allclose1 tol n0 1 && allclose1 tol n1 1 && allclose1 tol n2 1 else true) &&
  allclose1 tol n0 n0 && allclose1 tol n1 n1 && allclose1 tol n2 n2 &&
  allclose1 tol (dot (c0 M) (c1 M)) 0 && allclose1 tol (dot (c0 M) (c2 M)) 0 &&
  allclose1 tol (dot (c1 M) (c2 M)) 0.

(* stable argsort of -|.| over one column (numpy sorts 3 items by insertion) *)
Fixpoint insert_desc (x : nat * Q) (l : list (nat * Q)) : list (nat * Q) :=
  match l with
  | [] => [x]
  | y :: t => if Qlt_b (snd y) (snd x) then x :: y :: t else y :: insert_desc x t
  end.
Definition order3 (v : vec) : list nat :=
  map fst (insert_desc (2%nat, Qabs (vz v)) (insert_desc (1%nat, Qabs (vy v)) [(0%nat, Qabs (vx v))])).
Definition vget (v : vec) (i : nat) : Q :=
  match i with O => vx v | S O => vy v | _ => vz v end.
Definition mem_nat (i : nat) (l : list nat) : bool := existsb (Nat.eqb i) l.
(* "for i in sortind: if axis i unused: break" - i stays at the last item when none is free *)
Fixpoint pick (used : list nat) (order : list nat) (last : nat) : nat :=
  match order with
  | [] => last
  | i :: t => if mem_nat i used then pick used t i else i
  end.
Definition closest_col (used : list nat) (v : vec) : nat * letter :=
  let i := pick used (order3 v) 0%nat in
  (i, if Qlt_b 0 (vget v i) then pos_letter i else neg_letter i).
Definition closest_letters (M : mat) : list letter :=
  let '(i0, l0) := closest_col [] (c0 M) in
  let '(i1, l1) := closest_col [i0] (c1 M) in
  let '(i2, l2) := closest_col [i0; i1] (c2 M) in
  [l0; l1; l2].
Definition get_closest_patient_orientation (M : mat) : res (list letter) :=
  if is_orthogonal M false tol5 then Ok (closest_letters M) else Err EValue.

(* create_affine_matrix_from_components *)
Definition mat_of_rows (l : list Q) : res mat :=
  match l with
  | [a; b; c; d; e; f; g; h; i] => Ok (M3 (V3 a d g) (V3 b e h) (V3 c f i))
  | _ => Err EValue
  end.
Definition affine_from_components (sp : sarg) (position center : option (list Q))
    (direction : option (list Q)) (po : option (list ascii)) (shape : option (list Z)) : res aff :=
  match direction, po with
  | Some _, Some _ | None, None => Err EType
  | _, _ =>
  match position, center with
  | Some _, Some _ | None, None => Err EType
  | _, _ =>
  bind (match sp with
        | SFloat q => Ok [q; q; q]
        | SInt z => Ok [inject_Z z; inject_Z z; inject_Z z]
        | SSeq l => Ok l
        end) (fun sl =>
  match sl with
  | [s0; s1; s2] =>
    if Qle_bool s0 0 || Qle_bool s1 0 || Qle_bool s2 0 then Err EValue else
    bind (match direction with
          | Some d => bind (mat_of_rows d) (fun D =>
                      if is_orthogonal D true tol5 then Ok D else Err EValue)
          | None => match po with
                    | Some p => rotation_for_patient_orientation p (SFloat 1)
                    | None => Err EType
                    end
          end) (fun D =>
    let S := M3 (smul s0 (c0 D)) (smul s1 (c1 D)) (smul s2 (c2 D)) in
    match position with
    | Some p => bind (vec_of p) (fun pv => Ok (Aff S pv))
    | None =>
      match shape with
      | None => Err EType
      | Some sh =>
        match sh with
        | [n0; n1; n2] =>
          match center with
          | Some cp =>
            bind (vec_of cp) (fun cv =>
            let ci := V3 ((inject_Z n0 - 1) / 2) ((inject_Z n1 - 1) / 2) ((inject_Z n2 - 1) / 2) in
            Ok (Aff S (vsub cv (mapply S ci))))
          | None => Err EType
          end
        | _ => Err EValue
        end
      end
    end)
  | _ => Err EValue
  end)
  end end.

(* ------------------------------------------------------------------ *)
(* _transform_affine_matrix / _transform_affine_to_convention          *)
(* ------------------------------------------------------------------ *)
Definition vset (v : vec) (i : nat) (q : Q) : vec :=
  match i with O => V3 q (vy v) (vz v) | S O => V3 (vx v) q (vz v) | _ => V3 (vx v) (vy v) q end.
Definition sgn (b : bool) : Q := if b then -1 else 1.
Definition valid_perm (p : list Z) : bool :=
  match p with
  | [a; b; c] =>
      forallb (fun k => existsb (Z.eqb k) p) [0%Z; 1%Z; 2%Z] &&
      forallb (fun k => existsb (Z.eqb k) [0%Z; 1%Z; 2%Z]) p
  | _ => false
  end.
Definition mcol (M : mat) (i : nat) : vec := match i with O => c0 M | S O => c1 M | _ => c2 M end.
Definition vperm (v : vec) (p0 p1 p2 : nat) : vec := V3 (vget v p0) (vget v p1) (vget v p2).

(* flip_indices as coded: offset = M * (shape-1) broadcast down the ROWS,
   translation += enable @ offset *)
Definition flip_indices_step (A : aff) (sh : vec) (f0 f1 f2 : bool) : aff :=
  if f0 || f1 || f2 then
    let M := lin A in
    let e (b : bool) : Q := if b then 1 else 0 in
    let off (c : vec) : Q :=      (* one entry of enable @ offset, for column c of M *)
      e f0 * (vx c * (vx sh - 1)) + e f1 * (vy c * (vy sh - 1)) + e f2 * (vz c * (vz sh - 1)) in
    let t := V3 (vx (tr A) + off (c0 M)) (vy (tr A) + off (c1 M)) (vz (tr A) + off (c2 M)) in
    Aff (M3 (smul (sgn f0) (c0 M)) (smul (sgn f1) (c1 M)) (smul (sgn f2) (c2 M))) t
  else A.
Definition flip_rows (v : vec) (f0 f1 f2 : bool) : vec :=
  V3 (sgn f0 * vx v) (sgn f1 * vy v) (sgn f2 * vz v).
Definition flip_reference_step (A : aff) (f0 f1 f2 : bool) : aff :=
  if f0 || f1 || f2 then
    let M := lin A in
    Aff (M3 (flip_rows (c0 M) f0 f1 f2) (flip_rows (c1 M) f0 f1 f2) (flip_rows (c2 M) f0 f1 f2))
        (flip_rows (tr A) f0 f1 f2)
  else A.
Definition permute_indices_step (A : aff) (p0 p1 p2 : nat) : aff :=
  Aff (M3 (mcol (lin A) p0) (mcol (lin A) p1) (mcol (lin A) p2)) (tr A).
Definition permute_reference_step (A : aff) (p0 p1 p2 : nat) : aff :=
  let M := lin A in
  Aff (M3 (vperm (c0 M) p0 p1 p2) (vperm (c1 M) p0 p1 p2) (vperm (c2 M) p0 p1 p2))
      (vperm (tr A) p0 p1 p2).

Definition bool3 (o : option (list bool)) : res (bool * bool * bool) :=
  match o with
  | None => Ok (false, false, false)
  | Some [a; b; c] => Ok (a, b, c)
  | Some _ => Err EValue
  end.
Definition transform_affine_matrix (A : aff) (shape : list Z)
    (flip_idx flip_ref : option (list bool)) (perm_idx perm_ref : option (list Z)) : res aff :=
  match shape with
  | [n0; n1; n2] =>
    bind (bool3 flip_idx) (fun fi => let '(i0, i1, i2) := fi in
    bind (bool3 flip_ref) (fun fr => let '(r0, r1, r2) := fr in
    let A1 := flip_indices_step A (V3 (inject_Z n0) (inject_Z n1) (inject_Z n2)) i0 i1 i2 in
    let A2 := flip_reference_step A1 r0 r1 r2 in
    bind (match perm_idx with
          | None => Ok A2
          | Some p => if valid_perm p then
                        match p with
                        | [a; b; c] => Ok (permute_indices_step A2 (Z.to_nat a) (Z.to_nat b) (Z.to_nat c))
                        | _ => Err EValue
                        end
                      else Err EValue
          end) (fun A3 =>
    match perm_ref with
    | None => Ok A3
    | Some p => if valid_perm p then
                  match p with
                  | [a; b; c] => Ok (permute_reference_step A3 (Z.to_nat a) (Z.to_nat b) (Z.to_nat c))
                  | _ => Err EValue
                  end
                else Err EValue
    end)))
  | _ => Err EValue
  end.

Fixpoint index_of (l : letter) (ls : list letter) (k : nat) : option nat :=
  match ls with
  | [] => None
  | x :: t => if letter_eqb l x then Some k else index_of l t (S k)
  end.
(* _transform_affine_to_convention on normalised conventions *)
Definition convention_ops (from to : list letter) : res (list bool * list Z) :=
  let flips := map (fun d => negb (mem_letter d to)) from in
  let perm := map (fun d =>
      if mem_letter d from then index_of d from 0 else index_of (opposite d) from 0) to in
  match all_some perm with
  | Some p => Ok (flips, map Z.of_nat p)
  | None => Err EValue                        (* list.index raises ValueError *)
  end.
Definition to_convention_letters (A : aff) (shape : list Z) (from to : list letter) : res aff :=
  bind (convention_ops from to) (fun fp =>
  transform_affine_matrix A shape None (Some (fst fp)) None (Some (snd fp))).
Definition transform_affine_to_convention (A : aff) (shape : list Z) (from to : list ascii) : res aff :=
  bind (normalize_po from) (fun f =>
  bind (normalize_po to) (fun t => to_convention_letters A shape f t)).

(* ------------------------------------------------------------------ *)
(* volume.py: VolumeGeometry and its accessors                         *)
(* ------------------------------------------------------------------ *)
Record geom := Geom { g_aff : aff; g_shape : list Z }.
(* _VolumeBase.__init__ + VolumeGeometry.__init__ *)
Definition geom_make (A : aff) (shape : list Z) : res geom :=
  if is_orthogonal (lin A) false tol5 then
    if Nat.eqb (length shape) 3 then Ok (Geom A shape) else Err EValue
  else Err EValue.
Definition geom_from_attributes (pos ori sp : arg) (ss : Q) (nf rows cols : Z) : res geom :=
  bind (affine_from_attributes pos ori sp ss DR true RHs) (fun A => geom_make A [nf; rows; cols]).
Definition geom_from_components (shape : list Z) (sp : sarg) (position center : option (list Q))
    (direction : option (list Q)) (po : option (list ascii)) (patient_cs : bool) : res geom :=
  match po with
  | Some _ => if patient_cs then
                bind (affine_from_components sp position center direction po (Some shape))
                     (fun A => geom_make A shape)
              else Err EValue
  | None => bind (affine_from_components sp position center direction po (Some shape))
                 (fun A => geom_make A shape)
  end.

(* sqrt on rationals that are exact squares (the only ones the harness feeds) *)
Definition qsqrt (q : Q) : option Q :=
  let r := Qred q in
  let n := Qnum r in let d := Zpos (Qden r) in
  let sn := Z.sqrt n in let sd := Z.sqrt d in
  if (0 <=? n)%Z && (sn * sn =? n)%Z && (sd * sd =? d)%Z
  then Some (Qmake sn (Z.to_pos sd)) else None.

Definition g_position (G : geom) : vec := tr (g_aff G).
Definition g_spacing_sq (G : geom) : vec :=
  let M := lin (g_aff G) in V3 (dot (c0 M) (c0 M)) (dot (c1 M) (c1 M)) (dot (c2 M) (c2 M)).
Definition g_spacing (G : geom) : option vec :=
  let s := g_spacing_sq G in
  match qsqrt (vx s), qsqrt (vy s), qsqrt (vz s) with
  | Some a, Some b, Some c => Some (V3 a b c)
  | _, _, _ => None
  end.
(* direction_cosines: normalised column 2 (along rows) then column 1 (down columns) *)
Definition g_direction_cosines (G : geom) : option (vec * vec) :=
  match g_spacing G with
  | Some s => let M := lin (g_aff G) in
              Some (smul (/ vz s) (c2 M), smul (/ vy s) (c1 M))
  | None => None
  end.
Definition g_center_position (G : geom) : res vec :=
  match g_shape G with
  | [n0; n1; n2] =>
      Ok (aapply (g_aff G) (V3 ((inject_Z n0 - 1) / 2) ((inject_Z n1 - 1) / 2) ((inject_Z n2 - 1) / 2)))
  | _ => Err EValue
  end.
Definition g_handedness (G : geom) : hand := if Qlt_b (det (lin (g_aff G))) 0 then LH else RH.
Definition LPH : list letter := [oL; oP; oH].
Definition g_get_affine (G : geom) (to : list ascii) : res aff :=
  bind (normalize_po to) (fun t => to_convention_letters (g_aff G) (g_shape G) LPH t).
Definition g_map_indices_to_reference (G : geom) (pts : list vec) : list vec := call_3to3 (g_aff G) pts.
Definition g_map_reference_to_indices (G : geom) (pts : list vec) : res (list vec) :=
  let A := g_aff G in
  bind (inv3 (lin A)) (fun Ri => Ok (call_3to3 (Aff Ri (vneg (mapply Ri (tr A)))) pts)).

(* ------------------------------------------------------------------ *)
(* rendering to [val]                                                  *)
(* ------------------------------------------------------------------ *)
Definition vvec (v : vec) : val := VL [VQ (vx v); VQ (vy v); VQ (vz v)].
Definition vmat (M : mat) : val :=
  VL [vvec (row0 M); vvec (row1 M); vvec (row2 M)].
Definition vaff (A : aff) : val :=
  let M := lin A in let t := tr A in
  VL [VL [VQ (vx (c0 M)); VQ (vx (c1 M)); VQ (vx (c2 M)); VQ (vx t)];
      VL [VQ (vy (c0 M)); VQ (vy (c1 M)); VQ (vy (c2 M)); VQ (vy t)];
      VL [VQ (vz (c0 M)); VQ (vz (c1 M)); VQ (vz (c2 M)); VQ (vz t)];
      VL [VQ 0; VQ 0; VQ 0; VQ 1]].
Definition vpts (o : pts_out) : val :=
  match o with
  | OutQ3 l => VL (map vvec l)
  | OutQ2 l => VL (map (fun p => VL [VQ (fst p); VQ (snd p)]) l)
  | OutZ3 l => VL (map (fun t => let '(a, b, c) := t in VL [VZ a; VZ b; VZ c]) l)
  | OutZ2 l => VL (map (fun p => VL [VZ (fst p); VZ (snd p)]) l)
  end.
Definition vletters (l : list letter) : val := VS (String.concat "" (map letter_name l)).

(* typed points from rows of a rectangular (n, w) array *)
Fixpoint rows2 (l : list (list Q)) : res (list (Q * Q)) :=
  match l with
  | [] => Ok []
  | [a; b] :: t => bind (rows2 t) (fun r => Ok ((a, b) :: r))
  | _ :: _ => Err "harness"%string
  end.
Fixpoint rows3 (l : list (list Q)) : res (list vec) :=
  match l with
  | [] => Ok []
  | [a; b; c] :: t => bind (rows3 t) (fun r => Ok (V3 a b c :: r))
  | _ :: _ => Err "harness"%string
  end.

Definition chars (s : string) : list ascii := list_ascii_of_string s.

(* ---- run_* : one per observation kind of harness/c10.py ------------- *)
Definition run_rotation (ori : list Q) (conv : string) (sf : bool) (hs : string) (sp : arg) (ss : Q) : val :=
  vres vmat (create_rotation_matrix ori (chars conv) sf hs sp ss).
Definition run_normal (ori : list Q) (conv : string) (hs : string) : val :=
  vres vvec (get_normal_vector ori (chars conv) hs).
Definition run_affine_attr (pos ori sp : arg) (ss : Q) (conv : string) (sf : bool) (hs : string) : val :=
  vres vaff (affine_from_attributes pos ori sp ss (chars conv) sf hs).
Definition run_inv_affine (pos ori sp : arg) (ss : Q) : val :=
  vres vaff (inv_affine_from_attributes pos ori sp ss).

(* transformer observations: [affine; call result] *)
Definition with_aff (mk : res aff) (call : aff -> val) : val :=
  match mk with Ok A => VL [vaff A; call A] | Err k => VErr k end.
Definition call_p (w : Z) (isint : bool) (pts : list (list Q)) (f : list (Q * Q) -> val) : val :=
  if negb (w =? 2)%Z then VErr EValue
  else if negb isint then VErr EType
  else vres f (rows2 pts).
Definition call_c2 (w : Z) (pts : list (list Q)) (f : list (Q * Q) -> val) : val :=
  if negb (w =? 2)%Z then VErr EValue else vres f (rows2 pts).
Definition call_c3 (w : Z) (pts : list (list Q)) (f : list vec -> val) : val :=
  if negb (w =? 3)%Z then VErr EValue else vres f (rows3 pts).

Definition run_p2r (pos ori sp : arg) (w : Z) (isint : bool) (pts : list (list Q)) : val :=
  with_aff (p2r_make pos ori sp) (fun A => call_p w isint pts (fun l => VL (map vvec (call_2to3 A l)))).
Definition run_i2r (pos ori sp : arg) (w : Z) (pts : list (list Q)) : val :=
  with_aff (i2r_make pos ori sp) (fun A => call_c2 w pts (fun l => VL (map vvec (call_2to3 A l)))).
Definition run_r2p (pos ori sp : arg) (ss : Q) (round drop : bool) (w : Z) (pts : list (list Q)) : val :=
  with_aff (r2p_make pos ori sp ss) (fun A => call_c3 w pts (fun l => vres vpts (r2p_call A round drop l))).
Definition run_r2i (pos ori sp : arg) (ss : Q) (drop : bool) (w : Z) (pts : list (list Q)) : val :=
  with_aff (r2i_make pos ori sp ss) (fun A => call_c3 w pts (fun l => vres vpts (r2i_call A drop l))).
Definition run_p2p (pf of_ sf pt ot st : arg) (round : bool) (w : Z) (isint : bool) (pts : list (list Q)) : val :=
  with_aff (p2p_make pf of_ sf pt ot st) (fun A => call_p w isint pts (fun l => vpts (p2p_call A round l))).
Definition run_i2i (pf of_ sf pt ot st : arg) (w : Z) (pts : list (list Q)) : val :=
  with_aff (i2i_make pf of_ sf pt ot st) (fun A => call_c2 w pts (fun l => vpts (OutQ2 (call_2to2 A l)))).
Definition run_coplanar (pa oa pb ob : list Q) : val := vres VB (are_images_coplanar pa oa pb ob).

Definition run_map_pixel (i j : Q) (pos ori sp : arg) : val :=
  vres vvec (map_pixel_into_coordinate_system (i, j) pos ori sp).
Definition run_map_coord (x y z : Q) (pos ori sp : arg) (ss : Q) : val :=
  vres (fun t => let '(a, b, c) := t in VL [VZ a; VZ b; VZ c])
       (map_coordinate_into_pixel_matrix (V3 x y z) pos ori sp ss).

Definition run_rot_po (po : string) (sp : sarg) : val :=
  vres vmat (rotation_for_patient_orientation (chars po) sp).
Definition run_closest (rows : list Q) : val :=
  vres vletters (bind (mat_of_rows rows) get_closest_patient_orientation).
Definition run_po_roundtrip (po : string) (sp : sarg) : val :=
  vres vletters (bind (rotation_for_patient_orientation (chars po) sp) get_closest_patient_orientation).
Definition ochars (o : option string) : option (list ascii) :=
  match o with Some s => Some (chars s) | None => None end.
Definition run_affine_comp (sp : sarg) (position center direction : option (list Q))
    (po : option string) (shape : option (list Z)) : val :=
  vres vaff (affine_from_components sp position center direction (ochars po) shape).

Definition aff_of_rows (l : list Q) : res aff :=
  match l with
  | [a; b; c; t0; d; e; f; t1; g; h; i; t2] => Ok (Aff (M3 (V3 a d g) (V3 b e h) (V3 c f i)) (V3 t0 t1 t2))
  | _ => Err "harness"%string
  end.
Definition run_tam (A : list Q) (shape : list Z) (fi fr : option (list bool)) (pi pr : option (list Z)) : val :=
  vres vaff (bind (aff_of_rows A) (fun a => transform_affine_matrix a shape fi fr pi pr)).
Definition run_to_convention (A : list Q) (shape : list Z) (from to : string) : val :=
  vres vaff (bind (aff_of_rows A) (fun a => transform_affine_to_convention a shape (chars from) (chars to))).

(* geometry observation: [affine; position; spacing; direction cosines; centre; handedness;
   get_affine(to)] *)
Definition vhand (h : hand) : val := VS (match h with RH => "RIGHT_HANDED" | LH => "LEFT_HANDED" end).
Definition vgeom (to : string) (G : geom) : val :=
  VL [vaff (g_aff G); vvec (g_position G);
      match g_spacing G with Some s => vvec s | None => VErr "inexact-sqrt" end;
      match g_direction_cosines G with
      | Some (r, c) => VL [VQ (vx r); VQ (vy r); VQ (vz r); VQ (vx c); VQ (vy c); VQ (vz c)]
      | None => VErr "inexact-sqrt" end;
      vres vvec (g_center_position G);
      vhand (g_handedness G);
      vres vaff (g_get_affine G (chars to))].
Definition run_geom_attr (pos ori sp : arg) (ss : Q) (nf rows cols : Z) (to : string) : val :=
  vres (vgeom to) (geom_from_attributes pos ori sp ss nf rows cols).
Definition run_geom_comp (shape : list Z) (sp : sarg) (position center direction : option (list Q))
    (po : option string) (patient_cs : bool) (to : string) : val :=
  vres (vgeom to) (geom_from_components shape sp position center direction (ochars po) patient_cs).
Definition run_geom_maps (pos ori sp : arg) (ss : Q) (nf rows cols : Z) (pts : list (list Q)) : val :=
  vres (fun G => vres (fun l => VL [VL (map vvec (g_map_indices_to_reference G l));
                                    vres (fun r => VL (map vvec r)) (g_map_reference_to_indices G l)])
                      (rows3 pts))
       (geom_from_attributes pos ori sp ss nf rows cols).

(* ------------------------------------------------------------------ *)
(* vocabulary of the property statements (definitions only)            *)
(* ------------------------------------------------------------------ *)
Definition veq (a b : vec) : Prop := vx a == vx b /\ vy a == vy b /\ vz a == vz b.
Definition meq (A B : mat) : Prop := veq (c0 A) (c0 B) /\ veq (c1 A) (c1 B) /\ veq (c2 A) (c2 B).
Definition aeq (A B : aff) : Prop := meq (lin A) (lin B) /\ veq (tr A) (tr B).
(* unit, mutually orthogonal direction cosines *)
Definition orthonormal (r c : vec) : Prop := dot r r == 1 /\ dot c c == 1 /\ dot r c == 0.
Definition ortho_cols (M : mat) : Prop :=
  dot (c0 M) (c1 M) == 0 /\ dot (c0 M) (c2 M) == 0 /\ dot (c1 M) (c2 M) == 0.
Definition norms_sq (M : mat) : vec := V3 (dot (c0 M) (c0 M)) (dot (c1 M) (c1 M)) (dot (c2 M) (c2 M)).
Definition pix_valid (d0 d1 : pdir) : bool := xorb (is_horizontal d0) (is_horizontal d1).
(* spacing attached to each array axis by create_rotation_matrix *)
Definition axis_spacings (d0 d1 : pdir) (sf : bool) (sr sc ss : Q) : vec :=
  if sf then V3 ss (conv_sp d0 sr sc) (conv_sp d1 sr sc) else V3 (conv_sp d0 sr sc) (conv_sp d1 sr sc) ss.
Definition vsq (v : vec) : vec := V3 (vx v * vx v) (vy v * vy v) (vz v * vz v).
Definition hand_sign (h : hand) : Q := match h with RH => 1 | LH => -1 end.
Definition all48 : list (list letter) :=
  flat_map (fun p : letter * letter * letter => let '(a, b, c) := p in
    flat_map (fun x => flat_map (fun y => map (fun z => [x; y; z]) [c; opposite c]) [b; opposite b]) [a; opposite a])
  [(oL, oP, oH); (oL, oH, oP); (oP, oL, oH); (oP, oH, oL); (oH, oL, oP); (oH, oP, oL)].
(* explicit-attribute arguments built from vectors *)
Definition apos (p : vec) : arg := ASeq [vx p; vy p; vz p].
Definition aori (r c : vec) : arg := ASeq [vx r; vy r; vz r; vx c; vy c; vz c].
Definition asp (sr sc : Q) : arg := ASeq [sr; sc].
Definition zpt (p : Z * Z) : Q * Q := (inject_Z (fst p), inject_Z (snd p)).

(* ------------------------------------------------------------------ *)
(* image datasets: get_image_coordinate_system, _get_spatial_information,
   iter_tiled_full_frame_data -> compute_tile_positions_per_frame (the
   frame it yields), Transformer.for_image / for_images.
   A dataset is the record of the attributes those functions read.    *)
(* ------------------------------------------------------------------ *)
Definition EAttr : string := "AttributeError"%string.
Definition EIndex : string := "IndexError"%string.
Definition EStop : string := "StopIteration"%string.

Record pmeas := PMeas { pm_spacing : arg; pm_ss : option Q }.        (* PixelMeasuresSequence[0] *)
Record fgroup := FGroup {                                            (* one functional-groups item *)
  fg_pm : option pmeas;
  fg_ipp : option arg;                 (* PlanePositionSequence[0].ImagePositionPatient *)
  fg_iop : option arg;                 (* PlaneOrientationSequence[0].ImageOrientationPatient *)
  fg_slide : option (Q * Q * Q) }.     (* PlanePositionSlideSequence[0] X/Y/Z offsets *)
Record dset := DSet {
  d_for : option string;               (* FrameOfReferenceUID *)
  d_multiframe : bool;                 (* is_multiframe_image: the IOD of SOPClassUID has NumberOfFrames *)
  d_tf_class : bool;                   (* SOP class accepted by iter_tiled_full_frame_data *)
  d_ori_slide : option (list Q);       (* ImageOrientationSlide *)
  d_center_seq : bool;                 (* ImageCenterPointCoordinatesSequence present *)
  d_ipp : option arg; d_iop : option arg; d_ps : option arg; d_ss : option Q;   (* root level *)
  d_shared : option fgroup;            (* SharedFunctionalGroupsSequence[0] *)
  d_perframe : option (list fgroup);   (* PerFrameFunctionalGroupsSequence *)
  d_tiled_full : bool;                 (* DimensionOrganizationType == "TILED_FULL" *)
  d_origin : option (Q * Q * option Q);(* TotalPixelMatrixOriginSequence[0]: X, Y, optional Z *)
  d_rows : Z; d_cols : Z; d_tpm_rows : Z; d_tpm_cols : Z;
  d_focal : Z;                         (* TotalPixelMatrixFocalPlanes (default 1) *)
  d_paths : Z }.                       (* NumberOfOpticalPaths *)

Definition has {A} (o : option A) : bool := match o with Some _ => true | None => false end.
Definition first_of {A} (a b : option A) (k : string) : res A :=
  match a with Some x => Ok x | None => match b with Some y => Ok y | None => Err k end end.
(* list[i] with Python's negative indices *)
Definition py_index {A} (l : list A) (i : Z) : res A :=
  let n := Z.of_nat (length l) in
  let j := if (i <? 0)%Z then (i + n)%Z else i in
  if ((0 <=? j) && (j <? n))%Z then
    match nth_error l (Z.to_nat j) with Some x => Ok x | None => Err EIndex end
  else Err EIndex.

Inductive csys := CPatient | CSlide.
Definition first_has_ipp (o : option (list fgroup)) : res bool :=
  match o with
  | None => Ok false
  | Some [] => Err EIndex
  | Some (g :: _) => Ok (has (fg_ipp g))
  end.
Definition image_coordinate_system (d : dset) : res (option csys) :=
  if negb (has (d_for d)) then Ok None
  else if has (d_ori_slide d) || d_center_seq d then Ok (Some CSlide)
  else if has (d_ipp d) then Ok (Some CPatient)
  else if match d_shared d with Some g => has (fg_ipp g) | None => false end then Ok (Some CPatient)
  else bind (first_has_ipp (d_perframe d)) (fun b => Ok (if b then Some CPatient else None)).

(* number of tile columns and tile rows of the total pixel matrix *)
Definition tile_grid (d : dset) : Z * Z :=
  (((d_tpm_cols d - 1) / d_cols d + 1)%Z, ((d_tpm_rows d - 1) / d_rows d + 1)%Z).
Definition vec_arg (v : vec) : arg := ASeq [vx v; vy v; vz v].

Record tframe := TFrame { tf_channel : Z; tf_focal : Z; tf_col : Z; tf_row : Z; tf_pos : vec }.
(* the f-th item (1-based) yielded by iter_tiled_full_frame_data, as _get_spatial_information
   fetches it: next(islice(gen, f - 1, f)).  Modelled for Rows, Columns >= 1. *)
Definition tiled_full_frame (d : dset) (f : Z) : res tframe :=
  let k := (f - 1)%Z in
  if (k <? 0)%Z then Err EValue                                   (* islice refuses a negative start *)
  else if negb (d_tf_class d) then Err EValue
  else
  match d_origin d with None => Err EAttr | Some (x, y, oz) =>    (* the Z offset of the origin defaults to 0 *)
  match d_ori_slide d with None => Err EAttr | Some ol =>
  match ol with
  | o0 :: o1 :: o2 :: o3 :: o4 :: o5 :: _ =>
    match d_shared d with None => Err EAttr | Some sh =>
    match fg_pm sh with None => Err EAttr | Some pm =>
    bind (match pm_spacing pm with
          | ASeq (s0 :: s1 :: _) => Ok (s0, s1)
          | ASeq _ => Err EIndex
          | AScalar _ => Err EType
          end) (fun s =>
    let ss := match pm_ss pm with Some q => q | None => 1 end in
    if ((d_rows d <=? 0) || (d_cols d <=? 0) || (d_focal d <=? 0) || (d_paths d <=? 0))%Z
    then Err "unmodelled"%string else
    let '(ntc, ntr) := tile_grid d in
    let nt := (ntc * ntr)%Z in
    let t := (k mod nt)%Z in
    let sl := ((k / nt) mod d_focal d)%Z in
    let ch := (k / (nt * d_focal d))%Z in
    let ci := (t mod ntc)%Z in
    let ri := (t / ntc)%Z in
    let z0 := match oz with Some z => z | None => 0 end in
    bind (p2r_make (ASeq [x; y; z0 + inject_Z sl * ss]) (ASeq [o0; o1; o2; o3; o4; o5]) (ASeq [fst s; snd s])) (fun A =>
    if ((ntc <=? 0) || (ntr <=? 0) || (d_paths d * d_focal d * nt <=? k))%Z then Err EStop
    else Ok (TFrame (ch + 1) (sl + 1) (ci * d_cols d + 1) (ri * d_rows d + 1)
                    (aapply A (V3 (inject_Z (ci * d_cols d)) (inject_Z (ri * d_rows d)) 0)))))
    end end
  | _ => Err EIndex
  end end end.

Record sinfo := SInfo { si_pos : arg; si_ori : arg; si_sp : arg; si_ss : option Q }.
Definition fs_get {A} (fs : option fgroup) (f : fgroup -> option A) : option A :=
  match fs with Some g => f g | None => None end.

(* _get_spatial_information *)
Definition get_spatial_information (d : dset) (frame : option Z) (tpm : bool) : res sinfo :=
  bind (image_coordinate_system d) (fun ocs =>
  match ocs with
  | None => Err EValue
  | Some cs =>
    if tpm then
      match d_origin d with
      | None => Err EValue
      | Some (x, y, oz) =>
        match d_shared d with
        | None => Err EAttr
        | Some sh =>
          match fg_pm sh with
          | None => Err EValue
          | Some pm =>
            match d_ori_slide d with
            | None => Err EAttr
            | Some o => Ok (SInfo (ASeq [x; y; match oz with Some z => z | None => 0 end]) (ASeq o)
                                  (pm_spacing pm) (pm_ss pm))
            end
          end
        end
      end
    else if d_multiframe d then
      match frame with
      | None => Err EType
      | Some f =>
        match d_shared d with
        | None => Err EAttr
        | Some sh =>
          bind (if d_tiled_full d then Ok None
                else match d_perframe d with
                     | None => Err EAttr
                     | Some l => bind (py_index l (f - 1)) (fun g => Ok (Some g))
                     end) (fun fs =>
          bind (first_of (fg_pm sh) (fs_get fs fg_pm) EValue) (fun pm =>
          match cs with
          | CSlide =>
            bind (if d_tiled_full d then bind (tiled_full_frame d f) (fun t => Ok (vec_arg (tf_pos t)))
                  else bind (first_of (fg_slide sh) (fs_get fs fg_slide) EValue)
                            (fun p => let '(x, y, z) := p in Ok (ASeq [x; y; z]))) (fun pos =>
            match d_ori_slide d with
            | None => Err EAttr
            | Some o => Ok (SInfo pos (ASeq o) (pm_spacing pm) (pm_ss pm))
            end)
          | CPatient =>
            bind (first_of (fg_ipp sh) (fs_get fs fg_ipp) EValue) (fun pos =>
            bind (first_of (fg_iop sh) (fs_get fs fg_iop) EValue) (fun o =>
            Ok (SInfo pos o (pm_spacing pm) (pm_ss pm))))
          end))
        end
      end
    else
      if match frame with Some f => negb (f =? 1)%Z | None => false end then Err EType
      else
        match d_ipp d, d_iop d, d_ps d with
        | Some p, Some o, Some s => Ok (SInfo p o s (d_ss d))
        | _, _, _ => Err EAttr
        end
  end).

Definition ss_or_1 (s : sinfo) : Q := match si_ss s with Some q => q | None => 1 end.
(* <Transformer>.for_image *)
Definition for_image_p2r (d : dset) (f : option Z) (tpm : bool) : res aff :=
  bind (get_spatial_information d f tpm) (fun s => p2r_make (si_pos s) (si_ori s) (si_sp s)).
Definition for_image_i2r (d : dset) (f : option Z) (tpm : bool) : res aff :=
  bind (get_spatial_information d f tpm) (fun s => i2r_make (si_pos s) (si_ori s) (si_sp s)).
Definition for_image_r2p (d : dset) (f : option Z) (tpm : bool) : res aff :=
  bind (get_spatial_information d f tpm) (fun s => r2p_make (si_pos s) (si_ori s) (si_sp s) (ss_or_1 s)).
Definition for_image_r2i (d : dset) (f : option Z) (tpm : bool) : res aff :=
  bind (get_spatial_information d f tpm) (fun s => r2i_make (si_pos s) (si_ori s) (si_sp s) (ss_or_1 s)).
(* PixelToPixelTransformer.for_images / ImageToImageTransformer.for_images *)
Definition same_frame_of_reference (a b : dset) : res unit :=
  match d_for a, d_for b with
  | Some u, Some v => if String.eqb u v then Ok tt else Err EValue
  | _, _ => Err EValue
  end.
Definition for_images (mk : arg -> arg -> arg -> arg -> arg -> arg -> res aff)
    (a b : dset) (fa fb : option Z) (ta tb : bool) : res aff :=
  bind (same_frame_of_reference a b) (fun _ =>
  bind (get_spatial_information a fa ta) (fun s =>
  bind (get_spatial_information b fb tb) (fun t =>
  mk (si_pos s) (si_ori s) (si_sp s) (si_pos t) (si_ori t) (si_sp t)))).
Definition for_images_p2p := for_images p2p_make.
Definition for_images_i2i := for_images i2i_make.

(* ---- run_* for the dataset entry points ---- *)
Definition varg (a : arg) : val := match a with ASeq l => VL (map VQ l) | AScalar q => VQ q end.
Definition vsinfo (s : sinfo) : val :=
  VL [varg (si_pos s); varg (si_ori s); varg (si_sp s); vopt VQ (si_ss s)].
Definition run_spatial_info (d : dset) (f : option Z) (tpm : bool) : val :=
  vres vsinfo (get_spatial_information d f tpm).
Definition vcsys (o : option csys) : val :=
  match o with None => VNone | Some CPatient => VS "PATIENT" | Some CSlide => VS "SLIDE" end.
Definition run_coordinate_system (d : dset) : val := vres vcsys (image_coordinate_system d).
(* [info; P2R affine + call; I2R affine; R2P affine; R2I affine] *)
Definition run_for_image (d : dset) (f : option Z) (tpm : bool) (pts : list (list Q)) : val :=
  VL [run_spatial_info d f tpm;
      with_aff (for_image_p2r d f tpm) (fun A => call_p 2 true pts (fun l => VL (map vvec (call_2to3 A l))));
      vres vaff (for_image_i2r d f tpm);
      vres vaff (for_image_r2p d f tpm);
      vres vaff (for_image_r2i d f tpm)].
Definition run_for_images (a b : dset) (fa fb : option Z) (ta tb : bool) (pts : list (list Q)) : val :=
  VL [with_aff (for_images_p2p a b fa fb ta tb)
        (fun A => call_p 2 true pts (fun l => vpts (p2p_call A false l)));
      vres vaff (for_images_i2i a b fa fb ta tb)].
Definition run_tiled_full_frame (d : dset) (f : Z) : val :=
  vres (fun t => VL [VZ (tf_channel t); VZ (tf_focal t); VZ (tf_col t); VZ (tf_row t); vvec (tf_pos t)])
       (tiled_full_frame d f).

(* ---- further accessors of volume.py:647-802 ---- *)
Definition g_inverse_affine (G : geom) : res aff :=
  let A := g_aff G in bind (inv3 (lin A)) (fun Ri => Ok (Aff Ri (vred (vneg (mapply Ri (tr A)))))).
Definition g_pixel_spacing (G : geom) : option (Q * Q) :=
  match g_spacing G with Some s => Some (vy s, vz s) | None => None end.
Definition g_spacing_between_slices (G : geom) : option Q :=
  match g_spacing G with Some s => Some (vx s) | None => None end.
Definition g_direction (G : geom) : option mat :=
  match g_spacing G with
  | Some s => let M := lin (g_aff G) in
              Some (M3 (smul (/ vx s) (c0 M)) (smul (/ vy s) (c1 M)) (smul (/ vz s) (c2 M)))
  | None => None
  end.
Definition g_voxel_volume (G : geom) : option Q :=
  match g_spacing G with Some s => Some (vx s * vy s * vz s) | None => None end.
Definition g_physical_extent (G : geom) : option vec :=
  match g_spacing G, g_shape G with
  | Some s, [n0; n1; n2] => Some (V3 (inject_Z n0 * vx s) (inject_Z n1 * vy s) (inject_Z n2 * vz s))
  | _, _ => None
  end.
Definition g_physical_volume (G : geom) : option Q :=
  match g_voxel_volume G, g_shape G with
  | Some v, [n0; n1; n2] => Some (v * inject_Z (n0 * n1 * n2))
  | _, _ => None
  end.
Definition vcols (M : mat) : val := VL [vvec (c0 M); vvec (c1 M); vvec (c2 M)].
Definition vinexact : val := VErr "inexact-sqrt".
(* [pixel_spacing; spacing_between_slices; voxel_volume; physical_extent; physical_volume; direction;
    spacing_vectors; unit_vectors; inverse_affine] *)
Definition run_geom_more (pos ori sp : arg) (ss : Q) (nf rows cols : Z) : val :=
  vres (fun G =>
    VL [match g_pixel_spacing G with Some (a, b) => VL [VQ a; VQ b] | None => vinexact end;
        match g_spacing_between_slices G with Some a => VQ a | None => vinexact end;
        match g_voxel_volume G with Some a => VQ a | None => vinexact end;
        match g_physical_extent G with Some v => vvec v | None => vinexact end;
        match g_physical_volume G with Some a => VQ a | None => vinexact end;
        match g_direction G with Some D => vmat D | None => vinexact end;
        vcols (lin (g_aff G));
        match g_direction G with Some D => vcols D | None => vinexact end;
        vres vaff (g_inverse_affine G)])
    (geom_from_attributes pos ori sp ss nf rows cols).

(* ------------------------------------------------------------------ *)
(* index arrays of any numpy dtype handed to PixelToReference /        *)
(* PixelToPixel __call__ (direct constructor or for_images)            *)
(* ------------------------------------------------------------------ *)
Inductive dkind := KSigned | KUnsigned | KFloat | KBool.        (* numpy dtype.kind 'i' 'u' 'f' 'b' *)
Record dtype := DT { dt_kind : dkind; dt_bits : Z }.
Definition dt_int64 : dtype := DT KSigned 64.
(* "indices.dtype.kind not in ('u', 'i')" *)
Definition dt_is_index (dt : dtype) : bool :=
  match dt_kind dt with KSigned | KUnsigned => true | _ => false end.
Definition dt_lo (dt : dtype) : Z :=
  match dt_kind dt with KSigned => (- 2 ^ (dt_bits dt - 1))%Z | _ => 0%Z end.
Definition dt_hi (dt : dtype) : Z :=
  match dt_kind dt with
  | KSigned => (2 ^ (dt_bits dt - 1) - 1)%Z
  | KUnsigned => (2 ^ dt_bits dt - 1)%Z
  | KBool => 1%Z
  | KFloat => 0%Z
  end.
(* the value can be stored in an array of that dtype (any value for the float kinds: the
   harness only writes dyadic values) *)
Definition dt_holds (dt : dtype) (q : Q) : bool :=
  match dt_kind dt with
  | KFloat => true
  | _ => Qeq_bool q (inject_Z (Qfloor q)) && (dt_lo dt <=? Qfloor q)%Z && (Qfloor q <=? dt_hi dt)%Z
  end.
(* __call__ on an (n, w) array of dtype [dt]: "indices.T.astype(float)" forgets the dtype, and
   "np.around(...).astype(int)" always answers int64 - the dtype of the indices only decides the
   TypeError guard.  An array holding a value its dtype cannot represent does not exist. *)
Definition call_p_dt (w : Z) (dt : dtype) (pts : list (list Q)) (f : list (Q * Q) -> val) : val :=
  if negb (forallb (forallb (dt_holds dt)) pts) then VErr "harness"
  else call_p w (dt_is_index dt) pts f.
Definition run_p2r_dt (pos ori sp : arg) (w : Z) (dt : dtype) (pts : list (list Q)) : val :=
  with_aff (p2r_make pos ori sp) (fun A => call_p_dt w dt pts (fun l => VL (map vvec (call_2to3 A l)))).
Definition run_p2p_dt (pf of_ sf pt ot st : arg) (round : bool) (w : Z) (dt : dtype) (pts : list (list Q)) : val :=
  with_aff (p2p_make pf of_ sf pt ot st) (fun A => call_p_dt w dt pts (fun l => vpts (p2p_call A round l))).
(* PixelToPixelTransformer.for_images(..., round_output=round)(indices of dtype dt) *)
Definition run_for_images_dt (a b : dset) (fa fb : option Z) (ta tb : bool) (round : bool) (dt : dtype)
    (pts : list (list Q)) : val :=
  with_aff (for_images_p2p a b fa fb ta tb) (fun A => call_p_dt 2 dt pts (fun l => vpts (p2p_call A round l))).

(* ------------------------------------------------------------------ *)
(* volume.py: Volume (array-carrying).  The array has the three spatial *)
(* sizes FIRST, then one size per channel dimension; [channels] is the  *)
(* number of values given for each channel descriptor, in dict order.   *)
(* ------------------------------------------------------------------ *)
Fixpoint zlist_eqb (a b : list Z) : bool :=
  match a, b with
  | [], [] => true
  | x :: a', y :: b' => (x =? y)%Z && zlist_eqb a' b'
  | _, _ => false
  end.
(* _VolumeBase.__init__ + Volume.__init__ : spatial_shape = array.shape[:3] *)
Definition vol_make (A : aff) (ashape channels : list Z) : res geom :=
  if is_orthogonal (lin A) false tol5 then
    if (length ashape <? 3)%nat then Err EValue
    else if zlist_eqb channels (skipn 3 ashape) then Ok (Geom A (firstn 3 ashape))
    else Err EValue
  else Err EValue.
(* Volume.from_components: spatial_shape=array.shape[:3] *)
Definition vol_from_components (ashape channels : list Z) (sp : sarg) (position center : option (list Q))
    (direction : option (list Q)) (po : option (list ascii)) (patient_cs : bool) : res geom :=
  let mk := bind (affine_from_components sp position center direction po (Some (firstn 3 ashape)))
                 (fun A => vol_make A ashape channels) in
  match po with
  | Some _ => if patient_cs then mk else Err EValue
  | None => mk
  end.
(* Volume.from_attributes *)
Definition vol_from_attributes (ashape channels : list Z) (pos ori sp : arg) (ss : Q) : res geom :=
  bind (affine_from_attributes pos ori sp ss DR true RHs) (fun A => vol_make A ashape channels).
(* VolumeGeometry.with_array(array, channels) *)
Definition geom_with_array (G : geom) (ashape channels : list Z) : res geom :=
  if zlist_eqb (firstn 3 ashape) (g_shape G) then vol_make (g_aff G) ashape channels else Err EValue.

(* map_reference_to_indices(..., check_bounds=True): "min() < -0.5 or max() > spatial_shape[d] - 0.5" *)
Definition g_in_bounds (G : geom) (v : vec) : bool :=
  match g_shape G with
  | [n0; n1; n2] =>
      negb (Qlt_b (vx v) (- (1 # 2))) && negb (Qlt_b (inject_Z n0 - (1 # 2)) (vx v)) &&
      negb (Qlt_b (vy v) (- (1 # 2))) && negb (Qlt_b (inject_Z n1 - (1 # 2)) (vy v)) &&
      negb (Qlt_b (vz v) (- (1 # 2))) && negb (Qlt_b (inject_Z n2 - (1 # 2)) (vz v))
  | _ => false
  end.
Definition g_map_reference_to_indices_checked (G : geom) (pts : list vec) : res (list vec) :=
  bind (g_map_reference_to_indices G pts) (fun l =>
  if forallb (g_in_bounds G) l then Ok l else Err ERuntime).
Definition g_center_indices (G : geom) : res vec :=
  match g_shape G with
  | [n0; n1; n2] => Ok (V3 ((inject_Z n0 - 1) / 2) ((inject_Z n1 - 1) / 2) ((inject_Z n2 - 1) / 2))
  | _ => Err EValue
  end.

(* observation of a Volume: [geometry observation; spatial_shape; channel_shape; physical_extent;
   center_indices; get_geometry() affine and spatial shape; for every probe index p:
   map_reference_to_indices(map_indices_to_reference(p), check_bounds=True)] *)
Definition vzl (l : list Z) : val := VL (map VZ l).
Definition vvol (to : string) (ashape : list Z) (probes : list (list Q)) (G : geom) : val :=
  VL [vgeom to G; vzl (g_shape G); vzl (skipn 3 ashape);
      match g_physical_extent G with Some v => vvec v | None => vinexact end;
      vres vvec (g_center_indices G);
      VL [vaff (g_aff G); vzl (g_shape G)];
      vres (fun l => VL (map (fun p => vres (fun r => VL (map vvec r))
                                        (g_map_reference_to_indices_checked G (g_map_indices_to_reference G [p]))) l))
           (rows3 probes)].
Definition run_vol_comp (ashape channels : list Z) (sp : sarg) (position center direction : option (list Q))
    (po : option string) (patient_cs : bool) (to : string) (probes : list (list Q)) : val :=
  vres (vvol to ashape probes)
       (vol_from_components ashape channels sp position center direction (ochars po) patient_cs).
Definition run_vol_attr (ashape channels : list Z) (pos ori sp : arg) (ss : Q) (to : string)
    (probes : list (list Q)) : val :=
  vres (vvol to ashape probes) (vol_from_attributes ashape channels pos ori sp ss).
(* VolumeGeometry.from_components(spatial_shape, ...).with_array(array, channels) *)
Definition run_vol_with_array (shape ashape channels : list Z) (sp : sarg)
    (position center direction : option (list Q)) (po : option string) (patient_cs : bool) (to : string)
    (probes : list (list Q)) : val :=
  vres (vvol to ashape probes)
       (bind (geom_from_components shape sp position center direction (ochars po) patient_cs)
             (fun G => geom_with_array G ashape channels)).

(* ------------------------------------------------------------------ *)
(* rounded routes from a source image to a coplanar target image       *)
(* (every default: round_output=True of PixelToPixel, ReferenceToPixel *)
(* and VolumeGeometry.map_reference_to_indices; np.around = [rne])     *)
(* ------------------------------------------------------------------ *)
Definition vz3 (l : list (Z * Z * Z)) : val :=
  VL (map (fun t => let '(a, b, c) := t in VL [VZ a; VZ b; VZ c]) l).
Definition g_map_reference_to_indices_rounded (G : geom) (pts : list vec) : res (list (Z * Z * Z)) :=
  bind (g_map_reference_to_indices G pts) (fun l => Ok (round3 l)).
(* [ PixelToPixel(from, to)(p);
     ReferenceToPixel(to)(x)  with  x = PixelToReference(from)(p);
     ReferenceToPixel(to, round_output=False)(x);
     ReferenceToPixel(to, drop_slice_index=True)(x);
     [map_coordinate_into_pixel_matrix(x_k, to)  for every row x_k of x];
     [G.map_reference_to_indices(x, round_output=True); G.map_reference_to_indices(x)]
       with G = VolumeGeometry.from_attributes(to, number_of_frames=1, rows, columns) ] *)
Definition run_round_routes (pf of_ sf pt ot st : arg) (rows cols : Z) (pts : list (list Q)) : val :=
  match rows2 pts with
  | Err k => VErr k
  | Ok l =>
    match p2p_make pf of_ sf pt ot st, p2r_make pf of_ sf, r2p_make pt ot st 1 with
    | Ok T, Ok P, Ok Rv =>
        let x := call_2to3 P l in
        VL [vpts (p2p_call T true l);
            vres vpts (r2p_call Rv true false x);
            vres vpts (r2p_call Rv false false x);
            vres vpts (r2p_call Rv true true x);
            VL (map (fun v => vres (fun t => vz3 [t]) (map_coordinate_into_pixel_matrix v pt ot st 1)) x);
            vres (fun G => VL [vres vz3 (g_map_reference_to_indices_rounded G x);
                               vres (fun r => VL (map vvec r)) (g_map_reference_to_indices G x)])
                 (geom_from_attributes pt ot st 1 1 rows cols)]
    | Err k, _, _ => VErr k
    | _, Err k, _ => VErr k
    | _, _, Err k => VErr k
    end
  end.

(* ------------------------------------------------------------------ *)
(* histories: what a caller does between two uses of ONE transformer   *)
(* object.  The state of the object is its matrix; the `affine`        *)
(* property hands out a copy and __call__ allocates its result, so no  *)
(* step changes the state.  (Arrays are values here: the aliasing that *)
(* a real implementation could introduce is outside the model - the    *)
(* model states what the histories must observe.)                      *)
(* ------------------------------------------------------------------ *)
Inductive hop :=
| HAffineEdit (k : Q) (t : vec)   (* a = T.affine; a[:3, :3] *= k; a[:3, 3] += t  - in place, on the RETURNED array *)
| HOutputEdit                     (* in-place edit of the array returned by the previous __call__ *)
| HInputEdit                      (* in-place edit of the arrays handed to the constructor / to the previous __call__ *)
| HCall.                          (* nothing in between *)
Definition edit_aff (k : Q) (t : vec) (A : aff) : aff :=
  Aff (M3 (smul k (c0 (lin A))) (smul k (c1 (lin A))) (smul k (c2 (lin A)))) (vadd (tr A) t).
(* new state of the object, and the value of the caller's own array after the step (if it has one) *)
Definition hstep (A : aff) (op : hop) : aff * option aff :=
  match op with
  | HAffineEdit k t => (A, Some (edit_aff k t A))
  | _ => (A, None)
  end.
(* after every step: [the caller's edited array | None; T.affine; T(points)] *)
Fixpoint hist (A : aff) (ops : list hop) (obs : aff -> val) : list val :=
  match ops with
  | [] => []
  | op :: r =>
      let '(A', mine) := hstep A op in
      VL [match mine with Some a => vaff a | None => VNone end; obs A'] :: hist A' r obs
  end.
Definition hobs (call : aff -> val) (A : aff) : val := VL [vaff A; call A].
(* [[T.affine; T(points)] of the fresh object; then one entry per step] *)
Definition run_history (mk : res aff) (call : aff -> val) (ops : list hop) : val :=
  match mk with
  | Ok A => VL [hobs call A; VL (hist A ops (hobs call))]
  | Err k => VErr k
  end.
(* the __call__ bodies as observation functions (same as in run_p2r ... run_i2i) *)
Definition hcall_p2r (pts : list (list Q)) (A : aff) : val := call_p 2 true pts (fun l => VL (map vvec (call_2to3 A l))).
Definition hcall_i2r (pts : list (list Q)) (A : aff) : val := call_c2 2 pts (fun l => VL (map vvec (call_2to3 A l))).
Definition hcall_r2p (round drop : bool) (pts : list (list Q)) (A : aff) : val :=
  call_c3 3 pts (fun l => vres vpts (r2p_call A round drop l)).
Definition hcall_r2i (drop : bool) (pts : list (list Q)) (A : aff) : val :=
  call_c3 3 pts (fun l => vres vpts (r2i_call A drop l)).
Definition hcall_p2p (round : bool) (pts : list (list Q)) (A : aff) : val :=
  call_p 2 true pts (fun l => vpts (p2p_call A round l)).
Definition hcall_i2i (pts : list (list Q)) (A : aff) : val := call_c2 2 pts (fun l => vpts (OutQ2 (call_2to2 A l))).
(* VolumeGeometry: [map_indices_to_reference(points); map_reference_to_indices(points)] *)
Definition hcall_geom (pts : list (list Q)) (A : aff) : val :=
  call_c3 3 pts (fun l => VL [VL (map vvec (call_3to3 A l));
                              vres (fun r => VL (map vvec r)) (g_map_reference_to_indices (Geom A [1%Z; 1%Z; 1%Z]) l)]).
Definition geom_aff (pos ori sp : arg) (ss : Q) (nf rows cols : Z) : res aff :=
  bind (geom_from_attributes pos ori sp ss nf rows cols) (fun G => Ok (g_aff G)).
