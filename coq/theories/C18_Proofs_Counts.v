(* C18 - proofs, part 10: the point count rule is a rule on EVERY annotation, not on the group.
   AnnotationGroup.__init__ tests graphic_data[i].shape[0] for each i.  Consequences proved here:
     - every annotation of an accepted group obeys the rule of its graphic type (exactly 1 / 4 / 4
       points for POINT / ELLIPSE / RECTANGLE, at least 2 / 3 for POLYLINE / POLYGON), and so the
       fixed-count types store exactly k * n points;
     - on input that passes all the other rules, accepted <-> every annotation obeys the count rule;
     - one annotation of another size is refused WHATEVER the other annotations look like, in
       particular when the sizes of the group add up to the k * n points a well-formed group has;
     - a test of the total alone would not do: there are groups of k * n points (and groups of
       polylines whose mean size is above the minimum) that must be (and are) refused; had such a
       group been written, the stored attributes would decode to ANOTHER partition of the points. *)
From Coq Require Import String ZArith List Bool Lia ZifyBool.
From HD Require Import Base.Val C18_Model C18_Proofs.
Import ListNotations.
Open Scope Z_scope.

(* the graphic types with a fixed number of points per annotation *)
Definition fixed_count (gt : gtype) : option Z :=
  match gt with POINT => Some 1 | ELLIPSE => Some 4 | RECTANGLE => Some 4 | _ => None end.
(* the least number of points of the others *)
Definition min_count (gt : gtype) : Z :=
  match gt with POINT => 1 | POLYLINE => 2 | POLYGON => 3 | ELLIPSE => 4 | RECTANGLE => 4 end.

Lemma count_ok_fixed : forall gt k n, fixed_count gt = Some k -> (count_ok gt n = true <-> n = k).
Proof. intros gt k n H. destruct gt; cbn in H; inversion H; subst k; cbn [count_ok]; lia. Qed.

Lemma count_ok_min : forall gt n, fixed_count gt = None -> (count_ok gt n = true <-> min_count gt <= n).
Proof. intros gt n H. destruct gt; cbn in H; try discriminate; cbn [count_ok min_count]; lia. Qed.

(* every annotation of an accepted group obeys the count rule *)
Lemma accepted_counts : forall dbl gt gd e, encode dbl gt gd = Ok e ->
  forall a, In a gd -> count_ok gt (zlen a) = true.
Proof.
  intros dbl gt gd e He a Ha.
  assert (Hadm : admissible dbl gt gd) by (apply encode_accepts_iff; eauto).
  destruct Hadm as (_ & Hann & _). now destruct (Hann a Ha).
Qed.

Lemma accepted_counts_fixed : forall dbl gt gd e k, encode dbl gt gd = Ok e -> fixed_count gt = Some k ->
  (forall a, In a gd -> zlen a = k) /\ zlen (concat gd) = k * zlen gd.
Proof.
  intros dbl gt gd e k He Hk.
  assert (Hall : forall a, In a gd -> zlen a = k).
  { intros a Ha. apply (count_ok_fixed gt k _ Hk). exact (accepted_counts _ _ _ _ He a Ha). }
  split; [exact Hall|]. now apply zlen_concat_const.
Qed.

(* one annotation of another size: refused, whatever the total number of points *)
Lemma reject_wrong_count_any_total : forall dbl gt gd k a, fixed_count gt = Some k ->
  In a gd -> zlen a <> k -> encode dbl gt gd = Err VE.
Proof.
  intros dbl gt gd k a Hk Ha Hne. apply (reject_wrong_count dbl gt gd a Ha).
  destruct (count_ok gt (zlen a)) eqn:E; [|reflexivity].
  apply (count_ok_fixed gt k _ Hk) in E. contradiction.
Qed.

Lemma reject_too_few_points : forall dbl gt gd a, In a gd -> zlen a < min_count gt -> encode dbl gt gd = Err VE.
Proof.
  intros dbl gt gd a Ha Hlt. apply (reject_wrong_count dbl gt gd a Ha).
  destruct gt; cbn [count_ok min_count] in *; lia.
Qed.

(* on non-empty input that passes every other rule (open polygons, one dimension 2 or 3, finite):
   accepted <-> every annotation obeys the count rule of the graphic type *)
Lemma accepted_iff_counts : forall dbl gt gd, gd <> [] ->
  (gt = POLYGON -> forall a, In a gd -> closed dbl a = false) ->
  (exists d, (d = 2 \/ d = 3) /\ forall a r, In a gd -> In r a -> zlen r = d) ->
  (forall a r w, In a gd -> In r a -> In w r -> is_finite dbl w = true) ->
  ((exists e, encode dbl gt gd = Ok e) <-> (forall a, In a gd -> count_ok gt (zlen a) = true)).
Proof.
  intros dbl gt gd Hne Hopen Hdim Hfin. rewrite encode_accepts_iff. split.
  - intros (_ & Hann & _) a Ha. now destruct (Hann a Ha).
  - intros Hc. unfold admissible. split; [exact Hne|]. split; [|split; [exact Hdim|exact Hfin]].
    intros a Ha. split; [now apply Hc|]. intros Hp. now apply Hopen.
Qed.

(* acceptance decided on the TOTAL number of points is strictly weaker than the rule: k * n points,
   everything else in order, and still refused - for each fixed-count type; for the open-ended types
   the same with a total (mean) above the minimum *)
Definition pt (x y : Z) : row := [x; y].
(* single precision words of 1.0 .. 8.0 *)
Definition w1 := 1065353216. Definition w2 := 1073741824. Definition w3 := 1077936128.
Definition w4 := 1082130432. Definition w5 := 1084227584. Definition w6 := 1086324736.
Definition w7 := 1088421888. Definition w8 := 1090519040.
Definition eight_points : list row :=
  [pt w1 w2; pt w3 w4; pt w5 w6; pt w7 w8; pt w2 w1; pt w4 w3; pt w6 w5; pt w8 w7].
(* an outline of 3 and one of 5 points: 8 = 4 * 2 *)
Definition three_five : list annot := [firstn 3 eight_points; skipn 3 eight_points].
(* a pair of points in one array next to an empty array: 2 = 1 * 2 *)
Definition two_zero : list annot := [[pt w1 w2; pt w3 w4]; []].

Definition others_in_order (dbl : bool) (gd : list annot) : Prop :=
  gd <> [] /\ (forall a r, In a gd -> In r a -> zlen r = 2) /\
  (forall a r w, In a gd -> In r a -> In w r -> is_finite dbl w = true).

Lemma others_in_order_dec : forall dbl gd, gd <> [] ->
  forallb (forallb (fun r => (zlen r =? 2) && forallb (is_finite dbl) r)) gd = true -> others_in_order dbl gd.
Proof.
  intros dbl gd Hne H. split; [exact Hne|]. split.
  - intros a r Ha Hr. pose proof (forallb_In _ _ _ (forallb_In _ _ _ H Ha) Hr) as E. cbn beta in E. lia.
  - intros a r w Ha Hr Hw. pose proof (forallb_In _ _ _ (forallb_In _ _ _ H Ha) Hr) as E. cbn beta in E.
    apply andb_prop in E as [_ E]. exact (forallb_In _ _ _ E Hw).
Qed.

Lemma total_count_check_insufficient :
  (forall gt, gt = ELLIPSE \/ gt = RECTANGLE ->
     zlen (concat three_five) = 4 * zlen three_five /\ others_in_order false three_five /\
     encode false gt three_five = Err VE) /\
  (zlen (concat two_zero) = 1 * zlen two_zero /\ others_in_order false two_zero /\
   encode false POINT two_zero = Err VE) /\
  (* polylines of 1 and 3 points: 4 >= 2 * 2; open polygons of 2 and 6 points: 8 >= 3 * 2 *)
  (2 * zlen [firstn 1 eight_points; skipn 5 eight_points] <= zlen (concat [firstn 1 eight_points; skipn 5 eight_points]) /\
   encode false POLYLINE [firstn 1 eight_points; skipn 5 eight_points] = Err VE) /\
  (3 * zlen [firstn 2 eight_points; skipn 2 eight_points] <= zlen (concat [firstn 2 eight_points; skipn 2 eight_points]) /\
   closed false (firstn 2 eight_points) = false /\ closed false (skipn 2 eight_points) = false /\
   encode false POLYGON [firstn 2 eight_points; skipn 2 eight_points] = Err VE).
Proof.
  split; [|split; [|split]].
  - intros gt Hgt. split; [reflexivity|]. split.
    + apply others_in_order_dec; [discriminate|]. vm_compute. reflexivity.
    + destruct Hgt as [-> | ->]; vm_compute; reflexivity.
  - split; [reflexivity|]. split.
    + apply others_in_order_dec; [discriminate|]. vm_compute. reflexivity.
    + vm_compute. reflexivity.
  - split; [vm_compute; discriminate|vm_compute; reflexivity].
  - split; [vm_compute; discriminate|]. repeat split; vm_compute; reflexivity.
Qed.

(* had the 3 + 5 group been written (point data = all 8 points, NumberOfAnnotations = 2), the stored
   attributes would decode to the partition 4 + 4: a point moves from one annotation to the other *)
Lemma total_count_moves_points :
  let e := mkEnc false ELLIPSE (zlen three_five) (concat (concat three_five)) None None in
  decode e 2 = Ok [firstn 4 eight_points; skipn 4 eight_points] /\
  concat [firstn 4 eight_points; skipn 4 eight_points] = concat three_five /\
  [firstn 4 eight_points; skipn 4 eight_points] <> three_five.
Proof. cbv zeta. split; [vm_compute; reflexivity|]. split; [reflexivity|]. vm_compute. discriminate. Qed.
