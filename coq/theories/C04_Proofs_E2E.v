(* C04 - end-to-end statements: a region read of a tiled image / of a mask tiled
   by the library IS the numpy slice M[r0:r1, c0:c1] of the matrix the tiles were
   cut from (whole arrays, not cell by cell), for every argument convention,
   or the stated refusal. *)
From Coq Require Import String ZArith List Bool Lia ZifyBool Arith Permutation.
From HD Require Import Base.Val Base.ListZ C12_Model C12_Proofs C04_Model C04_Proofs C04_Proofs_Store
                       C04_Proofs_Arr C04_Proofs_Geom.
Import ListNotations.
Ltac Zify.zify_post_hook ::= Z.to_euclidean_division_equations.
Open Scope Z_scope.

(* numpy M[r0:r1, c0:c1] on a list-of-rows matrix (0-based, half-open, in range) *)
Definition submatrix (M : list (list Z)) (r0 r1 c0 c1 : Z) : list (list Z) :=
  map (slice_list c0 c1) (slice_list r0 r1 M).

Lemma in_slice : forall {A} (l : list A) a b x, In x (slice_list a b l) -> In x l.
Proof.
  intros A l a b x H. unfold slice_list in H.
  rewrite <- (firstn_skipn (Z.to_nat a) l). apply in_or_app. right.
  rewrite <- (firstn_skipn (Z.to_nat (b - a)) (skipn (Z.to_nat a) l)). apply in_or_app. now left.
Qed.

Lemma shape_submatrix : forall M R C r0 r1 c0 c1, wf_matrix M R C ->
  0 <= r0 <= r1 -> r1 <= R -> 0 <= c0 <= c1 -> c1 <= C ->
  shape (r1 - r0) (c1 - c0) (submatrix M r0 r1 c0 c1).
Proof.
  intros M R C r0 r1 c0 c1 [HL HR] Hr Hr1 Hc Hc1. unfold submatrix. split.
  - rewrite map_length. pose proof (length_slice M r0 r1 Hr ltac:(lia)). lia.
  - intros row Hin. apply in_map_iff in Hin as (x & <- & Hx). apply in_slice in Hx.
    pose proof (length_slice x c0 c1 Hc ltac:(rewrite (HR x Hx); lia)). lia.
Qed.

Lemma nth_map_default : forall {A B} (f : A -> B) l n d d', f d = d' -> nth n (map f l) d' = f (nth n l d).
Proof. intros A B f l n d d' <-. apply map_nth. Qed.

Lemma cell_submatrix : forall M r0 r1 c0 c1 i j, 0 <= r0 -> 0 <= c0 -> 0 <= i < r1 - r0 -> 0 <= j < c1 - c0 ->
  cell (submatrix M r0 r1 c0 c1) i j = cell M (r0 + i) (c0 + j).
Proof.
  intros M r0 r1 c0 c1 i j Hr Hc Hi Hj. unfold cell, submatrix.
  rewrite (nth_map_default (slice_list c0 c1) _ _ [] []) by apply slice_nil.
  rewrite nth_slice by lia. now rewrite nth_slice by lia.
Qed.

Lemma shape_scale : forall H W k A, shape H W A -> shape H W (scale_tile k A).
Proof.
  intros H W k A [L Rw]. unfold scale_tile. split; [now rewrite map_length|].
  intros row Hin. apply in_map_iff in Hin as (x & <- & Hx). rewrite map_length. now apply Rw.
Qed.

(* ---- uniqueness test = NoDup of the positions ------------------------------------- *)
Lemma pos_mem_positions : forall rp cp ts, pos_mem rp cp ts = true <-> In (cp, rp) (positions ts).
Proof.
  intros rp cp ts. rewrite pos_mem_iff. unfold positions, at_pos. rewrite in_map_iff. split.
  - intros (t & Ht & <- & <-). now exists t.
  - intros (t & E & Ht). inversion E; subst. now exists t.
Qed.

Lemma unique_positions_NoDup : forall ts, unique_positions ts = true <-> NoDup (positions ts).
Proof.
  induction ts as [|x r IH]; cbn [unique_positions positions map].
  - split; [constructor|reflexivity].
  - fold (positions r). rewrite andb_true_iff, negb_true_iff, IH. split.
    + intros [Hm Hn]. constructor; [|exact Hn]. intros Hin. apply pos_mem_positions in Hin. congruence.
    + intros Hnd. inversion Hnd as [|a l Hnotin Hn]; subst. split; [|exact Hn].
      destruct (pos_mem (t_rp x) (t_cp x) r) eqn:E; [|reflexivity].
      exfalso. apply Hnotin. now apply pos_mem_positions.
Qed.

(* ---- the composite: a region all of whose tiles are stored is the numpy slice ---------- *)
Lemma read_region_is_slice : forall M R C th tw ts s e cs ce,
  wf_matrix M R C -> 1 <= R -> 1 <= C -> 1 <= th -> 1 <= tw ->
  unique_positions ts = true -> (forall t, In t ts -> cut_of M R C th tw t) ->
  (forall p, In p (grid R C th tw) -> sel_pos s e cs ce th tw p = true -> In p (positions ts)) ->
  1 <= s <= e -> e <= R + 1 -> 1 <= cs <= ce -> ce <= C + 1 ->
  read_region ts s e cs ce th tw = submatrix M (s - 1) (e - 1) (cs - 1) (ce - 1).
Proof.
  intros M R C th tw ts s e cs ce Hwf HR HC Hh Hw Hu Hcut Hall Hs He Hcs Hce.
  apply (arr_ext (e - s) (ce - cs)).
  - apply shape_read_region.
  - replace (e - s) with (e - 1 - (s - 1)) by lia. replace (ce - cs) with (ce - 1 - (cs - 1)) by lia.
    apply (shape_submatrix M R C); auto; lia.
  - intros i j Hi Hj. rewrite (region_exact M R C th tw) by (auto; lia).
    rewrite cell_submatrix by lia.
    replace (pos_mem (tile_of th (s + i)) (tile_of tw (cs + j)) ts) with true; [reflexivity|].
    symmetry. apply pos_mem_positions. apply Hall.
    + apply (cover_exists R C th tw (s + i) (cs + j)); lia.
    + pose proof (tile_of_bounds th (s + i) Hh). pose proof (tile_of_bounds tw (cs + j) Hw).
      unfold sel_pos, selected. cbn [fst snd]. lia.
Qed.

Lemma spec_region_bounds : forall ai R C rs re cs ce s e c0 c1, 1 <= R -> 1 <= C ->
  spec_region ai R C rs re cs ce = Some (s, e, c0, c1) ->
  1 <= s <= e /\ e <= R + 1 /\ 1 <= c0 <= c1 /\ c1 <= C + 1.
Proof.
  intros ai R C rs re cs ce s e c0 c1 HR HC H. unfold spec_region in H.
  destruct (spec_start ai R rs) as [s'|] eqn:E1; [|discriminate].
  destruct (spec_end ai R re) as [e'|] eqn:E2; [|discriminate].
  destruct (spec_start ai C cs) as [c0'|] eqn:E3; [|discriminate].
  destruct (spec_end ai C ce) as [c1'|] eqn:E4; [|discriminate].
  destruct ((s' <=? e') && (c0' <=? c1')) eqn:E5; [|discriminate]. inversion H; subst.
  apply spec_start_range in E1; [|lia]. apply spec_end_range in E2; [|lia].
  apply spec_start_range in E3; [|lia]. apply spec_end_range in E4; [|lia]. lia.
Qed.

(* ---- images ------------------------------------------------------------------------------ *)
(* the frames of a TILED_FULL image of matrix M, positions implied by frame order *)
Definition tiles_full (M : list (list Z)) (R C th tw : Z) : list tile :=
  imply_full R C th tw (map (cut M R C th tw) (tile_offsets R C th tw)).

Lemma combine_map_r : forall {A B} (f : A -> B) l, combine l (map f l) = map (fun x => (x, f x)) l.
Proof. intros. induction l as [|x l IH]; cbn; [reflexivity|now rewrite IH]. Qed.

Lemma tiles_full_eq : forall M R C th tw,
  tiles_full M R C th tw = map (fun pos => mkT (snd pos) (fst pos) (cut M R C th tw pos)) (tile_offsets R C th tw).
Proof. intros. unfold tiles_full, imply_full. rewrite combine_map_r, map_map. reflexivity. Qed.

Lemma positions_tiles_full : forall M R C th tw, positions (tiles_full M R C th tw) = tile_offsets R C th tw.
Proof.
  intros. rewrite tiles_full_eq. unfold positions. rewrite map_map. cbn [t_cp t_rp].
  rewrite <- (map_id (tile_offsets R C th tw)) at 2. apply map_ext. now intros [].
Qed.

(* READ (TILE M) = M[region], TILED_FULL: Image.get_total_pixel_matrix on the tiled image of M
   returns exactly the numpy slice the three argument conventions denote, and a ValueError otherwise *)
Theorem image_full_end_to_end : forall M R C th tw ai rs re cs ce,
  wf_matrix M R C -> 1 <= R -> 1 <= C -> 1 <= th -> 1 <= tw ->
  img_read true (tiles_full M R C th tw) R C th tw ai rs re cs ce =
  match spec_region ai R C rs re cs ce with
  | Some (s, e, c0, c1) => Ok (submatrix M (s - 1) (e - 1) (c0 - 1) (c1 - 1))
  | None => Err "ValueError"
  end.
Proof.
  intros M R C th tw ai rs re cs ce Hwf HR HC Hh Hw. unfold img_read.
  assert (Hu : unique_positions (tiles_full M R C th tw) = true).
  { apply unique_positions_NoDup. rewrite positions_tiles_full, tile_offsets_is_grid by lia. apply grid_NoDup; lia. }
  rewrite Hu. cbn [negb]. rewrite read_std_spec by lia.
  destruct (spec_region ai R C rs re cs ce) as [[[[s e] c0] c1]|] eqn:Es; [|reflexivity].
  apply spec_region_bounds in Es; [|lia|lia]. f_equal.
  apply (read_region_is_slice M R C th tw); auto; try lia.
  - intros t Ht. rewrite tiles_full_eq in Ht. apply in_map_iff in Ht as ([pc pr] & <- & Hp).
    split; cbn [t_cp t_rp t_px fst snd]; [now rewrite <- tile_offsets_is_grid by lia|reflexivity].
  - intros p Hp _. rewrite positions_tiles_full, tile_offsets_is_grid by lia. exact Hp.
Qed.

(* TILED_SPARSE: explicit positions, frames in ANY order, any subset of the grid
   stored: the numpy slice when every tile meeting the region is stored, the
   "missing frames" RuntimeError exactly otherwise; arguments denoting no region are refused *)
Lemma read_std_count_cases : forall ts R C th tw ai rs re cs ce,
  read_std true ts R C th tw ai rs re cs ce = Err "RuntimeError" \/
  read_std true ts R C th tw ai rs re cs ce = read_std false ts R C th tw ai rs re cs ce.
Proof.
  intros. unfold read_std. destruct (standardize_rc ai rs re cs ce R C) as [[[[s e] c0] c1]|k]; cbn [bind]; [|now right].
  cbn [andb]. destruct (negb (count_selected ts s e c0 c1 th tw =? frames_expected s e th * frames_expected c0 c1 tw));
    [now left|now right].
Qed.

Theorem image_sparse_end_to_end : forall M R C th tw ts ai rs re cs ce,
  wf_matrix M R C -> 1 <= R -> 1 <= C -> 1 <= th -> 1 <= tw ->
  unique_positions ts = true -> (forall t, In t ts -> cut_of M R C th tw t) ->
  match spec_region ai R C rs re cs ce with
  | Some (s, e, c0, c1) =>
      (img_read false ts R C th tw ai rs re cs ce = Ok (submatrix M (s - 1) (e - 1) (c0 - 1) (c1 - 1)) /\
       forall p, In p (grid R C th tw) -> sel_pos s e c0 c1 th tw p = true -> In p (positions ts)) \/
      (img_read false ts R C th tw ai rs re cs ce = Err "RuntimeError" /\
       exists p, In p (grid R C th tw) /\ sel_pos s e c0 c1 th tw p = true /\ ~ In p (positions ts))
  | None => img_read false ts R C th tw ai rs re cs ce = Err "ValueError" \/
            img_read false ts R C th tw ai rs re cs ce = Err "RuntimeError"
  end.
Proof.
  intros M R C th tw ts ai rs re cs ce Hwf HR HC Hh Hw Hu Hcut.
  destruct (spec_region ai R C rs re cs ce) as [[[[s e] c0] c1]|] eqn:Es.
  - assert (Hnd : NoDup (positions ts)) by now apply unique_positions_NoDup.
    assert (Hincl : incl (positions ts) (grid R C th tw)).
    { intros p Hp. unfold positions in Hp. apply in_map_iff in Hp as (t & <- & Ht). apply (Hcut t Ht). }
    destruct (img_sparse_read R C th tw ts ai rs re cs ce s e c0 c1 HR HC Hh Hw Hu Hnd Hincl Es) as [[E Hall]|[E Hex]].
    + left. split; [|exact Hall]. rewrite E. f_equal.
      apply spec_region_bounds in Es; [|lia|lia].
      apply (read_region_is_slice M R C th tw); auto; lia.
    + right. now split.
  - unfold img_read. rewrite Hu. cbn [negb].
    destruct (read_std_count_cases ts R C th tw ai rs re cs ce) as [E|E]; [now right|].
    left. rewrite E, read_std_spec, Es by lia. reflexivity.
Qed.

(* ---- segmentations --------------------------------------------------------------------------- *)
Definition plane_of (k : Z) (planes : list plane) : list (list Z) :=
  match find (fun p : plane => fst p =? k) planes with Some p => snd p | None => [] end.

Lemma plane_of_in : forall planes k Mk, NoDup (map fst planes) -> In (k, Mk) planes -> plane_of k planes = Mk.
Proof.
  intros planes k Mk Hnd Hin. unfold plane_of.
  destruct (find (fun p : plane => fst p =? k) planes) as [[k' M']|] eqn:E.
  - apply find_some in E as [Hin' Ek]. cbn [fst snd] in *. assert (k' = k) by lia. subst k'.
    now apply (NoDup_fst_inj planes k M' Mk).
  - exfalso. pose proof (find_none _ _ E (k, Mk) Hin) as Hf. cbn [fst] in Hf. lia.
Qed.

Lemma stored_is_seg_store : forall ty mf full omit planes R C th tw st,
  stored ty mf full omit planes (map fst planes) R C th tw = Ok st ->
  seg_store ty mf full omit planes R C th tw = Ok st.
Proof.
  intros ty mf full omit planes R C th tw st H. unfold stored in H.
  destruct (seg_store ty mf full omit planes R C th tw) as [l|] eqn:E; cbn [bind] in H; [|discriminate].
  inversion H as [H1]. destruct full; [|reflexivity].
  now rewrite (seg_full_equals_sparse ty mf omit planes R C th tw l E).
Qed.

(* one plane: the region of segment k of the stored segmentation is the slice of
   the plane that was passed (times MaximumFractionalValue for FRACTIONAL) *)
Lemma seg_plane_is_slice : forall ty mf full omit planes R C th tw st k Mk s e cs ce,
  1 <= R -> 1 <= C -> 1 <= th -> 1 <= tw ->
  NoDup (map fst planes) -> In (k, Mk) planes -> wf_matrix Mk R C ->
  seg_store ty mf full omit planes R C th tw = Ok st ->
  1 <= s <= e -> e <= R + 1 -> 1 <= cs <= ce -> ce <= C + 1 ->
  read_region (tiles_of_seg k st) s e cs ce th tw =
  scale_tile (factor ty mf) (submatrix Mk (s - 1) (e - 1) (cs - 1) (ce - 1)).
Proof.
  intros ty mf full omit planes R C th tw st k Mk s e cs ce HR HC Hh Hw Hnd Hin Hwf Hst Hs He Hcs Hce.
  apply (arr_ext (e - s) (ce - cs)).
  - apply shape_read_region.
  - apply shape_scale.
    replace (e - s) with (e - 1 - (s - 1)) by lia. replace (ce - cs) with (ce - 1 - (cs - 1)) by lia.
    apply (shape_submatrix Mk R C); auto; lia.
  - intros i j Hi Hj.
    rewrite (tile_then_read ty mf full omit planes R C th tw st k Mk) by (auto; lia).
    rewrite cell_scale, cell_submatrix by lia. reflexivity.
Qed.

(* READ (TILE mask) = mask[region] for every segmentation type, organisation,
   omit flag, tile size, list of requested segments and argument convention *)
Theorem seg_end_to_end : forall ty mf full omit planes R C th tw st sel ai rs re cs ce,
  1 <= R -> 1 <= C -> 1 <= th -> 1 <= tw ->
  NoDup (map fst planes) -> (forall k Mk, In (k, Mk) planes -> wf_matrix Mk R C) ->
  stored ty mf full omit planes (map fst planes) R C th tw = Ok st ->
  (forall k, In k sel -> In k (map fst planes)) ->
  seg_read st sel R C th tw ai rs re cs ce =
  match spec_region ai R C rs re cs ce with
  | Some (s, e, c0, c1) =>
      Ok (map (fun k => scale_tile (factor ty mf) (submatrix (plane_of k planes) (s - 1) (e - 1) (c0 - 1) (c1 - 1))) sel)
  | None => match sel with [] => Ok [] | _ => Err "ValueError" end
  end.
Proof.
  intros ty mf full omit planes R C th tw st sel ai rs re cs ce HR HC Hh Hw Hnd Hwf Hst Hsel.
  apply stored_is_seg_store in Hst. unfold seg_read.
  destruct (spec_region ai R C rs re cs ce) as [[[[s e] c0] c1]|] eqn:Es.
  - pose proof (spec_region_bounds _ _ _ _ _ _ _ _ _ _ _ HR HC Es) as Hb.
    induction sel as [|k sel IH]; [reflexivity|]. cbn [fold_right map].
    rewrite read_std_spec, Es by lia. cbn [bind].
    rewrite IH by (intros k' Hk'; apply Hsel; now right). cbn [bind]. do 2 f_equal.
    assert (Hk : In k (map fst planes)) by (apply Hsel; now left).
    apply in_map_iff in Hk as ([k' Mk] & Ek & Hin). cbn [fst] in Ek. subst k'.
    rewrite (plane_of_in planes k Mk Hnd Hin).
    apply (seg_plane_is_slice ty mf full omit planes R C th tw st k Mk); auto; try lia.
    now apply (Hwf k).
  - destruct sel as [|k sel]; [reflexivity|]. cbn [fold_right].
    rewrite read_std_spec, Es by lia. reflexivity.
Qed.

(* LABELMAP read with combine_segments=True: the slice of the label map with the
   unrequested labels set to background *)
Theorem seg_labelmap_end_to_end : forall mf full omit L R C th tw st sel ai rs re cs ce,
  1 <= R -> 1 <= C -> 1 <= th -> 1 <= tw -> wf_matrix L R C ->
  stored Labelmap mf full omit [(0, L)] [0] R C th tw = Ok st ->
  seg_read_labelmap st sel R C th tw ai rs re cs ce =
  match spec_region ai R C rs re cs ce with
  | Some (s, e, c0, c1) =>
      Ok (map (map (fun v => if existsb (Z.eqb v) sel then v else 0)) (submatrix L (s - 1) (e - 1) (c0 - 1) (c1 - 1)))
  | None => Err "ValueError"
  end.
Proof.
  intros mf full omit L R C th tw st sel ai rs re cs ce HR HC Hh Hw Hwf Hst.
  apply (stored_is_seg_store Labelmap mf full omit [(0, L)]) in Hst.
  unfold seg_read_labelmap. rewrite read_std_spec by lia.
  destruct (spec_region ai R C rs re cs ce) as [[[[s e] c0] c1]|] eqn:Es; [|reflexivity].
  pose proof (spec_region_bounds _ _ _ _ _ _ _ _ _ _ _ HR HC Es) as Hb. cbn [bind]. do 2 f_equal.
  assert (Hnd1 : NoDup (map fst [(0, L)])) by (cbn; repeat constructor; intros []).
  assert (Hin1 : In (0, L) [(0, L)]) by now left.
  rewrite (seg_plane_is_slice Labelmap mf full omit [(0, L)] R C th tw st 0 L s e c0 c1
             HR HC Hh Hw Hnd1 Hin1 Hwf Hst ltac:(lia) ltac:(lia) ltac:(lia) ltac:(lia)).
  cbn [factor]. unfold scale_tile. rewrite <- (map_id (submatrix _ _ _ _ _)) at 2.
  apply map_ext. intros row. rewrite <- (map_id row) at 2. apply map_ext. intros v. lia.
Qed.

(* ... and through the geometry-aware constructor: regions are addressed against
   the DECLARED TotalPixelMatrixRows/Columns *)
Theorem geom_end_to_end : forall ty mf full omit planes R C g th tw RD CD st sel ai rs re cs ce,
  1 <= R -> 1 <= C -> 1 <= th -> 1 <= tw ->
  NoDup (map fst planes) -> (forall k Mk, In (k, Mk) planes -> wf_matrix Mk R C) ->
  stored_geom ty mf full omit planes (map fst planes) R C g = Ok (th, tw, RD, CD, st) ->
  (forall k, In k sel -> In k (map fst planes)) ->
  seg_read st sel RD CD th tw ai rs re cs ce =
  match spec_region ai R C rs re cs ce with
  | Some (s, e, c0, c1) =>
      Ok (map (fun k => scale_tile (factor ty mf) (submatrix (plane_of k planes) (s - 1) (e - 1) (c0 - 1) (c1 - 1))) sel)
  | None => match sel with [] => Ok [] | _ => Err "ValueError" end
  end.
Proof.
  intros ty mf full omit planes R C g th tw RD CD st sel ai rs re cs ce HR HC Hh Hw Hnd Hwf Hst Hsel.
  apply stored_geom_ok in Hst. destruct Hst as (_ & -> & -> & _ & Hst).
  now apply (seg_end_to_end ty mf full omit planes R C th tw st sel).
Qed.

(* ---- the remaining LABELMAP output modes ------------------------------------------------------ *)
Theorem seg_labelmap_planes_end_to_end : forall mf full omit L R C th tw st sel ai rs re cs ce,
  1 <= R -> 1 <= C -> 1 <= th -> 1 <= tw -> wf_matrix L R C ->
  stored Labelmap mf full omit [(0, L)] [0] R C th tw = Ok st ->
  seg_read_labelmap_planes st sel R C th tw ai rs re cs ce =
  match spec_region ai R C rs re cs ce with
  | Some (s, e, c0, c1) =>
      Ok (map (fun k => map (map (fun v => if v =? k then 1 else 0)) (submatrix L (s - 1) (e - 1) (c0 - 1) (c1 - 1))) sel)
  | None => Err "ValueError"
  end.
Proof.
  intros mf full omit L R C th tw st sel ai rs re cs ce HR HC Hh Hw Hwf Hst.
  apply (stored_is_seg_store Labelmap mf full omit [(0, L)]) in Hst.
  unfold seg_read_labelmap_planes. rewrite read_std_spec by lia.
  destruct (spec_region ai R C rs re cs ce) as [[[[s e] c0] c1]|] eqn:Es; [|reflexivity].
  pose proof (spec_region_bounds _ _ _ _ _ _ _ _ _ _ _ HR HC Es) as Hb. cbn [bind]. f_equal.
  assert (Hnd1 : NoDup (map fst [(0, L)])) by (cbn; repeat constructor; intros []).
  assert (Hin1 : In (0, L) [(0, L)]) by now left.
  rewrite (seg_plane_is_slice Labelmap mf full omit [(0, L)] R C th tw st 0 L s e c0 c1
             HR HC Hh Hw Hnd1 Hin1 Hwf Hst ltac:(lia) ltac:(lia) ltac:(lia) ltac:(lia)).
  cbn [factor]. replace (scale_tile 1 (submatrix L (s - 1) (e - 1) (c0 - 1) (c1 - 1)))
    with (submatrix L (s - 1) (e - 1) (c0 - 1) (c1 - 1)); [reflexivity|].
  unfold scale_tile. rewrite <- (map_id (submatrix _ _ _ _ _)) at 1.
  apply map_ext. intros row. rewrite <- (map_id row) at 1. apply map_ext. intros v. lia.
Qed.

(* relabel: a requested label is shown as its 1-based position in the request, everything else as 0 *)
Lemma index1_spec : forall v sel,
  (index1 v sel = 0 /\ ~ In v sel) \/
  (1 <= index1 v sel <= Z.of_nat (length sel) /\ nth (Z.to_nat (index1 v sel - 1)) sel 0 = v /\
   forall m, (m < Z.to_nat (index1 v sel - 1))%nat -> nth m sel 0 <> v).
Proof.
  intros v sel. induction sel as [|k r IH]; cbn [index1]; [left; split; [reflexivity|intros []]|].
  destruct (v =? k) eqn:E.
  - right. cbn [length]. split; [lia|]. split; [cbn; lia|]. intros m Hm. cbn in Hm. lia.
  - destruct IH as [[I0 Hn]|(Hr & Hnth & Hfirst)].
    + left. rewrite I0. cbn. split; [reflexivity|]. intros [H|H]; [lia|contradiction].
    + right. replace (index1 v r =? 0) with false by lia. cbn [length]. split; [lia|].
      replace (Z.to_nat (index1 v r + 1 - 1)) with (S (Z.to_nat (index1 v r - 1))) by lia. split; [exact Hnth|].
      intros [|m] Hm; cbn [nth]; [lia|]. apply Hfirst. lia.
Qed.

Theorem seg_labelmap_relabel_end_to_end : forall mf full omit L R C th tw st sel ai rs re cs ce,
  1 <= R -> 1 <= C -> 1 <= th -> 1 <= tw -> wf_matrix L R C ->
  stored Labelmap mf full omit [(0, L)] [0] R C th tw = Ok st ->
  seg_read_labelmap_relabel st sel R C th tw ai rs re cs ce =
  match spec_region ai R C rs re cs ce with
  | Some (s, e, c0, c1) => Ok (map (map (fun v => index1 v sel)) (submatrix L (s - 1) (e - 1) (c0 - 1) (c1 - 1)))
  | None => Err "ValueError"
  end.
Proof.
  intros mf full omit L R C th tw st sel ai rs re cs ce HR HC Hh Hw Hwf Hst.
  apply (stored_is_seg_store Labelmap mf full omit [(0, L)]) in Hst.
  unfold seg_read_labelmap_relabel. rewrite read_std_spec by lia.
  destruct (spec_region ai R C rs re cs ce) as [[[[s e] c0] c1]|] eqn:Es; [|reflexivity].
  pose proof (spec_region_bounds _ _ _ _ _ _ _ _ _ _ _ HR HC Es) as Hb. cbn [bind]. do 2 f_equal.
  assert (Hnd1 : NoDup (map fst [(0, L)])) by (cbn; repeat constructor; intros []).
  assert (Hin1 : In (0, L) [(0, L)]) by now left.
  rewrite (seg_plane_is_slice Labelmap mf full omit [(0, L)] R C th tw st 0 L s e c0 c1
             HR HC Hh Hw Hnd1 Hin1 Hwf Hst ltac:(lia) ltac:(lia) ltac:(lia) ltac:(lia)).
  cbn [factor]. unfold scale_tile. rewrite <- (map_id (submatrix _ _ _ _ _)) at 2.
  apply map_ext. intros row. rewrite <- (map_id row) at 2. apply map_ext. intros v. lia.
Qed.

(* ---- statements kept in C04_Props.v as single lemmas ------------------------------------------ *)
Lemma seg_full_equals_sparse_all : forall ty mf omit planes R C th tw st,
  seg_store ty mf true omit planes R C th tw = Ok st ->
  reimply_full (map fst planes) R C th tw st = st /\
  omit_eff omit planes R C th tw = false /\
  seg_store ty mf false false planes R C th tw = Ok st.
Proof.
  intros. split; [now apply (seg_full_equals_sparse ty mf omit)|now apply seg_full_is_unomitted].
Qed.

Lemma shape_guard_exact : forall o uo os um ms R C SR SC th tw sth stw,
  seg_declared (tpm_preserved o uo os um ms) R C SR SC th tw sth stw = Err "ValueError" <->
  ((o = true /\ (uo = true -> os = true) /\ (um = true -> ms = true)) /\ (R <> SR \/ C <> SC)).
Proof. intros. rewrite seg_declared_refuses_iff, tpm_preserved_iff. reflexivity. Qed.
