(* C02 - proofs, part 4: reads by dimension index values with an explicit list of dimension index
   pointers (read_dim).
   1. The ORDER of the pointers is irrelevant: permuting the pointers and the values of every requested
      row alike does not change the answer (pointer_order_irrelevant).
   2. Whatever selection of dimensions is used, it only NAMES the planes: when the selected index values
      identify the planes of the object, the read is the read by plane of the plain object
      (read_dim_names_planes) - so every theorem about [read] applies.
   3. A requested row of values that no stored frame carries is refused unless the caller asserts that
      missing frames are empty (read_dim_absent_refused). *)
From Coq Require Import String ZArith List Bool Lia ZifyBool Permutation.
From HD Require Import Base.Val C02_Model C02_Proofs C02_Proofs_Ix.
Import ListNotations.
Open Scope Z_scope.

(* ------------------------------------------------------------------ *)
(* generalities                                                         *)
Lemma zlist_eqb_refl a : zlist_eqb a a = true.
Proof. induction a as [|x a IH]; [reflexivity|]. cbn [zlist_eqb]. rewrite Z.eqb_refl, IH. reflexivity. Qed.

Lemma zlist_eqb_iff a b : zlist_eqb a b = true <-> a = b.
Proof. split; [apply zlist_eqb_eq|]. intros ->. apply zlist_eqb_refl. Qed.

Lemma bool_eq_of_iff (a b : bool) : (a = true <-> b = true) -> a = b.
Proof.
  destruct a, b; intros [H1 H2]; try reflexivity.
  - symmetry. apply H1. reflexivity.
  - apply H2. reflexivity.
Qed.

Lemma find_ext_in {A} (p q : A -> bool) l : (forall x, In x l -> p x = q x) -> find p l = find q l.
Proof.
  induction l as [|a l IH]; intros H; [reflexivity|].
  cbn [find]. rewrite (H a (or_introl eq_refl)). destruct (q a); [reflexivity|].
  apply IH. intros x Hx. apply H. right. exact Hx.
Qed.

Lemma existsb_ext_in {A} (p q : A -> bool) l : (forall x, In x l -> p x = q x) -> existsb p l = existsb q l.
Proof.
  induction l as [|a l IH]; intros H; [reflexivity|].
  cbn [existsb]. rewrite (H a (or_introl eq_refl)), IH; [reflexivity|].
  intros x Hx. apply H. right. exact Hx.
Qed.

Lemma first_idx_ext p q l : forall i,
  (forall f, In f l -> p f = q f) -> first_idx p l i = first_idx q l i.
Proof.
  induction l as [|g l IH]; intros i H; [reflexivity|].
  cbn [first_idx]. rewrite (H g (or_introl eq_refl)).
  destruct (q g); [reflexivity|]. apply IH. intros f Hf. apply H. right. exact Hf.
Qed.

Lemma first_idx_none p l : forall i, (forall f, In f l -> p f = false) -> first_idx p l i = -1.
Proof.
  induction l as [|g l IH]; intros i H; [reflexivity|].
  cbn [first_idx]. rewrite (H g (or_introl eq_refl)). apply IH. intros f Hf. apply H. right. exact Hf.
Qed.

Lemma first_idx_range p l : forall i, first_idx p l i = -1 \/ i <= first_idx p l i.
Proof.
  induction l as [|g l IH]; intros i; [left; reflexivity|].
  cbn [first_idx]. destruct (p g); [right; lia|].
  destruct (IH (i + 1)) as [H|H]; [left; exact H|right; lia].
Qed.

Lemma first_idx_found p l g : forall i, In g l -> p g = true -> i <= first_idx p l i.
Proof.
  induction l as [|h l IH]; intros i Hin Hp; [destruct Hin|].
  cbn [first_idx]. destruct (p h) eqn:E; [lia|].
  destruct Hin as [->|Hin]; [congruence|].
  specialize (IH (i + 1) Hin Hp). lia.
Qed.

(* a hit is reported by its position: the frame at that position satisfies the predicate *)
Lemma first_idx_hit p l : forall i r, 0 <= i -> first_idx p l i = r -> i <= r ->
  exists g, nth_error l (Z.to_nat (r - i)) = Some g /\ p g = true.
Proof.
  induction l as [|g l IH]; intros i r Hi Hr Hle; cbn [first_idx] in Hr; [lia|].
  destruct (p g) eqn:E.
  - subst r. replace (i - i) with 0 by lia. exists g. split; [reflexivity|exact E].
  - assert (Hlt : i + 1 <= r) by (destruct (first_idx_range p l (i + 1)); lia).
    destruct (IH (i + 1) r ltac:(lia) Hr Hlt) as [h [Hn Hp]].
    exists h. split; [|exact Hp].
    replace (Z.to_nat (r - i)) with (S (Z.to_nat (r - (i + 1)))) by lia. exact Hn.
Qed.

(* ------------------------------------------------------------------ *)
(* 1. the order of the pointers                                         *)
(* [permute sigma l]: the list whose j-th entry is entry sigma_j of l *)
Definition permute (sigma : list nat) (l : list Z) : list Z := map (fun j => nth j l 0) sigma.

Lemma permute_length sigma l : length (permute sigma l) = length sigma.
Proof. apply map_length. Qed.

Lemma perm_seq_lt sigma n : Permutation sigma (seq 0 n) -> forall j, In j sigma -> (j < n)%nat.
Proof. intros H j Hj. apply (Permutation_in _ H) in Hj. apply in_seq in Hj. lia. Qed.

Lemma perm_seq_length sigma n : Permutation sigma (seq 0 n) -> length sigma = n.
Proof. intros H. apply Permutation_length in H. rewrite seq_length in H. exact H. Qed.

Lemma permute_proj sigma ps ix : (forall j, In j sigma -> (j < length ps)%nat) ->
  proj (permute sigma ps) ix = permute sigma (proj ps ix).
Proof.
  intros H. unfold proj, permute. rewrite map_map. apply map_ext_in. intros j Hj.
  set (f := fun p : Z => nth (Z.to_nat p) ix 0).
  rewrite (nth_indep (map f ps) 0 (f 0)) by (rewrite map_length; apply H; exact Hj).
  rewrite map_nth. reflexivity.
Qed.

Lemma permute_inj sigma n a b : Permutation sigma (seq 0 n) -> length a = n -> length b = n ->
  permute sigma a = permute sigma b -> a = b.
Proof.
  intros Hp Ha Hb H. apply (nth_ext a b 0 0); [congruence|]. intros i Hi.
  assert (Hin : In i sigma).
  { apply (Permutation_in _ (Permutation_sym Hp)). apply in_seq. lia. }
  destruct (In_nth sigma i 0%nat Hin) as [k [Hk Hnk]].
  assert (E : nth k (permute sigma a) 0 = nth k (permute sigma b) 0) by (rewrite H; reflexivity).
  unfold permute in E.
  set (fa := fun j : nat => nth j a 0) in E. set (fb := fun j : nat => nth j b 0) in E.
  rewrite (nth_indep (map fa sigma) 0 (fa 0%nat)) in E by (rewrite map_length; exact Hk).
  rewrite (nth_indep (map fb sigma) 0 (fb 0%nat)) in E by (rewrite map_length; exact Hk).
  rewrite !map_nth, Hnk in E. exact E.
Qed.

Lemma zlist_eqb_permute sigma n a b : Permutation sigma (seq 0 n) -> length a = n -> length b = n ->
  zlist_eqb (permute sigma a) (permute sigma b) = zlist_eqb a b.
Proof.
  intros Hp Ha Hb. apply bool_eq_of_iff. rewrite !zlist_eqb_iff. split.
  - apply (permute_inj sigma n); assumption.
  - intros ->. reflexivity.
Qed.

Lemma proj_length ps ix : length (proj ps ix) = length ps.
Proof. apply map_length. Qed.

Section PointerOrder.
  Variable sigma : list nat.
  Variable ps : list Z.
  Hypothesis Hperm : Permutation sigma (seq 0 (length ps)).

  Lemma sigma_lt : forall j, In j sigma -> (j < length ps)%nat.
  Proof. apply perm_seq_lt. exact Hperm. Qed.

  Lemma row_matches_permute row f : length row = length ps ->
    row_matches (permute sigma ps) (permute sigma row) f = row_matches ps row f.
  Proof.
    intros Hr. unfold row_matches. rewrite (permute_proj sigma ps (d_ix f) sigma_lt).
    apply (zlist_eqb_permute sigma (length ps)); [exact Hperm|apply proj_length|exact Hr].
  Qed.

  Lemma dim_key_permute dfs row : length row = length ps ->
    dim_key (permute sigma ps) dfs (permute sigma row) = dim_key ps dfs row.
  Proof.
    intros Hr. unfold dim_key. apply first_idx_ext. intros f _. apply row_matches_permute. exact Hr.
  Qed.

  Lemma dim_view_permute dfs : dim_view (permute sigma ps) dfs = dim_view ps dfs.
  Proof.
    unfold dim_view. apply map_ext. intros f.
    rewrite (permute_proj sigma ps (d_ix f) sigma_lt).
    rewrite dim_key_permute by apply proj_length. reflexivity.
  Qed.

  Lemma zlen_permute (l : list Z) : zlen (permute sigma l) = zlen ps.
  Proof. unfold zlen. rewrite permute_length, (perm_seq_length _ _ Hperm). reflexivity. Qed.
End PointerOrder.

Lemma ptr_check_none nd ps : (forall p, In p ps -> 0 <= p < nd) -> ptr_check nd ps = None.
Proof.
  induction ps as [|p ps IH]; intros H; [reflexivity|].
  cbn [ptr_check]. pose proof (H p (or_introl eq_refl)) as Hp.
  replace (p =? -1) with false by lia. replace ((p <? 0) || (nd <=? p)) with false by lia.
  apply IH. intros q Hq. apply H. right. exact Hq.
Qed.

Lemma Forall2_len {A B} (R : A -> B -> Prop) l1 l2 : Forall2 R l1 l2 -> length l1 = length l2.
Proof. induction 1; cbn [length]; congruence. Qed.

Lemma forallb_true {A} (p : A -> bool) l : (forall x, In x l -> p x = true) -> forallb p l = true.
Proof. intros H. apply forallb_forall. exact H. Qed.

Lemma pointer_order_irrelevant sigma am st nd dfs ps rows req o :
  Permutation sigma (seq 0 (length ps)) ->
  (forall p, In p ps -> 0 <= p < nd) ->
  (forall r, In r rows -> length r = length ps) ->
  read_dim am st nd dfs (Some (permute sigma ps)) (map (permute sigma) rows) req o =
  read_dim am st nd dfs (Some ps) rows req o.
Proof.
  intros Hperm Hps Hrows. unfold read_dim.
  destruct (zlen req =? 0); [reflexivity|].
  rewrite (zlen_permute sigma ps Hperm ps).
  destruct (zlen ps =? 0); [reflexivity|].
  rewrite (ptr_check_none nd ps Hps).
  rewrite (ptr_check_none nd (permute sigma ps)).
  2:{ intros p Hp. unfold permute in Hp. apply in_map_iff in Hp. destruct Hp as [j [<- Hj]].
      apply Hps. apply nth_In. apply (perm_seq_lt _ _ Hperm). exact Hj. }
  rewrite zlen_map.
  destruct (zlen rows =? 0); [reflexivity|].
  rewrite (forallb_true (fun r => zlen r =? zlen ps) rows).
  2:{ intros r Hr. unfold zlen. rewrite (Hrows r Hr). apply Z.eqb_refl. }
  rewrite (forallb_true _ (map (permute sigma) rows)).
  2:{ intros r Hr. apply in_map_iff in Hr. destruct Hr as [r0 [<- _]].
      rewrite !(zlen_permute sigma ps Hperm). apply Z.eqb_refl. }
  cbn [negb].
  rewrite (dim_view_permute sigma ps Hperm).
  rewrite map_map.
  rewrite (map_ext_in (fun x => dim_key (permute sigma ps) dfs (permute sigma x)) (dim_key ps dfs)).
  - reflexivity.
  - intros r Hr. apply (dim_key_permute sigma ps Hperm). apply Hrows. exact Hr.
Qed.

(* ------------------------------------------------------------------ *)
(* 2. renaming the planes of ONE object: [enc] need only tell the keys of the stored frames apart
      from every other key (the Rekey lemmas of part 3 ask for an injective enc)                  *)
Section Rekey2.
  Variable enc : Z -> Z.
  Variable st : stored.
  Hypothesis Henc : forall f k, In f (s_frames st) -> (enc (fkey f) =? enc k) = (fkey f =? k).

  Lemma find_last_rekey2 (p q : frame -> bool) l :
    (forall f, In f l -> p (rekey enc f) = q f) ->
    find_last p (map (rekey enc) l) = option_map (rekey enc) (find_last q l).
  Proof.
    intros H. unfold find_last. rewrite <- map_rev, find_map'.
    rewrite (find_ext_in _ q); [reflexivity|].
    intros f Hf. apply H. apply (proj2 (in_rev l f)). exact Hf.
  Qed.

  Lemma lm_plane_rekey2 d k : lm_plane (rekey_st enc st) d (enc k) = lm_plane st d k.
  Proof.
    unfold lm_plane, rekey_st. rewrite with_frames_frames.
    rewrite (find_last_rekey2 _ (fun f => fkey f =? k)).
    - destruct (find_last _ (s_frames st)); reflexivity.
    - intros f Hf. cbn [rekey fkey]. apply Henc. exact Hf.
  Qed.

  Lemma stack_col_rekey2 d k s : stack_col (rekey_st enc st) d (enc k) s = stack_col st d k s.
  Proof.
    unfold stack_col, rekey_st. rewrite with_frames_frames.
    rewrite (find_last_rekey2 _ (fun f => (fkey f =? k) && (fseg f =? s))).
    - destruct (find_last _ (s_frames st)); reflexivity.
    - intros f Hf. cbn [rekey fkey fseg]. rewrite (Henc f k Hf). reflexivity.
  Qed.

  Lemma join_plane_rekey2 k ct :
    join_plane (rekey_st enc st) (enc k) ct =
    map (fun fl => (rekey enc (fst fl), snd fl)) (join_plane st k ct).
  Proof.
    unfold join_plane, rekey_st. rewrite with_frames_frames.
    assert (G : forall l, (forall f, In f l -> In f (s_frames st)) ->
      flat_map (fun f => if fkey f =? enc k
                         then map (fun cs => (f, fst cs)) (filter (fun cs => snd cs =? fseg f) ct) else [])
               (map (rekey enc) l) =
      map (fun fl => (rekey enc (fst fl), snd fl))
          (flat_map (fun f => if fkey f =? k
                              then map (fun cs => (f, fst cs)) (filter (fun cs => snd cs =? fseg f) ct) else []) l)).
    { induction l as [|f l IH]; intros Hl; [reflexivity|].
      cbn [map flat_map]. rewrite map_app, IH by (intros g Hg; apply Hl; right; exact Hg). f_equal.
      cbn [rekey fkey fseg]. rewrite (Henc f k (Hl f (or_introl eq_refl))).
      destruct (fkey f =? k); [|reflexivity].
      rewrite map_map. reflexivity. }
    apply G. intros f Hf. exact Hf.
  Qed.

  Lemma labelmap_read_rekey2 keys req comb relabel d :
    labelmap_read (rekey_st enc st) (map enc keys) req comb relabel d = labelmap_read st keys req comb relabel d.
  Proof.
    unfold labelmap_read. cbv zeta.
    rewrite map_map.
    erewrite map_ext by (intros; apply lm_plane_rekey2).
    reflexivity.
  Qed.

  Lemma seg_frame_rekey2 keys req o :
    seg_frame (rekey_st enc st) (map enc keys) req o = seg_frame st keys req o.
  Proof.
    unfold seg_frame. cbv zeta.
    rewrite labelmap_read_rekey2, map_res_map, map_map.
    erewrite map_res_ext' by (intros; rewrite join_plane_rekey2; apply combine_loop_rekey).
    erewrite map_ext by (intros; apply map_ext; intros; apply stack_col_rekey2).
    reflexivity.
  Qed.

  Lemma has_frame_rekey2 k : has_frame (rekey_st enc st) (enc k) = has_frame st k.
  Proof.
    unfold has_frame, rekey_st. rewrite with_frames_frames, existsb_map'.
    apply existsb_ext_in. intros f Hf. cbn [rekey fkey]. apply Henc. exact Hf.
  Qed.

  Lemma unique_frames_rekey2 lm l : (forall f, In f l -> In f (s_frames st)) ->
    unique_frames lm (map (rekey enc) l) = unique_frames lm l.
  Proof.
    induction l as [|f l IH]; intros Hl; [reflexivity|].
    cbn [map unique_frames]. rewrite IH by (intros g Hg; apply Hl; right; exact Hg).
    rewrite existsb_map'.
    rewrite (existsb_ext_in _ (same_slot lm f)); [reflexivity|].
    intros x Hx. unfold same_slot. cbn [rekey fkey fseg].
    rewrite (Henc f (fkey x) (Hl f (or_introl eq_refl))). reflexivity.
  Qed.

  Lemma policy_dimidx_rekey2 am keys :
    policy EDimIdx am (rekey_st enc st) (map enc keys) = policy EDimIdx am st keys.
  Proof.
    unfold policy. destruct am; [reflexivity|].
    rewrite forallb_map'.
    rewrite (forallb_ext' _ (has_frame st)); [reflexivity|].
    intros k. apply has_frame_rekey2.
  Qed.

  Lemma read_dimidx_rekey2 am keys req o :
    read EDimIdx am (rekey_st enc st) (map enc keys) req o = read EDimIdx am st keys req o.
  Proof.
    unfold read. rewrite zlen_map, policy_dimidx_rekey2, seg_frame_rekey2.
    replace (s_ty (rekey_st enc st)) with (s_ty st) by reflexivity.
    replace (s_frames (rekey_st enc st)) with (map (rekey enc) (s_frames st)) by reflexivity.
    rewrite unique_frames_rekey2 by (intros f Hf; exact Hf). reflexivity.
  Qed.
End Rekey2.

(* ------------------------------------------------------------------ *)
(* the selected index values name the planes                            *)
Section NamesPlanes.
  Variable dfs : list dframe.
  Variable ps : list Z.
  (* two stored frames belong to the same plane iff they agree along the selected dimensions *)
  Hypothesis Hsel : forall f g, In f dfs -> In g dfs ->
    (fkey (d_frame f) = fkey (d_frame g) <-> proj ps (d_ix f) = proj ps (d_ix g)).

  (* the name the model gives plane k: position of its first stored frame, -1 if it has none *)
  Definition plane_name (k : Z) : Z := first_idx (fun f => fkey (d_frame f) =? k) dfs 0.

  Lemma plane_name_separates f k : In f (map d_frame dfs) ->
    (plane_name (fkey f) =? plane_name k) = (fkey f =? k).
  Proof.
    intros Hf. apply in_map_iff in Hf. destruct Hf as [g [<- Hg]].
    destruct (fkey (d_frame g) =? k) eqn:E.
    - apply Z.eqb_eq in E. rewrite E. apply Z.eqb_refl.
    - apply Z.eqb_neq. intro Heq. apply Z.eqb_neq in E. apply E.
      unfold plane_name in Heq.
      pose proof (first_idx_found (fun f => fkey (d_frame f) =? fkey (d_frame g)) dfs g 0 Hg (Z.eqb_refl _)) as Hge.
      destruct (first_idx_hit _ dfs 0 _ ltac:(lia) eq_refl Hge) as [h1 [Hn1 Hp1]].
      rewrite Heq in Hge.
      destruct (first_idx_hit _ dfs 0 _ ltac:(lia) eq_refl Hge) as [h2 [Hn2 Hp2]].
      rewrite Heq in Hn1. rewrite Hn1 in Hn2. inversion Hn2. subst h2.
      cbv beta in Hp1, Hp2. lia.
  Qed.

  Lemma dim_key_of_frame f : In f dfs ->
    dim_key ps dfs (proj ps (d_ix f)) = plane_name (fkey (d_frame f)).
  Proof.
    intros Hf. unfold dim_key, plane_name. apply first_idx_ext. intros g Hg.
    unfold row_matches. apply bool_eq_of_iff. rewrite zlist_eqb_iff, Z.eqb_eq.
    rewrite (Hsel g f Hg Hf). reflexivity.
  Qed.

  Lemma dim_view_is_rekey st :
    dim_view ps dfs = s_frames (rekey_st plane_name (with_frames st (map d_frame dfs))).
  Proof.
    unfold rekey_st. rewrite !with_frames_frames. unfold dim_view. rewrite map_map.
    apply map_ext_in. intros f Hf. rewrite (dim_key_of_frame f Hf). reflexivity.
  Qed.

  Lemma dim_keys_of_rows keys rows :
    Forall2 (fun k row => forall f, In f dfs -> (fkey (d_frame f) = k <-> proj ps (d_ix f) = row)) keys rows ->
    map (dim_key ps dfs) rows = map plane_name keys.
  Proof.
    induction 1 as [|k row keys rows H _ IH]; [reflexivity|].
    cbn [map]. rewrite IH. f_equal.
    unfold dim_key, plane_name. apply first_idx_ext. intros g Hg.
    unfold row_matches. apply bool_eq_of_iff. rewrite zlist_eqb_iff, Z.eqb_eq.
    rewrite (H g Hg). reflexivity.
  Qed.

  Lemma read_dim_names_planes am st nd keys rows req o :
    ps <> [] -> (forall p, In p ps -> 0 <= p < nd) ->
    (forall r, In r rows -> length r = length ps) ->
    Forall2 (fun k row => forall f, In f dfs -> (fkey (d_frame f) = k <-> proj ps (d_ix f) = row)) keys rows ->
    read_dim am st nd dfs (Some ps) rows req o =
    read EDimIdx am (with_frames st (map d_frame dfs)) keys req o.
  Proof.
    intros Hne Hps Hrows Hkr. unfold read_dim.
    destruct (zlen req =? 0) eqn:Ereq; [unfold read; rewrite Ereq; reflexivity|].
    replace (zlen ps =? 0) with false by (unfold zlen; destruct ps; [congruence|cbn [length]; lia]).
    rewrite (ptr_check_none nd ps Hps).
    assert (Hlen : zlen rows = zlen keys).
    { unfold zlen. rewrite (Forall2_len _ _ _ Hkr). reflexivity. }
    destruct (zlen rows =? 0) eqn:Erows.
    { unfold read. rewrite Ereq, <- Hlen, Erows. reflexivity. }
    rewrite (forallb_true (fun r => zlen r =? zlen ps) rows).
    2:{ intros r Hr. unfold zlen. rewrite (Hrows r Hr). apply Z.eqb_refl. }
    cbn [negb].
    rewrite (dim_keys_of_rows keys rows Hkr).
    set (st0 := with_frames st (map d_frame dfs)).
    replace (with_frames st (dim_view ps dfs)) with (rekey_st plane_name st0).
    2:{ unfold rekey_st, st0. rewrite with_frames_twice, with_frames_frames.
        f_equal. symmetry. rewrite (dim_view_is_rekey st). unfold rekey_st.
        rewrite !with_frames_frames. reflexivity. }
    apply read_dimidx_rekey2.
    intros f k Hf. apply plane_name_separates. exact Hf.
  Qed.
End NamesPlanes.

(* ------------------------------------------------------------------ *)
(* 3. a row of values that no stored frame carries                      *)
Lemma dim_view_keys_nonneg ps dfs f : In f (dim_view ps dfs) -> 0 <= fkey f.
Proof.
  intros Hf. unfold dim_view in Hf. apply in_map_iff in Hf. destruct Hf as [g [<- Hg]].
  cbn [fkey]. unfold dim_key.
  apply (first_idx_found _ dfs g 0 Hg). unfold row_matches. apply zlist_eqb_refl.
Qed.

Lemma read_dim_absent_refused st nd dfs ps rows req o row :
  (forall p, In p ps -> 0 <= p < nd) ->
  In row rows -> (forall f, In f dfs -> proj ps (d_ix f) <> row) ->
  read_dim false st nd dfs (Some ps) rows req o = Err "ValueError".
Proof.
  intros Hps Hrow Habs. unfold read_dim.
  destruct (zlen req =? 0) eqn:Ereq; [reflexivity|].
  destruct (zlen ps =? 0); [reflexivity|].
  rewrite (ptr_check_none nd ps Hps).
  destruct (zlen rows =? 0) eqn:Erows; [reflexivity|].
  destruct (negb (forallb _ rows)); [reflexivity|].
  unfold read. rewrite Ereq, zlen_map, Erows.
  assert (Hpol : policy EDimIdx false (with_frames st (dim_view ps dfs)) (map (dim_key ps dfs) rows)
                 = Some "ValueError"%string).
  { cbn [policy].
    destruct (forallb _ (map (dim_key ps dfs) rows)) eqn:E; [|reflexivity]. exfalso.
    rewrite forallb_forall in E.
    specialize (E (dim_key ps dfs row) (in_map _ _ _ Hrow)).
    apply has_frame_spec in E. destruct E as [f [Hf Hk]].
    rewrite with_frames_frames in Hf. apply dim_view_keys_nonneg in Hf.
    assert (Hm : dim_key ps dfs row = -1).
    { unfold dim_key. apply first_idx_none. intros g Hg. unfold row_matches.
      destruct (zlist_eqb (proj ps (d_ix g)) row) eqn:Ez; [|reflexivity].
      apply zlist_eqb_iff in Ez. exfalso. exact (Habs g Hg Ez). }
    lia. }
  rewrite Hpol. reflexivity.
Qed.

(* dimension_index_pointers=None: all plane dimensions of the object, in their own order *)
Lemma zrange_from_bounds n : forall a p, In p (zrange_from a n) -> a <= p < a + Z.of_nat n.
Proof.
  induction n as [|n IH]; intros a p H; [destruct H|].
  cbn [zrange_from] in H. destruct H as [<-|H]; [lia|]. apply IH in H. lia.
Qed.

Lemma read_dim_default_pointers am st nd dfs rows req o : 0 < nd ->
  read_dim am st nd dfs None rows req o = read_dim am st nd dfs (Some (zrange 0 nd)) rows req o.
Proof.
  intros Hnd. unfold read_dim.
  destruct (zlen req =? 0); [reflexivity|].
  replace (zlen (zrange 0 nd) =? 0) with false.
  2:{ unfold zlen, zrange. rewrite zrange_from_length. lia. }
  rewrite ptr_check_none; [reflexivity|].
  intros p Hp. unfold zrange in Hp. apply zrange_from_bounds in Hp. lia.
Qed.

(* non-vacuity: a 2 x 2 grid of tiles of which (row 1, column 2) is not stored; plane dimensions
   (row, column, x) with x = 3 - row; BINARY, segments 1 and 2 *)
Definition ex_ptr_st : stored := mkStored BINARY [1; 2] 1 1 2 0 [] [].
Definition ex_ptr_frames : list dframe :=
  [mkDf (mkFrame 1 1 [1; 0]) [1; 1; 2]; mkDf (mkFrame 3 1 [0; 1]) [2; 1; 1];
   mkDf (mkFrame 3 2 [1; 0]) [2; 1; 1]; mkDf (mkFrame 4 2 [1; 1]) [2; 2; 1]].
Definition ex_ptr_opts := mkOpts false false false false None.
Lemma ex_ptr_reads :
  (* (row, column) = (2, 1) and (1, 1) *)
  read_dim false ex_ptr_st 3 ex_ptr_frames (Some [0; 1]) [[2; 1]; [1; 1]] [2; 1] ex_ptr_opts
  = Ok (DU 8, OStack [[[1; 0]; [0; 1]]; [[0; 0]; [1; 0]]]) /\
  (* the same question with (column, row) *)
  read_dim false ex_ptr_st 3 ex_ptr_frames (Some [1; 0]) [[1; 2]; [1; 1]] [2; 1] ex_ptr_opts
  = Ok (DU 8, OStack [[[1; 0]; [0; 1]]; [[0; 0]; [1; 0]]]) /\
  (* (row 1, column 2) is absent although its mirror image (row 2, column 1) is stored *)
  read_dim false ex_ptr_st 3 ex_ptr_frames (Some [0; 1]) [[1; 2]] [1] ex_ptr_opts = Err "ValueError" /\
  read_dim true ex_ptr_st 3 ex_ptr_frames (Some [0; 1]) [[1; 2]] [1] ex_ptr_opts = Ok (DU 8, OStack [[[0; 0]]]) /\
  (* (x, column) identifies the tiles as well; (row) alone does not *)
  read_dim false ex_ptr_st 3 ex_ptr_frames (Some [2; 1]) [[1; 2]] [2] ex_ptr_opts = Ok (DU 8, OStack [[[1; 1]]]) /\
  read_dim false ex_ptr_st 3 ex_ptr_frames (Some [0]) [[2]] [2] ex_ptr_opts = Err "RuntimeError".
Proof. repeat split; vm_compute; reflexivity. Qed.
