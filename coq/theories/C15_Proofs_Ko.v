(* C15 - session 7: (A) the end-to-end statement with series read-back, predecessors, flags and
   recorded arguments of the PARSED document as conjuncts; (B) key object selections with
   observer contexts: exact construction, evidence independent of the contexts,
   get_observer_contexts returns the contexts given; (C) the arguments that
   KeyObjectSelectionDocument.__init__ only records. *)
From Coq Require Import String ZArith List Bool Lia Permutation.
From HD Require Import Base.Val C15_Model C15_Proofs C15_Proofs_Doc C15_Proofs_Ext.
Import ListNotations.
Open Scope Z_scope.

(* ---- (A) ---------------------------------------------------------------------------------- *)
Lemma flatten_series_of_flatten : forall (r : refs_t) st se u k,
  In (st, se, u, k) (flatten r) -> In (st, se) (flatten_series r).
Proof.
  intros r st se u k H. unfold flatten in H. unfold flatten_series.
  apply in_flat_map in H as [s [Hs H]]. apply in_flat_map in H as [se' [Hse H]].
  apply in_map_iff in H as [i [E _]]. injection E as <- <- _ _.
  apply in_flat_map. exists s. split; [assumption|]. apply in_map_iff. exists se'. now split.
Qed.

(* ---- (G) every series reported holds a reported instance ------------------------------------- *)
Definition ne_groups {K V : Type} (g : list (K * list V)) : Prop := Forall (fun kv => snd kv <> []) g.
Definition refs_ne (r : refs_t) : Prop :=
  forall st se (l : list inst), In (st, (se, l)) (gflat r) -> l <> [].

Lemma collect_fold_ne : forall R ev seen rg ug,
  ne_groups rg -> ne_groups ug ->
  ne_groups (snd (fst (fold_left (collect_step R) ev (seen, rg, ug)))) /\
  ne_groups (snd (fold_left (collect_step R) ev (seen, rg, ug))).
Proof.
  intros R. induction ev as [|e ev IH]; intros seen rg ug Hr Hu; cbn [fold_left]; [split; assumption|].
  unfold collect_step at 2 4. destruct (mem (e_uid e) seen); [now apply IH|].
  destruct (mem (e_uid e) R); apply IH; try assumption; now apply group_add_nonempty.
Qed.

Lemma create_references_ne : forall g, ne_groups g -> refs_ne (create_references g).
Proof.
  intros g H st se l Hin. rewrite create_references_fold in Hin.
  apply (Permutation_in _ (cr_fold_perm g [])) in Hin. cbn [gflat flat_map app] in Hin.
  apply in_map_iff in Hin as [e [E He]]. injection E as _ _ <-.
  unfold ne_groups in H. rewrite Forall_forall in H. now apply H.
Qed.

Lemma series_has_instance : forall r st se, refs_ne r -> In (st, se) (flatten_series r) ->
  exists u k, In (st, se, u, k) (flatten r).
Proof.
  intros r st se H Hin. unfold flatten_series in Hin. apply in_flat_map in Hin as [s [Hs Hin]].
  apply in_map_iff in Hin as [[se' l] [E Hse]]. cbn [fst] in E. injection E as <- <-.
  assert (G : In (fst s, (se', l)) (gflat r)).
  { unfold gflat. apply in_flat_map. exists s. split; [assumption|]. apply in_map_iff. exists (se', l). now split. }
  specialize (H _ _ _ G). destruct l as [|[u k] l]; [congruence|]. exists u, k.
  unfold flatten. apply in_flat_map. exists s. split; [assumption|]. apply in_flat_map. exists (se', (u, k) :: l).
  split; [assumption|]. cbn [snd map fst]. now left.
Qed.

Lemma collect_evidence_ne : forall ev root cur oth,
  collect_evidence true ev root = Ok (cur, oth) -> refs_ne cur /\ refs_ne oth.
Proof.
  intros ev root cur oth H. unfold collect_evidence in H. cbn [negb] in H.
  destruct (ref_uids_of (references root)) as [R|k]; cbn [bind] in H; [|discriminate].
  pose proof (collect_fold_ne R ev [] [] [] (Forall_nil _) (Forall_nil _)) as [N1 N2].
  destruct (fold_left (collect_step R) ev ([], [], [])) as [[seen rg] ug]. cbn [fst snd] in N1, N2.
  destruct (forallb (fun u => mem u seen) R); [|discriminate]. injection H as <- <-.
  split; now apply create_references_ne.
Qed.

Lemma doc_series_has_instance : forall c a d, sr_init c a = Ok d ->
  forall b st se, In (st, se) (get_evidence_series d b) -> exists u k, In (st, se, u, k) (get_evidence d b).
Proof.
  intros c a d H b st se Hin. destruct (doc_collect _ _ _ H) as [oth [Hc Ho]].
  destruct (collect_evidence_ne _ _ _ _ Hc) as [N1 N2].
  assert (N3 : refs_ne (d_other d)).
  { rewrite Ho. destruct (a_record a); [assumption|]. intros ? ? ? []. }
  destruct (readback _ _ _ H) as [RB1 RB2]. destruct (readback_series _ _ _ H) as [RS1 [_ RS3]].
  destruct b.
  - rewrite RS1 in Hin. rewrite RB2. now apply series_has_instance.
  - rewrite RB1. apply RS3 in Hin. destruct Hin as [Hin|Hin].
    + destruct (series_has_instance _ _ _ N1 Hin) as [u [k Hu]]. exists u, k. apply in_or_app. now left.
    + destruct (series_has_instance _ _ _ N3 Hin) as [u [k Hu]]. exists u, k. apply in_or_app. now right.
Qed.

Lemma sr_document_full : forall c a d, sr_init c a = Ok d ->
  exists root d',
    single_root (a_content a) = Some root /\ d_content d = root /\
    srread d = Ok (c, d') /\
    descendants (d_content d') = descendants root /\
    i_tag (d_content d') = i_tag root /\ i_vt (d_content d') = i_vt root /\
    (root_typed root -> d' = d) /\
    (forall st se u k, In (st, se, u, k) (get_evidence d' true) <->
       referenced root u /\ first_evd (a_evidence a) u = Some (Evd u k st se)) /\
    (forall st se u k, In (st, se, u, k) (get_evidence d' false) <->
       (referenced root u \/ a_record a = true) /\ first_evd (a_evidence a) u = Some (Evd u k st se)) /\
    NoDup (map uid4 (get_evidence d' false)) /\
    (forall u, referenced root u -> In u (map e_uid (a_evidence a))) /\
    (holds_3d c = false -> forall it, In it (descendants root) -> i_vt it <> SCOORD3D) /\
    (a_verified a = true ->
       exists n o, a_observer a = Some n /\ a_org a = Some o /\ d_observer d' = Some (n, o)) /\
    (* NEW: series read-back of the parsed document *)
    (forall b st se u k, In (st, se, u, k) (get_evidence d' b) -> In (st, se) (get_evidence_series d' b)) /\
    (forall b st se, In (st, se) (get_evidence_series d' b) -> exists u k, In (st, se, u, k) (get_evidence d' b)) /\
    (forall b, NoDup (get_evidence_series d' b)) /\
    get_evidence_series d' true = flatten_series (d_current d) /\
    get_evidence_series d' false =
      flatten_series (d_current d) ++
      filter (fun p => negb (existsb (pair_eqb p) (flatten_series (d_current d)))) (flatten_series (d_other d)) /\
    (* NEW: previous versions, with multiplicity, as given *)
    match a_previous a with
    | None => d_pred d' = None
    | Some pv => exists p, d_pred d' = Some p /\ Permutation (flatten p) (map tup pv) /\
                           NoDup (map fst p) /\ NoDup (flatten_series p)
    end /\
    (* NEW: flags and recorded arguments of the parsed document are the arguments *)
    d_complete d' = a_complete a /\ d_final d' = a_final a /\ d_verified d' = a_verified a /\
    d_extras d' = record_extras (a_extras a).
Proof.
  intros c a d H.
  destruct (sr_document_end_to_end _ _ _ H)
    as [root [d' [E1 [E2 [E3 [E4 [E5 [E6 [E7 [E8 [E9 [E10 [E11 [E12 E13]]]]]]]]]]]]]].
  exists root, d'.
  destruct (parsed_keeps_evidence _ _ _ _ H E3)
    as [_ [Pc [Po [Pp [P1 [P2 [P3 [_ [Px [PG PS]]]]]]]]]].
  destruct (readback _ _ _ H) as [RB1 RB2].
  destruct (readback_series _ _ _ H) as [RS1 [RS2 RS3]].
  destruct (doc_partition _ _ _ H) as [_ [_ [_ [_ [N2 _]]]]].
  repeat (split; [assumption|]).
  split.
  { intros b st se u k. rewrite PG, PS. destruct b.
    - rewrite RB2, RS1. apply flatten_series_of_flatten.
    - rewrite RB1. intros Hin. apply RS3. apply in_app_or in Hin as [Hin|Hin];
        [left|right]; eapply flatten_series_of_flatten; eassumption. }
  split.
  { intros b st se Hin. rewrite PS in Hin.
    destruct (doc_series_has_instance _ _ _ H b st se Hin) as [u [k Hu]]. exists u, k. now rewrite PG. }
  split.
  { intros b. rewrite PS. destruct b; [rewrite RS1; exact N2|exact RS2]. }
  split; [rewrite PS; exact RS1|].
  split; [rewrite PS; exact (readback_series_exact _ _ _ H)|].
  split.
  { rewrite Pp, (doc_predecessors _ _ _ H). destruct (a_previous a) as [pv|]; [|reflexivity].
    exists (collect_predecessors pv). destruct (predecessors_spec pv) as [Q1 [Q2 [Q3 _]]].
    repeat split; assumption. }
  rewrite P1, P2, P3, Px.
  apply sr_init_iff in H. destruct H as [r0 [cu [_ [-> _]]]]. repeat split.
Qed.

(* ---- (B) key object selections with observer contexts ------------------------------------------ *)
Definition descr_items (descr : option Z) : list item :=
  match descr with Some _ => [Item TEXT 113012 1 None [] []] | None => [] end.
Definition ko_tail (descr : option Z) (refs : list (Z * Z * bool)) : list item :=
  descr_items descr ++ map ko_ref_item refs.
Definition ko_ctx_root (title : Z) (tx : list Z) (person device : option octx) (descr : option Z)
           (refs : list (Z * Z * bool)) : item :=
  Item CONTAINER title 0 None ((1, [2010]) :: name_entry_attrs tx)
       (opt_items person ++ opt_items device ++ ko_tail descr refs).

Lemma ko_content_ctx_iff : forall title tx person device descr refs root,
  ko_content_ctx title tx person device descr refs = Ok root <->
  wrong_type person 0 = false /\ wrong_type device 1 = false /\ refs <> [] /\
  root = ko_ctx_root title tx person device descr refs.
Proof.
  intros. unfold ko_content_ctx, ko_ctx_root, ko_tail, descr_items.
  destruct (wrong_type person 0); [split; [discriminate|intros [? _]; discriminate]|].
  destruct (wrong_type device 1); [split; [discriminate|intros [_ [? _]]; discriminate]|].
  destruct refs as [|r0 refs].
  - split; [discriminate|]. intros [_ [_ [H _]]]. congruence.
  - split.
    + intros H. injection H as <-. repeat split; try discriminate.
    + intros [_ [_ [_ ->]]]. reflexivity.
Qed.

Lemma ko_content_ctx_refused_iff : forall title tx person device descr refs k,
  ko_content_ctx title tx person device descr refs = Err k <->
  k = "ValueError"%string /\ (wrong_type person 0 = true \/ wrong_type device 1 = true \/ refs = []).
Proof.
  intros. unfold ko_content_ctx.
  destruct (wrong_type person 0); [split; [intros H; injection H as <-; auto|intros [-> _]; reflexivity]|].
  destruct (wrong_type device 1); [split; [intros H; injection H as <-; auto|intros [-> _]; reflexivity]|].
  destruct refs as [|r0 refs].
  - split; [intros H; injection H as <-; auto|intros [-> _]; reflexivity].
  - split; [discriminate|]. intros [_ [H|[H|H]]]; discriminate.
Qed.

Lemma ko_content_ctx_none : forall title tx descr refs,
  ko_content_ctx title tx None None descr refs = ko_content title tx descr refs.
Proof. intros. unfold ko_content_ctx, ko_content. destruct refs; reflexivity. Qed.

(* the items of real observer contexts are leaves and never reference items *)
Definition leaf_noref (it : item) : Prop :=
  i_kids it = [] /\ has_vt IMAGE it = false /\ has_vt COMPOSITE it = false /\ has_vt WAVEFORM it = false.
Definition ctx_plain (o : option octx) : Prop :=
  match o with Some c => Forall leaf_noref (o_attrs c) | None => True end.

Lemma find_leaf_noref : forall t l, (t = IMAGE \/ t = COMPOSITE) -> Forall leaf_noref l ->
  flat_map (find_item true (has_vt t)) l = [].
Proof.
  intros t l Ht H. induction H as [|it l [K [H1 [H2 _]]] _ IH]; [reflexivity|].
  cbn [flat_map]. rewrite IH, app_nil_r. destruct it as [v g r rf ats ks]. cbn [i_kids] in K. subst ks.
  cbn [find_item flat_map]. rewrite app_nil_r. destruct Ht as [-> | ->]; [rewrite H1|rewrite H2]; reflexivity.
Qed.

Lemma opt_items_no_refs : forall t o, (t = IMAGE \/ t = COMPOSITE) -> ctx_plain o ->
  flat_map (find_item true (has_vt t)) (opt_items o) = [].
Proof.
  intros t [c|] Ht H; [|reflexivity]. cbn [opt_items octx_items flat_map].
  rewrite (find_leaf_noref t _ Ht H), app_nil_r. unfold observer_type_item. cbn [find_item flat_map].
  rewrite app_nil_r. destruct Ht as [-> | ->]; reflexivity.
Qed.

Lemma ko_ctx_references : forall title tx person device descr refs,
  ctx_plain person -> ctx_plain device ->
  references (ko_ctx_root title tx person device descr refs) =
  references (ko_ctx_root title tx None None descr refs).
Proof.
  intros title tx person device descr refs Hp Hd. unfold references, search_tree, ko_ctx_root.
  cbn [i_kids opt_items app]. rewrite !flat_map_app.
  rewrite !opt_items_no_refs by (auto). reflexivity.
Qed.

Lemma collect_evidence_refs_ext : forall h ev r1 r2, references r1 = references r2 ->
  collect_evidence h ev r1 = collect_evidence h ev r2.
Proof. intros h ev r1 r2 E. unfold collect_evidence. now rewrite E. Qed.

(* the evidence of a key object document does not depend on the observer contexts: the document
   with contexts is the document without, with the content given *)
Lemma ko_ctx_evidence : forall ev ts title tx person device descr refs,
  ctx_plain person -> ctx_plain device ->
  ko_init ev ts (ko_ctx_root title tx person device descr refs) =
  map_ok (fun d => set_content d (ko_ctx_root title tx person device descr refs))
         (ko_init ev ts (ko_ctx_root title tx None None descr refs)).
Proof.
  intros ev ts title tx person device descr refs Hp Hd. unfold ko_init.
  destruct ev as [|e0 ev]; [reflexivity|]. destruct ts; cbn [negb]; [|reflexivity].
  rewrite (collect_evidence_refs_ext true (e0 :: ev) _ _
             (ko_ctx_references title tx person device descr refs Hp Hd)).
  destruct (collect_evidence true (e0 :: ev) (ko_ctx_root title tx None None descr refs)) as [[cur oth]|k];
    cbn [bind fst map_ok]; [|reflexivity].
  destruct cur as [|s1 [|s2 cur]]; reflexivity.
Qed.

(* ---- get_observer_contexts ---- *)
Lemma positions_app : forall l1 l2 i,
  positions i (l1 ++ l2) = positions i l1 ++ positions (i + Z.of_nat (length l1)) l2.
Proof.
  induction l1 as [|x l1 IH]; intros l2 i.
  - cbn [app positions length]. now rewrite Z.add_0_r.
  - cbn [app positions]. rewrite IH, <- app_assoc.
    replace (i + Z.of_nat (length (x :: l1))) with (i + 1 + Z.of_nat (length l1)) by (cbn [length]; lia).
    reflexivity.
Qed.

Lemma positions_none : forall l i, Forall (fun it => is_observer_type it = false) l -> positions i l = [].
Proof.
  intros l i H. revert i. induction H as [|x l Hx _ IH]; intros i; [reflexivity|].
  cbn [positions]. now rewrite Hx, IH.
Qed.

Lemma skipn_app_len {A} (l1 l2 : list A) : skipn (length l1) (l1 ++ l2) = l2.
Proof. induction l1; [reflexivity|assumption]. Qed.
Lemma firstn_app_len {A} (l1 l2 : list A) : firstn (length l1) (l1 ++ l2) = l1.
Proof. induction l1 as [|x l1 IH]; [now destruct l2|cbn [length firstn app]; now rewrite IH]. Qed.

Lemma py_slice_mid {A} (pre mid post : list A) a b :
  a = Z.of_nat (length pre) -> b = Z.of_nat (length pre + length mid) ->
  py_slice (pre ++ mid ++ post) a b = mid.
Proof.
  intros -> ->. unfold py_slice.
  destruct (Z.ltb_spec (Z.of_nat (length pre + length mid)) 0) as [L|_]; [lia|].
  rewrite !Nat2Z.id. rewrite app_assoc. rewrite <- app_length, firstn_app_len. apply skipn_app_len.
Qed.

Lemma py_slice_last {A} (pre rest : list A) a :
  a = Z.of_nat (length pre) -> rest <> [] ->
  py_slice (pre ++ rest) a (-1) = removelast rest.
Proof.
  intros -> Hne. unfold py_slice. change (-1 <? 0) with true. cbv iota.
  replace (Z.to_nat (Z.max 0 (Z.of_nat (length (pre ++ rest)) + -1))) with (pred (length (pre ++ rest))) by lia.
  rewrite <- removelast_firstn_len, removelast_app by assumption. rewrite Nat2Z.id. apply skipn_app_len.
Qed.

Lemma has_tag_app : forall t l1 l2, has_tag t (l1 ++ l2) = has_tag t l1 || has_tag t l2.
Proof. intros. unfold has_tag. apply existsb_app. Qed.

Lemma has_tag_none : forall t l, (forall it, In it l -> i_tag it <> t) -> has_tag t l = false.
Proof.
  intros t l H. unfold has_tag. destruct (existsb (fun it => i_tag it =? t) l) eqn:E; [|reflexivity].
  apply existsb_exists in E as [it [Hin E]]. apply Z.eqb_eq in E. exfalso. exact (H it Hin E).
Qed.

Lemma recognised_extra : forall canon sl extra,
  (forall it, In it extra -> ~ In (i_tag it) canon) ->
  recognised canon (sl ++ extra) = recognised canon sl.
Proof.
  intros canon sl extra H. unfold recognised. apply filter_ext_in. intros t Ht.
  rewrite has_tag_app, (has_tag_none t extra), orb_false_r; [reflexivity|].
  intros it Hin E. apply (H it Hin). now rewrite E.
Qed.

Lemma attrs_from_sequence_extra : forall canon sl extra req,
  hd_error canon = Some req -> has_tag req sl = true ->
  (forall it, In it extra -> ~ In (i_tag it) canon) ->
  attrs_from_sequence canon (sl ++ extra) = Ok (recognised canon sl).
Proof.
  intros canon sl extra req Hh Hr He. destruct canon as [|r0 canon]; [discriminate|].
  injection Hh as ->. unfold attrs_from_sequence. rewrite has_tag_app, Hr. cbn [orb].
  now rewrite recognised_extra.
Qed.

Lemma In_removelast {A} (l : list A) x : In x (removelast l) -> In x l.
Proof.
  induction l as [|y l IH]; [intros []|]. cbn [removelast]. destruct l as [|z l]; [intros []|].
  intros [<-|H]; [now left|right; now apply IH].
Qed.

(* tags of the description / reference items and of an observer type item *)
Lemma ko_tail_tags : forall descr refs it, In it (ko_tail descr refs) ->
  i_tag it = 113012 \/ i_tag it = 260753009.
Proof.
  intros descr refs it H. unfold ko_tail, descr_items in H. apply in_app_or in H as [H|H].
  - destruct descr; [|destruct H]. destruct H as [<-|[]]. now left.
  - apply in_map_iff in H as [[[u c] img] [<- _]]. now right.
Qed.

Lemma ko_tail_not_observer : forall descr refs,
  Forall (fun it => is_observer_type it = false) (ko_tail descr refs).
Proof.
  intros. apply Forall_forall. intros it H. unfold is_observer_type, t_observer_type.
  destruct (ko_tail_tags _ _ _ H) as [-> | ->]; reflexivity.
Qed.

Lemma ko_tail_ne : forall descr refs, refs <> [] -> ko_tail descr refs <> [].
Proof.
  intros descr refs H E. unfold ko_tail in E. apply app_eq_nil in E as [_ E].
  destruct refs; [congruence|discriminate].
Qed.

Definition ctx_ok (o : option octx) : Prop :=
  match o with Some c => Forall (fun it => is_observer_type it = false) (o_attrs c) | None => True end.
Definition has_required (req : Z) (o : option octx) : Prop :=
  match o with Some c => has_tag req (o_attrs c) = true | None => True end.
Definition flt_ok (flt : option Z) (c : ctx_result) : bool :=
  match flt with None => true | Some f => fst c =? f end.
Definition ctx_expect (canon : list Z) (o : option octx) : list ctx_result :=
  match o with Some c => [(o_type c, recognised canon (o_attrs c))] | None => [] end.

Lemma tail_extra_person : forall descr refs it, In it (removelast (ko_tail descr refs)) ->
  ~ In (i_tag it) person_attr_tags.
Proof.
  intros descr refs it H. apply In_removelast in H.
  destruct (ko_tail_tags _ _ _ H) as [-> | ->]; unfold person_attr_tags; cbn [In]; intuition discriminate.
Qed.
Lemma tail_extra_device : forall descr refs it, In it (removelast (ko_tail descr refs)) ->
  ~ In (i_tag it) device_attr_tags.
Proof.
  intros descr refs it H. apply In_removelast in H.
  destruct (ko_tail_tags _ _ _ H) as [-> | ->]; unfold device_attr_tags; cbn [In]; intuition discriminate.
Qed.

Lemma observer_contexts_spec : forall title tx person device descr refs root flt,
  ko_content_ctx title tx person device descr refs = Ok root ->
  ctx_ok person -> ctx_ok device ->
  has_required 121008 person -> has_required 121012 device ->
  ko_observer_contexts flt root =
  Ok (filter (flt_ok flt) (ctx_expect person_attr_tags person ++ ctx_expect device_attr_tags device)).
Proof.
  intros title tx person device descr refs root flt H Op Od Rp Rd.
  apply ko_content_ctx_iff in H as [Wp [Wd [Hne ->]]].
  unfold ko_observer_contexts, ko_ctx_root. cbn [i_kids].
  pose proof (ko_tail_not_observer descr refs) as TN.
  pose proof (ko_tail_ne descr _ Hne) as TNE.
  set (R := ko_tail descr refs) in *.
  destruct person as [[pt pa]|]; destruct device as [[dt da]|];
    cbn [wrong_type o_type negb] in Wp, Wd; cbn [ctx_ok o_attrs] in Op, Od;
    cbn [has_required o_attrs] in Rp, Rd;
    cbn [opt_items octx_items o_type o_attrs app ctx_expect].
  - (* both *)
    apply negb_false_iff, Z.eqb_eq in Wp. apply negb_false_iff, Z.eqb_eq in Wd. subst pt dt.
    cbn [positions]. change (is_observer_type (observer_type_item 0)) with true. cbv iota.
    rewrite positions_app, (positions_none pa) by assumption. cbn [app positions].
    change (is_observer_type (observer_type_item 1)) with true. cbv iota.
    rewrite positions_app, (positions_none da), (positions_none R) by assumption. cbn [app].
    cbn [observer_loop]. change (observer_value (observer_type_item 0)) with (Some 0).
    change (observer_value (observer_type_item 1)) with (Some 1). cbv iota.
    assert (S1 : py_slice (observer_type_item 0 :: pa ++ observer_type_item 1 :: da ++ R) 1
                          (1 + 1 + Z.of_nat (length pa)) = pa ++ [observer_type_item 1]).
    { replace (observer_type_item 0 :: pa ++ observer_type_item 1 :: da ++ R)
        with ([observer_type_item 0] ++ (pa ++ [observer_type_item 1]) ++ (da ++ R))
        by (cbn [app]; rewrite <- app_assoc; reflexivity).
      apply py_slice_mid; [reflexivity|]. rewrite app_length. cbn [length]. lia. }
    assert (S2 : py_slice (observer_type_item 0 :: pa ++ observer_type_item 1 :: da ++ R)
                          (1 + 1 + Z.of_nat (length pa)) (-1) = da ++ removelast R).
    { replace (observer_type_item 0 :: pa ++ observer_type_item 1 :: da ++ R)
        with ((observer_type_item 0 :: pa ++ [observer_type_item 1]) ++ (da ++ R))
        by (cbn [app]; rewrite <- app_assoc; reflexivity).
      rewrite py_slice_last.
      - now apply removelast_app.
      - cbn [length]. rewrite app_length. cbn [length]. lia.
      - intro E. apply app_eq_nil in E as [_ E]. contradiction. }
    rewrite S1, S2.
    rewrite (attrs_from_sequence_extra person_attr_tags pa [observer_type_item 1] 121008 eq_refl Rp).
    2:{ intros it [<-|[]]. cbn. intuition discriminate. }
    rewrite (attrs_from_sequence_extra device_attr_tags da (removelast R) 121012 eq_refl Rd (tail_extra_device descr refs)).
    destruct flt as [f|]; cbn [flt_ok filter fst bind negb].
    + destruct (0 =? f) eqn:E0; destruct (1 =? f) eqn:E1; cbn [negb bind]; try reflexivity.
    + reflexivity.
  - (* person only *)
    apply negb_false_iff, Z.eqb_eq in Wp. subst pt.
    cbn [positions]. change (is_observer_type (observer_type_item 0)) with true. cbv iota.
    rewrite positions_app, (positions_none pa), (positions_none R) by assumption. cbn [app].
    cbn [observer_loop]. change (observer_value (observer_type_item 0)) with (Some 0). cbv iota.
    change (observer_type_item 0 :: pa ++ R) with ([observer_type_item 0] ++ (pa ++ R)).
    rewrite (py_slice_last [observer_type_item 0] (pa ++ R)) by
      (reflexivity || (intro E; apply app_eq_nil in E as [_ E]; contradiction)).
    rewrite removelast_app by assumption.
    rewrite (attrs_from_sequence_extra person_attr_tags pa (removelast R) 121008 eq_refl Rp (tail_extra_person descr refs)).
    destruct flt as [f|]; cbn [flt_ok filter fst bind negb]; [|reflexivity].
    destruct (0 =? f); reflexivity.
  - (* device only *)
    apply negb_false_iff, Z.eqb_eq in Wd. subst dt.
    cbn [positions]. change (is_observer_type (observer_type_item 1)) with true. cbv iota.
    rewrite positions_app, (positions_none da), (positions_none R) by assumption. cbn [app].
    cbn [observer_loop]. change (observer_value (observer_type_item 1)) with (Some 1). cbv iota.
    change (observer_type_item 1 :: da ++ R) with ([observer_type_item 1] ++ (da ++ R)).
    rewrite (py_slice_last [observer_type_item 1] (da ++ R)) by
      (reflexivity || (intro E; apply app_eq_nil in E as [_ E]; contradiction)).
    rewrite removelast_app by assumption.
    rewrite (attrs_from_sequence_extra device_attr_tags da (removelast R) 121012 eq_refl Rd (tail_extra_device descr refs)).
    destruct flt as [f|]; cbn [flt_ok filter fst bind negb]; [|reflexivity].
    destruct (1 =? f); reflexivity.
  - (* none *)
    rewrite (positions_none R) by assumption. destruct flt; reflexivity.
Qed.

(* contexts whose identifying attributes are a selection of the names the parser knows, in
   constructor order (what the template classes build): the getter returns them as given *)
Definition sub_of (canon tags : list Z) : Prop := exists sel, tags = filter sel canon.
Definition ctx_given (o : option octx) : list ctx_result :=
  match o with Some c => [(o_type c, map i_tag (o_attrs c))] | None => [] end.
Definition ctx_canonical (canon : list Z) (o : option octx) : Prop :=
  match o with Some c => sub_of canon (map i_tag (o_attrs c)) | None => True end.

Lemma has_tag_mem : forall t sl, has_tag t sl = mem t (map i_tag sl).
Proof.
  intros t sl. unfold has_tag, mem. induction sl as [|x sl IH]; [reflexivity|].
  cbn [existsb map]. now rewrite IH, Z.eqb_sym.
Qed.

Lemma recognised_canonical : forall canon sl, sub_of canon (map i_tag sl) ->
  recognised canon sl = map i_tag sl.
Proof.
  intros canon sl [sel E]. unfold recognised. transitivity (filter sel canon); [|symmetry; exact E].
  apply filter_ext_in. intros t Ht.
  rewrite has_tag_mem, E. destruct (sel t) eqn:S.
  - apply mem_In. apply filter_In. now split.
  - apply mem_false. intros Hin. apply filter_In in Hin as [_ Hin]. congruence.
Qed.

Lemma sub_of_not_observer : forall canon sl, ~ In t_observer_type canon -> sub_of canon (map i_tag sl) ->
  Forall (fun it => is_observer_type it = false) sl.
Proof.
  intros canon sl Hn [sel E]. apply Forall_forall. intros it Hin. unfold is_observer_type.
  destruct (i_tag it =? t_observer_type) eqn:T; [|reflexivity]. apply Z.eqb_eq in T. exfalso. apply Hn.
  assert (In (i_tag it) (map i_tag sl)) as Hm by (now apply in_map).
  rewrite E in Hm. apply filter_In in Hm as [Hm _]. now rewrite <- T.
Qed.

Lemma observer_contexts_roundtrip : forall title tx person device descr refs root flt,
  ko_content_ctx title tx person device descr refs = Ok root ->
  ctx_canonical person_attr_tags person -> ctx_canonical device_attr_tags device ->
  has_required 121008 person -> has_required 121012 device ->
  ko_observer_contexts flt root = Ok (filter (flt_ok flt) (ctx_given person ++ ctx_given device)).
Proof.
  intros title tx person device descr refs root flt H Cp Cd Rp Rd.
  rewrite (observer_contexts_spec _ _ _ _ _ _ _ flt H); try assumption.
  - destruct person as [p|]; destruct device as [d|]; cbn [ctx_expect ctx_given ctx_canonical] in *;
      rewrite ?recognised_canonical by assumption; reflexivity.
  - destruct person as [p|]; [|exact I]. cbn [ctx_ok ctx_canonical] in *.
    apply (sub_of_not_observer person_attr_tags); [|assumption].
    unfold person_attr_tags, t_observer_type. cbn [In]. intuition discriminate.
  - destruct device as [d|]; [|exact I]. cbn [ctx_ok ctx_canonical] in *.
    apply (sub_of_not_observer device_attr_tags); [|assumption].
    unfold device_attr_tags, t_observer_type. cbn [In]. intuition discriminate.
Qed.

(* the device constructor's seventh argument: a device context that names the device's role in the
   procedure (item 113876) is returned WITH the role (it used to be dropped: finding D119, fixed
   in /repo 4fd7c6c; the refutation this session proved on the old code is now this example) *)
Definition role_ctx : octx :=
  OCtx 1 [Item UIDREF 121012 5 None [] []; Item CODE t_device_role 5 None [] []].
Lemma observer_contexts_device_role_kept :
  exists root,
    ko_content_ctx 113000 [] None (Some role_ctx) None [(1, 0, true)] = Ok root /\
    ctx_plain (Some role_ctx) /\ has_required 121012 (Some role_ctx) /\
    ctx_canonical device_attr_tags (Some role_ctx) /\
    In (Item CODE t_device_role 5 None [] []) (i_kids root) /\
    ko_observer_contexts None root = Ok [(1, [121012; t_device_role])] /\
    ctx_given (Some role_ctx) = [(1, [121012; t_device_role])].
Proof.
  eexists. split; [reflexivity|].
  split; [repeat constructor|]. split; [reflexivity|].
  split; [exists (fun t => (t =? 121012) || (t =? t_device_role)); reflexivity|].
  split; [cbn; tauto|]. split; reflexivity.
Qed.

(* get_references of a selection with observer contexts = that of the selection without *)
Lemma filter_opt_items_nil : forall (p : item -> bool) o, ctx_plain o ->
  (forall it, p it = true -> ref_vt (i_vt it) = true) -> filter p (opt_items o) = [].
Proof.
  intros p [c|] H Hp; [|reflexivity]. cbn [opt_items octx_items filter ctx_plain] in *.
  destruct (p (observer_type_item (o_type c))) eqn:E; [apply Hp in E; discriminate|].
  induction H as [|it l [_ [H1 [H2 H3]]] _ IH]; [reflexivity|]. cbn [filter].
  destruct (p it) eqn:E2; [|exact IH]. apply Hp in E2. unfold ref_vt in E2. unfold has_vt in H1, H2, H3.
  rewrite H1, H2, H3 in E2. discriminate.
Qed.

Lemma ko_ctx_get_references : forall title tx person device descr refs vf cf,
  ctx_plain person -> ctx_plain device ->
  ko_get_references vf cf (ko_ctx_root title tx person device descr refs) =
  ko_get_references vf cf (ko_ctx_root title tx None None descr refs).
Proof.
  intros title tx person device descr refs vf cf Hp Hd. unfold ko_get_references, ko_ctx_root.
  cbn [i_kids opt_items app].
  destruct vf as [t|].
  - destruct (ref_vt t) eqn:RT; [|reflexivity]. rewrite !filter_app.
    rewrite !filter_opt_items_nil; try assumption; try reflexivity;
      intros it E; apply andb_true_iff in E as [E _]; apply vt_eqb_eq in E; now rewrite E.
  - rewrite !filter_app. rewrite !filter_opt_items_nil; try assumption; try reflexivity;
      intros it E; now apply andb_true_iff in E as [E _].
Qed.

(* ---- (C) the arguments KeyObjectSelectionDocument.__init__ only records -------------------------- *)
Lemma ko_extras_frame : forall ev ts x root,
  ko_init_x ev ts x root = map_ok (fun d => set_recorded_doc d (ko_record_extras x)) (ko_init ev ts root).
Proof. intros. unfold ko_init_x. destruct (ko_init ev ts root); reflexivity. Qed.

Lemma ko_extras_verdict : forall ev ts x root k,
  ko_init_x ev ts x root = Err k <-> ko_init ev ts root = Err k.
Proof.
  intros. rewrite ko_extras_frame. destruct (ko_init ev ts root); cbn [map_ok]; split; intros H;
    try discriminate; exact H.
Qed.

Lemma ko_extras_recorded : forall ev ts x root d, ko_init_x ev ts x root = Ok d ->
  exists d0, ko_init ev ts root = Ok d0 /\ d = set_recorded_doc d0 (ko_record_extras x) /\
    d_content d = root /\ d_current d = d_current d0 /\ d_other d = [] /\
    w_institution (d_extras d) = x_institution x /\
    w_department (d_extras d) = (match x_institution x with Some _ => x_department x | None => None end) /\
    w_codes (d_extras d) = None /\ w_requests (d_extras d) = x_requests x.
Proof.
  intros ev ts x root d H. rewrite ko_extras_frame in H.
  destruct (ko_init ev ts root) as [d0|k] eqn:E; [|discriminate]. injection H as <-.
  exists d0. destruct (ko_init_inv _ _ _ _ E) as [_ [_ [EC [EO _]]]].
  destruct d0. cbn in *. subst. repeat split.
Qed.

(* ---- (D) the key object document with observer contexts, end to end ----------------------------- *)
Lemma reroot_ko_ctx_root : forall title tx person device descr refs,
  reroot (ko_ctx_root title tx person device descr refs) = ko_ctx_root title tx person device descr refs.
Proof. intros. unfold ko_ctx_root. destruct tx; reflexivity. Qed.

Lemma ko_ctx_document : forall ev ts title tx person device descr refs x root d,
  ko_content_ctx title tx person device descr refs = Ok root ->
  ko_init_x ev ts x root = Ok d ->
  ctx_plain person -> ctx_plain device ->
  (* the document contains the selection given: contexts, description, references, in this order *)
  d_content d = root /\
  i_kids root = opt_items person ++ opt_items device ++ descr_items descr ++ map ko_ref_item refs /\
  (* written and parsed by KeyObjectSelectionDocument.from_dataset it is the document written *)
  ko_from_dataset true d = Ok d /\
  (* its evidence is that of the same selection WITHOUT observer contexts; other evidence never *)
  (exists root0 d0, ko_content title tx descr refs = Ok root0 /\ ko_init ev ts root0 = Ok d0 /\
                    d_current d = d_current d0) /\
  d_other d = [] /\
  (* every selected object was supplied, all under one study *)
  (exists st, forall u, referenced root u -> exists e, first_evd ev u = Some e /\ e_study e = st) /\
  (* get_references lists the selected objects as given, never a context item *)
  ko_get_references None None root = Ok (map ko_ref_item refs) /\
  (* recorded arguments *)
  d_extras d = ko_record_extras x /\
  (* get_observer_contexts returns the contexts given (names the parser knows, constructor order) *)
  (ctx_canonical person_attr_tags person -> ctx_canonical device_attr_tags device ->
   has_required 121008 person -> has_required 121012 device ->
   forall flt, ko_observer_contexts flt (d_content d) =
               Ok (filter (flt_ok flt) (ctx_given person ++ ctx_given device))).
Proof.
  intros ev ts title tx person device descr refs x root d HC HI Pp Pd.
  destruct (ko_extras_recorded _ _ _ _ _ HI) as [d1 [H1 [ED [EC [ECur [EO _]]]]]].
  pose proof HC as HC'. apply ko_content_ctx_iff in HC' as [Wp [Wd [Hne ER]]].
  assert (H0 : ko_content title tx descr refs = Ok (ko_ctx_root title tx None None descr refs)).
  { rewrite <- ko_content_ctx_none. apply ko_content_ctx_iff. repeat split; assumption. }
  pose proof H1 as H1'. rewrite ER, ko_ctx_evidence in H1' by assumption.
  destruct (ko_init ev ts (ko_ctx_root title tx None None descr refs)) as [d0|k] eqn:E0; [|discriminate].
  cbn [map_ok] in H1'. injection H1' as H1'.
  split; [exact EC|]. split; [rewrite ER; reflexivity|]. split.
  { apply ko_from_dataset_iff. destruct (ko_init_inv _ _ _ _ H1) as [_ [_ [Ec1 [_ [Ecl [oth [st [sers [_ Ecur]]]]]]]]].
    rewrite EC, ER, reroot_ko_ctx_root. rewrite <- ER, <- EC, set_content_same.
    rewrite ED. destruct d1 as [k0 ct cur oth0 pr co ve fi ob ex]. cbn [set_recorded_doc d_cls d_content d_current] in *.
    rewrite Ec1, ER. cbn [ko_ctx_root i_vt i_attrs attr_get k_template Z.eqb].
    repeat split; try assumption; [exists []; reflexivity|]. rewrite Ecur. discriminate. }
  split.
  { exists (ko_ctx_root title tx None None descr refs), d0. repeat split; try assumption.
    rewrite ECur, <- H1'. destruct d0; reflexivity. }
  split; [exact EO|]. split; [exact (ko_single_study _ _ _ _ H1)|]. split.
  { rewrite ER, ko_ctx_get_references by assumption.
    exact (proj1 (ko_references_listed _ _ _ _ _ H0)). }
  split; [rewrite ED; destruct d1; reflexivity|].
  intros Cp Cd Rp Rd flt. rewrite EC. now apply (observer_contexts_roundtrip title tx person device descr refs).
Qed.

(* non-vacuity: person and device context, description, a reference selected twice, duplicate and
   unreferenced evidence, institution + department + requested procedures *)
Definition kx_person : octx := OCtx 0 [Item PNAME 121008 5 None [] []; Item TEXT 121009 5 None [] []; Item CODE 121011 5 None [] []].
Definition kx_device : octx := OCtx 1 [Item UIDREF 121012 5 None [] []; Item TEXT 121013 5 None [] []; Item TEXT 121017 5 None [] []].
Lemma ko_ctx_example :
  exists root d,
    ko_content_ctx 113000 [4; 5] (Some kx_person) (Some kx_device) (Some 1) [(1, 0, true); (2, 1, false); (1, 0, true)] = Ok root /\
    ko_init_x ko_ex_ev true (Extras (Some 3) (Some 4) None (Some [7; 8])) root = Ok d /\
    ctx_plain (Some kx_person) /\ ctx_plain (Some kx_device) /\
    ctx_canonical person_attr_tags (Some kx_person) /\ ctx_canonical device_attr_tags (Some kx_device) /\
    has_required 121008 (Some kx_person) /\ has_required 121012 (Some kx_device) /\
    length (i_kids root) = 12%nat /\
    ko_observer_contexts (Some 1) (d_content d) = Ok [(1, [121012; 121013; 121017])] /\
    d_extras d = Recorded (Some 3) (Some 4) None (Some [7; 8]).
Proof.
  eexists. eexists. split; [reflexivity|]. split; [vm_compute; reflexivity|].
  split; [repeat constructor|]. split; [repeat constructor|].
  split; [exists (fun t => negb (t =? 128774) && negb (t =? 121010)); reflexivity|].
  split; [exists (fun t => (t =? 121012) || (t =? 121013) || (t =? 121017)); reflexivity|].
  repeat split.
Qed.

(* non-vacuity of the new conjuncts of sr_document_full on the end-to-end example *)
Lemma e2e_full_example :
  exists d d', sr_init Enhanced e2e_args = Ok d /\ srread d = Ok (Enhanced, d') /\
    get_evidence_series d' true = [(1, 11); (2, 21)] /\
    get_evidence_series d' false = [(1, 11); (2, 21)] /\
    get_evidence d' false = [(1, 11, 1, 0); (2, 21, 2, 2); (1, 11, 3, 0)] /\
    d_pred d' = Some [(1, [(5, [(20, 2); (20, 2)])])] /\
    d_complete d' = true /\ d_final d' = false /\ d_verified d' = true /\
    d_extras d' = Recorded (Some 3) (Some 4) (Some [5; 6]) None.
Proof. eexists. eexists. split; [vm_compute; reflexivity|]. split; [vm_compute; reflexivity|]. repeat split. Qed.

(* ---- (E) the document's own study / patient = that of the FIRST supplied record ------------------ *)
Lemma sr_init_evidence_ne : forall c a d, sr_init c a = Ok d -> a_evidence a <> [].
Proof.
  intros c a d H E. unfold sr_init, sr_base_init in H. rewrite E in H. discriminate.
Qed.

Lemma sr_identity_spec : forall c a d, sr_init c a = Ok d ->
  exists e rest, a_evidence a = e :: rest /\ sr_identity c a = Ok (e_study e).
Proof.
  intros c a d H. pose proof (sr_init_evidence_ne _ _ _ H) as Hne. unfold sr_identity. rewrite H.
  destruct (a_evidence a) as [|e rest]; [congruence|]. exists e, rest. split; reflexivity.
Qed.

Lemma sr_identity_err : forall c a k, sr_identity c a = Err k <-> sr_init c a = Err k.
Proof.
  intros c a k. destruct (sr_init c a) as [d|k'] eqn:H.
  - destruct (sr_identity_spec _ _ _ H) as [e [rest [_ E]]]. rewrite E. split; discriminate.
  - unfold sr_identity. rewrite H. cbn [bind]. split; intros E; injection E as ->; reflexivity.
Qed.

Lemma ko_identity_spec : forall ev ts root d, ko_init ev ts root = Ok d ->
  exists e rest, ev = e :: rest /\ ko_identity ev ts root = Ok (e_study e).
Proof.
  intros ev ts root d H. destruct (ko_init_inv _ _ _ _ H) as [Hne _]. unfold ko_identity. rewrite H.
  destruct ev as [|e rest]; [congruence|]. exists e, rest. split; reflexivity.
Qed.

Lemma ko_identity_err : forall ev ts root k, ko_identity ev ts root = Err k <-> ko_init ev ts root = Err k.
Proof.
  intros ev ts root k. destruct (ko_init ev ts root) as [d|k'] eqn:H.
  - destruct (ko_identity_spec _ _ _ _ H) as [e [rest [_ E]]]. rewrite E. split; discriminate.
  - unfold ko_identity. rewrite H. cbn [bind]. split; intros E; injection E as ->; reflexivity.
Qed.

(* the first record need not be referenced: "a key object document is filed under the study of the
   objects it selects" is REFUTED (an unreferenced record of another study supplied first) *)
Lemma ko_identity_study_refuted :
  exists ev refs root d s,
    ko_content 113000 [] None refs = Ok root /\ ko_init ev true root = Ok d /\
    (forall u, referenced root u -> exists e, first_evd ev u = Some e /\ e_study e = 1) /\
    ko_identity ev true root = Ok s /\ s <> 1.
Proof.
  exists [Evd 9 0 2 21; Evd 1 0 1 11], [(1, 0, true)]. eexists. eexists. exists 2.
  split; [reflexivity|]. split; [vm_compute; reflexivity|]. split.
  - intros u [it [c [Hin [_ Hr]]]]. cbn in Hin. destruct Hin as [<-|[]]. cbn in Hr.
    injection Hr as <- _. exists (Evd 1 0 1 11). split; reflexivity.
  - split; [reflexivity|discriminate].
Qed.

(* ---- (F) find_content_items by name, every form of coded entry ----------------------------------- *)
Lemma find_name_spec : forall n q recursive node,
  find_content_items_n true n q recursive node =
  Ok (filter (matches_n n q) (if recursive then descendants node else i_kids node)).
Proof.
  intros n q [] node; unfold find_content_items_n; f_equal.
  - apply search_tree_recursive.
  - apply search_tree_flat.
Qed.

Lemma find_name_refused_iff : forall has_cs n q recursive node k,
  find_content_items_n has_cs n q recursive node = Err k <-> has_cs = false /\ k = "AttributeError"%string.
Proof.
  intros [] n q r node k; unfold find_content_items_n; split.
  - discriminate.
  - intros [? _]; discriminate.
  - intros H; injection H as <-; auto.
  - intros [_ ->]; reflexivity.
Qed.

Lemma name_matches_iff : forall n it, name_matches n it = true <->
  i_tag it = n_code n /\ name_form (entry_feats it) = n_form n /\
  name_version (entry_feats it) = n_version n /\ n_scheme n = true.
Proof.
  intros n it. unfold name_matches. rewrite !andb_true_iff, !Z.eqb_eq. tauto.
Qed.

(* the earlier model of the search (names compared by code number) is the restriction to plain
   names: query of the plain form and items whose name entry carries neither another form nor a
   scheme version *)
Lemma matches_n_plain : forall c q it,
  name_form (entry_feats it) = 0 -> name_version (entry_feats it) = 0 ->
  matches_n (Some (QName c 0 0 true)) q it = matches (Query (Some c) (q_vt q) (q_rel q)) it.
Proof.
  intros c q it Hf Hv. unfold matches_n, name_matches, matches.
  cbn [n_code n_form n_version n_scheme q_name q_vt q_rel]. rewrite Hf, Hv.
  change (0 =? 0) with true. rewrite !andb_true_r. cbn [andb]. now rewrite andb_assoc.
Qed.

Lemma matches_n_none : forall q it, matches_n None q it = matches q it.
Proof. reflexivity. Qed.

(* a name that differs in ONE respect - form of the value, scheme version, scheme designator - is
   not found *)
Lemma find_name_example :
  let tree := Item CONTAINER 1 0 None []
                [Item TEXT 5 1 None [(14, [2; 12])] [];
                 Item CONTAINER 5 1 None [] [Item NUM 5 2 None [(14, [12; 10218])] []];
                 Item TEXT 5 1 None [(14, [3])] []] in
  find_content_items_n true (Some (QName 5 0 2 true)) (Query None None None) true tree =
    Ok [Item NUM 5 2 None [(14, [12; 10218])] []] /\
  find_content_items_n true (Some (QName 5 2 2 true)) (Query None None None) true tree =
    Ok [Item TEXT 5 1 None [(14, [2; 12])] []] /\
  find_content_items_n true (Some (QName 5 0 0 true)) (Query None None None) false tree =
    Ok [Item CONTAINER 5 1 None [] [Item NUM 5 2 None [(14, [12; 10218])] []]] /\
  find_content_items_n true (Some (QName 5 3 0 false)) (Query None None None) true tree = Ok [].
Proof. repeat split. Qed.
