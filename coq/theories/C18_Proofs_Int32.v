(* C18 - proofs, part 8: the int32 arithmetic of LongPrimitivePointIndexList.  The code
   accumulates the index list in int32 (np.cumsum(.., dtype=np.int32) + 1), which wraps
   silently; the round-trip theorems are stated over the unbounded list.  Here: both agree
   for every group that stores fewer than 2^31 - 1 coordinate values, and they do differ
   beyond (so the bound is needed). *)
From Coq Require Import String ZArith List Bool Lia ZifyBool Arith.
From HD Require Import Base.Val Base.ListZ C18_Model C18_Proofs.
Import ListNotations.
Ltac Zify.zify_post_hook ::= Z.to_euclidean_division_equations.
Open Scope Z_scope.

Lemma wrap32_id : forall z, -2147483648 <= z < 2147483648 -> wrap32 z = z.
Proof. intros z H. unfold wrap32. lia. Qed.

Lemma wrap32_range : forall z, -2147483648 <= wrap32 z < 2147483648.
Proof. intros z. unfold wrap32. lia. Qed.

Lemma cumsum32_exact : forall l acc, 0 <= acc -> Forall (fun x => 0 <= x) l ->
  acc + sumz l < 2147483647 ->
  map (fun c => wrap32 (c + 1)) (cumsum32_from acc l) = map (fun c => c + 1) (cumsum_from acc l).
Proof.
  induction l as [|x t IH]; intros acc Hacc Hpos Hsum; [reflexivity|].
  inversion Hpos as [|x' t' Hx Ht]; subst. cbn [sumz] in Hsum.
  assert (Hs : 0 <= sumz t) by (clear -Ht; induction Ht; cbn [sumz]; lia).
  cbn [cumsum32_from cumsum_from map]. cbn zeta.
  rewrite (wrap32_id x) by lia. rewrite (wrap32_id (acc + x)) by lia. rewrite (wrap32_id (acc + x + 1)) by lia.
  f_equal. apply IH; [lia|exact Ht|lia].
Qed.

Lemma spans_nonneg : forall sd (gd : list annot), 0 <= sd -> Forall (fun x => 0 <= x) (map (fun a => zlen a * sd) gd).
Proof.
  intros sd gd Hsd. apply Forall_forall. intros x Hx. apply in_map_iff in Hx as (a & <- & _).
  pose proof (zlen_nonneg a). nia.
Qed.

(* the int32 list IS the unbounded list when fewer than 2^31 - 1 values are stored *)
Lemma index_list32_exact : forall sd (gd : list annot), 0 <= sd ->
  sumz (map (fun a => zlen a * sd) gd) < 2147483647 ->
  point_index_list32 sd gd = point_index_list sd gd.
Proof.
  intros sd gd Hsd Hsum. unfold point_index_list32, index_list32_of_spans, point_index_list. cbn zeta.
  f_equal. f_equal. apply cumsum32_exact; [lia|now apply spans_nonneg|lia].
Qed.

(* in terms of what encode stores: the number of stored coordinate values *)
Lemma stored_values_sum : forall sd (gd : list annot),
  sumz (map (fun a => zlen a * sd) gd) = sd * sumz (map zlen gd).
Proof.
  intros sd gd. induction gd as [|a t IH]; cbn [map sumz]; [lia|]. rewrite IH. lia.
Qed.

Lemma index_list32_exact_rows : forall sd (gd : list annot), 0 <= sd ->
  sd * zlen (concat gd) < 2147483647 -> point_index_list32 sd gd = point_index_list sd gd.
Proof.
  intros sd gd Hsd H. apply index_list32_exact; [exact Hsd|]. rewrite stored_values_sum, <- zlen_concat. exact H.
Qed.

(* every entry of the int32 list is a valid int32 (what tobytes() writes) *)
Lemma index_list32_in_range : forall spans i, In i (index_list32_of_spans spans) -> -2147483648 <= i < 2147483648.
Proof.
  intros spans i [<-|Hi]; [lia|]. unfold index_list32_of_spans in Hi.
  assert (Hin : In i (map (fun c => wrap32 (c + 1)) (cumsum32_from 0 spans))).
  { clear -Hi. remember (map (fun c => wrap32 (c + 1)) (cumsum32_from 0 spans)) as l. clear Heql.
    induction l as [|x [|y t] IH]; [contradiction|contradiction|].
    cbn [removelast] in Hi. destruct Hi as [<-|Hi]; [now left|right; now apply IH]. }
  apply in_map_iff in Hin as (c & <- & _). apply wrap32_range.
Qed.

(* beyond the bound the two lists differ: the bound is not an artefact of the proof *)
Lemma index_list32_wraps_beyond : exists spans, Forall (fun x => 0 <= x) spans /\
  sumz spans = 2147483647 + 2 /\
  index_list32_of_spans spans <> 1 :: removelast (map (fun c => c + 1) (cumsum_from 0 spans)).
Proof.
  exists [2147483646; 2; 1]. split; [repeat constructor; lia|]. split; [reflexivity|].
  vm_compute. discriminate.
Qed.

(* ---- from_dataset guards ------------------------------------------------------------------------- *)
Lemma parse_guard_accepts_iff : forall p,
  parse_sop_guard p = Ok tt <-> exists fm, p = PDataset true fm /\ fm <> Some false.
Proof.
  intros p. split.
  - destruct p as [|[|] [[|]|]]; cbn; intros H; try discriminate; eexists; split; try reflexivity; discriminate.
  - intros (fm & -> & Hfm). destruct fm as [[|]|]; cbn; try reflexivity. congruence.
Qed.

Lemma parse_guard_errors : forall p k, parse_sop_guard p = Err k ->
  (k = "TypeError"%string /\ p = PNotDataset) \/ (k = VE /\ p <> PNotDataset).
Proof.
  intros p k H. destruct p as [|[|] [[|]|]]; cbn in H; inversion H; subst;
    try (left; split; reflexivity); right; split; try reflexivity; discriminate.
Qed.
