(* C14 - property theorems: a content sequence and its name index never disagree.
   Nothing but statements, `exact <lemma>` and Print Assumptions.
   Model: C14_Model.v (ContentSequence of sr/value_types.py; state = list, name
   index `lut`, is_root, is_sr).  [run s ops] = state after the history [ops]. *)
From Coq Require Import String ZArith List Bool Permutation.
From HD Require Import Base.Val Base.PySlice C14_Model C14_Proofs C14_Proofs_Ext C14_Proofs_Slice C14_Proofs_Refine C14_Proofs_SliceNth C14_Proofs_Multi C14_Proofs_SliceSet C14_Proofs_Read C14_Proofs_ReadX.
Import ListNotations.
Open Scope Z_scope.

(* --- the index invariant: Inv s := forall name, Permutation (lut s name) (filter (has name) (items s)) --- *)
Theorem C14_inv_init : forall l root sr s, init l root sr = Ok s ->
  (forall n, Permutation (lut s n) (filter (has n) (items s))) /\ items s = l /\ is_root s = root /\ is_sr s = sr.
Proof. exact inv_init. Qed.
Print Assumptions C14_inv_init.

(* every operation (accepted OR refused, any index, any slice) keeps it *)
Theorem C14_inv_step : forall s o,
  (forall n, Permutation (lut s n) (filter (has n) (items s))) ->
  (forall n, Permutation (lut (fst (step s o)) n) (filter (has n) (items (fst (step s o))))).
Proof. exact inv_step. Qed.
Print Assumptions C14_inv_step.

Theorem C14_inv_reachable : forall l root sr s ops, init l root sr = Ok s ->
  forall n, Permutation (lut (run s ops) n) (filter (has n) (items (run s ops))).
Proof. exact inv_reachable. Qed.
Print Assumptions C14_inv_reachable.

(* --- find: exactly the items with that name, each once (multiset equality) --- *)
Theorem C14_find_exact : forall s n l,
  (forall k, Permutation (lut s k) (filter (has k) (items s))) -> find s n = Ok l ->
  Permutation l (filter (has n) (items s)) /\
  (forall x, count_occ item_eq_dec l x = if has n x then count_occ item_eq_dec (items s) x else 0%nat).
Proof. exact find_exact. Qed.
Print Assumptions C14_find_exact.

(* --- index / in agree with the list itself --- *)
Theorem C14_index_is_position : forall s x k,
  (forall n, Permutation (lut s n) (filter (has n) (items s))) -> index s x = Ok k ->
  0 <= k < zlen (items s) /\ nth_error (items s) (Z.to_nat k) = Some x /\
  (forall j, 0 <= j < k -> nth_error (items s) (Z.to_nat j) <> Some x).
Proof. exact index_is_position. Qed.
Print Assumptions C14_index_is_position.

Theorem C14_index_found_iff : forall s x,
  (forall n, Permutation (lut s n) (filter (has n) (items s))) ->
  ((exists k, index s x = Ok k) <-> is_item x = true /\ In x (items s)).
Proof. exact index_found_iff. Qed.
Print Assumptions C14_index_found_iff.

Theorem C14_index_error : forall s x e,
  (forall n, Permutation (lut s n) (filter (has n) (items s))) -> index s x = Err e ->
  (is_item x = false /\ e = ETYPE) \/ (is_item x = true /\ ~ In x (items s) /\ e = EVALUE).
Proof. exact index_error. Qed.
Print Assumptions C14_index_error.

Theorem C14_contains_iff_In : forall s x,
  (forall n, Permutation (lut s n) (filter (has n) (items s))) -> is_item x = true ->
  (contains s x = Ok true <-> In x (items s)) /\ (contains s x = Ok false <-> ~ In x (items s)).
Proof. exact contains_iff_In. Qed.
Print Assumptions C14_contains_iff_In.

Theorem C14_contains_non_item : forall s x, is_item x = false -> contains s x = Err ETYPE.
Proof. exact contains_junk. Qed.
Print Assumptions C14_contains_non_item.

Theorem C14_get_nodes_ok : forall s l, get_nodes s = Ok l -> l = filter inode (items s).
Proof. exact get_nodes_ok. Qed.
Print Assumptions C14_get_nodes_ok.

(* --- the relationship-type rule on every entry path ---
   Good root sr x := is_item x = true /\ (sr = true -> (irel x =? 0) = root) *)
Theorem C14_rule_init : forall l root sr s, init l root sr = Ok s ->
  Forall (fun x => is_item x = true /\ (is_sr s = true -> (irel x =? 0) = is_root s)) (items s).
Proof. exact rel_init. Qed.
Print Assumptions C14_rule_init.

Theorem C14_rule_step : forall s o,
  Forall (fun x => is_item x = true /\ (is_sr s = true -> (irel x =? 0) = is_root s)) (items s) ->
  Forall (fun x => is_item x = true /\ (is_sr (fst (step s o)) = true -> (irel x =? 0) = is_root (fst (step s o))))
         (items (fst (step s o))).
Proof. exact rel_step. Qed.
Print Assumptions C14_rule_step.

(* an operation through which a bad item would enter is refused ... *)
Theorem C14_rule_refuses : forall s o,
  (exists y, In y (entering o) /\ ~ (is_item y = true /\ (is_sr s = true -> (irel y =? 0) = is_root s))) ->
  exists e, snd (step s o) = Some e.
Proof. exact step_refuses. Qed.
Print Assumptions C14_rule_refuses.

(* ... with list, index and flags exactly as before (extend / += keep the admissible prefix) *)
Theorem C14_refused_unchanged : forall s o e,
  (forall n, Permutation (lut s n) (filter (has n) (items s))) -> snd (step s o) = Some e ->
  match o with Extend _ | IAdd _ => True | _ => fst (step s o) = s end.
Proof. exact step_err_unchanged. Qed.
Print Assumptions C14_refused_unchanged.

Theorem C14_extend_prefix : forall xs s s' r, extend s xs = (s', r) ->
  exists pre, items s' = items s ++ pre /\ Forall (fun x => add_check s x = None) pre /\
    match r with
    | None => pre = xs
    | Some e => exists x post, xs = pre ++ x :: post /\ add_check s x = Some e
    end.
Proof. exact extend_spec. Qed.
Print Assumptions C14_extend_prefix.

Theorem C14_accepted_items_good : forall s o, snd (step s o) = None ->
  Forall (fun x => is_item x = true /\ (is_sr s = true -> (irel x =? 0) = is_root s)) (entering o).
Proof. exact step_accepts_good. Qed.
Print Assumptions C14_accepted_items_good.

(* one rule for all entry paths: the guard of append / extend / += / insert / setitem is __init__'s *)
Theorem C14_guard_is_init_rule : forall s o x, chk s o x = init_check (is_root s) (is_sr s) x.
Proof. exact chk_strict. Qed.
Print Assumptions C14_guard_is_init_rule.

Theorem C14_rule_exact : forall root sr x, init_check root sr x = None <->
  is_item x = true /\
  (if root then irel x = 0 /\ icont x = true else if sr then irel x <> 0 else irel x = 0).
Proof. exact init_check_none_iff. Qed.
Print Assumptions C14_rule_exact.

Theorem C14_rule_error_class : forall root sr x e, init_check root sr x = Some e ->
  (e = ETYPE /\ (is_item x = false \/ (root = true /\ irel x = 0 /\ icont x = false))) \/
  (e = EATTR /\ is_item x = true /\ (if root then irel x <> 0 else if sr then irel x = 0 else irel x <> 0)).
Proof. exact init_check_error. Qed.
Print Assumptions C14_rule_error_class.

Theorem C14_append_accepts : forall s x, init_check (is_root s) (is_sr s) x = None ->
  append s x = (St (items s ++ [x]) (lut_add (lut s) x) (is_root s) (is_sr s), None).
Proof. exact append_accepts. Qed.
Print Assumptions C14_append_accepts.

Theorem C14_insert_accepts : forall s p x, init_check (is_root s) (is_sr s) x = None -> snd (insert s p x) = None.
Proof. exact insert_accepts. Qed.
Print Assumptions C14_insert_accepts.

(* integer index: refused with IndexError iff out of range; in range + admissible item => accepted *)
Theorem C14_setitem_int_accepts : forall s i x,
  (forall n, Permutation (lut s n) (filter (has n) (items s))) -> - zlen (items s) <= i < zlen (items s) ->
  init_check (is_root s) (is_sr s) x = None -> snd (setitem_int s i x) = None.
Proof. exact setitem_int_accepts. Qed.
Print Assumptions C14_setitem_int_accepts.

Theorem C14_setitem_int_out_of_range : forall s i x, ~ (- zlen (items s) <= i < zlen (items s)) ->
  setitem_int s i x = (s, Some EINDEX).
Proof. exact setitem_int_out_of_range. Qed.
Print Assumptions C14_setitem_int_out_of_range.

Theorem C14_delitem_int_accepts : forall s i,
  (forall n, Permutation (lut s n) (filter (has n) (items s))) -> - zlen (items s) <= i < zlen (items s) ->
  snd (delitem_int s i) = None /\
  exists p old, nth_error (items s) p = Some old /\
    Z.of_nat p = (if i <? 0 then i + zlen (items s) else i) /\
    items (fst (delitem_int s i)) = firstn p (items s) ++ skipn (S p) (items s).
Proof. exact delitem_int_accepts. Qed.
Print Assumptions C14_delitem_int_accepts.

Theorem C14_delitem_int_out_of_range : forall s i, ~ (- zlen (items s) <= i < zlen (items s)) ->
  delitem_int s i = (s, Some EINDEX).
Proof. exact delitem_int_out_of_range. Qed.
Print Assumptions C14_delitem_int_out_of_range.

Theorem C14_flags_constant : forall s o, is_root (fst (step s o)) = is_root s /\ is_sr (fst (step s o)) = is_sr s.
Proof. exact step_flags. Qed.
Print Assumptions C14_flags_constant.

(* --- all of it, for every finite history from every accepted construction:
       the index is the filtered list, find never fails and returns exactly the items with
       that name, index/in agree with the list, get_nodes is the filtered list, the rule holds --- *)
Theorem C14_history : forall l root sr s0 ops, init l root sr = Ok s0 ->
  let t := run s0 ops in
  (forall n, Permutation (lut t n) (filter (has n) (items t))) /\
  (forall n, exists r, find t n = Ok r /\ Permutation r (filter (has n) (items t))) /\
  (forall x k, index t x = Ok k ->
     nth_error (items t) (Z.to_nat k) = Some x /\
     forall j, 0 <= j < k -> nth_error (items t) (Z.to_nat j) <> Some x) /\
  (forall x, is_item x = true ->
     (contains t x = Ok true <-> In x (items t)) /\ (contains t x = Ok false <-> ~ In x (items t))) /\
  get_nodes t = Ok (filter inode (items t)) /\
  Forall (fun x => is_item x = true /\ (is_sr t = true -> (irel x =? 0) = is_root t)) (items t).
Proof. exact history_summary. Qed.
Print Assumptions C14_history.

(* find / get_nodes re-run __init__ on their result; they cannot fail where every item passes its rule *)
Theorem C14_find_total : forall s n,
  (forall k, Permutation (lut s k) (filter (has k) (items s))) ->
  Forall (fun x => init_check (is_root s) (is_sr s) x = None) (items s) ->
  is_root s && negb (is_sr s) = false -> find s n = Ok (lut s n).
Proof. exact find_total. Qed.
Print Assumptions C14_find_total.

Theorem C14_rule_kept_strict : forall s o,
  Forall (fun x => init_check (is_root s) (is_sr s) x = None) (items s) ->
  Forall (fun x => init_check (is_root (fst (step s o))) (is_sr (fst (step s o))) x = None) (items (fst (step s o))).
Proof. exact strict_step. Qed.
Print Assumptions C14_rule_kept_strict.

(* --- the slice mask used by the model is Python's range(start, stop, step) --- *)
Theorem C14_slice_mask_is_range : forall f l s i, s <> 0 ->
  (selected f l s i = true <-> exists k, 0 <= k < range_len f l s /\ i = f + k * s).
Proof. exact selected_iff_range. Qed.
Print Assumptions C14_slice_mask_is_range.

(* non-vacuity: a concrete history with equal items, a reversed extended slice
   assignment, a refused insert and a deletion; the queries on the final state *)
Example C14_example :
  let a := Item true 0 1 false false 0 in let b := Item true 1 1 false true 1 in
  let c := Item true 0 2 true false 0 in let bad := Item true 2 0 false false 0 in
  exists s0, init [a; b; a] false true = Ok s0 /\
  let t := run s0 [Insert 0 c; SetSlice None None (Some (-2)) [b; c]; Append bad; DelInt (-1); Extend [a; bad; b]] in
  items t = [c; c; b; a] /\ find t 0 = Ok [c; c; a] /\ find t 1 = Ok [b] /\
  index t b = Ok 2 /\ contains t bad = Ok false /\ get_nodes t = Ok [b].
Proof. eexists. split; [reflexivity|]. vm_compute. repeat split; reflexivity. Qed.
Print Assumptions C14_example.

(* ======================= from_sequence: the entry path for lists of plain datasets ======================= *)
(* WellFormed root sr d := is a Dataset /\ ValueType TEXT or CONTAINER /\ has its required attribute /\ has a name /\
   children (if any) well-formed /\ (root = false -> sr = true -> has a relationship type)   [_check_dataset + from_dataset] *)
Theorem C14_from_sequence_ok_iff : forall ds root sr, (exists s, from_sequence ds root sr = Ok s) <->
  root && negb sr = false /\
  Forall (fun d => d_isds d = true /\ (d_vt d = 1 \/ d_vt d = 2) /\ d_hasval d = true /\ d_hasname d = true /\
                   (d_kids d = 0 \/ d_kids d = 1) /\ (root = false -> sr = true -> d_rel d <> 0)) ds /\
  Forall (fun d => init_check root sr (to_item d) = None) ds.
Proof. exact from_sequence_ok_iff. Qed.
Print Assumptions C14_from_sequence_ok_iff.

(* a malformed dataset, or one whose item breaks the relationship-type rule of the target sequence, is refused *)
Theorem C14_from_sequence_refuses : forall ds root sr,
  (exists d, In d ds /\
     (~ (d_isds d = true /\ (d_vt d = 1 \/ d_vt d = 2) /\ d_hasval d = true /\ d_hasname d = true /\
         (d_kids d = 0 \/ d_kids d = 1) /\ (root = false -> sr = true -> d_rel d <> 0)) \/
      ~ (is_item (to_item d) = true /\ (sr = true -> (irel (to_item d) =? 0) = root)))) ->
  exists e, from_sequence ds root sr = Err e.
Proof. exact from_sequence_refuses. Qed.
Print Assumptions C14_from_sequence_refuses.

(* the error is that of the first failing dataset, else that of __init__ on the converted items *)
Theorem C14_from_sequence_error : forall ds root sr e, from_sequence ds root sr = Err e ->
  (exists pre d post, ds = pre ++ d :: post /\ Forall (WellFormed root sr) pre /\ ds_check root sr d = Some e) \/
  (Forall (WellFormed root sr) ds /\ init (map to_item ds) root sr = Err e).
Proof. exact from_sequence_error. Qed.
Print Assumptions C14_from_sequence_error.

Theorem C14_check_dataset_rel_rule : forall root sr d,
  d_isds d = true -> (d_vt d = 1 \/ d_vt d = 2) -> d_rel d = 0 -> root = false -> sr = true ->
  ds_check root sr d = Some EATTR.
Proof. exact check_dataset_rel_rule. Qed.
Print Assumptions C14_check_dataset_rel_rule.

Theorem C14_dataset_error_class : forall root sr d e, ds_check root sr d = Some e ->
  (e = ETYPE /\ d_isds d = false) \/ (e = EVALUE /\ d_isds d = true /\ d_vt d <> 0) \/ (e = EATTR /\ d_isds d = true).
Proof. exact ds_check_error. Qed.
Print Assumptions C14_dataset_error_class.

(* both constructors establish the index invariant and the strict rule *)
Theorem C14_construct_ok : forall c root sr s, construct c root sr = Ok s ->
  (forall n, Permutation (lut s n) (filter (has n) (items s))) /\
  Forall (fun x => init_check (is_root s) (is_sr s) x = None) (items s) /\
  is_root s = root /\ is_sr s = sr /\ root && negb sr = false /\
  items s = match c with FromList l => l | FromSeq ds => map to_item ds end.
Proof. exact construct_ok. Qed.
Print Assumptions C14_construct_ok.

(* ======================= the inherited MutableSequence methods ======================= *)
Theorem C14_xstep_inv : forall s o,
  (forall n, Permutation (lut s n) (filter (has n) (items s))) ->
  (forall n, Permutation (lut (fst (xstep s o)) n) (filter (has n) (items (fst (xstep s o))))).
Proof. exact xstep_inv. Qed.
Print Assumptions C14_xstep_inv.

Theorem C14_xstep_rule : forall s o,
  Forall (fun x => is_item x = true /\ (is_sr s = true -> (irel x =? 0) = is_root s)) (items s) ->
  Forall (fun x => is_item x = true /\ (is_sr (fst (xstep s o)) = true -> (irel x =? 0) = is_root (fst (xstep s o))))
         (items (fst (xstep s o))).
Proof. exact xstep_rel. Qed.
Print Assumptions C14_xstep_rule.

Theorem C14_xstep_flags : forall s o, is_root (fst (xstep s o)) = is_root s /\ is_sr (fst (xstep s o)) = is_sr s.
Proof. exact xstep_flags. Qed.
Print Assumptions C14_xstep_flags.

(* pop: returns the item at the (normalised) position, the list loses exactly that position; IndexError iff out of range *)
Theorem C14_pop_in_range : forall s i,
  (forall n, Permutation (lut s n) (filter (has n) (items s))) -> - zlen (items s) <= i < zlen (items s) ->
  exists p v, Z.of_nat p = (if i <? 0 then i + zlen (items s) else i) /\ nth_error (items s) p = Some v /\
    snd (pop s i) = Ok v /\ items (fst (pop s i)) = firstn p (items s) ++ skipn (S p) (items s) /\
    (forall n, Permutation (lut (fst (pop s i)) n) (filter (has n) (items (fst (pop s i))))).
Proof. exact pop_in_range. Qed.
Print Assumptions C14_pop_in_range.

Theorem C14_pop_out_of_range : forall s i, ~ (- zlen (items s) <= i < zlen (items s)) -> pop s i = (s, Err EINDEX).
Proof. exact pop_out_of_range. Qed.
Print Assumptions C14_pop_out_of_range.

(* remove: drops the FIRST occurrence and nothing else; ValueError iff absent; TypeError iff not a content item *)
Theorem C14_remove_present : forall s x,
  (forall n, Permutation (lut s n) (filter (has n) (items s))) -> is_item x = true -> In x (items s) ->
  exists p, nth_error (items s) p = Some x /\ (forall j, (j < p)%nat -> nth_error (items s) j <> Some x) /\
    snd (remove s x) = None /\ items (fst (remove s x)) = firstn p (items s) ++ skipn (S p) (items s).
Proof. exact remove_present. Qed.
Print Assumptions C14_remove_present.

Theorem C14_remove_absent : forall s x,
  (forall n, Permutation (lut s n) (filter (has n) (items s))) -> is_item x = true -> ~ In x (items s) ->
  remove s x = (s, Some EVALUE).
Proof. exact remove_absent. Qed.
Print Assumptions C14_remove_absent.

Theorem C14_remove_non_item : forall s x, is_item x = false -> remove s x = (s, Some ETYPE).
Proof. exact remove_junk. Qed.
Print Assumptions C14_remove_non_item.

(* reverse: the swap loop over __setitem__ reverses the list, never raises, keeps index and rule *)
Theorem C14_reverse_spec : forall s,
  (forall n, Permutation (lut s n) (filter (has n) (items s))) ->
  Forall (fun x => init_check (is_root s) (is_sr s) x = None) (items s) ->
  snd (reverse s) = None /\ items (fst (reverse s)) = rev (items s) /\
  (forall n, Permutation (lut (fst (reverse s)) n) (filter (has n) (items (fst (reverse s))))) /\
  Forall (fun x => init_check (is_root (fst (reverse s))) (is_sr (fst (reverse s))) x = None) (items (fst (reverse s))).
Proof. exact reverse_spec. Qed.
Print Assumptions C14_reverse_spec.

(* clear: the pop loop empties the list AND every entry of the index *)
Theorem C14_clear_spec : forall s,
  (forall n, Permutation (lut s n) (filter (has n) (items s))) ->
  snd (clear s) = None /\ items (fst (clear s)) = [] /\ (forall n, lut (fst (clear s)) n = []) /\
  (forall n, Permutation (lut (fst (clear s)) n) (filter (has n) (items (fst (clear s))))).
Proof. exact clear_spec. Qed.
Print Assumptions C14_clear_spec.

(* seq.extend(seq) / seq += seq: the list is doubled, nothing is refused, index, rule and flags are kept *)
Theorem C14_extend_self_spec : forall s,
  (forall n, Permutation (lut s n) (filter (has n) (items s))) ->
  Forall (fun x => init_check (is_root s) (is_sr s) x = None) (items s) ->
  snd (extend s (items s)) = None /\ items (fst (extend s (items s))) = items s ++ items s /\
  (forall n, Permutation (lut (fst (extend s (items s))) n) (filter (has n) (items (fst (extend s (items s)))))) /\
  Forall (fun x => init_check (is_root (fst (extend s (items s)))) (is_sr (fst (extend s (items s)))) x = None)
         (items (fst (extend s (items s)))) /\
  is_root (fst (extend s (items s))) = is_root s /\ is_sr (fst (extend s (items s))) = is_sr s.
Proof. exact extend_self_spec. Qed.
Print Assumptions C14_extend_self_spec.

Theorem C14_count_spec : forall s x, count s x = Z.of_nat (count_occ item_eq_dec (items s) x).
Proof. exact count_spec. Qed.
Print Assumptions C14_count_spec.

(* a failing pop / remove / basic operation (other than extend, +=) leaves list, index and flags as they were *)
Theorem C14_xstep_refused_unchanged : forall s o e,
  (forall n, Permutation (lut s n) (filter (has n) (items s))) -> snd (xstep s o) = Err e ->
  match o with
  | Op (Extend _) | Op (IAdd _) => True
  | Reverse | Clear | ExtendSelf | IAddSelf => True
  | _ => fst (xstep s o) = s
  end.
Proof. exact xstep_err_unchanged. Qed.
Print Assumptions C14_xstep_refused_unchanged.

(* ======================= the property sentence, for ALL operations and BOTH constructors =======================
   After any history of append, extend, +=, insert, setitem/delitem (int or slice), pop, remove, reverse, clear on a
   sequence built by __init__ or from_sequence (root, non-root SR, non-SR): the index is the filtered list; find(n)
   succeeds and returns exactly the items named n, each as often as in the list; index is the first position in
   the list itself and succeeds iff the item is in the list; `in` is list membership; count counts the list;
   get_nodes is the filtered list; every item obeys the relationship-type rule. *)
Theorem C14_history_all : forall c root sr s0 ops, construct c root sr = Ok s0 ->
  let t := xrun s0 ops in
  (forall n, Permutation (lut t n) (filter (has n) (items t))) /\
  (forall n, exists r, find t n = Ok r /\ Permutation r (filter (has n) (items t)) /\
     forall x, count_occ item_eq_dec r x = if has n x then count_occ item_eq_dec (items t) x else 0%nat) /\
  (forall x, (forall k, index t x = Ok k ->
                0 <= k < zlen (items t) /\ nth_error (items t) (Z.to_nat k) = Some x /\
                forall j, 0 <= j < k -> nth_error (items t) (Z.to_nat j) <> Some x) /\
             ((exists k, index t x = Ok k) <-> is_item x = true /\ In x (items t)) /\
             (is_item x = true -> (contains t x = Ok true <-> In x (items t)) /\
                                  (contains t x = Ok false <-> ~ In x (items t))) /\
             count t x = Z.of_nat (count_occ item_eq_dec (items t) x)) /\
  get_nodes t = Ok (filter inode (items t)) /\
  Forall (fun x => is_item x = true /\ (is_sr t = true -> (irel x =? 0) = is_root t)) (items t).
Proof. exact xhistory_summary. Qed.
Print Assumptions C14_history_all.

(* non-vacuity: construction from plain datasets, then every kind of inherited operation *)
Example C14_example_all :
  let d1 := DSet true 1 true true 0 1 0 0 in let d2 := DSet true 2 true true 1 2 1 0 in
  let d3 := DSet true 1 true true 0 1 0 5 in let a := to_item d1 in let b := to_item d2 in let c := to_item d3 in
  (exists s0, construct (FromSeq [d1; d2; d3; d1]) false true = Ok s0 /\
   let t := xrun s0 [Reverse; Pop 0; Remove a; Op (Append c); Remove (Item false 0 0 false false 1); Pop 9] in
   items t = [c; b; c] /\ find t 0 = Ok [c; c] /\ index t c = Ok 0 /\ count t c = 2 /\ get_nodes t = Ok [b] /\
   items (fst (clear t)) = [] /\ find (fst (clear t)) 0 = Ok []) /\
  from_sequence [d1; DSet true 1 true true 0 0 0 0] false true = Err EATTR /\
  from_sequence [DSet true 7 true true 0 1 0 0; DSet false 0 false false 0 0 0 0] false true = Err EVALUE /\
  from_sequence [d1] true true = Err EATTR /\
  init [Item true 0 1 false false 0; Item false 0 0 false false 1] false true = Err EATTR.
Proof. split; [eexists; split; [reflexivity|]; vm_compute; repeat split; reflexivity|vm_compute; repeat split; reflexivity]. Qed.
Print Assumptions C14_example_all.

(* ======================= slices and exact acceptance ======================= *)
(* the model's list[a:b:c] has Python's length len(range(f, l, s)), (f, l, s) = slice(a,b,c).indices(len(list)) *)
Theorem C14_slice_get_length : forall start stop stp (xs : list item) f l s, stp <> 0 ->
  slice_indices start stop stp (zlen xs) = (f, l, s) -> zlen (slice_get f l s xs) = range_len f l s.
Proof. exact slice_get_length. Qed.
Print Assumptions C14_slice_get_length.

(* the error outcome of every basic operation is a function of list, flags and arguments alone: where index and
   list agree, the name index never makes an operation fail (its removal loop cannot raise) *)
Theorem C14_step_error_exact : forall s o,
  (forall n, Permutation (lut s n) (filter (has n) (items s))) -> snd (step s o) = guard s o.
Proof. exact step_error_exact. Qed.
Print Assumptions C14_step_error_exact.

(* an operation is accepted IFF every entering item passes the rule and the plain-list operation is valid
   (index in range; slice step <> 0; extended slice: len(value) = len(range(slice.indices(len)))) *)
Theorem C14_step_accepts_iff : forall s o,
  (forall n, Permutation (lut s n) (filter (has n) (items s))) ->
  (snd (step s o) = None <->
   Forall (fun x => init_check (is_root s) (is_sr s) x = None) (entering o) /\
   match o with
   | SetInt i _ | DelInt i => - zlen (items s) <= i < zlen (items s)
   | DelSlice _ _ c => step_of c <> 0
   | SetSlice a b c xs =>
       step_of c <> 0 /\
       (step_of c = 1 \/
        zlen xs = range_len (fst (fst (slice_indices a b (step_of c) (zlen (items s)))))
                            (snd (fst (slice_indices a b (step_of c) (zlen (items s))))) (step_of c))
   | _ => True
   end).
Proof. exact step_accepts_iff. Qed.
Print Assumptions C14_step_accepts_iff.

(* ======================= refinement: ContentSequence = plain list + admission rule + recomputed queries ==========
   [ref_step root sr l o] / [xref_step root sr l o] (C14_Proofs_Refine.v) compute the next LIST from the list, the two
   flags and the operation only (the Python list operation if [guard] lets it through, else the list unchanged; extend / +=:
   the longest admissible prefix; pop / remove: one position removed; reverse: rev; clear: []).  They never see the
   name index. *)
Theorem C14_step_refines : forall s o,
  (forall n, Permutation (lut s n) (filter (has n) (items s))) ->
  items (fst (step s o)) = ref_step (is_root s) (is_sr s) (items s) o.
Proof. exact step_refines. Qed.
Print Assumptions C14_step_refines.

Theorem C14_xstep_refines : forall s o,
  (forall n, Permutation (lut s n) (filter (has n) (items s))) ->
  Forall (fun x => init_check (is_root s) (is_sr s) x = None) (items s) ->
  items (fst (xstep s o)) = xref_step (is_root s) (is_sr s) (items s) o.
Proof. exact xstep_refines. Qed.
Print Assumptions C14_xstep_refines.

(* index as a function of the list alone *)
Theorem C14_index_exact : forall s x,
  (forall n, Permutation (lut s n) (filter (has n) (items s))) ->
  index s x = if negb (is_item x) then Err ETYPE
              else match pos_of x (items s) 0 with Some k => Ok k | None => Err EVALUE end.
Proof. exact index_exact. Qed.
Print Assumptions C14_index_exact.

(* for every history of every operation from either constructor: the sequence IS the reference list L, and every
   query is the corresponding function of L (find up to order) *)
Theorem C14_refinement_all : forall c root sr s0 ops, construct c root sr = Ok s0 ->
  let t := xrun s0 ops in
  let L := fold_left (xref_step root sr) ops (match c with FromList l => l | FromSeq ds => map to_item ds end) in
  items t = L /\
  (forall n, exists r, find t n = Ok r /\ Permutation r (filter (has n) L)) /\
  (forall x, index t x = if negb (is_item x) then Err ETYPE
                         else match pos_of x L 0 with Some k => Ok k | None => Err EVALUE end) /\
  (forall x, is_item x = true -> contains t x = Ok (existsb (fun y => item_eqb y x) L)) /\
  (forall x, count t x = Z.of_nat (count_occ item_eq_dec L x)) /\
  get_nodes t = Ok (filter inode L) /\
  is_root t = root /\ is_sr t = sr.
Proof. exact refinement_all. Qed.
Print Assumptions C14_refinement_all.

Example C14_refinement_example :
  let a := Item true 0 1 false false 0 in let b := Item true 1 1 false true 1 in
  let bad := Item true 2 0 false false 0 in
  fold_left (xref_step false true)
    [Op (Extend [b; bad; a]); Op (SetSlice None None (Some (-1)) [a; b; a]); Reverse; Pop (-1); Remove a; Op (DelInt 5);
     ExtendSelf; IAddSelf]
    [a; a] = [b; b; b; b].
Proof. vm_compute. reflexivity. Qed.
Print Assumptions C14_refinement_example.

(* the outcome of EVERY operation - error class, or the item pop returns - computed from list, flags and arguments
   alone ([xoutcome], C14_Proofs_Refine.v): pop fails iff out of range, remove iff non-item (TypeError) / absent
   (ValueError), reverse and clear never fail in a reachable state *)
Theorem C14_xstep_outcome : forall s o,
  (forall n, Permutation (lut s n) (filter (has n) (items s))) ->
  Forall (fun x => init_check (is_root s) (is_sr s) x = None) (items s) ->
  snd (xstep s o) = xoutcome s o.
Proof. exact xstep_outcome. Qed.
Print Assumptions C14_xstep_outcome.

(* the model's list[a:b:c], element by element and in order, is Python's [list[f + k*s] for k in range(len(range(f,l,s)))]
   with (f, l, s) = slice(a,b,c).indices(len(list)) - positive and negative steps; every index used is inside the list *)
Theorem C14_slice_get_nth : forall start stop stp (xs : list item) f l s d, stp <> 0 ->
  slice_indices start stop stp (zlen xs) = (f, l, s) ->
  slice_get f l s xs = map (fun k => nth (Z.to_nat (f + Z.of_nat k * s)) xs d) (seq 0 (Z.to_nat (range_len f l s))).
Proof. exact slice_get_nth. Qed.
Print Assumptions C14_slice_get_nth.

Theorem C14_slice_range_in_bounds : forall start stop stp len f l s k, stp <> 0 -> 0 <= len ->
  slice_indices start stop stp len = (f, l, s) -> 0 <= k < range_len f l s -> 0 <= f + k * s < len.
Proof. exact slice_range_in_bounds. Qed.
Print Assumptions C14_slice_range_in_bounds.

(* ======================= families: sequences constructed FROM other sequences =======================
   [mrun [s0] ops]: the family grown from one constructed sequence by any history of (a) any operation on any member
   and (b) derivations of a new member from any member - ContentSequence(seq, is_root, is_sr) (= what
   `item.ContentSequence = seq` does, with the default flags), copy.deepcopy(seq), seq.find(name), seq.get_nodes().
   For EVERY member, at every time, the property sentence holds: its index is its own filtered list, find returns
   exactly its items with that name, index / in / count agree with its list, get_nodes is its filtered list, its
   items obey its relationship-type rule. *)
Theorem C14_family_all : forall c root sr s0 ops, construct c root sr = Ok s0 ->
  Forall (fun t =>
    (forall n, Permutation (lut t n) (filter (has n) (items t))) /\
    (forall n, exists r, find t n = Ok r /\ Permutation r (filter (has n) (items t)) /\
       forall x, count_occ item_eq_dec r x = if has n x then count_occ item_eq_dec (items t) x else 0%nat) /\
    (forall x, (forall k, index t x = Ok k ->
                  0 <= k < zlen (items t) /\ nth_error (items t) (Z.to_nat k) = Some x /\
                  forall j, 0 <= j < k -> nth_error (items t) (Z.to_nat j) <> Some x) /\
               ((exists k, index t x = Ok k) <-> is_item x = true /\ In x (items t)) /\
               (is_item x = true -> (contains t x = Ok true <-> In x (items t)) /\
                                    (contains t x = Ok false <-> ~ In x (items t))) /\
               count t x = Z.of_nat (count_occ item_eq_dec (items t) x)) /\
    get_nodes t = Ok (filter inode (items t)) /\
    Forall (fun x => is_item x = true /\ (is_sr t = true -> (irel x =? 0) = is_root t)) (items t))
  (mrun [s0] ops).
Proof. exact family_summary. Qed.
Print Assumptions C14_family_all.

(* an operation on member i is that member's own single-sequence step; every other member - in particular the
   sequence it was constructed from, and every sequence constructed from it - stays exactly as it was *)
Theorem C14_family_frame_on : forall ss i o s, get_seq ss i = Some s ->
  let ss' := fst (mstep ss (MOn i o)) in
  length ss' = length ss /\
  get_seq ss' i = Some (fst (xstep s o)) /\
  snd (mstep ss (MOn i o)) = snd (xstep s o) /\
  (forall j, j <> i -> get_seq ss' j = get_seq ss j).
Proof. exact mstep_frame_on. Qed.
Print Assumptions C14_family_frame_on.

(* constructing a new member changes no existing member (whether the construction is accepted or refused) *)
Theorem C14_family_frame_derive : forall ss src d,
  let ss' := fst (mstep ss (MDerive src d)) in
  (forall j s, get_seq ss j = Some s -> get_seq ss' j = Some s) /\
  match get_seq ss src with
  | None => ss' = ss /\ snd (mstep ss (MDerive src d)) = Err ENOSEQ
  | Some s => match derive_from s d with
              | Ok s' => ss' = ss ++ [s'] /\ snd (mstep ss (MDerive src d)) = Ok None
              | Err e => ss' = ss /\ snd (mstep ss (MDerive src d)) = Err e
              end
  end.
Proof. exact mstep_frame_derive. Qed.
Print Assumptions C14_family_frame_derive.

(* the new member: its own index built from its own list; the list is the source's list (constructor, deepcopy),
   the source's items with that name (find, up to order) or the source's node items (get_nodes) *)
Theorem C14_derive_spec : forall s d s',
  (forall n, Permutation (lut s n) (filter (has n) (items s))) /\
  Forall (fun x => init_check (is_root s) (is_sr s) x = None) (items s) /\ is_root s && negb (is_sr s) = false ->
  derive_from s d = Ok s' ->
  ((forall n, Permutation (lut s' n) (filter (has n) (items s'))) /\
   Forall (fun x => init_check (is_root s') (is_sr s') x = None) (items s') /\ is_root s' && negb (is_sr s') = false) /\
  lut s' = fold_left lut_add (items s') empty_lut /\
  match d with
  | DCtor root sr => items s' = items s /\ is_root s' = root /\ is_sr s' = sr
  | DCopy => items s' = items s /\ is_root s' = is_root s /\ is_sr s' = is_sr s
  | DFind n => Permutation (items s') (filter (has n) (items s)) /\ is_root s' = is_root s /\ is_sr s' = is_sr s
  | DNodes => items s' = filter inode (items s) /\ is_root s' = is_root s /\ is_sr s' = is_sr s
  end.
Proof. exact derive_spec. Qed.
Print Assumptions C14_derive_spec.

(* ContentSequence(seq, root, sr) applies the rule of the NEW sequence to every item of seq: the entry path
   `item.ContentSequence = seq` cannot smuggle in an item its own flags would refuse *)
Theorem C14_derive_ctor_ok_iff : forall s root sr,
  (exists s', derive_from s (DCtor root sr) = Ok s') <->
  root && negb sr = false /\ Forall (fun x => init_check root sr x = None) (items s).
Proof. exact derive_ctor_ok_iff. Qed.
Print Assumptions C14_derive_ctor_ok_iff.

(* non-vacuity: the copy gets a second item named 0, the source loses its first one - each member answers for
   its own list; a container's children (DCtor false true) refuse a root item *)
Example C14_family_example :
  let a := Item true 0 1 false false 0 in let t := Item true 1 1 false true 0 in
  let b := Item true 0 1 false false 1 in let c := Item true 0 2 false false 2 in
  exists s0, init [a; t; b] false true = Ok s0 /\
  (match mrun [s0] [MDerive 0 (DCtor false true); MOn 1 (Op (Append c)); MOn 0 (Op (DelInt 0)); MDerive 1 (DFind 0);
                    MOn 2 (Pop 0); MDerive 0 DNodes; MOn 7 Reverse] with
   | [src; cpy; fnd; nds] =>
       items src = [t; b] /\ find src 0 = Ok [b] /\ contains src c = Ok false /\ contains src a = Ok false /\
       items cpy = [a; t; b; c] /\ find cpy 0 = Ok [a; b; c] /\ index cpy a = Ok 0 /\
       items fnd = [b; c] /\ items nds = [t]
   | _ => False
   end) /\
  (exists r, init [Item true 0 0 true false 0] true true = Ok r /\ derive_from r (DCtor false true) = Err EATTR).
Proof.
  eexists. split; [reflexivity|]. split; [vm_compute; repeat split; reflexivity|].
  eexists. split; [reflexivity|]. vm_compute. reflexivity.
Qed.
Print Assumptions C14_family_example.

(* ======================= slice deletion and extended-slice assignment, element by element ======================= *)
(* enumerate xs = combine (seq 0 (length xs)) xs;  py_range f l s = [f + k*s | k < range_len f l s];
   in_py_range f l s i = existsb (Z.eqb i) (py_range f l s)   (C14_Proofs_SliceSet.v) *)
(* del xs[a:b:c] = [x for i, x in enumerate(xs) if i not in range(f, l, s)], (f, l, s) = slice(a,b,c).indices(len(xs)) *)
Theorem C14_slice_del_comprehension : forall start stop stp (xs : list item) f l s, stp <> 0 ->
  slice_indices start stop stp (zlen xs) = (f, l, s) ->
  slice_del f l s xs = map snd (filter (fun q => negb (in_py_range f l s (Z.of_nat (fst q)))) (enumerate xs)).
Proof. exact slice_del_comprehension. Qed.
Print Assumptions C14_slice_del_comprehension.

(* xs[a:b:c] = vs (len(vs) = len(range(f,l,s))): the length is kept, xs[f + k*s] = vs[k] for every k - for
   negative steps too -, and every position outside range(f, l, s) keeps its item *)
Theorem C14_slice_set_nth : forall start stop stp (xs vs : list item) f l s d, stp <> 0 ->
  slice_indices start stop stp (zlen xs) = (f, l, s) -> zlen vs = range_len f l s ->
  let r := replace_sel (mask f l s (length xs)) xs (if s <? 0 then rev vs else vs) in
  length r = length xs /\
  (forall k, 0 <= k < range_len f l s -> nth (Z.to_nat (f + k * s)) r d = nth (Z.to_nat k) vs d) /\
  (forall i, (i < length xs)%nat -> in_py_range f l s (Z.of_nat i) = false -> nth i r d = nth i xs d).
Proof. exact slice_set_nth. Qed.
Print Assumptions C14_slice_set_nth.

(* the sequence after an ACCEPTED seq[a:b:c] = xs, in a state where index and list agree: simple slice -
   list[:f] + xs + list[max(f,l):]; extended slice - len(xs) = len(range), same length, position f + k*s holds
   xs[k], the rest is untouched *)
Theorem C14_setslice_spec : forall s a b c xs f l st d,
  (forall n, Permutation (lut s n) (filter (has n) (items s))) ->
  snd (step s (SetSlice a b c xs)) = None ->
  slice_indices a b (step_of c) (zlen (items s)) = (f, l, st) ->
  let r := items (fst (step s (SetSlice a b c xs))) in
  (st = 1 -> r = firstn (Z.to_nat f) (items s) ++ xs ++ skipn (Z.to_nat (Z.max f l)) (items s)) /\
  (st <> 1 ->
     zlen xs = range_len f l st /\ length r = length (items s) /\
     (forall k, 0 <= k < range_len f l st -> nth (Z.to_nat (f + k * st)) r d = nth (Z.to_nat k) xs d) /\
     (forall i, (i < length (items s))%nat -> in_py_range f l st (Z.of_nat i) = false ->
                nth i r d = nth i (items s) d)).
Proof. exact setslice_spec. Qed.
Print Assumptions C14_setslice_spec.

(* del seq[a:b:c] with step <> 0 is always accepted and leaves exactly the items at the positions outside range(f,l,s) *)
Theorem C14_delslice_spec : forall s a b c f l st,
  (forall n, Permutation (lut s n) (filter (has n) (items s))) -> step_of c <> 0 ->
  slice_indices a b (step_of c) (zlen (items s)) = (f, l, st) ->
  snd (step s (DelSlice a b c)) = None /\
  items (fst (step s (DelSlice a b c))) =
  map snd (filter (fun q => negb (in_py_range f l st (Z.of_nat (fst q)))) (enumerate (items s))).
Proof. exact delslice_spec. Qed.
Print Assumptions C14_delslice_spec.

(* non-vacuity: seq[4:0:-2] = [x; y] writes x at 4 and y at 2; del seq[-1:0:-2] removes positions 4 and 2 *)
Example C14_slice_set_del_example :
  let it := fun v => Item true 0 1 false false v in
  exists s0, init (map it [0; 1; 2; 3; 4]) false true = Ok s0 /\
  slice_indices (Some 4) (Some 0) (-2) 5 = (4, 0, -2) /\ py_range 4 0 (-2) = [4; 2] /\
  snd (step s0 (SetSlice (Some 4) (Some 0) (Some (-2)) [it 8; it 9])) = None /\
  map ipay (items (fst (step s0 (SetSlice (Some 4) (Some 0) (Some (-2)) [it 8; it 9])))) = [0; 1; 9; 3; 8] /\
  snd (step s0 (SetSlice (Some 4) (Some 0) (Some (-2)) [it 8])) = Some EVALUE /\
  map ipay (items (fst (step s0 (DelSlice (Some (-1)) (Some 0) (Some (-2)))))) = [0; 1; 3].
Proof. eexists. split; [reflexivity|]. vm_compute. repeat split; reflexivity. Qed.
Print Assumptions C14_slice_set_del_example.

(* ======================= reading the sequence ======================= *)
(* seq[i] is the item at the normalised position; IndexError iff out of range *)
Theorem C14_getitem_int_spec : forall s i,
  (- zlen (items s) <= i < zlen (items s) ->
   exists v, getitem_int s i = Ok v /\
             nth_error (items s) (Z.to_nat (if i <? 0 then i + zlen (items s) else i)) = Some v) /\
  (~ (- zlen (items s) <= i < zlen (items s)) -> getitem_int s i = Err EINDEX).
Proof. exact getitem_int_spec. Qed.
Print Assumptions C14_getitem_int_spec.

(* seq[a:b:c] = [seq[f + k*s] for k in range(len(range(f, l, s)))]; ValueError iff the step is 0 *)
Theorem C14_getitem_slice_spec : forall s a b c f l st d,
  slice_indices a b (step_of c) (zlen (items s)) = (f, l, st) ->
  getitem_slice s a b c =
  if step_of c =? 0 then Err EVALUE
  else Ok (map (fun k => nth (Z.to_nat (f + Z.of_nat k * st)) (items s) d) (seq 0 (Z.to_nat (range_len f l st)))).
Proof. exact getitem_slice_spec. Qed.
Print Assumptions C14_getitem_slice_spec.

(* reversed(seq) - a loop over seq[i] - yields the list backwards and never raises *)
Theorem C14_reversed_spec : forall s, reversed s = map Ok (rev (items s)).
Proof. exact reversed_spec. Qed.
Print Assumptions C14_reversed_spec.

(* ======================= from_sequence over ALL fifteen value types ======================= *)
(* accepted IFF the flags are consistent, every dataset is well-formed for ITS value type (is a Dataset, one of
   the 15 value types, all required attributes, a name unless the type's name is optional, well-formed children,
   a relationship type unless root / non-SR) and its item passes __init__'s rule *)
Theorem C14_from_sequence_x_ok_iff : forall ds root sr, (exists s, from_sequence_x ds root sr = Ok s) <->
  root && negb sr = false /\
  Forall (fun d => d_isds d = true /\ 1 <= d_vt d <= 15 /\ d_hasval d = true /\
                   (d_hasname d = true \/ 10 <= d_vt d <= 15) /\
                   (d_kids d = 0 \/ d_kids d = 1) /\ (root = false -> sr = true -> d_rel d <> 0)) ds /\
  Forall (fun d => init_check root sr (to_item_x d) = None) ds.
Proof. exact from_sequence_x_ok_iff. Qed.
Print Assumptions C14_from_sequence_x_ok_iff.

(* the error is that of the first failing dataset, else __init__'s *)
Theorem C14_from_sequence_x_error : forall ds root sr e, from_sequence_x ds root sr = Err e ->
  (exists pre d post, ds = pre ++ d :: post /\ Forall (WellFormedX root sr) pre /\ ds_check_x root sr d = Some e) \/
  (Forall (WellFormedX root sr) ds /\ init (map to_item_x ds) root sr = Err e).
Proof. exact from_sequence_x_error. Qed.
Print Assumptions C14_from_sequence_x_error.

Theorem C14_dataset_x_error_class : forall root sr d e, ds_check_x root sr d = Some e ->
  (e = ETYPE /\ d_isds d = false) \/ (e = EVALUE /\ d_isds d = true /\ d_vt d <> 0) \/ (e = EATTR /\ d_isds d = true).
Proof. exact ds_check_x_error. Qed.
Print Assumptions C14_dataset_x_error_class.

(* _check_dataset's rule on this entry path, whatever the value type *)
Theorem C14_check_dataset_x_rel_rule : forall root sr d,
  d_isds d = true -> 1 <= d_vt d <= 15 -> d_rel d = 0 -> root = false -> sr = true ->
  ds_check_x root sr d = Some EATTR.
Proof. exact check_dataset_x_rel_rule. Qed.
Print Assumptions C14_check_dataset_x_rel_rule.

(* the TEXT / CONTAINER-only from_sequence of the earlier theorems is the restriction of this one *)
Theorem C14_from_sequence_x_conservative : forall ds root sr, Forall (fun d => ~ (3 <= d_vt d <= 15)) ds ->
  from_sequence_x ds root sr = from_sequence ds root sr.
Proof. exact from_sequence_x_conservative. Qed.
Print Assumptions C14_from_sequence_x_conservative.

(* the name index right after from_sequence: every dataset is indexed once under its own name, or under the
   default name (only possible for the six optional-name value types) when it brings none *)
Theorem C14_from_sequence_x_names : forall ds root sr s n, from_sequence_x ds root sr = Ok s ->
  Permutation (lut s n) (filter (has n) (map to_item_x ds)) /\
  forall d, In d ds -> iname (to_item_x d) = (if d_hasname d then d_name d else DEFAULT_NAME) /\
                       (d_hasname d = false -> 10 <= d_vt d <= 15).
Proof. exact from_sequence_x_names. Qed.
Print Assumptions C14_from_sequence_x_names.

(* the whole property sentence after ANY history that starts from from_sequence over any value types *)
Theorem C14_history_all_x : forall ds root sr s0 ops, from_sequence_x ds root sr = Ok s0 ->
  let t := xrun s0 ops in
  (forall n, Permutation (lut t n) (filter (has n) (items t))) /\
  (forall n, exists r, find t n = Ok r /\ Permutation r (filter (has n) (items t)) /\
     forall x, count_occ item_eq_dec r x = if has n x then count_occ item_eq_dec (items t) x else 0%nat) /\
  (forall x, (forall k, index t x = Ok k ->
                0 <= k < zlen (items t) /\ nth_error (items t) (Z.to_nat k) = Some x /\
                forall j, 0 <= j < k -> nth_error (items t) (Z.to_nat j) <> Some x) /\
             ((exists k, index t x = Ok k) <-> is_item x = true /\ In x (items t)) /\
             (is_item x = true -> (contains t x = Ok true <-> In x (items t)) /\
                                  (contains t x = Ok false <-> ~ In x (items t))) /\
             count t x = Z.of_nat (count_occ item_eq_dec (items t) x)) /\
  get_nodes t = Ok (filter inode (items t)) /\
  Forall (fun x => is_item x = true /\ (is_sr t = true -> (irel x =? 0) = is_root t)) (items t).
Proof. exact xhistory_summary_x. Qed.
Print Assumptions C14_history_all_x.

(* non-vacuity: a CODE item, two IMAGE items without a name (both indexed under the default name 18), a NUM item;
   a PNAME dataset without a name and a SCOORD dataset lacking a required attribute are refused *)
Example C14_from_sequence_x_example :
  let code := DSet true 3 true true 0 1 0 30 in let img := DSet true 11 true false 0 2 0 110 in
  let img2 := DSet true 11 true false 7 1 1 111 in let num := DSet true 4 true true 1 1 0 40 in
  (exists s0, from_sequence_x [code; img; num; img2] false true = Ok s0 /\
     find s0 DEFAULT_NAME = Ok [to_item_x img; to_item_x img2] /\ find s0 7 = Ok [] /\
     let t := xrun s0 [Pop 1; Reverse] in
     map ipay (items t) = [111; 40; 30] /\ find t DEFAULT_NAME = Ok [to_item_x img2] /\
     index t (to_item_x img) = Err EVALUE /\ index t (to_item_x img2) = Ok 0 /\
     getitem_slice t None None (Some (-2)) = Ok [to_item_x code; to_item_x img2] /\
     reversed t = [Ok (to_item_x code); Ok (to_item_x num); Ok (to_item_x img2)]) /\
  from_sequence_x [DSet true 5 true false 0 1 0 50] false true = Err EATTR /\
  from_sequence_x [DSet true 12 false true 0 1 0 120] false true = Err EATTR /\
  from_sequence_x [DSet true 16 true true 0 1 0 0] false true = Err EVALUE /\
  from_sequence_x [code] true true = Err EATTR /\
  from_sequence_x [DSet true 3 true true 0 0 0 30] true true = Err ETYPE.
Proof. split; [eexists; split; [reflexivity|]; vm_compute; repeat split; reflexivity|vm_compute; repeat split; reflexivity]. Qed.
Print Assumptions C14_from_sequence_x_example.

(* from_sequence over all value types IS __init__ on the converted datasets (every theorem about construct applies) *)
Theorem C14_from_sequence_x_is_init : forall ds root sr s, from_sequence_x ds root sr = Ok s ->
  construct (FromList (map to_item_x ds)) root sr = Ok s /\ Forall (WellFormedX root sr) ds.
Proof. exact from_sequence_x_ok. Qed.
Print Assumptions C14_from_sequence_x_is_init.

(* refinement to the index-free plain-list reference, for histories that start from from_sequence over any value types *)
Theorem C14_refinement_all_x : forall ds root sr s0 ops, from_sequence_x ds root sr = Ok s0 ->
  let t := xrun s0 ops in
  let L := fold_left (xref_step root sr) ops (map to_item_x ds) in
  items t = L /\
  (forall n, exists r, find t n = Ok r /\ Permutation r (filter (has n) L)) /\
  (forall x, index t x = if negb (is_item x) then Err ETYPE
                         else match pos_of x L 0 with Some k => Ok k | None => Err EVALUE end) /\
  (forall x, is_item x = true -> contains t x = Ok (existsb (fun y => item_eqb y x) L)) /\
  (forall x, count t x = Z.of_nat (count_occ item_eq_dec L x)) /\
  get_nodes t = Ok (filter inode L) /\
  is_root t = root /\ is_sr t = sr.
Proof. exact refinement_all_x. Qed.
Print Assumptions C14_refinement_all_x.

(* every member of every family grown from such a sequence satisfies the whole property sentence *)
Theorem C14_family_all_x : forall ds root sr s0 ops, from_sequence_x ds root sr = Ok s0 ->
  Forall (fun t =>
    (forall n, Permutation (lut t n) (filter (has n) (items t))) /\
    (forall n, exists r, find t n = Ok r /\ Permutation r (filter (has n) (items t)) /\
       forall x, count_occ item_eq_dec r x = if has n x then count_occ item_eq_dec (items t) x else 0%nat) /\
    (forall x, (forall k, index t x = Ok k ->
                  0 <= k < zlen (items t) /\ nth_error (items t) (Z.to_nat k) = Some x /\
                  forall j, 0 <= j < k -> nth_error (items t) (Z.to_nat j) <> Some x) /\
               ((exists k, index t x = Ok k) <-> is_item x = true /\ In x (items t)) /\
               (is_item x = true -> (contains t x = Ok true <-> In x (items t)) /\
                                    (contains t x = Ok false <-> ~ In x (items t))) /\
               count t x = Z.of_nat (count_occ item_eq_dec (items t) x)) /\
    get_nodes t = Ok (filter inode (items t)) /\
    Forall (fun x => is_item x = true /\ (is_sr t = true -> (irel x =? 0) = is_root t)) (items t))
  (mrun [s0] ops).
Proof. exact family_summary_x. Qed.
Print Assumptions C14_family_all_x.
