(* C14 - property theorems: a content sequence and its name index never disagree.
   Nothing but statements, `exact <lemma>` and Print Assumptions.
   Model: C14_Model.v (ContentSequence of sr/value_types.py; state = list, name
   index `lut`, is_root, is_sr).  [run s ops] = state after the history [ops]. *)
From Coq Require Import String ZArith List Bool Permutation.
From HD Require Import Base.Val Base.PySlice C14_Model C14_Proofs.
Import ListNotations.
Open Scope Z_scope.

(* --- the index invariant: Inv s := forall name, Permutation (lut s name) (filter (has name) (items s)) --- *)
Theorem C14_inv_init : forall l root sr s, init l root sr = Ok s ->
  (forall n, Permutation (lut s n) (filter (has n) (items s))) /\ items s = l /\ is_root s = root /\ is_sr s = sr.
Proof. exact inv_init. Qed.
Print Assumptions C14_inv_init.

(* every operation (accepted OR refused, any index, any slice) keeps it *)
Theorem C14_inv_step : forall s o,
  (forall n, Permutation (lut s n) (filter (has n) (items s))) ->
  (forall n, Permutation (lut (fst (step s o)) n) (filter (has n) (items (fst (step s o))))).
Proof. exact inv_step. Qed.
Print Assumptions C14_inv_step.

Theorem C14_inv_reachable : forall l root sr s ops, init l root sr = Ok s ->
  forall n, Permutation (lut (run s ops) n) (filter (has n) (items (run s ops))).
Proof. exact inv_reachable. Qed.
Print Assumptions C14_inv_reachable.

(* --- find: exactly the items with that name, each once (multiset equality) --- *)
Theorem C14_find_exact : forall s n l,
  (forall k, Permutation (lut s k) (filter (has k) (items s))) -> find s n = Ok l ->
  Permutation l (filter (has n) (items s)) /\
  (forall x, count_occ item_eq_dec l x = if has n x then count_occ item_eq_dec (items s) x else 0%nat).
Proof. exact find_exact. Qed.
Print Assumptions C14_find_exact.

(* --- index / in agree with the list itself --- *)
Theorem C14_index_is_position : forall s x k,
  (forall n, Permutation (lut s n) (filter (has n) (items s))) -> index s x = Ok k ->
  0 <= k < zlen (items s) /\ nth_error (items s) (Z.to_nat k) = Some x /\
  (forall j, 0 <= j < k -> nth_error (items s) (Z.to_nat j) <> Some x).
Proof. exact index_is_position. Qed.
Print Assumptions C14_index_is_position.

Theorem C14_index_found_iff : forall s x,
  (forall n, Permutation (lut s n) (filter (has n) (items s))) ->
  ((exists k, index s x = Ok k) <-> is_item x = true /\ In x (items s)).
Proof. exact index_found_iff. Qed.
Print Assumptions C14_index_found_iff.

Theorem C14_index_error : forall s x e,
  (forall n, Permutation (lut s n) (filter (has n) (items s))) -> index s x = Err e ->
  (is_item x = false /\ e = ETYPE) \/ (is_item x = true /\ ~ In x (items s) /\ e = EVALUE).
Proof. exact index_error. Qed.
Print Assumptions C14_index_error.

Theorem C14_contains_iff_In : forall s x,
  (forall n, Permutation (lut s n) (filter (has n) (items s))) -> is_item x = true ->
  (contains s x = Ok true <-> In x (items s)) /\ (contains s x = Ok false <-> ~ In x (items s)).
Proof. exact contains_iff_In. Qed.
Print Assumptions C14_contains_iff_In.

Theorem C14_contains_non_item : forall s x, is_item x = false -> contains s x = Err ETYPE.
Proof. exact contains_junk. Qed.
Print Assumptions C14_contains_non_item.

Theorem C14_get_nodes_ok : forall s l, get_nodes s = Ok l -> l = filter inode (items s).
Proof. exact get_nodes_ok. Qed.
Print Assumptions C14_get_nodes_ok.

(* --- the relationship-type rule on every entry path ---
   Good root sr x := is_item x = true /\ (sr = true -> (irel x =? 0) = root) *)
Theorem C14_rule_init : forall l root sr s, init l root sr = Ok s ->
  Forall (fun x => is_item x = true /\ (is_sr s = true -> (irel x =? 0) = is_root s)) (items s).
Proof. exact rel_init. Qed.
Print Assumptions C14_rule_init.

Theorem C14_rule_step : forall s o,
  Forall (fun x => is_item x = true /\ (is_sr s = true -> (irel x =? 0) = is_root s)) (items s) ->
  Forall (fun x => is_item x = true /\ (is_sr (fst (step s o)) = true -> (irel x =? 0) = is_root (fst (step s o))))
         (items (fst (step s o))).
Proof. exact rel_step. Qed.
Print Assumptions C14_rule_step.

(* an operation through which a bad item would enter is refused ... *)
Theorem C14_rule_refuses : forall s o,
  (exists y, In y (entering o) /\ ~ (is_item y = true /\ (is_sr s = true -> (irel y =? 0) = is_root s))) ->
  exists e, snd (step s o) = Some e.
Proof. exact step_refuses. Qed.
Print Assumptions C14_rule_refuses.

(* ... with list, index and flags exactly as before (extend / += keep the admissible prefix) *)
Theorem C14_refused_unchanged : forall s o e,
  (forall n, Permutation (lut s n) (filter (has n) (items s))) -> snd (step s o) = Some e ->
  match o with Extend _ | IAdd _ => True | _ => fst (step s o) = s end.
Proof. exact step_err_unchanged. Qed.
Print Assumptions C14_refused_unchanged.

Theorem C14_extend_prefix : forall xs s s' r, extend s xs = (s', r) ->
  exists pre, items s' = items s ++ pre /\ Forall (fun x => add_check s x = None) pre /\
    match r with
    | None => pre = xs
    | Some e => exists x post, xs = pre ++ x :: post /\ add_check s x = Some e
    end.
Proof. exact extend_spec. Qed.
Print Assumptions C14_extend_prefix.

Theorem C14_accepted_items_good : forall s o, snd (step s o) = None ->
  Forall (fun x => is_item x = true /\ (is_sr s = true -> (irel x =? 0) = is_root s)) (entering o).
Proof. exact step_accepts_good. Qed.
Print Assumptions C14_accepted_items_good.

(* one rule for all entry paths: the guard of append / extend / += / insert / setitem is __init__'s *)
Theorem C14_guard_is_init_rule : forall s o x, chk s o x = init_check (is_root s) (is_sr s) x.
Proof. exact chk_strict. Qed.
Print Assumptions C14_guard_is_init_rule.

Theorem C14_rule_exact : forall root sr x, init_check root sr x = None <->
  is_item x = true /\
  (if root then irel x = 0 /\ icont x = true else if sr then irel x <> 0 else irel x = 0).
Proof. exact init_check_none_iff. Qed.
Print Assumptions C14_rule_exact.

Theorem C14_rule_error_class : forall root sr x e, init_check root sr x = Some e ->
  (e = ETYPE /\ (is_item x = false \/ (root = true /\ irel x = 0 /\ icont x = false))) \/
  (e = EATTR /\ is_item x = true /\ (if root then irel x <> 0 else if sr then irel x = 0 else irel x <> 0)).
Proof. exact init_check_error. Qed.
Print Assumptions C14_rule_error_class.

Theorem C14_append_accepts : forall s x, init_check (is_root s) (is_sr s) x = None ->
  append s x = (St (items s ++ [x]) (lut_add (lut s) x) (is_root s) (is_sr s), None).
Proof. exact append_accepts. Qed.
Print Assumptions C14_append_accepts.

Theorem C14_insert_accepts : forall s p x, init_check (is_root s) (is_sr s) x = None -> snd (insert s p x) = None.
Proof. exact insert_accepts. Qed.
Print Assumptions C14_insert_accepts.

(* integer index: refused with IndexError iff out of range; in range + admissible item => accepted *)
Theorem C14_setitem_int_accepts : forall s i x,
  (forall n, Permutation (lut s n) (filter (has n) (items s))) -> - zlen (items s) <= i < zlen (items s) ->
  init_check (is_root s) (is_sr s) x = None -> snd (setitem_int s i x) = None.
Proof. exact setitem_int_accepts. Qed.
Print Assumptions C14_setitem_int_accepts.

Theorem C14_setitem_int_out_of_range : forall s i x, ~ (- zlen (items s) <= i < zlen (items s)) ->
  setitem_int s i x = (s, Some EINDEX).
Proof. exact setitem_int_out_of_range. Qed.
Print Assumptions C14_setitem_int_out_of_range.

Theorem C14_delitem_int_accepts : forall s i,
  (forall n, Permutation (lut s n) (filter (has n) (items s))) -> - zlen (items s) <= i < zlen (items s) ->
  snd (delitem_int s i) = None /\
  exists p old, nth_error (items s) p = Some old /\
    Z.of_nat p = (if i <? 0 then i + zlen (items s) else i) /\
    items (fst (delitem_int s i)) = firstn p (items s) ++ skipn (S p) (items s).
Proof. exact delitem_int_accepts. Qed.
Print Assumptions C14_delitem_int_accepts.

Theorem C14_delitem_int_out_of_range : forall s i, ~ (- zlen (items s) <= i < zlen (items s)) ->
  delitem_int s i = (s, Some EINDEX).
Proof. exact delitem_int_out_of_range. Qed.
Print Assumptions C14_delitem_int_out_of_range.

Theorem C14_flags_constant : forall s o, is_root (fst (step s o)) = is_root s /\ is_sr (fst (step s o)) = is_sr s.
Proof. exact step_flags. Qed.
Print Assumptions C14_flags_constant.

(* --- all of it, for every finite history from every accepted construction:
       the index is the filtered list, find never fails and returns exactly the items with
       that name, index/in agree with the list, get_nodes is the filtered list, the rule holds --- *)
Theorem C14_history : forall l root sr s0 ops, init l root sr = Ok s0 ->
  let t := run s0 ops in
  (forall n, Permutation (lut t n) (filter (has n) (items t))) /\
  (forall n, exists r, find t n = Ok r /\ Permutation r (filter (has n) (items t))) /\
  (forall x k, index t x = Ok k ->
     nth_error (items t) (Z.to_nat k) = Some x /\
     forall j, 0 <= j < k -> nth_error (items t) (Z.to_nat j) <> Some x) /\
  (forall x, is_item x = true ->
     (contains t x = Ok true <-> In x (items t)) /\ (contains t x = Ok false <-> ~ In x (items t))) /\
  get_nodes t = Ok (filter inode (items t)) /\
  Forall (fun x => is_item x = true /\ (is_sr t = true -> (irel x =? 0) = is_root t)) (items t).
Proof. exact history_summary. Qed.
Print Assumptions C14_history.

(* find / get_nodes re-run __init__ on their result; they cannot fail where every item passes its rule *)
Theorem C14_find_total : forall s n,
  (forall k, Permutation (lut s k) (filter (has k) (items s))) ->
  Forall (fun x => init_check (is_root s) (is_sr s) x = None) (items s) ->
  is_root s && negb (is_sr s) = false -> find s n = Ok (lut s n).
Proof. exact find_total. Qed.
Print Assumptions C14_find_total.

Theorem C14_rule_kept_strict : forall s o,
  Forall (fun x => init_check (is_root s) (is_sr s) x = None) (items s) ->
  Forall (fun x => init_check (is_root (fst (step s o))) (is_sr (fst (step s o))) x = None) (items (fst (step s o))).
Proof. exact strict_step. Qed.
Print Assumptions C14_rule_kept_strict.

(* --- the slice mask used by the model is Python's range(start, stop, step) --- *)
Theorem C14_slice_mask_is_range : forall f l s i, s <> 0 ->
  (selected f l s i = true <-> exists k, 0 <= k < range_len f l s /\ i = f + k * s).
Proof. exact selected_iff_range. Qed.
Print Assumptions C14_slice_mask_is_range.

(* non-vacuity: a concrete history with equal items, a reversed extended slice
   assignment, a refused insert and a deletion; the queries on the final state *)
Example C14_example :
  let a := Item true 0 1 false false 0 in let b := Item true 1 1 false true 1 in
  let c := Item true 0 2 true false 0 in let bad := Item true 2 0 false false 0 in
  exists s0, init [a; b; a] false true = Ok s0 /\
  let t := run s0 [Insert 0 c; SetSlice None None (Some (-2)) [b; c]; Append bad; DelInt (-1); Extend [a; bad; b]] in
  items t = [c; c; b; a] /\ find t 0 = Ok [c; c; a] /\ find t 1 = Ok [b] /\
  index t b = Ok 2 /\ contains t bad = Ok false /\ get_nodes t = Ok [b].
Proof. eexists. split; [reflexivity|]. vm_compute. repeat split; reflexivity. Qed.
Print Assumptions C14_example.
