(* C01 - proofs, part 11 (session 6): the plane positions of the source
   (guard of DimensionIndexSequence.get_index_values: positions must be unique;
   np.unique(return_index) = the sort permutation) and the label numbers a
   LABELMAP object stores (fix of finding D117). *)
From Coq Require Import String ZArith List Bool Lia ZifyBool Arith Permutation Sorted.
From HD Require Import Base.Val Base.ListZ C01_Model C01_Proofs C01_Proofs_Frames
  C01_Proofs_Lut C01_Proofs_Value C01_Proofs_Full C01_Proofs_Hist C01_Proofs_Ext C01_Proofs_Accept.
Import ListNotations.
Open Scope Z_scope.
Ltac Zify.zify_post_hook ::= Z.to_euclidean_division_equations.

(* ------------------------------------------------------------------ *)
(* insert_key: one step of np.unique(return_index=True)                 *)
(* ------------------------------------------------------------------ *)
Lemma insert_key_cases : forall k l, insert_key k l = l \/ Permutation (insert_key k l) (k :: l).
Proof.
  intros k l. induction l as [|h t IH]; cbn [insert_key].
  - right. apply Permutation_refl.
  - destruct (fst k <? fst h); [right; apply Permutation_refl|].
    destruct (fst k =? fst h); [now left|].
    destruct IH as [-> | IH]; [now left|]. right.
    apply perm_trans with (h :: k :: t); [now constructor|apply perm_swap].
Qed.

Lemma insert_key_in : forall k l x, In x (insert_key k l) -> x = k \/ In x l.
Proof.
  intros k l x. induction l as [|h t IH]; cbn [insert_key].
  - intros [<- | []]. now left.
  - destruct (fst k <? fst h); [intros [<- | H]; [now left|now right]|].
    destruct (fst k =? fst h); [now right|].
    intros [<- | H]; [right; now left|]. destruct (IH H); [now left|right; now right].
Qed.

Lemma insert_key_keys : forall k l v,
  In v (map fst (insert_key k l)) <-> v = fst k \/ In v (map fst l).
Proof.
  intros k l v. induction l as [|h t IH]; cbn [insert_key].
  - cbn. intuition.
  - destruct (fst k <? fst h) eqn:E1; [cbn [map In]; intuition|].
    destruct (fst k =? fst h) eqn:E2.
    + cbn [map In]. assert (Heq : fst k = fst h) by lia. split.
      * intros H. right. exact H.
      * intros [E | H]; [left; congruence|exact H].
    + cbn [map In]. rewrite IH. intuition.
Qed.

Definition keys_asc (l : list (Z * Z)) : Prop := StronglySorted (fun a b => fst a < fst b) l.

Lemma insert_key_sorted : forall k l, keys_asc l -> keys_asc (insert_key k l).
Proof.
  intros k l. unfold keys_asc. induction l as [|h t IH]; intros Hs; cbn [insert_key].
  - constructor; constructor.
  - inversion Hs as [|? ? Ht Hh]; subst.
    destruct (fst k <? fst h) eqn:E1.
    + constructor; [exact Hs|]. constructor; [lia|].
      rewrite Forall_forall in *. intros x Hx. specialize (Hh x Hx). lia.
    + destruct (fst k =? fst h) eqn:E2; [exact Hs|].
      constructor; [now apply IH|].
      rewrite Forall_forall in *. intros x Hx. apply insert_key_in in Hx as [-> | Hx]; [lia|now apply Hh].
Qed.

(* in an ascending list, a key that is already there leaves the list as it is
   (the FIRST index is kept) ... *)
Lemma insert_key_present : forall k l, keys_asc l -> In (fst k) (map fst l) -> insert_key k l = l.
Proof.
  intros k l. unfold keys_asc. induction l as [|h t IH]; intros Hs Hin; [contradiction|].
  inversion Hs as [|? ? Ht Hh]; subst. cbn [insert_key].
  destruct (fst k <? fst h) eqn:E1.
  - exfalso. cbn [map In] in Hin. destruct Hin as [E | Hin]; [lia|].
    apply in_map_iff in Hin as (x & Ex & Hx). rewrite Forall_forall in Hh. specialize (Hh x Hx). lia.
  - destruct (fst k =? fst h) eqn:E2; [reflexivity|].
    f_equal. apply IH; [exact Ht|]. cbn [map In] in Hin. destruct Hin as [E | Hin]; [lia|exact Hin].
Qed.

(* ... and a new key makes it one longer *)
Lemma insert_key_new : forall k l, ~ In (fst k) (map fst l) -> length (insert_key k l) = S (length l).
Proof.
  intros k l Hn. destruct (insert_key_cases k l) as [E | P].
  - exfalso. apply Hn. rewrite <- E. apply insert_key_keys. now left.
  - apply Permutation_length in P. exact P.
Qed.

(* ------------------------------------------------------------------ *)
(* the whole loop                                                       *)
(* ------------------------------------------------------------------ *)
Definition ins_all (ks acc : list (Z * Z)) : list (Z * Z) :=
  fold_left (fun acc k => insert_key k acc) ks acc.

Lemma ins_all_cons : forall k t acc, ins_all (k :: t) acc = ins_all t (insert_key k acc).
Proof. reflexivity. Qed.

Lemma ins_all_length : forall ks acc, (length (ins_all ks acc) <= length ks + length acc)%nat.
Proof.
  induction ks as [|k t IH]; intros acc; [cbn; lia|]. rewrite ins_all_cons. cbn [length].
  specialize (IH (insert_key k acc)).
  destruct (insert_key_cases k acc) as [E | P].
  - rewrite E in *. lia.
  - apply Permutation_length in P. cbn [length] in P. lia.
Qed.

Lemma ins_all_perm : forall ks acc, length (ins_all ks acc) = (length ks + length acc)%nat ->
  Permutation (ins_all ks acc) (ks ++ acc).
Proof.
  induction ks as [|k t IH]; intros acc H; [apply Permutation_refl|].
  rewrite ins_all_cons in *. cbn [length app] in *.
  destruct (insert_key_cases k acc) as [E | P].
  - exfalso. rewrite E in H. pose proof (ins_all_length t acc). lia.
  - pose proof (Permutation_length P) as L. cbn [length] in L.
    apply perm_trans with (t ++ insert_key k acc); [apply IH; lia|].
    apply perm_trans with (t ++ k :: acc); [now apply Permutation_app_head|].
    apply Permutation_sym, Permutation_middle.
Qed.

Lemma ins_all_sorted : forall ks acc, keys_asc acc -> keys_asc (ins_all ks acc).
Proof.
  induction ks as [|k t IH]; intros acc H; [exact H|]. rewrite ins_all_cons. apply IH. now apply insert_key_sorted.
Qed.

Lemma ins_all_in : forall ks acc x, In x (ins_all ks acc) -> In x ks \/ In x acc.
Proof.
  induction ks as [|k t IH]; intros acc x H; [now right|]. rewrite ins_all_cons in H.
  destruct (IH _ _ H) as [H1 | H1]; [left; now right|].
  apply insert_key_in in H1 as [-> | H1]; [left; now left|now right].
Qed.

(* the loop keeps every entry <-> the keys are pairwise different and new *)
Lemma ins_all_full_iff : forall ks acc, keys_asc acc ->
  (length (ins_all ks acc) = (length ks + length acc)%nat <->
   NoDup (map fst ks) /\ forall v, In v (map fst ks) -> ~ In v (map fst acc)).
Proof.
  induction ks as [|k t IH]; intros acc Hs.
  - cbn. split; [intros _; split; [constructor|intros v []]|reflexivity].
  - rewrite ins_all_cons. cbn [length map]. pose proof (insert_key_sorted k acc Hs) as Hs'.
    specialize (IH (insert_key k acc) Hs'). split.
    + intros H.
      destruct (insert_key_cases k acc) as [E | P].
      { exfalso. rewrite E in H. pose proof (ins_all_length t acc). lia. }
      pose proof (Permutation_length P) as L. cbn [length] in L.
      assert (Hnew : ~ In (fst k) (map fst acc)).
      { intros Hin. rewrite (insert_key_present k acc Hs Hin) in L. lia. }
      destruct (proj1 IH ltac:(lia)) as (Hnd & Hdis). split.
      * constructor; [|exact Hnd]. intros Hin. apply (Hdis _ Hin). apply insert_key_keys. now left.
      * intros v [<- | Hv]; [exact Hnew|]. intros Hin. apply (Hdis _ Hv). apply insert_key_keys. now right.
    + intros (Hnd & Hdis). inversion Hnd as [|? ? Hk Hnd']; subst.
      assert (Hnew : ~ In (fst k) (map fst acc)) by (apply Hdis; now left).
      pose proof (insert_key_new k acc Hnew) as L.
      assert (length (ins_all t (insert_key k acc)) = (length t + length (insert_key k acc))%nat); [|lia].
      apply IH. split; [exact Hnd'|]. intros v Hv Hin. apply insert_key_keys in Hin as [-> | Hin]; [contradiction|].
      apply (Hdis v); [now right|exact Hin].
Qed.

(* ------------------------------------------------------------------ *)
(* unique_index                                                         *)
(* ------------------------------------------------------------------ *)
Lemma map_fst_combine {A B} : forall (l : list A) (l' : list B), length l = length l' ->
  map fst (combine l l') = l.
Proof.
  induction l as [|x t IH]; intros [|y t'] H; cbn in *; try reflexivity; try lia. f_equal. apply IH. lia.
Qed.

Lemma map_snd_combine {A B} : forall (l : list A) (l' : list B), length l = length l' ->
  map snd (combine l l') = l'.
Proof.
  induction l as [|x t IH]; intros [|y t'] H; cbn in *; try reflexivity; try lia. f_equal. apply IH. lia.
Qed.

Lemma zrange_zlen_length {A} : forall (l : list A), length l = length (zrange (zlen l)).
Proof. intros l. rewrite zrange_length. unfold zlen. lia. Qed.

Lemma positions_unique_length : forall dist,
  positions_unique dist = true <->
  length (ins_all (combine dist (zrange (zlen dist))) []) = (length (combine dist (zrange (zlen dist))) + 0)%nat.
Proof.
  intros dist. unfold positions_unique, unique_index, unique_pairs. fold (ins_all (combine dist (zrange (zlen dist))) []).
  rewrite combine_length, <- zrange_zlen_length, Nat.min_id. unfold zlen at 1 3. rewrite map_length. lia.
Qed.

(* the guard passes exactly when the positions are pairwise different *)
Theorem positions_unique_iff : forall dist, positions_unique dist = true <-> NoDup dist.
Proof.
  intros dist. rewrite positions_unique_length.
  change 0%nat with (@length (Z * Z) []).
  rewrite (ins_all_full_iff _ [] ltac:(constructor)).
  rewrite map_fst_combine by apply zrange_zlen_length. split; [now intros (H & _)|].
  intros H. split; [exact H|]. intros v _ [].
Qed.

(* ... and then the index list is a permutation of all plane indices *)
Theorem unique_index_perm : forall dist, positions_unique dist = true ->
  Permutation (unique_index dist) (zrange (zlen dist)).
Proof.
  intros dist H. apply positions_unique_length in H.
  change 0%nat with (@length (Z * Z) []) in H. apply ins_all_perm in H. rewrite app_nil_r in H.
  apply (Permutation_map snd) in H. rewrite map_snd_combine in H by apply zrange_zlen_length. exact H.
Qed.

Lemma in_combine_zrange : forall (dist : list Z) v j,
  In (v, j) (combine dist (zrange (zlen dist))) -> 0 <= j < zlen dist /\ nthz j dist 0 = v.
Proof.
  intros dist v j H.
  destruct (In_nth _ _ (0, 0) H) as (m & Hm & Em).
  rewrite combine_length, <- zrange_zlen_length, Nat.min_id in Hm.
  rewrite combine_nth in Em by apply zrange_zlen_length.
  injection Em as Ev Ej. unfold zrange in Ej.
  rewrite (nth_indep _ 0 (Z.of_nat 0)) in Ej by (rewrite map_length, seq_length; unfold zlen; lia).
  rewrite map_nth, seq_nth in Ej by (unfold zlen; lia). cbn [Nat.add] in Ej. subst j.
  unfold zlen, nthz. rewrite Nat2Z.id. split; [lia|exact Ev].
Qed.

(* the planes are encoded in ascending order of their position (whether or not
   the guard passes): np.unique sorts *)
Theorem unique_index_ascending : forall dist,
  StronglySorted Z.lt (map (fun j => nthz j dist 0) (unique_index dist)).
Proof.
  intros dist. unfold unique_index, unique_pairs.
  fold (ins_all (combine dist (zrange (zlen dist))) []).
  set (r := ins_all (combine dist (zrange (zlen dist))) []).
  assert (Hs : keys_asc r) by (apply ins_all_sorted; constructor).
  assert (Hin : forall p, In p r -> nthz (snd p) dist 0 = fst p).
  { intros [v j] Hp. apply ins_all_in in Hp as [Hp | []]. now apply in_combine_zrange in Hp as (_ & Hp). }
  clearbody r. rewrite map_map. unfold keys_asc in Hs.
  induction Hs as [|p t Ht IH Hp]; [constructor|].
  cbn [map]. constructor.
  - apply IH. intros q Hq. apply Hin. now right.
  - rewrite Forall_forall in *. intros x Hx. apply in_map_iff in Hx as (q & <- & Hq).
    rewrite (Hin p ltac:(now left)), (Hin q ltac:(now right)). now apply Hp.
Qed.

(* ------------------------------------------------------------------ *)
(* the constructor with positions                                       *)
(* ------------------------------------------------------------------ *)
Lemma construct_pos_inv : forall c i dist st, construct_pos c i dist = Ok st ->
  positions_unique dist = true /\ construct c i (unique_index dist) = Ok st.
Proof.
  intros c i dist st H. unfold construct_pos in H.
  destruct (negb (seg_numbers_ok (ty c) (segs c))); [discriminate|].
  destruct (match ty c with BINARY => negb (native c) | _ => false end); [discriminate|].
  destruct (match ty c with FRACTIONAL => 255 <? maxfrac c | _ => false end); [discriminate|].
  destruct (check_and_cast c i); cbn [bind] in H; [|discriminate].
  destruct (negb (n_planes i =? nsrc c)); [discriminate|].
  destruct (positions_unique dist); cbn [negb] in H; [|discriminate]. now split.
Qed.

(* positions that are not unique are refused, whatever the mask *)
Theorem duplicate_positions_refused : forall c i dist, ~ NoDup dist ->
  exists k, construct_pos c i dist = Err k.
Proof.
  intros c i dist Hn. destruct (construct_pos c i dist) as [st|k] eqn:E; [|now exists k].
  exfalso. apply Hn. apply positions_unique_iff. now apply (construct_pos_inv c i dist st).
Qed.

(* unique positions never add a refusal: construct_pos is construct with the sort
   permutation *)
Theorem construct_pos_unique : forall c i dist, NoDup dist ->
  construct_pos c i dist = construct c i (unique_index dist).
Proof.
  intros c i dist Hn. apply positions_unique_iff in Hn. unfold construct_pos, construct. rewrite Hn. cbn [negb].
  destruct (negb (seg_numbers_ok (ty c) (segs c))); [reflexivity|].
  destruct (match ty c with BINARY => negb (native c) | _ => false end); [reflexivity|].
  destruct (match ty c with FRACTIONAL => 255 <? maxfrac c | _ => false end); [reflexivity|].
  destruct (check_and_cast c i); cbn [bind]; [|reflexivity].
  destruct (negb (n_planes i =? nsrc c)); reflexivity.
Qed.

(* THE PROPERTY with the positions of the source planes as the input: whatever
   well-formed array the constructor accepts for whatever positions reads back as
   the specification - no plane is lost or taken from another plane *)
Theorem positions_no_silent_corruption : forall c i dist st,
  well_formed c i = true -> zlen dist = nsrc c -> construct_pos c i dist = Ok st ->
  forall lazy warm req byframe am,
    read_guard st req byframe am = Ok tt ->
    read_g (frame_getter lazy warm st) st req byframe am = Ok (expected_req c i byframe req).
Proof.
  intros c i dist st Hw Hl Hc. apply construct_pos_inv in Hc as (Hu & Hc).
  apply (no_silent_corruption c i (unique_index dist) st Hw); [|exact Hc].
  rewrite <- Hl. now apply unique_index_perm.
Qed.

(* ------------------------------------------------------------------ *)
(* LABELMAP: an accepted mask stores described numbers only (D117)      *)
(* ------------------------------------------------------------------ *)
Theorem stored_labels_described : forall c i perm st,
  well_formed c i = true -> Permutation perm (zrange (nsrc c)) -> construct c i perm = Ok st ->
  ty c = LABELMAP ->
  forall f v, In f (s_frames st) -> In v f -> In v (0 :: segs c).
Proof.
  intros c i perm st Hw Hp Hc Et f v Hf Hv.
  pose proof (construct_ok_valid c i perm st Hc Hw) as Hval.
  destruct (construct_inv c i perm st Hc) as (a & inc & om & _ & Ha & _ & _ & Hst).
  cbv zeta in Hst. destruct Hst as (_ & ->). cbn [s_frames] in Hf.
  apply in_map_iff in Hf as (fr & <- & Hfr). apply in_frames_of in Hfr as (Hs & Hj & Hpx & _).
  unfold seg_iter in Hs. rewrite Et in Hs. destruct Hs as [Hs | []].
  apply filter_In in Hj as (Hj & _). apply (Permutation_in _ Hp) in Hj. apply in_zrange in Hj.
  rewrite Hpx, <- Hs in Hv.
  destruct (in_nthz _ _ Hv) as (p & Hpr & <-).
  rewrite (seg_plane_zlen c i a 0 (f_plane fr) Hval Ha Hj) in Hpr.
  now destruct (label_plane_expected c i a (f_plane fr) p Hval Ha Et Hj Hpr) as (HL & _).
Qed.

(* the refusal of the D117 fix, as a rule: a floating point 2-D / 3-D mask for a
   LABELMAP is accepted by the pixel array check only if it is entirely zero or
   1 is a described segment number *)
Theorem float_label_accepted_iff : forall c ps,
  dt c = DFloat -> ty c = LABELMAP -> 0 < den c ->
  (forall k, In k (concat ps) -> k = 0 \/ k = den c) ->
  ((exists a, check_and_cast c (Label ps) = Ok a) <->
   (all_zero (concat ps) = true \/ In 1 (segs c))).
Proof.
  intros c ps Hd Et Hden H01. unfold check_and_cast. rewrite Hd, Et. cbn [chans_ok negb all_pixels].
  rewrite existsb_false_of_forall by (intros x Hx; destruct (H01 x Hx); lia).
  rewrite existsb_false_of_forall by (intros x Hx; destruct (H01 x Hx); lia).
  destruct (existsb (fun k => k =? den c) (concat ps)) eqn:Ee; cbn [andb].
  - apply existsb_exists in Ee as (k & Hk & Ek).
    destruct (memz 1 (segs c)) eqn:Em; cbn [negb].
    + split; [intros _; right; now apply memz_in|intros _; eexists; reflexivity].
    + split; [intros (a & Ha); discriminate|].
      intros [Hz | Hin]; [|apply memz_in in Hin; congruence].
      exfalso. unfold all_zero in Hz. rewrite forallb_forall in Hz. specialize (Hz k Hk). lia.
  - split; [|intros _; eexists; reflexivity]. intros _. left.
    apply forallb_forall. intros k Hk. pose proof (existsb_false_in _ _ k Ee Hk) as Hne. cbv beta in Hne.
    destruct (H01 k Hk); lia.
Qed.

(* non-vacuity *)
Lemma nonvacuous_positions :
  let c := Cfg BINARY DInt 1 1 true [1] 1 2 1 2 3 true in
  let i := Label [[1; 0]; [0; 1]; [1; 1]] in
  unique_index [0; -5; -2] = [1; 2; 0] /\
  (exists st, construct_pos c i [0; -5; -2] = Ok st) /\
  (* two planes at one position: refused - although the mask is valid *)
  valid c i = true /\ construct_pos c i [0; -5; -5] = Err "ValueError"%string /\
  (* what np.unique returns for them is one index short; without the guard plane 2 is lost: *)
  unique_index [0; -5; -5] = [1; 0] /\
  bind (construct c i [1; 0]) (fun st => read_by_instance false st [0; 1; 2] false)
    = Ok [[[1]; [0]]; [[0]; [1]]; [[0]; [0]]] /\
  expected c i = [[[1]; [0]]; [[0]; [1]]; [[1]; [1]]].
Proof. vm_compute. repeat split; eexists; reflexivity. Qed.

Lemma nonvacuous_d117 :
  let c5 := Cfg LABELMAP DFloat 1 1 true [5] 1 2 1 2 2 true in
  let c15 := Cfg LABELMAP DFloat 4 1 true [1; 5] 1 2 1 2 2 true in
  well_formed c5 (Label [[0; 1]; [1; 0]]) = true /\
  construct c5 (Label [[0; 1]; [1; 0]]) [1; 0] = Err "ValueError"%string /\
  (exists st, construct c5 (Label [[0; 0]; [0; 0]]) [1; 0] = Ok st) /\
  well_formed c15 (Label [[0; 4]; [4; 0]]) = true /\ valid c15 (Label [[0; 4]; [4; 0]]) = true /\
  bind (construct c15 (Label [[0; 4]; [4; 0]]) [1; 0]) (fun st => Ok (s_frames st)) = Ok [[1; 0]; [0; 1]] /\
  expected c15 (Label [[0; 4]; [4; 0]]) = [[[0; 0]; [1; 0]]; [[1; 0]; [0; 0]]].
Proof. vm_compute. repeat split; eexists; reflexivity. Qed.
