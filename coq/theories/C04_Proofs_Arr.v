(* C04 - the frame loop as array updates (numpy slice assignment into a zero
   array, frame after frame) refines to the cell-wise region [read_region]:
   no slice assignment is ever refused / broadcast, and the final array is the
   "last covering tile wins, else 0" array - for every tile list and region. *)
From Coq Require Import String ZArith List Bool Lia ZifyBool Arith.
From HD Require Import Base.Val Base.ListZ Base.PySlice C12_Model C12_Proofs C04_Model C04_Proofs.
Import ListNotations.
Ltac Zify.zify_post_hook ::= Z.to_euclidean_division_equations.
Open Scope Z_scope.

(* ---- mapi ---------------------------------------------------------------------- *)
Lemma length_mapi : forall {A B} (f : Z -> A -> B) l, length (mapi f l) = length l.
Proof.
  intros. unfold mapi. rewrite map_length, combine_length, length_zrange, Nat2Z.id. lia.
Qed.

Lemma nth_zrange : forall n i, (i < Z.to_nat n)%nat -> nth i (zrange n) 0 = Z.of_nat i.
Proof.
  intros n i Hi. unfold zrange. change 0 with (Z.of_nat 0). rewrite map_nth, seq_nth by lia. reflexivity.
Qed.

Lemma nth_mapi : forall {A B} (f : Z -> A -> B) l i d d', (i < length l)%nat ->
  nth i (mapi f l) d' = f (Z.of_nat i) (nth i l d).
Proof.
  intros A B f l i d d' Hi. unfold mapi.
  rewrite nth_indep with (d' := (fun p : Z * A => f (fst p) (snd p)) (0, d))
    by (rewrite map_length, combine_length, length_zrange, Nat2Z.id; lia).
  rewrite (map_nth (fun p : Z * A => f (fst p) (snd p))).
  rewrite combine_nth by (rewrite length_zrange, Nat2Z.id; reflexivity).
  cbn [fst snd]. rewrite nth_zrange by (rewrite Nat2Z.id; exact Hi). reflexivity.
Qed.

Lemma in_mapi : forall {A B} (f : Z -> A -> B) l y, In y (mapi f l) -> exists i x, In x l /\ y = f i x.
Proof.
  intros A B f l y H. unfold mapi in H. apply in_map_iff in H as ([i x] & <- & Hin).
  apply in_combine_r in Hin. now exists i, x.
Qed.

(* ---- arrays of a given shape ------------------------------------------------------ *)
Definition shape (H W : Z) (A : list (list Z)) : Prop :=
  length A = Z.to_nat H /\ forall row, In row A -> length row = Z.to_nat W.

Lemma shape_zeros : forall H W, shape H W (zeros2 H W).
Proof.
  intros. unfold zeros2. split.
  - now rewrite map_length, length_zrange.
  - intros row Hin. apply in_map_iff in Hin as (i & <- & _). now rewrite map_length, length_zrange.
Qed.

Lemma cell_zeros : forall H W i j, 0 <= i < H -> 0 <= j < W -> cell (zeros2 H W) i j = 0.
Proof.
  intros. unfold cell, zeros2. rewrite nth_map_zrange by lia. now rewrite nth_map_zrange by lia.
Qed.

Lemma shape_read_region : forall ts s e cs ce th tw, shape (e - s) (ce - cs) (read_region ts s e cs ce th tw).
Proof.
  intros. unfold read_region. split.
  - now rewrite map_length, length_zrange.
  - intros row Hin. apply in_map_iff in Hin as (i & <- & _). now rewrite map_length, length_zrange.
Qed.

(* two arrays of the same shape with the same cells are the same array *)
Lemma arr_ext : forall H W A B, shape H W A -> shape H W B ->
  (forall i j, 0 <= i < H -> 0 <= j < W -> cell A i j = cell B i j) -> A = B.
Proof.
  intros H W A B [LA RA] [LB RB] Hc.
  apply (nth_ext A B [] []); [congruence|].
  intros n Hn.
  assert (HnA : In (nth n A []) A) by (apply nth_In; lia).
  assert (HnB : In (nth n B []) B) by (apply nth_In; lia).
  apply (nth_ext _ _ 0 0); [rewrite (RA _ HnA), (RB _ HnB); reflexivity|].
  intros m Hm. rewrite (RA _ HnA) in Hm.
  specialize (Hc (Z.of_nat n) (Z.of_nat m) ltac:(lia) ltac:(lia)).
  unfold cell in Hc. now rewrite !Nat2Z.id in Hc.
Qed.

(* ---- one slice assignment ------------------------------------------------------------- *)
Lemma np_slice_id : forall n lo hi, 0 <= lo -> lo <= hi -> hi <= n -> np_slice n lo hi = (lo, hi).
Proof.
  intros n lo hi H1 H2 H3. unfold np_slice, clamp_idx.
  replace (lo <? 0) with false by lia. replace (n <? lo) with false by lia.
  replace (hi <? 0) with false by lia. replace (n <? hi) with false by lia.
  f_equal. lia.
Qed.

(* assignment with in-range slices of equal shape: accepted, shape kept, and
   exactly the cells of the output slice are overwritten, position-wise *)
Lemma assign2d_spec : forall H W out r0 r1 c0 c1 fh fw frame a0 a1 b0 b1,
  shape H W out -> 0 <= H -> 0 <= W ->
  0 <= r0 -> r0 <= r1 -> r1 <= H -> 0 <= c0 -> c0 <= c1 -> c1 <= W ->
  0 <= a0 -> a0 <= a1 -> a1 <= fh -> 0 <= b0 -> b0 <= b1 -> b1 <= fw ->
  r1 - r0 = a1 - a0 -> c1 - c0 = b1 - b0 ->
  exists out', assign2d H W out r0 r1 c0 c1 fh fw frame a0 a1 b0 b1 = Ok out' /\ shape H W out' /\
    forall i j, 0 <= i < H -> 0 <= j < W ->
      cell out' i j = if ((r0 <=? i) && (i <? r1)) && ((c0 <=? j) && (j <? c1))
                      then cell frame (a0 + (i - r0)) (b0 + (j - c0)) else cell out i j.
Proof.
  intros H W out r0 r1 c0 c1 fh fw frame a0 a1 b0 b1 [LO RO] HH HW Hr0 Hr Hr1 Hc0 Hc Hc1 Ha0 Ha Ha1 Hb0 Hb Hb1 Er Ec.
  unfold assign2d. rewrite !np_slice_id by lia. cbn [fst snd].
  replace ((r1 - r0 =? a1 - a0) && (c1 - c0 =? b1 - b0)) with true by lia. cbn [negb].
  eexists. split; [reflexivity|]. split.
  - split; [now rewrite length_mapi|].
    intros row Hin. apply in_mapi in Hin as (i & x & Hx & ->).
    destruct ((r0 <=? i) && (i <? r1)); [rewrite length_mapi|]; now apply RO.
  - intros i j Hi Hj. unfold cell at 1.
    rewrite (nth_mapi _ out (Z.to_nat i) [] []) by lia. rewrite Z2Nat.id by lia.
    assert (Hrow : In (nth (Z.to_nat i) out []) out) by (apply nth_In; lia).
    destruct ((r0 <=? i) && (i <? r1)) eqn:E1; cbn [andb]; [|reflexivity].
    rewrite (nth_mapi _ _ (Z.to_nat j) 0 0) by (rewrite (RO _ Hrow); lia). rewrite Z2Nat.id by lia.
    destruct ((c0 <=? j) && (j <? c1)); reflexivity.
Qed.

(* ---- one iteration for a selected frame -------------------------------------------------- *)
Lemma paste_spec : forall s e cs ce th tw out t,
  0 <= e - s -> 0 <= ce - cs -> 1 <= th -> 1 <= tw ->
  shape (e - s) (ce - cs) out -> tile_selected s e cs ce th tw t = true ->
  exists out', paste s e cs ce th tw out t = Ok out' /\ shape (e - s) (ce - cs) out' /\
    forall i j, 0 <= i < e - s -> 0 <= j < ce - cs ->
      cell out' i j = if covers s e cs ce th tw t i j then src_cell s cs t i j else cell out i j.
Proof.
  intros s e cs ce th tw out t He Hce Hh Hw Hsh Hsel.
  unfold tile_selected, selected in Hsel.
  destruct (assign2d_spec (e - s) (ce - cs) out
              (out_lo s (t_rp t)) (out_hi s e th (t_rp t)) (out_lo cs (t_cp t)) (out_hi cs ce tw (t_cp t))
              th tw (t_px t)
              (in_lo s (t_rp t)) (in_hi e th (t_rp t)) (in_lo cs (t_cp t)) (in_hi ce tw (t_cp t)))
    as (out' & E & Hs' & Hcell); try (exact Hsh); try (unfold out_lo, out_hi, in_lo, in_hi; lia).
  exists out'. split; [exact E|]. split; [exact Hs'|].
  intros i j Hi Hj. rewrite (Hcell i j Hi Hj). unfold covers, tile_selected, selected, src_cell.
  replace ((s - th + 1 <=? t_rp t) && (t_rp t <? e) && ((cs - tw + 1 <=? t_cp t) && (t_cp t <? ce))) with true by lia.
  cbn [andb]. rewrite <- andb_assoc. reflexivity.
Qed.

(* ---- the whole loop ------------------------------------------------------------------------ *)
Lemma loop_spec : forall s e cs ce th tw l out,
  0 <= e - s -> 0 <= ce - cs -> 1 <= th -> 1 <= tw ->
  shape (e - s) (ce - cs) out -> (forall t, In t l -> tile_selected s e cs ce th tw t = true) ->
  exists out', fold_left (fun acc t => bind acc (fun o => paste s e cs ce th tw o t)) l (Ok out) = Ok out' /\
    shape (e - s) (ce - cs) out' /\
    forall i j, 0 <= i < e - s -> 0 <= j < ce - cs ->
      cell out' i j =
      fold_left (fun acc t => if covers s e cs ce th tw t i j then src_cell s cs t i j else acc) l (cell out i j).
Proof.
  intros s e cs ce th tw l. induction l as [|t l IH]; intros out He Hce Hh Hw Hsh Hsel.
  - exists out. repeat split; try apply Hsh.
  - cbn [fold_left bind].
    destruct (paste_spec s e cs ce th tw out t He Hce Hh Hw Hsh (Hsel t (or_introl eq_refl))) as (o1 & E1 & S1 & C1).
    rewrite E1.
    destruct (IH o1 He Hce Hh Hw S1 (fun u Hu => Hsel u (or_intror Hu))) as (o2 & E2 & S2 & C2).
    exists o2. split; [exact E2|]. split; [exact S2|].
    intros i j Hi Hj. rewrite (C2 i j Hi Hj), (C1 i j Hi Hj). reflexivity.
Qed.

(* frames the WHERE clause does not select never cover a cell *)
Lemma fold_filter_selected : forall s e cs ce th tw i j l acc,
  fold_left (fun acc t => if covers s e cs ce th tw t i j then src_cell s cs t i j else acc)
            (filter (tile_selected s e cs ce th tw) l) acc =
  fold_left (fun acc t => if covers s e cs ce th tw t i j then src_cell s cs t i j else acc) l acc.
Proof.
  intros s e cs ce th tw i j l. induction l as [|t l IH]; intros acc; [reflexivity|].
  cbn [filter fold_left]. destruct (tile_selected s e cs ce th tw t) eqn:E.
  - cbn [fold_left]. apply IH.
  - rewrite IH. unfold covers. rewrite E. reflexivity.
Qed.

(* REFINEMENT: the array loop returns exactly the cell-wise region, and is never refused *)
Theorem read_region_arr_refines : forall ts s e cs ce th tw,
  0 <= e - s -> 0 <= ce - cs -> 1 <= th -> 1 <= tw ->
  read_region_arr ts s e cs ce th tw = Ok (read_region ts s e cs ce th tw).
Proof.
  intros ts s e cs ce th tw He Hce Hh Hw. unfold read_region_arr.
  destruct (loop_spec s e cs ce th tw (filter (tile_selected s e cs ce th tw) (sort_tiles ts))
              (zeros2 (e - s) (ce - cs)) He Hce Hh Hw (shape_zeros _ _))
    as (out' & E & Sh & Hc).
  { intros t Ht. now apply filter_In in Ht. }
  rewrite E. f_equal.
  apply (arr_ext (e - s) (ce - cs)); [exact Sh|apply shape_read_region|].
  intros i j Hi Hj. rewrite (Hc i j Hi Hj), cell_zeros by lia.
  rewrite fold_filter_selected. symmetry. now apply read_region_cell.
Qed.

Lemma read_std_arr_eq : forall chk ts R C th tw ai rs re cs ce, 1 <= th -> 1 <= tw ->
  read_std_arr chk ts R C th tw ai rs re cs ce = read_std chk ts R C th tw ai rs re cs ce.
Proof.
  intros chk ts R C th tw ai rs re cs ce Hh Hw. unfold read_std_arr, read_std.
  destruct (standardize_rc ai rs re cs ce R C) as [[[[s e] c0] c1]|k]; cbn [bind]; [|reflexivity].
  destruct (chk && negb (count_selected ts s e c0 c1 th tw =? frames_expected s e th * frames_expected c0 c1 tw));
    [reflexivity|].
  destruct ((e - s <? 0) || (c1 - c0 <? 0)) eqn:E; [reflexivity|].
  apply read_region_arr_refines; lia.
Qed.

(* Image.get_total_pixel_matrix computed with array updates = computed cell-wise,
   for every image (complete or not, unique positions or not), organisation and arguments *)
Theorem img_read_arr_eq : forall full ts R C th tw ai rs re cs ce, 1 <= th -> 1 <= tw ->
  img_read_arr full ts R C th tw ai rs re cs ce = img_read full ts R C th tw ai rs re cs ce.
Proof.
  intros. unfold img_read_arr, img_read. destruct (negb (unique_positions ts)); [reflexivity|].
  now apply read_std_arr_eq.
Qed.
