(* C07 - RLE Lossless: acceptance by encode_frame as one explicit conjunction
   (all parameter values; case split + lia as in C07_Proofs_Accept). *)
From Coq Require Import String ZArith List Bool Lia ZifyBool.
From HD Require Import Base.Val C07_Model C07_Proofs_Accept.
Import ListNotations.
Open Scope Z_scope.
Ltac Zify.zify_post_hook ::= Z.to_euclidean_division_equations.

(* ------------------- RLE Lossless: acceptance as one explicit conjunction *)
Definition rle_spec (p : params) (lo hi : Z) : bool :=
  (negb (p_ndim3 p) || optZ_eqb (p_planar p) 0 || optZ_eqb (p_planar p) 1)
  && ((p_pixrep p =? 0) || (p_pixrep p =? 1))
  && (1 <=? p_bstored p) && (p_bstored p <=? p_balloc p)
  && ((p_balloc p =? 8) || (p_balloc p =? 16))
  && negb ((8 <? p_balloc p) && (p_bstored p <=? 8))                 (* D70 *)
  && (0 <? p_rows p) && (p_rows p <=? 65535) && (0 <? p_cols p) && (p_cols p <=? 65535)
  && (negb (p_ndim3 p)
        && (pi_in p [MONO1; MONO2] || pi_is p PALETTE && (p_pixrep p =? 0))
      || p_ndim3 p && (p_shape2 p =? 3) && (p_pixrep p =? 0)
         && (pi_is p RGB || pi_is p YBR_FULL && (p_balloc p =? 8)))
  && match p_dkind p with
     | KBool => false
     | KUInt => (p_pixrep p =? 0) && ((p_balloc p + 7) / 8 <=? p_dsize p)
     | KInt => (p_pixrep p =? 1) && ((p_balloc p + 7) / 8 <=? p_dsize p)
     end
  && fits_stored p lo hi.

Ltac unfold_spec :=
  cbv [rle_spec pi_in pi_is mem_pi existsb optZ_eqb
       p_ts p_rows p_cols p_ndim3 p_shape2 p_balloc p_bstored p_pi p_pixrep p_planar p_dkind p_dsize].

Lemma rle_accepts_iff_ts : forall rows cols nd sh2 ba bs pi pr pl dk ds lo hi,
  accepts default_tables (mkP TRLE rows cols nd sh2 ba bs pi pr pl dk ds) lo hi
  = rle_spec (mkP TRLE rows cols nd sh2 ba bs pi pr pl dk ds) lo hi.
Proof.
  intros rows cols nd sh2 ba bs pi pr pl dk ds lo hi.
  set (FS := fits_stored (mkP TRLE rows cols nd sh2 ba bs pi pr pl dk ds) lo hi).
  destruct (accepts default_tables _ lo hi) eqn:H; symmetry;
  destruct nd, pl as [z|], pi as [[]|], dk;
    revert H; unfold_all H; unfold_spec; fold FS; close_enums; unfold_all H; close_enums; unfold_all H; close_enums;
    cbn [andb orb negb implb]; intros H; split_ifs H; try discriminate H; clearbody FS; destruct FS; lia.
Qed.

Theorem rle_accepts_iff : forall p lo hi, p_ts p = TRLE ->
  accepts default_tables p lo hi = rle_spec p lo hi.
Proof.
  intros [ts rows cols nd sh2 ba bs pi pr pl dk ds] lo hi H. cbn [p_ts] in H. subst ts.
  apply rle_accepts_iff_ts.
Qed.
