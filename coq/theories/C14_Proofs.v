(* C14 - proofs about the ContentSequence model: the name index is a
   permutation of the filtered list in every reachable state, queries agree
   with the list, the relationship-type rule holds for every entry path. *)
From Coq Require Import String ZArith List Bool Lia ZifyBool Permutation.
From HD Require Import Base.Val Base.PySlice C14_Model.
Import ListNotations.
Open Scope Z_scope.
Ltac Zify.zify_post_hook ::= Z.to_euclidean_division_equations.

(* ---- item equality ------------------------------------------------------ *)
Lemma item_eqb_spec : forall a b, reflect (a = b) (item_eqb a b).
Proof.
  intros [a1 a2 a3 a4 a5 a6] [b1 b2 b3 b4 b5 b6]. unfold item_eqb. cbn [is_item iname irel icont inode ipay].
  destruct (Bool.eqb a1 b1) eqn:E1; [apply eqb_prop in E1|apply eqb_false_iff in E1; right; congruence].
  destruct (a2 =? b2) eqn:E2; [apply Z.eqb_eq in E2|apply Z.eqb_neq in E2; right; congruence].
  destruct (a3 =? b3) eqn:E3; [apply Z.eqb_eq in E3|apply Z.eqb_neq in E3; right; congruence].
  destruct (Bool.eqb a4 b4) eqn:E4; [apply eqb_prop in E4|apply eqb_false_iff in E4; right; congruence].
  destruct (Bool.eqb a5 b5) eqn:E5; [apply eqb_prop in E5|apply eqb_false_iff in E5; right; congruence].
  destruct (a6 =? b6) eqn:E6; [apply Z.eqb_eq in E6|apply Z.eqb_neq in E6; right; congruence].
  left. subst. reflexivity.
Qed.

Lemma item_eqb_refl x : item_eqb x x = true.
Proof. destruct (item_eqb_spec x x); congruence. Qed.

Definition item_eq_dec (a b : item) : {a = b} + {a <> b}.
Proof. destruct (item_eqb_spec a b); [left|right]; assumption. Defined.

(* ---- generic list facts -------------------------------------------------- *)
Lemma perm_filter {A} (f : A -> bool) l l' :
  Permutation l l' -> Permutation (filter f l) (filter f l').
Proof.
  induction 1 as [|a l l' H IH|a b l|l l' l'' H1 IH1 H2 IH2]; cbn [filter].
  - constructor.
  - destruct (f a); [constructor|]; assumption.
  - destruct (f a), (f b); try apply perm_swap; reflexivity.
  - etransitivity; eassumption.
Qed.

Lemma skipn_skipn' {A} a b (l : list A) : skipn a (skipn b l) = skipn (b + a) l.
Proof.
  revert l. induction b as [|b IH]; intros l; [reflexivity|].
  destruct l as [|x l]; [now rewrite !skipn_nil|]. cbn [skipn Nat.add]. apply IH.
Qed.

Lemma first_err_none {A} (f : A -> option string) l :
  first_err f l = None <-> Forall (fun x => f x = None) l.
Proof.
  induction l as [|x l IH]; cbn [first_err]; [split; [constructor|reflexivity]|].
  destruct (f x) eqn:E.
  - split; [discriminate|]. intros H. inversion H; congruence.
  - rewrite IH. split; [intros H; constructor; assumption|intros H; inversion H; assumption].
Qed.

(* ---- the invariant ---------------------------------------------------------- *)
(* index f agrees with list l *)
Definition LInv (f : Z -> list item) (l : list item) : Prop :=
  forall k, Permutation (f k) (filter (has k) l).
Definition Inv (s : st) : Prop := LInv (lut s) (items s).

Lemma LInv_perm f l l' : Permutation l l' -> LInv f l -> LInv f l'.
Proof. intros P H k. rewrite (H k). apply perm_filter, P. Qed.

Lemma LInv_add f l x : LInv f l -> LInv (lut_add f x) (l ++ [x]).
Proof.
  intros H k. unfold lut_add, upd, has. rewrite filter_app. cbn [filter].
  destruct (iname x =? k) eqn:E.
  - apply Z.eqb_eq in E. subst k. rewrite Z.eqb_refl. apply Permutation_app; [apply H|reflexivity].
  - replace (k =? iname x) with false by lia. rewrite app_nil_r. apply H.
Qed.

Lemma LInv_add_all xs : forall f l, LInv f l -> LInv (fold_left lut_add xs f) (l ++ xs).
Proof.
  induction xs as [|x xs IH]; intros f l H; cbn [fold_left].
  - now rewrite app_nil_r.
  - replace (l ++ x :: xs) with ((l ++ [x]) ++ xs) by (rewrite <- app_assoc; reflexivity).
    apply IH, LInv_add, H.
Qed.

Lemma LInv_empty : LInv empty_lut [].
Proof. intros k. reflexivity. Qed.

(* removing one entry *)
Lemma remove_first_some x l : In x l -> exists r, remove_first x l = Some r /\ Permutation l (x :: r).
Proof.
  induction l as [|y l IH]; intros Hin; [destruct Hin|]. cbn [remove_first].
  destruct (item_eqb_spec y x) as [->|Hne].
  - exists l. split; reflexivity.
  - destruct Hin as [->|Hin]; [congruence|]. destruct (IH Hin) as (r & -> & P).
    exists (y :: r). split; [reflexivity|]. rewrite P. apply perm_swap.
Qed.

Lemma remove_first_none x l : remove_first x l = None <-> ~ In x l.
Proof.
  split.
  - intros E Hin. destruct (remove_first_some x l Hin) as (r & E' & _). congruence.
  - induction l as [|y l IH]; intros H; cbn [remove_first]; [reflexivity|].
    destruct (item_eqb_spec y x) as [->|Hne]; [exfalso; apply H; now left|].
    rewrite IH; [reflexivity|]. intros Hin. apply H. now right.
Qed.

Lemma has_self x : has (iname x) x = true.
Proof. unfold has. apply Z.eqb_refl. Qed.

(* the loop that drops the old items from the index never fails when the index
   agrees with a list that contains them, and leaves an index for the rest *)
Lemma lut_remove_all_ok olds : forall f rest,
  LInv f (olds ++ rest) ->
  exists f', lut_remove_all f olds = (f', true) /\ LInv f' rest.
Proof.
  induction olds as [|x olds IH]; intros f rest H; cbn [lut_remove_all].
  - exists f. split; [reflexivity|exact H].
  - assert (Hin : In x (f (iname x))).
    { apply (Permutation_in x (Permutation_sym (H (iname x)))).
      cbn [app filter]. rewrite has_self. now left. }
    destruct (remove_first_some x _ Hin) as (r & -> & P).
    apply IH. intros k. unfold upd.
    destruct (iname x =? k) eqn:E.
    + apply Z.eqb_eq in E. subst k. specialize (H (iname x)). cbn [app filter] in H.
      rewrite has_self in H. rewrite P in H. apply Permutation_cons_inv in H. exact H.
    + specialize (H k). cbn [app filter] in H. unfold has in H at 1.
      replace (k =? iname x) with false in H by lia. exact H.
Qed.

(* ---- Python list pieces: what leaves, what stays ------------------------------- *)
Lemma sel_unsel_perm m : forall l, Permutation l (sel m l ++ unsel m l).
Proof.
  induction m as [|b m IH]; intros l; [reflexivity|].
  destruct l as [|x l]; [reflexivity|]. cbn [sel unsel]. destruct b.
  - cbn [app]. constructor. apply IH.
  - rewrite <- Permutation_middle. constructor. apply IH.
Qed.

Lemma replace_sel_perm m : forall l vs, length vs = length (sel m l) ->
  Permutation (replace_sel m l vs) (vs ++ unsel m l).
Proof.
  induction m as [|b m IH]; intros l vs Hlen.
  - cbn [sel length] in Hlen. destruct vs; [|discriminate]. reflexivity.
  - destruct l as [|x l].
    + cbn [sel length] in Hlen. destruct vs; [|discriminate]. reflexivity.
    + cbn [replace_sel sel unsel] in *. destruct b.
      * destruct vs as [|v vs]; [discriminate|]. cbn [app]. constructor. apply IH.
        cbn [length] in Hlen. lia.
      * rewrite <- Permutation_middle. constructor. apply IH, Hlen.
Qed.

Lemma slice1_split (l : list item) (a b : nat) :
  l = firstn a l ++ firstn b (skipn a l) ++ skipn (a + b) l.
Proof.
  rewrite <- (skipn_skipn' b a l). rewrite (firstn_skipn b (skipn a l)). now rewrite firstn_skipn.
Qed.

Lemma slice_indices_pos_bounds start stop stp len f l s :
  0 < stp -> 0 <= len -> slice_indices start stop stp len = (f, l, s) -> 0 <= f <= len /\ 0 <= l <= len.
Proof.
  intros Hs Hlen. unfold slice_indices. replace (stp <? 0) with false by lia.
  intros H. inversion H; subst; clear H. split.
  - destruct start; unfold clamp_idx; repeat match goal with |- context[if ?c then _ else _] => destruct c eqn:? end; lia.
  - destruct stop; unfold clamp_idx; repeat match goal with |- context[if ?c then _ else _] => destruct c eqn:? end; lia.
Qed.

(* olds ++ rest is a rearrangement of the list, for every slice *)
Lemma slice_get_del_perm f l s (xs : list item) :
  (s = 1 -> 0 <= f) ->
  Permutation xs (slice_get f l s xs ++ slice_del f l s xs).
Proof.
  intros Hf. unfold slice_get, slice_del. destruct (s =? 1) eqn:E1.
  - assert (0 <= f) by (apply Hf; lia).
    rewrite (slice1_split xs (Z.to_nat f) (Z.to_nat (Z.max f l - f))) at 1.
    replace (Z.to_nat f + Z.to_nat (Z.max f l - f))%nat with (Z.to_nat (Z.max f l)) by lia.
    rewrite app_assoc. rewrite (Permutation_app_comm (firstn _ xs) (firstn _ _)).
    rewrite <- app_assoc. reflexivity.
  - destruct (0 <? s).
    + apply sel_unsel_perm.
    + rewrite <- Permutation_rev. apply sel_unsel_perm.
Qed.

Lemma nth_error_split3 (l : list item) p x :
  nth_error l p = Some x -> l = firstn p l ++ x :: skipn (S p) l.
Proof.
  revert l. induction p as [|p IH]; intros [|y l] H; try discriminate.
  - cbn in H. inversion H. reflexivity.
  - cbn [nth_error] in H. cbn [firstn skipn app]. f_equal. apply IH, H.
Qed.

(* ---- effect of finish_set / finish_del ------------------------------------------ *)
Lemma finish_set_inv s items' olds news rest :
  Inv s -> Permutation (items s) (olds ++ rest) -> Permutation items' (news ++ rest) ->
  exists f', finish_set s items' olds news = (St items' f' (is_root s) (is_sr s), None) /\ LInv f' items'.
Proof.
  intros HI P1 P2. unfold finish_set.
  destruct (lut_remove_all_ok olds (lut s) rest (LInv_perm _ _ _ P1 HI)) as (f' & -> & Hf').
  eexists. split; [reflexivity|].
  apply (LInv_perm _ (rest ++ news)); [rewrite P2; apply Permutation_app_comm|].
  apply LInv_add_all, Hf'.
Qed.

Lemma finish_del_inv s items' olds :
  Inv s -> Permutation (items s) (olds ++ items') ->
  exists f', finish_del s items' olds = (St items' f' (is_root s) (is_sr s), None) /\ LInv f' items'.
Proof.
  intros HI P1. unfold finish_del.
  destruct (lut_remove_all_ok olds (lut s) items' (LInv_perm _ _ _ P1 HI)) as (f' & -> & Hf').
  eexists. split; [reflexivity|exact Hf'].
Qed.

(* accepted step: Inv is kept, and the new list is the old one with some items
   removed and exactly the entering items added *)
Definition entering (o : op) : list item :=
  match o with
  | Append x => [x] | Extend xs => xs | IAdd xs => xs | Insert _ x => [x]
  | SetInt _ x => [x] | SetSlice _ _ _ xs => xs | DelInt _ => [] | DelSlice _ _ _ => []
  end.

Lemma add_check_flags s s' x : is_root s' = is_root s -> is_sr s' = is_sr s -> add_check s' x = add_check s x.
Proof. intros R S. unfold add_check. now rewrite R, S. Qed.

Lemma append_spec s x :
  (add_check s x = None /\ append s x = (St (items s ++ [x]) (lut_add (lut s) x) (is_root s) (is_sr s), None)) \/
  (exists e, add_check s x = Some e /\ append s x = (s, Some e)).
Proof. unfold append. destruct (add_check s x); [right; eauto|left; auto]. Qed.

Lemma append_inv s x : Inv s -> Inv (fst (append s x)).
Proof.
  intros H. destruct (append_spec s x) as [[_ ->]|(e & _ & ->)]; cbn [fst]; [|exact H].
  unfold Inv. cbn [items lut]. apply LInv_add, H.
Qed.

Lemma extend_inv xs : forall s, Inv s -> Inv (fst (extend s xs)).
Proof.
  induction xs as [|x xs IH]; intros s H; cbn [extend]; [exact H|].
  pose proof (append_inv s x H) as HA.
  destruct (append s x) as [s' [e|]]; cbn [fst] in *; [exact HA|apply IH, HA].
Qed.

Lemma insert_inv s p x : Inv s -> Inv (fst (insert s p x)).
Proof.
  intros H. unfold insert. destruct (add_check s x); cbn [fst]; [exact H|].
  unfold Inv. cbn [items lut]. set (n := Z.to_nat _).
  apply (LInv_perm _ (items s ++ [x])); [|apply LInv_add, H].
  rewrite <- (firstn_skipn n (items s)) at 1. rewrite <- app_assoc.
  apply Permutation_app_head. cbn [app]. symmetry. apply Permutation_cons_append.
Qed.

Lemma zlen_nonneg {A} (l : list A) : 0 <= zlen l.
Proof. unfold zlen. lia. Qed.

Lemma setitem_int_shape s i x : Inv s ->
  (exists e, setitem_int s i x = (s, Some e)) \/ (exists s', setitem_int s i x = (s', None) /\ Inv s').
Proof.
  intros H. unfold setitem_int.
  destruct (norm_index i (zlen (items s))) as [p|]; [|left; eexists; reflexivity].
  destruct (nth_error (items s) p) as [old|] eqn:En; [|left; eexists; reflexivity].
  destruct (first_err (set_check s) [x]); [left; eexists; reflexivity|].
  destruct (finish_set_inv s (firstn p (items s) ++ x :: skipn (S p) (items s)) [old] [x]
              (firstn p (items s) ++ skipn (S p) (items s)) H) as (f' & -> & Hf').
  - rewrite (nth_error_split3 _ _ _ En) at 1. cbn [app]. symmetry. apply Permutation_middle.
  - cbn [app]. symmetry. apply Permutation_middle.
  - right. eexists. split; [reflexivity|exact Hf'].
Qed.

Lemma setitem_slice_shape s a b c xs : Inv s ->
  (exists e, setitem_slice s a b c xs = (s, Some e)) \/ (exists s', setitem_slice s a b c xs = (s', None) /\ Inv s').
Proof.
  intros H. unfold setitem_slice.
  destruct (step_of c =? 0) eqn:E0; [left; eexists; reflexivity|].
  destruct (slice_indices a b (step_of c) (zlen (items s))) as [[f l] s0] eqn:Es.
  destruct (first_err (set_check s) xs); [left; eexists; reflexivity|].
  assert (Hf : step_of c = 1 -> 0 <= f).
  { intros E1. destruct (slice_indices_pos_bounds a b (step_of c) _ f l s0 ltac:(lia) (zlen_nonneg _) Es) as [? _]. lia. }
  pose proof (slice_get_del_perm f l (step_of c) (items s) Hf) as P.
  destruct (step_of c =? 1) eqn:E1.
  - destruct (finish_set_inv s (firstn (Z.to_nat f) (items s) ++ xs ++ skipn (Z.to_nat (Z.max f l)) (items s))
                (slice_get f l (step_of c) (items s)) xs (slice_del f l (step_of c) (items s)) H P)
      as (f' & -> & Hf'); [|right; eexists; split; [reflexivity|exact Hf']].
    unfold slice_del. rewrite E1. rewrite app_assoc.
    rewrite (Permutation_app_comm (firstn _ _) xs). now rewrite <- app_assoc.
  - destruct (negb (zlen xs =? zlen (slice_get f l (step_of c) (items s)))) eqn:El; [left; eexists; reflexivity|].
    destruct (finish_set_inv s (replace_sel (mask f l (step_of c) (length (items s))) (items s)
                                   (if step_of c <? 0 then rev xs else xs))
                (slice_get f l (step_of c) (items s)) xs (slice_del f l (step_of c) (items s)) H P)
      as (f' & -> & Hf'); [|right; eexists; split; [reflexivity|exact Hf']].
    unfold slice_del. rewrite E1.
    assert (Hlen : length xs = length (sel (mask f l (step_of c) (length (items s))) (items s))).
    { unfold slice_get in El. rewrite E1 in El. unfold zlen in El.
      destruct (0 <? step_of c); [lia|]. rewrite rev_length in El. lia. }
    destruct (step_of c <? 0).
    + rewrite replace_sel_perm by (now rewrite rev_length).
      apply Permutation_app_tail. symmetry. apply Permutation_rev.
    + apply replace_sel_perm, Hlen.
Qed.

Lemma delitem_int_shape s i : Inv s ->
  (exists e, delitem_int s i = (s, Some e)) \/ (exists s', delitem_int s i = (s', None) /\ Inv s').
Proof.
  intros H. unfold delitem_int.
  destruct (norm_index i (zlen (items s))) as [p|]; [|left; eexists; reflexivity].
  destruct (nth_error (items s) p) as [old|] eqn:En; [|left; eexists; reflexivity].
  destruct (finish_del_inv s (firstn p (items s) ++ skipn (S p) (items s)) [old] H) as (f' & -> & Hf').
  - rewrite (nth_error_split3 _ _ _ En) at 1. cbn [app]. symmetry. apply Permutation_middle.
  - right. eexists. split; [reflexivity|exact Hf'].
Qed.

Lemma delitem_slice_shape s a b c : Inv s ->
  (exists e, delitem_slice s a b c = (s, Some e)) \/ (exists s', delitem_slice s a b c = (s', None) /\ Inv s').
Proof.
  intros H. unfold delitem_slice.
  destruct (step_of c =? 0) eqn:E0; [left; eexists; reflexivity|].
  destruct (slice_indices a b (step_of c) (zlen (items s))) as [[f l] s0] eqn:Es.
  assert (Hf : step_of c = 1 -> 0 <= f).
  { intros E1. destruct (slice_indices_pos_bounds a b (step_of c) _ f l s0 ltac:(lia) (zlen_nonneg _) Es) as [? _]. lia. }
  destruct (finish_del_inv s (slice_del f l (step_of c) (items s)) (slice_get f l (step_of c) (items s)) H
              (slice_get_del_perm f l (step_of c) (items s) Hf)) as (f' & -> & Hf').
  right. eexists. split; [reflexivity|exact Hf'].
Qed.


Lemma shape_inv (s : st) (r : st * option string) :
  Inv s -> (exists e, r = (s, Some e)) \/ (exists s', r = (s', None) /\ Inv s') -> Inv (fst r).
Proof. intros H [[e ->]|(s' & -> & H')]; assumption. Qed.

Lemma shape_err (s : st) (r : st * option string) e :
  (exists e, r = (s, Some e)) \/ (exists s', r = (s', None) /\ Inv s') -> snd r = Some e -> fst r = s.
Proof. intros [[e' ->]|(s' & -> & H')] E; [reflexivity|discriminate]. Qed.

Theorem inv_step s o : Inv s -> Inv (fst (step s o)).
Proof.
  destruct o; unfold C14_Model.step.
  - apply append_inv. - apply extend_inv. - apply extend_inv. - apply insert_inv.
  - intros H. apply (shape_inv s _ H), setitem_int_shape, H.
  - intros H. apply (shape_inv s _ H), setitem_slice_shape, H.
  - intros H. apply (shape_inv s _ H), delitem_int_shape, H.
  - intros H. apply (shape_inv s _ H), delitem_slice_shape, H.
Qed.

(* a refused operation (other than extend / +=, which keep the admissible prefix)
   leaves list, index and flags exactly as they were *)
Theorem step_err_unchanged s o e : Inv s -> snd (step s o) = Some e ->
  match o with Extend _ | IAdd _ => True | _ => fst (step s o) = s end.
Proof.
  intros H. destruct o; unfold C14_Model.step; try exact (fun _ => I).
  - unfold append. destruct (add_check s x); [reflexivity|discriminate].
  - unfold insert. destruct (add_check s x); [reflexivity|discriminate].
  - apply shape_err, setitem_int_shape, H.
  - apply shape_err, setitem_slice_shape, H.
  - apply shape_err, delitem_int_shape, H.
  - apply shape_err, delitem_slice_shape, H.
Qed.

(* extend / += : exactly the longest admissible prefix is appended *)
Theorem extend_spec xs : forall s s' r, extend s xs = (s', r) ->
  exists pre, items s' = items s ++ pre /\ Forall (fun x => add_check s x = None) pre /\
    match r with
    | None => pre = xs
    | Some e => exists x post, xs = pre ++ x :: post /\ add_check s x = Some e
    end.
Proof.
  induction xs as [|x xs IH]; intros s s' r H; cbn [extend] in H.
  - inversion H; subst. exists []. rewrite app_nil_r. repeat split. constructor.
  - destruct (append_spec s x) as [[Hc E]|(e & Hc & E)]; rewrite E in H.
    + apply IH in H. destruct H as (pre & Hi & Hf & Hr). cbn [items] in Hi.
      assert (Hsame : forall y, add_check (St (items s ++ [x]) (lut_add (lut s) x) (is_root s) (is_sr s)) y = add_check s y)
        by (intros y; apply add_check_flags; reflexivity).
      exists (x :: pre). split; [rewrite Hi, <- app_assoc; reflexivity|]. split.
      * constructor; [exact Hc|]. rewrite Forall_forall in *. intros y Hy. rewrite <- Hsame. apply Hf, Hy.
      * destruct r as [e|]; [|now subst].
        destruct Hr as (x0 & post & -> & Hx0). exists x0, post. split; [reflexivity|]. now rewrite <- Hsame.
    + inversion H; subst. exists []. rewrite app_nil_r. split; [reflexivity|]. split; [constructor|].
      exists x, xs. split; [reflexivity|exact Hc].
Qed.

Theorem inv_init l root sr s : init l root sr = Ok s -> Inv s /\ items s = l /\ is_root s = root /\ is_sr s = sr.
Proof.
  unfold init. destruct (root && negb sr); [discriminate|].
  destruct (existsb _ l); [discriminate|]. destruct (first_err _ l); [discriminate|].
  intros E. inversion E; subst; clear E. cbn [items is_root is_sr]. repeat split.
  unfold Inv. cbn [items lut]. apply (LInv_add_all l empty_lut []), LInv_empty.
Qed.

Theorem inv_run ops : forall s, Inv s -> Inv (run s ops).
Proof.
  unfold run. induction ops as [|o ops IH]; intros s H; cbn [fold_left]; [exact H|].
  apply IH, inv_step, H.
Qed.

Theorem inv_reachable l root sr s ops : init l root sr = Ok s -> Inv (run s ops).
Proof. intros H. apply inv_run. now apply inv_init in H. Qed.

(* ---- queries -------------------------------------------------------------------- *)
Lemma in_lut_iff s x : Inv s -> (In x (lut s (iname x)) <-> In x (items s)).
Proof.
  intros H. split; intros Hin.
  - apply (Permutation_in x (H (iname x))) in Hin. apply filter_In in Hin. tauto.
  - apply (Permutation_in x (Permutation_sym (H (iname x)))). apply filter_In. split; [assumption|apply has_self].
Qed.

Lemma existsb_eqb_In x l : existsb (fun y => item_eqb y x) l = true <-> In x l.
Proof.
  rewrite existsb_exists. split.
  - intros (y & Hy & E). destruct (item_eqb_spec y x); [now subst|discriminate].
  - intros H. exists x. split; [assumption|apply item_eqb_refl].
Qed.

Lemma pos_of_some x l : forall k p, pos_of x l k = Some p ->
  k <= p /\ nth_error l (Z.to_nat (p - k)) = Some x /\
  (forall j, (j < Z.to_nat (p - k))%nat -> nth_error l j <> Some x).
Proof.
  induction l as [|y l IH]; intros k p H; cbn [pos_of] in H; [discriminate|].
  destruct (item_eqb_spec y x) as [->|Hne].
  - inversion H; subst. replace (p - p) with 0 by lia. cbn. split; [lia|]. split; [reflexivity|]. intros j Hj. lia.
  - destruct (IH _ _ H) as (Hk & Hn & Hj). split; [lia|].
    replace (Z.to_nat (p - k)) with (S (Z.to_nat (p - (k + 1)))) by lia. cbn [nth_error]. split; [exact Hn|].
    intros [|j] Hlt; cbn [nth_error]; [congruence|]. apply Hj. lia.
Qed.

Lemma pos_of_none x l : forall k, pos_of x l k = None <-> ~ In x l.
Proof.
  induction l as [|y l IH]; intros k; cbn [pos_of]; [split; [intros _ []|reflexivity]|].
  destruct (item_eqb_spec y x) as [->|Hne].
  - split; [discriminate|]. intros H. exfalso. apply H. now left.
  - rewrite IH. split; [intros H [E|Hin]; [congruence|tauto]|intros H Hin; apply H; now right].
Qed.

(* index: the answer is the first position of the item in the list itself *)
Theorem index_is_position s x k : Inv s -> index s x = Ok k ->
  0 <= k < zlen (items s) /\ nth_error (items s) (Z.to_nat k) = Some x /\
  (forall j, 0 <= j < k -> nth_error (items s) (Z.to_nat j) <> Some x).
Proof.
  intros HI. unfold index. destruct (negb (is_item x)); [discriminate|].
  destruct (existsb _ _); [|discriminate].
  destruct (pos_of x (items s) 0) as [p|] eqn:Ep; [|discriminate].
  intros E. inversion E; subst p; clear E.
  destruct (pos_of_some _ _ _ _ Ep) as (Hk & Hn & Hj). replace (k - 0) with k in * by lia.
  split; [|split; [exact Hn|]].
  - assert (Hlt : (Z.to_nat k < length (items s))%nat) by (apply nth_error_Some; congruence). unfold zlen. lia.
  - intros j Hjk. apply Hj. lia.
Qed.

Theorem index_found_iff s x : Inv s ->
  ((exists k, index s x = Ok k) <-> is_item x = true /\ In x (items s)).
Proof.
  intros HI. unfold index. destruct (is_item x); cbn [negb].
  - destruct (existsb _ (lut s (iname x))) eqn:Ee.
    + apply existsb_eqb_In in Ee. apply (in_lut_iff s x HI) in Ee.
      destruct (pos_of x (items s) 0) eqn:Ep.
      * split; [intros _; tauto|intros _; eauto].
      * apply pos_of_none in Ep. tauto.
    + split; [intros [k Hk]; discriminate|]. intros [_ Hin]. apply (in_lut_iff s x HI) in Hin.
      apply existsb_eqb_In in Hin. congruence.
  - split; [intros [k Hk]; discriminate|intros [Hf _]; discriminate].
Qed.

Theorem index_error s x e : Inv s -> index s x = Err e ->
  (is_item x = false /\ e = ETYPE) \/ (is_item x = true /\ ~ In x (items s) /\ e = EVALUE).
Proof.
  intros HI. pose proof (index_found_iff s x HI) as Hiff. unfold index in *.
  destruct (is_item x); cbn [negb] in *.
  - intros He. right. split; [reflexivity|].
    assert (Hno : ~ In x (items s)).
    { intros Hin. destruct Hiff as [_ Hiff]. destruct (Hiff (conj eq_refl Hin)) as [k Hk]. congruence. }
    split; [exact Hno|].
    destruct (existsb _ _); [destruct (pos_of _ _ _)|]; inversion He; reflexivity.
  - intros He. inversion He. left. split; reflexivity.
Qed.

Theorem contains_iff_In s x : Inv s -> is_item x = true ->
  (contains s x = Ok true <-> In x (items s)) /\ (contains s x = Ok false <-> ~ In x (items s)).
Proof.
  intros HI Hx. pose proof (index_found_iff s x HI) as Hiff. unfold contains.
  destruct (index s x) as [k|e] eqn:Ei.
  - assert (Hin : In x (items s)) by (apply Hiff; eauto).
    split; split; intros; try tauto; try discriminate; try reflexivity.
  - destruct (index_error s x e HI Ei) as [[Hf _]|(_ & Hno & ->)]; [congruence|].
    cbn. split; split; intros; try tauto; try discriminate; try reflexivity.
Qed.

Theorem contains_junk s x : is_item x = false -> contains s x = Err ETYPE.
Proof. intros Hx. unfold contains, index. rewrite Hx. reflexivity. Qed.

(* find / get_nodes re-run __init__ on their result *)
Definition Strict (s : st) : Prop :=
  Forall (fun x => init_check (is_root s) (is_sr s) x = None) (items s).

Lemma init_check_item root sr x : init_check root sr x = None -> is_item x = true.
Proof. unfold init_check. destruct (is_item x); [reflexivity|discriminate]. Qed.

Lemma init_ok_of_Forall l root sr :
  (root && negb sr = false) -> Forall (fun x => init_check root sr x = None) l ->
  exists s', init l root sr = Ok s' /\ items s' = l.
Proof.
  intros Hf H. unfold init. rewrite Hf.
  replace (existsb (fun x => negb (is_item x)) l) with false.
  - apply first_err_none in H. rewrite H. eexists. split; reflexivity.
  - symmetry. apply not_true_is_false. intros E. apply existsb_exists in E. destruct E as (x & Hin & Hx).
    rewrite Forall_forall in H. apply H, init_check_item in Hin. rewrite Hin in Hx. discriminate.
Qed.

Lemma init_ok_items l root sr s' : init l root sr = Ok s' -> items s' = l /\ Forall (fun x => init_check root sr x = None) l.
Proof.
  unfold init. destruct (root && negb sr); [discriminate|]. destruct (existsb _ l); [discriminate|].
  destruct (first_err _ l) eqn:E; [discriminate|]. intros H. inversion H. split; [reflexivity|].
  now apply first_err_none.
Qed.

Theorem find_exact s n l : Inv s -> find s n = Ok l ->
  Permutation l (filter (has n) (items s)) /\
  (forall x, count_occ item_eq_dec l x = if has n x then count_occ item_eq_dec (items s) x else 0%nat).
Proof.
  intros HI. unfold find. destruct (init (lut s n) (is_root s) (is_sr s)) as [s'|e] eqn:E; [|discriminate].
  intros H. inversion H; subst l; clear H. apply init_ok_items in E. destruct E as [-> _].
  split; [apply HI|]. intros x.
  rewrite (proj1 (Permutation_count_occ item_eq_dec _ _) (HI n) x).
  induction (items s) as [|y l IH]; cbn [filter count_occ]; [now destruct (has n x)|].
  destruct (has n y) eqn:Ey; cbn [count_occ]; destruct (item_eq_dec y x) as [->|Hne].
  - rewrite Ey in *. now rewrite IH.
  - exact IH.
  - rewrite Ey in *. exact IH.
  - exact IH.
Qed.

Lemma flags_ok_init l root sr s : init l root sr = Ok s -> root && negb sr = false.
Proof. unfold init. destruct (root && negb sr); [discriminate|reflexivity]. Qed.

Theorem find_total s n : Inv s -> Strict s -> is_root s && negb (is_sr s) = false ->
  find s n = Ok (lut s n).
Proof.
  intros HI HS Hf. unfold find.
  destruct (init_ok_of_Forall (lut s n) (is_root s) (is_sr s) Hf) as (s' & -> & ->); [|reflexivity].
  apply Forall_forall. intros x Hin. apply (Permutation_in x (HI n)) in Hin. apply filter_In in Hin.
  unfold Strict in HS. rewrite Forall_forall in HS. apply HS. tauto.
Qed.

Theorem get_nodes_exact s : Strict s -> is_root s && negb (is_sr s) = false ->
  get_nodes s = Ok (filter inode (items s)).
Proof.
  intros HS Hf. unfold get_nodes.
  destruct (init_ok_of_Forall (filter inode (items s)) (is_root s) (is_sr s) Hf) as (s' & -> & ->); [|reflexivity].
  apply Forall_forall. intros x Hin. apply filter_In in Hin. unfold Strict in HS. rewrite Forall_forall in HS.
  apply HS. tauto.
Qed.

Theorem get_nodes_ok s l : get_nodes s = Ok l -> l = filter inode (items s).
Proof.
  unfold get_nodes. destruct (init _ _ _) as [s'|e] eqn:E; [|discriminate].
  intros H. inversion H; subst l. apply init_ok_items in E. tauto.
Qed.

(* ---- where the items of the next state come from ------------------------------------ *)
Lemma In_firstn' {A} n (l : list A) y : In y (firstn n l) -> In y l.
Proof. intros H. rewrite <- (firstn_skipn n l). apply in_or_app. now left. Qed.
Lemma In_skipn' {A} n (l : list A) y : In y (skipn n l) -> In y l.
Proof. intros H. rewrite <- (firstn_skipn n l). apply in_or_app. now right. Qed.

Lemma In_unsel m : forall l y, In y (unsel m l) -> In y l.
Proof.
  induction m as [|b m IH]; intros l y H; [exact H|]. destruct l as [|x l]; [exact H|].
  cbn [unsel] in H. destruct b; [right; apply IH, H|]. destruct H as [->|H]; [now left|right; apply IH, H].
Qed.

Lemma In_replace_sel m : forall l vs y, In y (replace_sel m l vs) -> In y l \/ In y vs.
Proof.
  induction m as [|b m IH]; intros l vs y H; [now left|]. destruct l as [|x l]; [now left|].
  cbn [replace_sel] in H. destruct b.
  - destruct vs as [|v vs].
    + destruct H as [->|H]; [left; now left|]. destruct (IH _ _ _ H) as [H'|[]]. left; now right.
    + destruct H as [->|H]; [right; now left|]. destruct (IH _ _ _ H) as [H'|H']; [left|right]; now right.
  - destruct H as [->|H]; [left; now left|]. destruct (IH _ _ _ H) as [H'|H']; [left; now right|now right].
Qed.

Lemma In_slice_del f l c xs y : In y (slice_del f l c xs) -> In y xs.
Proof.
  unfold slice_del. destruct (c =? 1).
  - intros H. apply in_app_or in H. destruct H as [H|H]; [eapply In_firstn'|eapply In_skipn']; eassumption.
  - apply In_unsel.
Qed.

Lemma finish_set_items s items' olds news : items (fst (finish_set s items' olds news)) = items'.
Proof. unfold finish_set. destruct (lut_remove_all _ _) as [f [|]]; reflexivity. Qed.
Lemma finish_set_flags s items' olds news :
  is_root (fst (finish_set s items' olds news)) = is_root s /\ is_sr (fst (finish_set s items' olds news)) = is_sr s.
Proof. unfold finish_set. destruct (lut_remove_all _ _) as [f [|]]; split; reflexivity. Qed.
Lemma finish_del_items s items' olds y : In y (items (fst (finish_del s items' olds))) -> In y items' \/ In y (items s).
Proof. unfold finish_del. destruct (lut_remove_all _ _) as [f [|]]; cbn [fst items]; tauto. Qed.
Lemma finish_del_flags s items' olds :
  is_root (fst (finish_del s items' olds)) = is_root s /\ is_sr (fst (finish_del s items' olds)) = is_sr s.
Proof. unfold finish_del. destruct (lut_remove_all _ _) as [f [|]]; split; reflexivity. Qed.

(* which check guards which operation *)
Definition chk (s : st) (o : op) : item -> option string :=
  match o with
  | SetInt _ _ | SetSlice _ _ _ _ => set_check s
  | _ => add_check s
  end.

Lemma append_flags s x : is_root (fst (append s x)) = is_root s /\ is_sr (fst (append s x)) = is_sr s.
Proof. unfold append. destruct (add_check s x); split; reflexivity. Qed.

Lemma extend_flags xs : forall s, is_root (fst (extend s xs)) = is_root s /\ is_sr (fst (extend s xs)) = is_sr s.
Proof.
  induction xs as [|x xs IH]; intros s; cbn [extend]; [split; reflexivity|].
  pose proof (append_flags s x) as [R S]. destruct (append s x) as [s' [e|]]; cbn [fst] in *; [split; assumption|].
  destruct (IH s') as [R' S']. split; congruence.
Qed.

Lemma extend_members xs : forall s y, In y (items (fst (extend s xs))) ->
  In y (items s) \/ (In y xs /\ add_check s y = None).
Proof.
  induction xs as [|x xs IH]; intros s y H; cbn [extend] in H; [now left|].
  destruct (append_spec s x) as [[Hc E]|(e & Hc & E)]; rewrite E in H; cbn [fst] in H; [|now left].
  apply IH in H. cbn [items] in H. destruct H as [H|[H1 H2]].
  - apply in_app_or in H. destruct H as [H|[->|[]]]; [now left|]. right. split; [now left|exact Hc].
  - right. split; [now right|]. rewrite <- H2. symmetry. apply add_check_flags; reflexivity.
Qed.

Theorem step_flags s o : is_root (fst (step s o)) = is_root s /\ is_sr (fst (step s o)) = is_sr s.
Proof.
  destruct o; unfold C14_Model.step.
  - apply append_flags. - apply extend_flags. - apply extend_flags.
  - unfold insert. destruct (add_check s x); split; reflexivity.
  - unfold setitem_int. destruct (norm_index _ _); [|split; reflexivity].
    destruct (nth_error _ _); [|split; reflexivity]. destruct (first_err _ _); [split; reflexivity|].
    apply finish_set_flags.
  - unfold setitem_slice. destruct (step_of step =? 0); [split; reflexivity|].
    destruct (slice_indices _ _ _ _) as [[f l] s0]. destruct (first_err _ _); [split; reflexivity|].
    destruct (step_of step =? 1); [apply finish_set_flags|]. destruct (negb _); [split; reflexivity|apply finish_set_flags].
  - unfold delitem_int. destruct (norm_index _ _); [|split; reflexivity].
    destruct (nth_error _ _); [|split; reflexivity]. apply finish_del_flags.
  - unfold delitem_slice. destruct (step_of step =? 0); [split; reflexivity|].
    destruct (slice_indices _ _ _ _) as [[f l] s0]. apply finish_del_flags.
Qed.

Theorem step_members s o y : In y (items (fst (step s o))) ->
  In y (items s) \/ (In y (entering o) /\ chk s o y = None).
Proof.
  destruct o; unfold C14_Model.step; cbn [entering chk].
  - intros H. apply (extend_members [x] s y). cbn [extend]. destruct (append s x) as [s' [e|]]; exact H.
  - apply extend_members.
  - apply extend_members.
  - unfold insert. destruct (add_check s x) eqn:Ec; cbn [fst items]; [now left|].
    intros H. apply in_app_or in H. destruct H as [H|[->|H]].
    + left. eapply In_firstn', H. + right. split; [now left|exact Ec]. + left. eapply In_skipn', H.
  - unfold setitem_int. destruct (norm_index _ _) as [p|]; [|now left].
    destruct (nth_error _ _); [|now left]. destruct (first_err _ _) eqn:Ec; [now left|].
    rewrite finish_set_items. apply first_err_none in Ec. inversion Ec; subst.
    intros H. apply in_app_or in H. destruct H as [H|[->|H]].
    + left. eapply In_firstn', H. + right. split; [now left|assumption]. + left. eapply In_skipn', H.
  - unfold setitem_slice. destruct (step_of step =? 0); [now left|].
    destruct (slice_indices _ _ _ _) as [[f l] s0]. destruct (first_err _ _) eqn:Ec; [now left|].
    apply first_err_none in Ec. rewrite Forall_forall in Ec.
    destruct (step_of step =? 1).
    + rewrite finish_set_items. intros H. apply in_app_or in H. destruct H as [H|H]; [left; eapply In_firstn', H|].
      apply in_app_or in H. destruct H as [H|H]; [right; split; [exact H|apply Ec, H]|left; eapply In_skipn', H].
    + destruct (negb _); [now left|]. rewrite finish_set_items. intros H. apply In_replace_sel in H.
      destruct H as [H|H]; [now left|]. right.
      assert (Hin : In y xs) by (destruct (step_of step <? 0); [apply in_rev|]; exact H).
      split; [exact Hin|apply Ec, Hin].
  - unfold delitem_int. destruct (norm_index _ _) as [p|]; [|now left].
    destruct (nth_error _ _); [|now left]. intros H. apply finish_del_items in H. destruct H as [H|H]; [|now left].
    left. apply in_app_or in H. destruct H as [H|H]; [eapply In_firstn', H|eapply In_skipn', H].
  - unfold delitem_slice. destruct (step_of step =? 0); [now left|].
    destruct (slice_indices _ _ _ _) as [[f l] s0]. intros H. apply finish_del_items in H.
    destruct H as [H|H]; [|now left]. left. eapply In_slice_del, H.
Qed.

(* any per-item rule that the guards imply is kept by every step *)
Theorem forall_step (P : item -> Prop) s o :
  (forall y, In y (entering o) -> chk s o y = None -> P y) ->
  Forall P (items s) -> Forall P (items (fst (step s o))).
Proof.
  intros Hc H. rewrite Forall_forall in *. intros y Hy. apply step_members in Hy.
  destruct Hy as [Hy|[Hy1 Hy2]]; [apply H, Hy|apply Hc; assumption].
Qed.

(* ---- the relationship-type rule ------------------------------------------------------- *)
(* root items carry no relationship type, all other SR items carry one *)
Definition Good (root sr : bool) (x : item) : Prop :=
  is_item x = true /\ (sr = true -> (irel x =? 0) = root).
Definition RelInv (s : st) : Prop := Forall (Good (is_root s) (is_sr s)) (items s).

Lemma init_check_good root sr x : init_check root sr x = None -> Good root sr x.
Proof.
  unfold init_check, Good. destruct (is_item x), root, sr, (irel x =? 0), (icont x); cbn;
    try discriminate; intros _; split; try reflexivity; intros; try reflexivity; discriminate.
Qed.

(* all guards are the one rule of __init__ *)
Lemma chk_strict s o x : chk s o x = init_check (is_root s) (is_sr s) x.
Proof. destruct o; reflexivity. Qed.

Lemma add_check_good s x : add_check s x = None -> Good (is_root s) (is_sr s) x.
Proof. apply init_check_good. Qed.
Lemma set_check_good s x : set_check s x = None -> Good (is_root s) (is_sr s) x.
Proof. apply init_check_good. Qed.
Lemma chk_good s o x : chk s o x = None -> Good (is_root s) (is_sr s) x.
Proof. rewrite chk_strict. apply init_check_good. Qed.

(* exact acceptance condition and error class of the rule *)
Lemma init_check_none_iff root sr x : init_check root sr x = None <->
  is_item x = true /\
  (if root then irel x = 0 /\ icont x = true else if sr then irel x <> 0 else irel x = 0).
Proof.
  unfold init_check. destruct (is_item x), root, sr, (irel x =? 0) eqn:E, (icont x); cbn;
    split; try discriminate; try (intros [? ?]; try discriminate; lia); try (intros [? [? ?]]; try discriminate; lia);
    intros _; repeat split; try reflexivity; lia.
Qed.

Lemma init_check_error root sr x e : init_check root sr x = Some e ->
  (e = ETYPE /\ (is_item x = false \/ (root = true /\ irel x = 0 /\ icont x = false))) \/
  (e = EATTR /\ is_item x = true /\ (if root then irel x <> 0 else if sr then irel x = 0 else irel x <> 0)).
Proof.
  unfold init_check. destruct (is_item x), root, sr, (irel x =? 0) eqn:E, (icont x); cbn;
    intros H; inversion H; subst; try (left; split; [reflexivity|]; tauto);
    try (left; split; [reflexivity|]; right; repeat split; try reflexivity; lia);
    right; repeat split; try reflexivity; lia.
Qed.

Theorem rel_init l root sr s : init l root sr = Ok s -> RelInv s.
Proof.
  intros H. destruct (inv_init _ _ _ _ H) as (_ & Hi & Hr & Hs). apply init_ok_items in H. destruct H as [_ H].
  unfold RelInv. rewrite Hi, Hr, Hs. eapply Forall_impl; [|exact H]. intros x. apply init_check_good.
Qed.

Theorem rel_step s o : RelInv s -> RelInv (fst (step s o)).
Proof.
  intros H. unfold RelInv. destruct (step_flags s o) as [-> ->].
  apply forall_step; [|exact H]. intros y _ Hc. now apply chk_good in Hc.
Qed.

Theorem rel_run ops : forall s, RelInv s -> RelInv (run s ops).
Proof.
  unfold run. induction ops as [|o ops IH]; intros s H; cbn [fold_left]; [exact H|]. apply IH, rel_step, H.
Qed.

(* every entry path refuses an item that breaks the rule (or is no content item) *)
Theorem step_refuses s o : (exists y, In y (entering o) /\ ~ Good (is_root s) (is_sr s) y) ->
  exists e, snd (step s o) = Some e.
Proof.
  intros (y & Hin & Hbad).
  assert (Hc : chk s o y <> None) by (intros E; apply Hbad; now apply chk_good in E).
  assert (Hfe : forall xs, In y xs -> chk s o y <> None -> forall f, f = chk s o -> first_err f xs <> None).
  { intros xs Hxs Hne f -> E. apply first_err_none in E. rewrite Forall_forall in E. apply Hne, E, Hxs. }
  destruct o; unfold C14_Model.step; cbn [entering chk] in *.
  - destruct Hin as [->|[]]. unfold append. destruct (add_check s y); [(eexists; reflexivity)|congruence].
  - destruct (extend s xs) as [s' [e|]] eqn:E; [(eexists; reflexivity)|]. apply extend_spec in E.
    destruct E as (pre & _ & Hf & ->). rewrite Forall_forall in Hf. exfalso. apply Hc, Hf, Hin.
  - destruct (extend s xs) as [s' [e|]] eqn:E; [(eexists; reflexivity)|]. apply extend_spec in E.
    destruct E as (pre & _ & Hf & ->). rewrite Forall_forall in Hf. exfalso. apply Hc, Hf, Hin.
  - destruct Hin as [->|[]]. unfold insert. destruct (add_check s y); [(eexists; reflexivity)|congruence].
  - destruct Hin as [->|[]]. unfold setitem_int. destruct (norm_index _ _); [|(eexists; reflexivity)].
    destruct (nth_error _ _); [|(eexists; reflexivity)]. cbn [first_err]. destruct (set_check s y); [(eexists; reflexivity)|congruence].
  - unfold setitem_slice. destruct (step_of step =? 0); [(eexists; reflexivity)|].
    destruct (slice_indices _ _ _ _) as [[f l] s0].
    destruct (first_err (set_check s) xs) eqn:E; [(eexists; reflexivity)|]. exfalso. exact (Hfe xs Hin Hc _ eq_refl E).
  - destruct Hin.
  - destruct Hin.
Qed.

(* ... and what it accepts is good *)
Theorem step_accepts_good s o : snd (step s o) = None -> Forall (Good (is_root s) (is_sr s)) (entering o).
Proof.
  destruct o; unfold C14_Model.step; cbn [entering].
  - unfold append. destruct (add_check s x) eqn:E; [discriminate|]. intros _. constructor; [now apply add_check_good|constructor].
  - destruct (extend s xs) as [s' r] eqn:E. cbn [snd]. intros ->. apply extend_spec in E.
    destruct E as (pre & _ & Hf & ->). eapply Forall_impl; [|exact Hf]. intros y. apply add_check_good.
  - destruct (extend s xs) as [s' r] eqn:E. cbn [snd]. intros ->. apply extend_spec in E.
    destruct E as (pre & _ & Hf & ->). eapply Forall_impl; [|exact Hf]. intros y. apply add_check_good.
  - unfold insert. destruct (add_check s x) eqn:E; [discriminate|]. intros _. constructor; [now apply add_check_good|constructor].
  - unfold setitem_int. destruct (norm_index _ _); [|discriminate]. destruct (nth_error _ _); [|discriminate].
    destruct (first_err _ _) eqn:E; [discriminate|]. intros _. apply first_err_none in E.
    eapply Forall_impl; [|exact E]. intros y. apply set_check_good.
  - unfold setitem_slice. destruct (step_of step =? 0); [discriminate|].
    destruct (slice_indices _ _ _ _) as [[f l] s0]. destruct (first_err _ _) eqn:E; [discriminate|]. intros _.
    apply first_err_none in E. eapply Forall_impl; [|exact E]. intros y. apply set_check_good.
  - constructor.
  - constructor.
Qed.

(* append / insert accept every item that __init__ would accept, at any position *)
Theorem append_accepts s x : init_check (is_root s) (is_sr s) x = None ->
  append s x = (St (items s ++ [x]) (lut_add (lut s) x) (is_root s) (is_sr s), None).
Proof. intros H. unfold append, add_check. now rewrite H. Qed.

Theorem insert_accepts s p x : init_check (is_root s) (is_sr s) x = None -> snd (insert s p x) = None.
Proof. intros H. unfold insert, add_check. now rewrite H. Qed.

(* ---- find / get_nodes on reachable states ---------------------------------------------- *)
Theorem strict_init l root sr s : init l root sr = Ok s -> Strict s.
Proof.
  intros H. destruct (inv_init _ _ _ _ H) as (_ & Hi & Hr & Hs). apply init_ok_items in H.
  unfold Strict. rewrite Hi, Hr, Hs. tauto.
Qed.

Theorem strict_step s o : Strict s -> Strict (fst (step s o)).
Proof.
  intros H. unfold Strict. destruct (step_flags s o) as [-> ->].
  apply forall_step; [|exact H]. intros y _ Hc. now rewrite chk_strict in Hc.
Qed.

Theorem strict_run ops : forall s, Strict s -> Strict (run s ops).
Proof.
  unfold run. induction ops as [|o ops IH]; intros s H; cbn [fold_left]; [exact H|]. apply IH, strict_step, H.
Qed.

(* ---- the slice mask is Python's range ----------------------------------------------------- *)
Lemma selected_iff_range f l s i : s <> 0 ->
  (selected f l s i = true <-> exists k, 0 <= k < range_len f l s /\ i = f + k * s).
Proof.
  intros Hs. unfold selected, range_len. destruct (0 <? s) eqn:Ep.
  - split.
    + intros H. exists ((i - f) / s). split; [|nia].
      replace (f <? l) with true by lia. split; [apply Z.div_pos; lia|].
      apply Z.div_lt_upper_bound; [lia|]. pose proof (Z.mul_div_le (l - f + s - 1) s ltac:(lia)). 
      assert (s * ((l - f + s - 1) / s) > l - f - 1) by (pose proof (Z.mod_pos_bound (l - f + s - 1) s ltac:(lia)); nia).
      nia.
    + intros (k & [Hk0 Hk] & ->). destruct (f <? l) eqn:Efl; [|lia].
      pose proof (range_pos_bound f l s k ltac:(lia) ltac:(lia) (conj Hk0 Hk)).
      replace (f + k * s - f) with (k * s) by lia. rewrite Z.mod_mul by lia. lia.
  - split.
    + intros H. exists ((f - i) / (- s)). replace (l <? f) with true by lia. split; [|nia]. split; [apply Z.div_pos; lia|].
      apply Z.div_lt_upper_bound; [lia|].
      assert (- s * ((f - l - s - 1) / - s) > f - l - 1) by (pose proof (Z.mod_pos_bound (f - l - s - 1) (- s) ltac:(lia)); nia).
      nia.
    + intros (k & [Hk0 Hk] & ->). destruct (l <? f) eqn:Efl; [|lia].
      pose proof (range_neg_bound f l s k ltac:(lia) ltac:(lia) (conj Hk0 Hk)).
      replace (f - (f + k * s)) with (k * - s) by lia. rewrite Z.mod_mul by lia. lia.
Qed.

Lemma run_flags ops : forall s, is_root (run s ops) = is_root s /\ is_sr (run s ops) = is_sr s.
Proof.
  unfold run. induction ops as [|o ops IH]; intros s; cbn [fold_left]; [split; reflexivity|].
  destruct (IH (fst (step s o))) as [-> ->]. apply step_flags.
Qed.

(* ---- everything together, for every reachable state ------------------------------------------ *)
Theorem history_summary l root sr s0 ops : init l root sr = Ok s0 ->
  let t := run s0 ops in
  (forall n, Permutation (lut t n) (filter (has n) (items t))) /\
  (forall n, exists r, find t n = Ok r /\ Permutation r (filter (has n) (items t))) /\
  (forall x k, index t x = Ok k ->
     nth_error (items t) (Z.to_nat k) = Some x /\
     forall j, 0 <= j < k -> nth_error (items t) (Z.to_nat j) <> Some x) /\
  (forall x, is_item x = true ->
     (contains t x = Ok true <-> In x (items t)) /\ (contains t x = Ok false <-> ~ In x (items t))) /\
  get_nodes t = Ok (filter inode (items t)) /\
  Forall (Good (is_root t) (is_sr t)) (items t).
Proof.
  intros H t. assert (HI : Inv t) by (eapply inv_reachable; exact H).
  assert (HS : Strict t) by (apply strict_run; eapply strict_init; exact H).
  assert (HF : is_root t && negb (is_sr t) = false).
  { destruct (run_flags ops s0) as [R S]. fold t in R, S. rewrite R, S.
    destruct (inv_init _ _ _ _ H) as (_ & _ & -> & ->). eapply flags_ok_init, H. }
  split; [exact HI|].
  split; [intros n; exists (lut t n); split; [now apply find_total|apply HI]|].
  split; [intros x k Hk; destruct (index_is_position t x k HI Hk) as (_ & A & B); split; assumption|].
  split; [intros x Hx; now apply contains_iff_In|].
  split; [now apply get_nodes_exact|].
  apply rel_run. eapply rel_init; exact H.
Qed.

(* ---- integer-index operations: refused iff out of range or the item breaks the rule ---------- *)
Lemma norm_index_some i len p : norm_index i len = Some p ->
  (p < Z.to_nat len)%nat /\ Z.of_nat p = (if i <? 0 then i + len else i).
Proof.
  unfold norm_index. destruct ((_ <? 0) || (len <=? _)) eqn:E; [discriminate|].
  intros H. inversion H. destruct (i <? 0); lia.
Qed.

Lemma norm_index_none i len : norm_index i len = None <-> ~ (- len <= i < len).
Proof.
  unfold norm_index. destruct (i <? 0) eqn:Ei; destruct ((_ <? 0) || (len <=? _)) eqn:E;
    split; try discriminate; try reflexivity; intros; try lia; exfalso; lia.
Qed.

Theorem setitem_int_accepts s i x : Inv s -> - zlen (items s) <= i < zlen (items s) ->
  init_check (is_root s) (is_sr s) x = None -> snd (setitem_int s i x) = None.
Proof.
  intros HI Hi Hc. unfold setitem_int.
  destruct (norm_index i (zlen (items s))) as [p|] eqn:En; [|apply norm_index_none in En; tauto].
  apply norm_index_some in En. destruct En as [Hp _]. unfold zlen in Hp. rewrite Nat2Z.id in Hp.
  destruct (nth_error (items s) p) as [old|] eqn:Eo; [|apply nth_error_None in Eo; lia].
  cbn [first_err]. unfold set_check. rewrite Hc.
  destruct (finish_set_inv s (firstn p (items s) ++ x :: skipn (S p) (items s)) [old] [x]
              (firstn p (items s) ++ skipn (S p) (items s)) HI) as (f' & -> & _); [| |reflexivity].
  - rewrite (nth_error_split3 _ _ _ Eo) at 1. cbn [app]. symmetry. apply Permutation_middle.
  - cbn [app]. symmetry. apply Permutation_middle.
Qed.

Theorem setitem_int_out_of_range s i x : ~ (- zlen (items s) <= i < zlen (items s)) ->
  setitem_int s i x = (s, Some EINDEX).
Proof. intros H. unfold setitem_int. apply norm_index_none in H. now rewrite H. Qed.

Theorem delitem_int_accepts s i : Inv s -> - zlen (items s) <= i < zlen (items s) ->
  snd (delitem_int s i) = None /\
  exists p old, nth_error (items s) p = Some old /\
    Z.of_nat p = (if i <? 0 then i + zlen (items s) else i) /\
    items (fst (delitem_int s i)) = firstn p (items s) ++ skipn (S p) (items s).
Proof.
  intros HI Hi. unfold delitem_int.
  destruct (norm_index i (zlen (items s))) as [p|] eqn:En; [|apply norm_index_none in En; tauto].
  apply norm_index_some in En. destruct En as [Hp Hp2]. unfold zlen in Hp. rewrite Nat2Z.id in Hp.
  destruct (nth_error (items s) p) as [old|] eqn:Eo; [|apply nth_error_None in Eo; lia].
  destruct (finish_del_inv s (firstn p (items s) ++ skipn (S p) (items s)) [old] HI) as (f' & -> & _).
  - rewrite (nth_error_split3 _ _ _ Eo) at 1. cbn [app]. symmetry. apply Permutation_middle.
  - split; [reflexivity|]. exists p, old. repeat split; assumption.
Qed.

Theorem delitem_int_out_of_range s i : ~ (- zlen (items s) <= i < zlen (items s)) ->
  delitem_int s i = (s, Some EINDEX).
Proof. intros H. unfold delitem_int. apply norm_index_none in H. now rewrite H. Qed.
