(* C15 - model of SR / KO documents: content tree, reference search, evidence
   partition and grouping, read-back, 3-D coordinate rejection, verification
   guard, parsing dispatch.
   Mirrors (src/highdicom):
     sr/utils.py  find_content_items, _create_references, collect_evidence
     sr/sop.py    _SR.__init__ (guards + the arguments it only records: institution /
                  department name, performed procedure codes, requested procedures),
                  _collect_predecessors, from_dataset,
                  get_evidence, get_evidence_series, EnhancedSR, ComprehensiveSR,
                  Comprehensive3DSR, srread
     ko/sop.py    KeyObjectSelectionDocument.__init__, resolve_reference
     ko/content.py KeyObjectSelection.__init__ (reference items)
   UIDs (instance, class, study, series) are integers (the harness numbers
   them); Python dicts / defaultdicts are insertion-ordered association lists;
   sets are lists used through membership only.  NO proofs in this file. *)
From Coq Require Import String ZArith List Bool.
From HD Require Import Base.Val.
Import ListNotations.
Open Scope Z_scope.

(* ---- content tree ------------------------------------------------------ *)
Inductive vt := CONTAINER | TEXT | CODE | NUM | IMAGE | COMPOSITE | SCOORD | SCOORD3D | UIDREF
               | DATE | TIME | DATETIME | PNAME | TCOORD | WAVEFORM.

Definition vt_code (t : vt) : Z :=
  match t with
  | CONTAINER => 0 | TEXT => 1 | CODE => 2 | NUM => 3 | IMAGE => 4
  | COMPOSITE => 5 | SCOORD => 6 | SCOORD3D => 7 | UIDREF => 8
  | DATE => 9 | TIME => 10 | DATETIME => 11 | PNAME => 12 | TCOORD => 13 | WAVEFORM => 14
  end.
Definition vt_eqb (a b : vt) : bool := vt_code a =? vt_code b.

(* value type, concept-name code value, relationship type (0 = none,
   1 CONTAINS, 2 HAS PROPERTIES, 3 INFERRED FROM, 4 SELECTED FROM),
   referenced (instance uid, class uid) if the item carries a
   ReferencedSOPSequence, OPTIONAL ATTRIBUTES of the item as (key, values)
   pairs in key order (everything an item may carry besides the above: the
   harness numbers them - 1 ContentTemplateSequence (template identifier),
   2 ContinuityOfContent = SEPARATE, 3 NumericValueQualifierCodeSequence,
   4 integer NumericValue without FloatingPointValue, 5 ReferencedFrameNumber,
   6 ReferencedSegmentNumber, 7 PixelOriginInterpretation, 8 FiducialUID,
   9 multi-point graphic, 10/11/12 the TCOORD alternatives, 13
   ReferencedWaveformChannels; the attributes that the CODED ENTRIES of the
   item carry beyond code value / scheme designator / meaning (long / URN
   form of the value, scheme version, context group identification and
   extension, mapping resource, equivalent codes - numbered by the harness):
   14 of the concept name (ConceptNameCodeSequence[0]), 15 of the value of a
   CODE item, 16 of the unit and 17 of the qualifier of a NUM item;
   >= 20 attributes that no highdicom constructor
   writes, e.g. 20 ObservationUID, 21 ObservationDateTime),
   children (ContentSequence; [] = absent or empty) *)
Definition attrs := list (Z * list Z).
Inductive item :=
  Item (t : vt) (tag : Z) (rel : Z) (ref : option (Z * Z)) (ats : attrs) (kids : list item).

Definition i_vt (it : item) := match it with Item t _ _ _ _ _ => t end.
Definition i_tag (it : item) := match it with Item _ g _ _ _ _ => g end.
Definition i_rel (it : item) := match it with Item _ _ r _ _ _ => r end.
Definition i_ref (it : item) := match it with Item _ _ _ r _ _ => r end.
Definition i_attrs (it : item) := match it with Item _ _ _ _ a _ => a end.
Definition i_kids (it : item) := match it with Item _ _ _ _ _ k => k end.

(* ---- find_content_items -------------------------------------------------- *)
Record query := Query { q_name : option Z; q_vt : option vt; q_rel : option Z }.

Definition matches (q : query) (it : item) : bool :=
  (match q_name q with None => true | Some n => i_tag it =? n end) &&
  (match q_vt q with None => true | Some t => vt_eqb (i_vt it) t end) &&
  (match q_rel q with None => true
                    | Some r => if i_rel it =? 0 then false else i_rel it =? r end).

(* search_tree on ONE item of node.ContentSequence: the item itself if it
   matches, then (recursive only) its own children, in document order *)
Fixpoint find_item (recursive : bool) (p : item -> bool) (it : item) : list item :=
  (if p it then [it] else []) ++
  (if recursive
   then match it with Item _ _ _ _ _ ks => flat_map (find_item recursive p) ks end
   else []).

Definition search_tree (recursive : bool) (p : item -> bool) (node : item) : list item :=
  flat_map (find_item recursive p) (i_kids node).

(* has_cs = hasattr(dataset, 'ContentSequence') of the dataset passed in *)
Definition find_content_items (has_cs : bool) (q : query) (recursive : bool) (node : item)
  : res (list item) :=
  if has_cs then Ok (search_tree recursive (matches q) node) else Err "AttributeError".

Definition has_vt (t : vt) (it : item) : bool := vt_eqb (i_vt it) t.

(* ---- insertion-ordered grouping (defaultdict(list)) --------------------- *)
Section Group.
  Context {K V : Type} (eqb : K -> K -> bool).
  Fixpoint group_add (k : K) (v : V) (g : list (K * list V)) : list (K * list V) :=
    match g with
    | [] => [(k, [v])]
    | (k', vs) :: g' =>
        if eqb k k' then (k', vs ++ [v]) :: g' else (k', vs) :: group_add k v g'
    end.
End Group.

Record evd := Evd { e_uid : Z; e_cls : Z; e_study : Z; e_series : Z }.
Definition inst := (Z * Z)%type.                        (* instance uid, class uid *)
Definition sgroups := list ((Z * Z) * list inst).       (* (study, series) -> instances *)
Definition refs_t := list (Z * list (Z * list inst)).   (* study -> series -> instances *)

Definition pair_eqb (a b : Z * Z) : bool := (fst a =? fst b) && (snd a =? snd b).
Definition mem (u : Z) (l : list Z) : bool := existsb (Z.eqb u) l.

(* _create_references *)
Definition create_references (g : sgroups) : refs_t :=
  fold_left (fun acc e => group_add Z.eqb (fst (fst e)) (snd (fst e), snd e) acc) g [].

(* ref.ReferencedSOPSequence[0].ReferencedSOPInstanceUID for every reference *)
Fixpoint ref_uids_of (l : list item) : res (list Z) :=
  match l with
  | [] => Ok []
  | it :: r =>
      match i_ref it with
      | None => Err "AttributeError"
      | Some uc => bind (ref_uids_of r) (fun us => Ok (fst uc :: us))
      end
  end.

Definition cstate := (list Z * sgroups * sgroups)%type.
Definition collect_step (R : list Z) (st : cstate) (e : evd) : cstate :=
  match st with
  | (seen, rg, ug) =>
      if mem (e_uid e) seen then st
      else
        let it := (e_uid e, e_cls e) in
        let k := (e_study e, e_series e) in
        if mem (e_uid e) R
        then (e_uid e :: seen, group_add pair_eqb k it rg, ug)
        else (e_uid e :: seen, rg, group_add pair_eqb k it ug)
  end.

Definition references (root : item) : list item :=
  search_tree true (has_vt IMAGE) root ++ search_tree true (has_vt COMPOSITE) root.

Definition collect_evidence (has_cs : bool) (ev : list evd) (root : item)
  : res (refs_t * refs_t) :=
  if negb has_cs then Err "AttributeError"
  else
    bind (ref_uids_of (references root)) (fun R =>
      match fold_left (collect_step R) ev ([], [], []) with
      | (seen, rg, ug) =>
          if forallb (fun u => mem u seen) R
          then Ok (create_references rg, create_references ug)
          else Err "ValueError"
      end).

(* ---- documents ------------------------------------------------------------ *)
Inductive sr_class := Enhanced | Comprehensive | Comprehensive3D.
Definition class_code (c : sr_class) : Z :=
  match c with Enhanced => 0 | Comprehensive => 1 | Comprehensive3D => 2 end.
Definition ko_code : Z := 3.

Inductive content_arg := CDataset (it : item) | CSequence (l : list item).

(* arguments that _SR.__init__ (and every subclass constructor, which hands them through) only
   RECORDS - they take part in no guard: institution_name, institutional_department_name,
   performed_procedure_codes (code values), requested_procedures (procedure ids); numbered by
   the harness, None = argument not given *)
Record extras := Extras {
  x_institution : option Z; x_department : option Z;
  x_codes : option (list Z); x_requests : option (list Z)
}.
Definition no_extras : extras := Extras None None None None.

(* what a document carries of them: InstitutionName, InstitutionalDepartmentName,
   PerformedProcedureCodeSequence (None = attribute absent), ReferencedRequestSequence *)
Record recorded := Recorded {
  w_institution : option Z; w_department : option Z;
  w_codes : option (list Z); w_requests : option (list Z)
}.
Definition no_recorded : recorded := Recorded None None None None.

(* the department name is written only together with an institution name; the performed
   procedure code sequence is always written (empty when no codes were given) *)
Definition record_extras (x : extras) : recorded :=
  Recorded (x_institution x)
           (match x_institution x with Some _ => x_department x | None => None end)
           (Some (match x_codes x with Some l => l | None => [] end))
           (x_requests x).

Record sr_args := Args {
  a_evidence : list evd;
  a_content : content_arg;
  a_root_cs : bool;                 (* root dataset has a ContentSequence *)
  a_ts_ok : bool;                   (* transfer syntax is implicit/explicit VR LE *)
  a_complete : bool; a_final : bool; a_verified : bool;
  a_observer : option Z; a_org : option Z;
  a_previous : option (list evd);
  a_record : bool;
  a_extras : extras
}.

Record doc := Doc {
  d_cls : Z;
  d_content : item;
  d_current : refs_t;               (* [] = attribute absent *)
  d_other : refs_t;                 (* [] = attribute absent *)
  d_pred : option refs_t;
  d_complete : bool; d_verified : bool; d_final : bool;
  d_observer : option (Z * Z);    (* VerifyingObserverSequence[0]: name, organization *)
  d_extras : recorded
}.

(* _collect_predecessors: grouping WITHOUT de-duplication *)
Definition collect_predecessors (pv : list evd) : refs_t :=
  create_references
    (fold_left (fun g e => group_add pair_eqb (e_study e, e_series e) (e_uid e, e_cls e) g) pv []).

(* a verification detail (verifying_observer_name / verifying_organization) counts as given when
   the argument is neither None nor the empty string; the harness numbers the empty string 0 *)
Definition given (o : option Z) : bool :=
  match o with Some n => negb (n =? 0) | None => false end.

Definition sr_base_init (cls : Z) (a : sr_args) : res doc :=
  match a_evidence a with
  | [] => Err "ValueError"
  | _ =>
    if negb (a_ts_ok a) then Err "ValueError"
    else if a_verified a && negb (given (a_observer a)) then Err "ValueError"
    else if a_verified a && negb (given (a_org a)) then Err "ValueError"
    else
      bind (match a_content a with
            | CDataset it => Ok it
            | CSequence [it] => Ok it
            | CSequence _ => Err "ValueError"
            end) (fun root =>
      (* ContentSequence([content_item], is_root=True) *)
      if negb (i_rel root =? 0) then Err "AttributeError"
      else if negb (vt_eqb (i_vt root) CONTAINER) then Err "TypeError"
      else
        bind (collect_evidence (a_root_cs a) (a_evidence a) root) (fun cu =>
          Ok (Doc cls root (fst cu)
                  (if a_record a then snd cu else [])
                  (match a_previous a with
                   | None => None | Some pv => Some (collect_predecessors pv) end)
                  (a_complete a) (a_verified a) (a_final a)
                  (if a_verified a
                   then match a_observer a, a_org a with
                        | Some n, Some o => Some (n, o) | _, _ => None end
                   else None)
                  (record_extras (a_extras a)))))
  end.

Definition root_of (c : content_arg) : option item :=
  match c with CDataset it => Some it | CSequence (it :: _) => Some it | CSequence [] => None end.

Definition has_scoord3d (root : item) : bool :=
  match search_tree true (has_vt SCOORD3D) root with [] => false | _ => true end.

Definition sr_init (c : sr_class) (a : sr_args) : res doc :=
  bind (sr_base_init (class_code c) a) (fun d =>
    match c with
    | Comprehensive3D => Ok d
    | _ => if has_scoord3d (d_content d) then Err "ValueError" else Ok d
    end).

(* ---- read-back --------------------------------------------------------------- *)
Definition flatten (r : refs_t) : list (Z * Z * Z * Z) :=        (* study, series, uid, class *)
  flat_map (fun s => flat_map (fun se => map (fun i => (fst s, fst se, fst i, snd i)) (snd se)) (snd s)) r.
Definition flatten_series (r : refs_t) : list (Z * Z) :=
  flat_map (fun s => map (fun se => (fst s, fst se)) (snd s)) r.

Section Dedup.
  Context {A : Type} (eqb : A -> A -> bool).
  (* list(dict.fromkeys(l)) : first occurrences, order kept *)
  Fixpoint dedup_from (seen : list A) (l : list A) : list A :=
    match l with
    | [] => []
    | x :: r => if existsb (eqb x) seen then dedup_from seen r else x :: dedup_from (x :: seen) r
    end.
  Definition dedup (l : list A) : list A := dedup_from [] l.
End Dedup.

Definition t4_eqb (a b : Z * Z * Z * Z) : bool :=
  match a, b with (a1, a2, a3, a4), (b1, b2, b3, b4) =>
    (a1 =? b1) && (a2 =? b2) && (a3 =? b3) && (a4 =? b4) end.

Definition get_evidence (d : doc) (current_only : bool) : list (Z * Z * Z * Z) :=
  dedup t4_eqb (flatten (d_current d) ++ (if current_only then [] else flatten (d_other d))).
Definition get_evidence_series (d : doc) (current_only : bool) : list (Z * Z) :=
  dedup pair_eqb (flatten_series (d_current d) ++
                  (if current_only then [] else flatten_series (d_other d))).

(* ---- parsing: X.from_dataset and srread --------------------------------------
   The file written from a document and read back is modelled as the document
   value itself (premise W1: pydicom writer/reader round trip).
   _SR.from_dataset REBUILDS the root item from five attributes of the parsed
   dataset - ConceptNameCodeSequence, ContentSequence, ValueType,
   ContinuityOfContent and (if present) ContentTemplateSequence - and converts it
   with MeasurementReport.from_sequence when the template identifier is 1500,
   with ContentSequence.from_sequence(is_root=True) otherwise; both convert the
   whole tree in place and differ only in the Python type of `.content`. *)
Definition k_template : Z := 1.
Definition k_separate : Z := 2.
(* the concept name is copied as the whole ConceptNameCodeSequence, i.e. the coded entry
   with every attribute it carries (key 14), not just the code value *)
Definition k_name_entry : Z := 14.
Definition k_code_entry : Z := 15.
Definition k_unit_entry : Z := 16.
Definition k_qualifier_entry : Z := 17.
Definition root_key (k : Z) : bool := (k =? k_template) || (k =? k_separate) || (k =? k_name_entry).

Definition reroot (it : item) : item :=
  Item (i_vt it) (i_tag it) 0 None
       (filter (fun kv : Z * list Z => root_key (fst kv)) (i_attrs it)) (i_kids it).

Fixpoint attr_get (k : Z) (a : attrs) : option (list Z) :=
  match a with
  | [] => None
  | (k', v) :: r => if k' =? k then Some v else attr_get k r
  end.

(* the template identifier of ContentTemplateSequence[0] is '1500' *)
Definition is_report (it : item) : bool :=
  match attr_get k_template (i_attrs it) with
  | Some [t] => t =? 1500
  | _ => false
  end.

Definition parse_root (it : item) : res item :=
  if is_report it
  then (if vt_eqb (i_vt it) CONTAINER then Ok (reroot it) else Err "ValueError")
  else (if vt_eqb (i_vt it) CONTAINER then Ok (reroot it) else Err "TypeError").

Definition set_content (d : doc) (it : item) : doc :=
  Doc (d_cls d) it (d_current d) (d_other d) (d_pred d)
      (d_complete d) (d_verified d) (d_final d) (d_observer d) (d_extras d).

Definition sr_from_dataset (target : sr_class) (has_cs : bool) (d : doc) : res doc :=
  let base := if has_cs
              then bind (parse_root (d_content d)) (fun r => Ok (set_content d r))
              else Err "ValueError" in
  match target with
  | Enhanced => base                                   (* no SOP class check *)
  | Comprehensive => if d_cls d =? 1 then base else Err "ValueError"
  | Comprehensive3D => if d_cls d =? 2 then base else Err "ValueError"
  end.

Definition class_of_code (c : Z) : option sr_class :=
  if c =? 0 then Some Enhanced else if c =? 1 then Some Comprehensive
  else if c =? 2 then Some Comprehensive3D else None.

Definition srread (d : doc) : res (sr_class * doc) :=
  match class_of_code (d_cls d) with
  | Some c => bind (sr_from_dataset c true d) (fun d' => Ok (c, d'))
  | None => Err "RuntimeError"
  end.

(* ---- Key Object Selection ---------------------------------------------------- *)
(* KeyObjectSelection.__init__: optional description TEXT item, then one
   IMAGE / COMPOSITE item per referenced object, all CONTAINS, flat *)
Definition ko_ref_item (r : Z * Z * bool) : item :=
  match r with (u, c, img) => Item (if img then IMAGE else COMPOSITE) 260753009 1 (Some (u, c)) [] [] end.

(* tx: what the coded entry given as document title carries beyond value / scheme / meaning
   ([] = nothing: no attribute 14) *)
Definition name_entry_attrs (tx : list Z) : attrs :=
  match tx with [] => [] | _ => [(k_name_entry, tx)] end.

Definition ko_content (title : Z) (tx : list Z) (descr : option Z) (refs : list (Z * Z * bool)) : res item :=
  match refs with
  | [] => Err "ValueError"
  | _ => Ok (Item CONTAINER title 0 None ((1, [2010]) :: name_entry_attrs tx)   (* template_id='2010' *)
               ((match descr with Some _ => [Item TEXT 113012 1 None [] []] | None => [] end) ++
                map ko_ref_item refs))
  end.

Definition ko_init (ev : list evd) (ts_ok : bool) (root : item) : res doc :=
  match ev with
  | [] => Err "ValueError"
  | _ =>
    if negb ts_ok then Err "ValueError"
    else bind (collect_evidence true ev root) (fun cu =>
      match fst cu with
      | _ :: _ :: _ => Err "ValueError"          (* more than one study *)
      | [] => Err "AttributeError"               (* evidence sequence never set *)
      | [_] => Ok (Doc ko_code root (fst cu) [] None false false false None no_recorded)
      end)
  end.

Definition resolve_reference (d : doc) (u : Z) : res (Z * Z * Z) :=
  match filter (fun t : Z * Z * Z * Z => match t with (_, _, u', _) => u' =? u end) (flatten (d_current d)) with
  | [] => Err "ValueError"
  | l => match last l (0, 0, 0, 0) with (st, se, u', _) => Ok (st, se, u') end
  end.

(* KeyObjectSelection.get_references(value_type, sop_class_uid): the IMAGE / COMPOSITE /
   WAVEFORM children of the root item, optionally of one value type and of one referenced
   SOP class; any other value type asked for is refused.  (An item of a reference value
   type without ReferencedSOPSequence cannot be built with the item classes; it is
   modelled as not matching a class filter.) *)
Definition ref_vt (t : vt) : bool := vt_eqb t IMAGE || vt_eqb t COMPOSITE || vt_eqb t WAVEFORM.
Definition cls_ok (cf : option Z) (it : item) : bool :=
  match cf with
  | None => true
  | Some c => match i_ref it with Some uc => snd uc =? c | None => false end
  end.
Definition ko_get_references (vf : option vt) (cf : option Z) (root : item) : res (list item) :=
  match vf with
  | Some t => if ref_vt t
              then Ok (filter (fun it => vt_eqb (i_vt it) t && cls_ok cf it) (i_kids root))
              else Err "ValueError"
  | None => Ok (filter (fun it => ref_vt (i_vt it) && cls_ok cf it) (i_kids root))
  end.

(* KeyObjectSelectionDocument.from_dataset (file = document value, premise W1): SOP class
   check; the root item is REBUILT from ConceptNameCodeSequence, ContentSequence,
   ContentTemplateSequence, ValueType and ContinuityOfContent (AttributeError when one is
   absent); ContainerContentItem.from_dataset (value type) and
   KeyObjectSelection.from_sequence (template 2010) check it; the reference table is rebuilt
   from CurrentRequestedProcedureEvidenceSequence (AttributeError when absent). *)
Definition ko_from_dataset (has_cs : bool) (d : doc) : res doc :=
  if negb (d_cls d =? ko_code) then Err "ValueError"
  else if negb has_cs then Err "AttributeError"
  else match attr_get k_template (i_attrs (d_content d)) with
       | None => Err "AttributeError"
       | Some tl =>
           if negb (vt_eqb (i_vt (d_content d)) CONTAINER) then Err "ValueError"
           else match tl with
                | [] => Err "IndexError"
                | t :: _ =>
                    if negb (t =? 2010) then Err "ValueError"
                    else match d_current d with
                         | [] => Err "AttributeError"
                         | _ => Ok (set_content d (reroot (d_content d)))
                         end
                end
       end.

(* what the correspondence run does to a written KO document before parsing it:
   0 nothing, 1 SOP class := Comprehensive SR, 2 template identifier := 2000,
   3 ContentTemplateSequence deleted, 4 CurrentRequestedProcedureEvidenceSequence deleted,
   5 ValueType := TEXT, 6 ContentSequence deleted; returns (has ContentSequence, document) *)
Definition set_attrs (it : item) (a : attrs) : item :=
  Item (i_vt it) (i_tag it) (i_rel it) (i_ref it) a (i_kids it).
Definition ko_tamper (t : Z) (d : doc) : bool * doc :=
  let c := d_content d in
  if t =? 1 then (true, Doc 1 c (d_current d) (d_other d) (d_pred d) (d_complete d) (d_verified d) (d_final d) (d_observer d) (d_extras d))
  else if t =? 2 then (true, set_content d (set_attrs c (map (fun kv : Z * list Z =>
                               if fst kv =? k_template then (fst kv, [2000]) else kv) (i_attrs c))))
  else if t =? 3 then (true, set_content d (set_attrs c (filter (fun kv : Z * list Z =>
                               negb (fst kv =? k_template)) (i_attrs c))))
  else if t =? 4 then (true, Doc (d_cls d) c [] (d_other d) (d_pred d) (d_complete d) (d_verified d) (d_final d) (d_observer d) (d_extras d))
  else if t =? 5 then (true, set_content d (Item TEXT (i_tag c) (i_rel c) (i_ref c) (i_attrs c) (i_kids c)))
  else if t =? 6 then (false, set_content d (Item (i_vt c) (i_tag c) (i_rel c) (i_ref c) (i_attrs c) []))
  else (true, d).

(* ---- boundary functions ------------------------------------------------------- *)
Fixpoint item_val (it : item) : val :=
  match it with
  | Item t g r rf ats ks =>
      VL [VZ (vt_code t); VZ g; VZ r;
          match rf with None => VNone | Some uc => VL [VZ (fst uc); VZ (snd uc)] end;
          VL (map item_val ks);
          VL (map (fun kv : Z * list Z => VL [VZ (fst kv); vz_list (snd kv)]) ats)]
  end.

Definition inst_val (i : inst) : val := VL [VZ (fst i); VZ (snd i)].
Definition refs_val (r : refs_t) : val :=
  match r with
  | [] => VNone
  | _ => VL (map (fun s => VL [VZ (fst s);
               VL (map (fun se => VL [VZ (fst se); VL (map inst_val (snd se))]) (snd s))]) r)
  end.
Definition t4_val (t : Z * Z * Z * Z) : val :=
  match t with (a, b, c, d) => VL [VZ a; VZ b; VZ c; VZ d] end.
Definition t2_val (t : Z * Z) : val := VL [VZ (fst t); VZ (snd t)].

Definition doc_val (d : doc) : val :=
  VL [VZ (d_cls d); item_val (d_content d);
      refs_val (d_current d); refs_val (d_other d);
      match d_pred d with None => VNone | Some [] => VL [] | Some p => refs_val p end;
      VL [VB (d_complete d); VB (d_verified d); VB (d_final d);
          match d_observer d with None => VNone | Some no => VL [VZ (fst no); VZ (snd no)] end];
      VL (map t4_val (get_evidence d false)); VL (map t4_val (get_evidence d true));
      VL (map t2_val (get_evidence_series d false)); VL (map t2_val (get_evidence_series d true));
      VL [vopt VZ (w_institution (d_extras d)); vopt VZ (w_department (d_extras d));
          vopt vz_list (w_codes (d_extras d)); vopt vz_list (w_requests (d_extras d))]].

Definition run_find (has_cs : bool) (q : query) (recursive : bool) (node : item) : val :=
  vres (fun l => VL (map item_val l)) (find_content_items has_cs q recursive node).

Definition run_collect (has_cs : bool) (ev : list evd) (root : item) : val :=
  vres (fun cu => VL [refs_val (fst cu); refs_val (snd cu)]) (collect_evidence has_cs ev root).

Definition run_doc (c : sr_class) (a : sr_args) : val := vres doc_val (sr_init c a).

(* build, write, srread: class of the parsed object and its observables *)
Definition parsed_val (d : doc) : val :=
  VL [VB (is_report (d_content d)); doc_val d].  (* .content is a MeasurementReport *)

Definition run_roundtrip (c : sr_class) (a : sr_args) : val :=
  vres (fun cd => VL [VZ (class_code (fst cd)); parsed_val (snd cd)])
       (bind (sr_init c a) srread).

(* X.from_dataset on a document of class c *)
Definition run_from_dataset (c target : sr_class) (a : sr_args) : val :=
  vres parsed_val (bind (sr_init c a) (sr_from_dataset target true)).

Definition run_ko (ev : list evd) (ts_ok : bool) (title : Z) (tx : list Z) (descr : option Z)
           (refs : list (Z * Z * bool)) (queries : list Z) : val :=
  vres (fun d => VL [item_val (d_content d); refs_val (d_current d); refs_val (d_other d);
                     VL (map (fun u => vres (fun t => match t with (a, b, c) => VL [VZ a; VZ b; VZ c] end)
                                            (resolve_reference d u)) queries)])
       (bind (ko_content title tx descr refs) (ko_init ev ts_ok)).

(* build a KO document, write it, (tamper,) KeyObjectSelectionDocument.from_dataset:
   content, evidence, resolve_reference and get_references of the PARSED document *)
Definition run_ko_parse (ev : list evd) (title : Z) (tx : list Z) (descr : option Z) (refs : list (Z * Z * bool))
           (tamper : Z) (queries : list Z) (vf : option vt) (cf : option Z) : val :=
  vres (fun d => VL [item_val (d_content d); refs_val (d_current d); refs_val (d_other d);
                     VL (map (fun u => vres (fun t => match t with (a, b, c) => VL [VZ a; VZ b; VZ c] end)
                                            (resolve_reference d u)) queries);
                     vres (fun l => VL (map item_val l)) (ko_get_references vf cf (d_content d))])
       (bind (bind (ko_content title tx descr refs) (ko_init ev true))
             (fun d => ko_from_dataset (fst (ko_tamper tamper d)) (snd (ko_tamper tamper d)))).

(* srread of a written KO document: unsupported SOP class *)
Definition run_ko_srread (ev : list evd) (title : Z) (tx : list Z) (refs : list (Z * Z * bool)) : val :=
  vres (fun cd => VZ (class_code (fst cd)))
       (bind (bind (ko_content title tx None refs) (ko_init ev true)) srread).

(* ==== references derived from a segmentation object ============================
   sr/content.py ReferencedSegment.from_segmentation,
                 ReferencedSegmentationFrame.from_segmentation
   A segmentation is abstracted to what these two functions read:
   per frame its segment number and its DerivationImageSequence (absent, or a
   list of items each with an absent or present SourceImageSequence); the header
   fallback ReferencedSeriesSequence[0]. *)
Record src := Src { s_uid : Z; s_cls : Z; s_frames : option (list Z) }.
Record seg_frame := SFrame { f_segment : Z; f_drv : option (list (option (list src))) }.
Record refseries := RefSeries { rs_instances : option (list (Z * Z)); rs_series : option Z }.
Record seg := Seg {
  g_is_seg : bool;                  (* SOP class is (label map) segmentation storage *)
  g_uid : Z;
  g_nframes : Z;                    (* NumberOfFrames *)
  g_tiled : bool;                   (* has TotalPixelMatrixRows *)
  g_frames : list seg_frame;        (* PerFrameFunctionalGroupsSequence *)
  g_refseries : option refseries
}.

Definition frame_at (g : seg) (f : Z) : option seg_frame := nth_error (g_frames g) (Z.to_nat (f - 1)).

(* 1-based numbers of the frames of a segment *)
Fixpoint frames_of_segment (sn : Z) (i : Z) (l : list seg_frame) : list Z :=
  match l with
  | [] => []
  | fi :: r => (if f_segment fi =? sn then [i] else []) ++ frames_of_segment sn (i + 1) r
  end.

(* ---- ReferencedSegment.from_segmentation ---- *)
Record rs_result := RS {
  r_seg : Z; r_segment : Z; r_frames : option (list Z);
  r_sources : list src; r_series : option Z }.

Fixpoint rs_check_frames (g : seg) (sn : Z) (fs : list Z) : res (list seg_frame) :=
  match fs with
  | [] => Ok []
  | f :: rest =>
      if (f <? 1) || (g_nframes g <? f) then Err "ValueError"
      else match frame_at g f with
           | None => Err "IndexError"
           | Some fi =>
               if negb (f_segment fi =? sn) then Err "ValueError"
               else bind (rs_check_frames g sn rest) (fun l => Ok (fi :: l))
           end
  end.

Definition frame_sources (fi : seg_frame) : list src :=
  flat_map (fun d => match d with Some l => l | None => [] end)
           (match f_drv fi with Some ds => ds | None => [] end).

(* first occurrence of each instance uid *)
Fixpoint dedup_src (seen : list Z) (l : list src) : list src :=
  match l with
  | [] => []
  | s :: r => if mem (s_uid s) seen then dedup_src seen r else s :: dedup_src (s_uid s :: seen) r
  end.

Definition rs_from_segmentation (g : seg) (sn : Z) (fns : option (list Z)) : res rs_result :=
  if negb (g_is_seg g) then Err "ValueError"
  else
    bind (match fns with
          | Some fs => rs_check_frames g sn fs
          | None => match filter (fun fi => f_segment fi =? sn) (g_frames g) with
                    | [] => Err "ValueError"
                    | l => Ok l
                    end
          end) (fun infos =>
    match dedup_src [] (flat_map frame_sources infos) with
    | s :: l => Ok (RS (g_uid g) sn fns (s :: l) None)
    | [] =>
        match g_refseries g with
        | None => Err "AttributeError"
        | Some rs =>
            match rs_instances rs with
            | Some [] => Err "ValueError"          (* neither images nor series *)
            | Some l => Ok (RS (g_uid g) sn fns (map (fun uc => Src (fst uc) (snd uc) None) l) None)
            | None => match rs_series rs with
                      | Some se => Ok (RS (g_uid g) sn fns [] (Some se))
                      | None => Err "AttributeError"
                      end
            end
        end
    end).

(* ---- ReferencedSegmentationFrame.from_segmentation ---- *)
Inductive fn_arg := FNone | FInt (z : Z) | FList (l : list Z).
Record rsf_result := RSF { q_seg : Z; q_frames : list Z; q_segment : Z; q_src : src }.

(* the single source image of one frame, if its derivation names one *)
Definition frame_source (fi : seg_frame) : res (option src) :=
  match f_drv fi with
  | None => Ok None
  | Some [d] => match d with
                | None => Ok None
                | Some [s] => Ok (Some s)
                | Some _ => Err "ValueError"
                end
  | Some _ => Err "ValueError"
  end.

(* the loop over the requested frames: every frame is range-checked and its
   segment number collected; the source image is that of the first frame whose
   derivation names one *)
Fixpoint rsf_loop (g : seg) (fns : list Z) (segs : list Z) (found : option src)
  : res (list Z * option src) :=
  match fns with
  | [] => Ok (segs, found)
  | f :: rest =>
      if (f <? 1) || (g_nframes g <? f) then Err "ValueError"
      else match frame_at g f with
           | None => Err "IndexError"
           | Some fi =>
               match found with
               | Some _ => rsf_loop g rest (segs ++ [f_segment fi]) found
               | None => bind (frame_source fi) (fun os => rsf_loop g rest (segs ++ [f_segment fi]) os)
               end
           end
  end.

Definition rsf_from_segmentation (g : seg) (fa : fn_arg) (sn : option Z) : res rsf_result :=
  if negb (g_is_seg g) then Err "ValueError"
  else
    bind (match fa with
          | FNone =>
              match sn with
              | None => Err "TypeError"
              | Some n =>
                  match frames_of_segment n 1 (g_frames g) with
                  | [] => Err "ValueError"
                  | [f] => Ok [f]
                  | l => if g_tiled g then Ok l else Err "ValueError"
                  end
              end
          | FInt z => Ok [z]
          | FList l => Ok l
          end) (fun fns =>
    bind (rsf_loop g fns [] None) (fun sf =>
    bind (match snd sf with
          | Some s => Ok s
          | None =>
              match g_refseries g with
              | None => Err "AttributeError"
              | Some rs => match rs_instances rs with
                           | None => Err "AttributeError"
                           | Some [uc] => Ok (Src (fst uc) (snd uc) None)
                           | Some _ => Err "ValueError"
                           end
              end
          end) (fun s =>
    match fst sf with
    | [] => Err "IndexError"                      (* segment_numbers[0] of an empty list *)
    | n :: more =>
        if negb (forallb (Z.eqb n) more) then Err "ValueError"
        else if match sn with Some m => negb (m =? n) | None => false end then Err "ValueError"
        else Ok (RSF (g_uid g) fns n s)
    end))).

(* ---- boundary functions ---- *)
Definition src_val (s : src) : val :=
  VL [VZ (s_uid s); VZ (s_cls s); vopt vz_list (s_frames s)].
Definition run_segref (g : seg) (sn : Z) (fns : option (list Z)) : val :=
  vres (fun r => VL [VZ (r_seg r); VZ (r_segment r); vopt vz_list (r_frames r);
                     VL (map src_val (r_sources r)); vopt VZ (r_series r)])
       (rs_from_segmentation g sn fns).
(* the same on the abstraction EXTRACTED from a real highdicom Segmentation (instance uids
   numbered by the harness; the segmentation's own uid is not compared) *)
Definition run_segref_real (g : seg) (sn : Z) (fns : option (list Z)) : val :=
  vres (fun r => VL [VZ (r_segment r); vopt vz_list (r_frames r);
                     VL (map src_val (r_sources r)); vopt VZ (r_series r)])
       (rs_from_segmentation g sn fns).
Definition run_segframe_real (g : seg) (fa : fn_arg) (sn : option Z) : val :=
  vres (fun r => VL [vz_list (q_frames r); VZ (q_segment r); src_val (q_src r)])
       (rsf_from_segmentation g fa sn).
Definition run_segframe (g : seg) (fa : fn_arg) (sn : option Z) : val :=
  vres (fun r => VL [VZ (q_seg r); vz_list (q_frames r); VZ (q_segment r); src_val (q_src r)])
       (rsf_from_segmentation g fa sn).

(* ==== session 7: observer contexts of a key object selection, get_observer_contexts, and the
   arguments that KeyObjectSelectionDocument.__init__ only records ==========================
   ko/content.py KeyObjectSelection.__init__ (observer_person_context, observer_device_context),
                 KeyObjectSelection.get_observer_contexts
   sr/templates.py ObserverContext (items: the CODE item 'Observer Type' then the identifying
                 attributes), Person / DeviceObserverIdentifyingAttributes.from_sequence
   ko/sop.py     KeyObjectSelectionDocument.__init__ (institution_name,
                 institutional_department_name, requested_procedures)
   The VALUE of the 'Observer Type' item is the optional attribute 30 of the item: [0] Person,
   [1] Device (the harness decodes it from ConceptCodeSequence). *)
Definition k_value : Z := 30.
Definition t_observer_type : Z := 121005.
Definition rel_obs_context : Z := 5.                       (* HAS OBS CONTEXT *)

Record octx := OCtx { o_type : Z; o_attrs : list item }.
Definition observer_type_item (ty : Z) : item :=
  Item CODE t_observer_type rel_obs_context None [(k_value, [ty])] [].
Definition octx_items (o : octx) : list item := observer_type_item (o_type o) :: o_attrs o.
Definition opt_items (o : option octx) : list item :=
  match o with Some c => octx_items c | None => [] end.
Definition wrong_type (o : option octx) (ty : Z) : bool :=
  match o with Some c => negb (o_type c =? ty) | None => false end.

Definition ko_content_ctx (title : Z) (tx : list Z) (person device : option octx) (descr : option Z)
           (refs : list (Z * Z * bool)) : res item :=
  if wrong_type person 0 then Err "ValueError"
  else if wrong_type device 1 then Err "ValueError"
  else match refs with
       | [] => Err "ValueError"
       | _ => Ok (Item CONTAINER title 0 None ((1, [2010]) :: name_entry_attrs tx)
                    (opt_items person ++ opt_items device ++
                     (match descr with Some _ => [Item TEXT 113012 1 None [] []] | None => [] end) ++
                     map ko_ref_item refs))
       end.

(* ---- get_observer_contexts ---- *)
Definition is_observer_type (it : item) : bool := i_tag it =? t_observer_type.
Definition observer_value (it : item) : option Z :=
  match attr_get k_value (i_attrs it) with Some [v] => Some v | _ => None end.

(* matches = [(i, item) for i, item in enumerate(ContentSequence, 1) if item.name == Observer Type] *)
Fixpoint positions (i : Z) (l : list item) : list (Z * item) :=
  match l with
  | [] => []
  | it :: r => (if is_observer_type it then [(i, it)] else []) ++ positions (i + 1) r
  end.

(* l[a:b] for 0 <= a and (0 <= b or b = -1) *)
Definition py_slice {A : Type} (l : list A) (a b : Z) : list A :=
  let n := Z.of_nat (length l) in
  let b' := if b <? 0 then Z.max 0 (n + b) else b in
  skipn (Z.to_nat a) (firstn (Z.to_nat b') l).

(* attr_codes of the two from_sequence functions, in constructor order (required one first).
   113876 'Device Role in Procedure' is listed since /repo 4fd7c6c (finding D119: it used to be
   dropped by DeviceObserverIdentifyingAttributes.from_sequence). *)
Definition t_device_role : Z := 113876.
Definition person_attr_tags : list Z := [121008; 128774; 121009; 121010; 121011].
Definition device_attr_tags : list Z := [121012; 121013; 121014; 121015; 121016; 121017; t_device_role].

Definition has_tag (t : Z) (sl : list item) : bool := existsb (fun it => i_tag it =? t) sl.
Definition recognised (canon : list Z) (sl : list item) : list Z :=
  filter (fun t => has_tag t sl) canon.
(* X.from_sequence(slice) then the constructor: names of the rebuilt identifying attributes;
   TypeError when the required argument is missing *)
Definition attrs_from_sequence (canon : list Z) (sl : list item) : res (list Z) :=
  match canon with
  | [] => Ok []
  | req :: _ => if has_tag req sl then Ok (recognised canon sl) else Err "TypeError"
  end.

(* one returned context: observer type, names of its identifying attributes *)
Definition ctx_result := (Z * list Z)%type.

Fixpoint observer_loop (kids : list item) (flt : option Z) (ms : list (Z * item))
  : res (list ctx_result) :=
  match ms with
  | [] => Ok []
  | (index, it) :: rest =>
      match observer_value it with
      | None => Err "AttributeError"
      | Some v =>
          if match flt with Some f => negb (v =? f) | None => false end
          then observer_loop kids flt rest
          else
            let next := match rest with (j, _) :: _ => j | [] => -1 end in
            let sl := py_slice kids index next in
            if v =? 1
            then bind (attrs_from_sequence device_attr_tags sl) (fun a =>
                 bind (observer_loop kids flt rest) (fun r => Ok ((1, a) :: r)))
            else if v =? 0
            then bind (attrs_from_sequence person_attr_tags sl) (fun a =>
                 bind (observer_loop kids flt rest) (fun r => Ok ((0, a) :: r)))
            else Err "ValueError"
      end
  end.

Definition ko_observer_contexts (flt : option Z) (root : item) : res (list ctx_result) :=
  observer_loop (i_kids root) flt (positions 1 (i_kids root)).

(* ---- KeyObjectSelectionDocument.__init__ with the arguments it only records ---- *)
Definition ko_record_extras (x : extras) : recorded :=
  Recorded (x_institution x)
           (match x_institution x with Some _ => x_department x | None => None end)
           None                                  (* no PerformedProcedureCodeSequence in a KO document *)
           (x_requests x).
Definition set_recorded_doc (d : doc) (w : recorded) : doc :=
  Doc (d_cls d) (d_content d) (d_current d) (d_other d) (d_pred d)
      (d_complete d) (d_verified d) (d_final d) (d_observer d) w.
Definition ko_init_x (ev : list evd) (ts_ok : bool) (x : extras) (root : item) : res doc :=
  bind (ko_init ev ts_ok root) (fun d => Ok (set_recorded_doc d (ko_record_extras x))).

Definition ctxs_val (r : res (list ctx_result)) : val :=
  vres (fun l => VL (map (fun c : ctx_result => VL [VZ (fst c); vz_list (snd c)]) l)) r.

(* build a KO document with observer contexts and recorded arguments, (write it and parse it with
   KeyObjectSelectionDocument.from_dataset,) content, evidence, recorded attributes and
   get_observer_contexts for every filter asked *)
Definition run_ko_ctx (ev : list evd) (ts_ok : bool) (title : Z) (tx : list Z)
           (person device : option octx) (descr : option Z) (refs : list (Z * Z * bool))
           (x : extras) (parse : bool) (flts : list (option Z)) : val :=
  vres (fun d => VL [item_val (d_content d); refs_val (d_current d); refs_val (d_other d);
                     VL [vopt VZ (w_institution (d_extras d)); vopt VZ (w_department (d_extras d));
                         vopt vz_list (w_codes (d_extras d)); vopt vz_list (w_requests (d_extras d))];
                     VL (map (fun f => ctxs_val (ko_observer_contexts f (d_content d))) flts)])
       (bind (bind (ko_content_ctx title tx person device descr refs) (ko_init_x ev ts_ok x))
             (fun d => if parse then ko_from_dataset true d else Ok d)).

(* ---- the document's own study and patient: inherited from evidence[0] ---------------------------
   _SR.__init__ / KeyObjectSelectionDocument.__init__ hand evidence[0].StudyInstanceUID, PatientID,
   PatientName, StudyID, AccessionNumber, ... to SOPClass.__init__ (and _SR copies the patient and
   study modules of evidence[0]).  The harness gives every supplied record of study s the patient,
   study id and accession number numbered s, so all of them are modelled by the study number of
   the FIRST supplied record - referenced or not, duplicate or not. *)
Definition first_study (ev : list evd) : res Z :=
  match ev with e :: _ => Ok (e_study e) | [] => Err "ValueError" end.
Definition sr_identity (c : sr_class) (a : sr_args) : res Z :=
  bind (sr_init c a) (fun _ => first_study (a_evidence a)).
Definition ko_identity (ev : list evd) (ts_ok : bool) (root : item) : res Z :=
  bind (ko_init ev ts_ok root) (fun _ => first_study ev).
(* study, patient id, study id, accession number - in memory and (parse) after the file round trip *)
Definition identity_val (parse : bool) (s : Z) : val :=
  VL ([VL [VZ s; VZ s; VZ s; VZ s]] ++ (if parse then [VL [VZ s; VZ s; VZ s; VZ s]] else [])).
Definition run_doc_study (c : sr_class) (a : sr_args) (parse : bool) : val :=
  vres (identity_val parse) (sr_identity c a).
Definition run_ko_study (ev : list evd) (ts_ok : bool) (title : Z) (tx : list Z) (descr : option Z)
           (refs : list (Z * Z * bool)) (parse : bool) : val :=
  vres (identity_val parse) (bind (ko_content title tx descr refs) (ko_identity ev ts_ok)).

(* ---- find_content_items by NAME, coded entries of every form --------------------------------------
   search_tree rebuilds the name of every item as CodedConcept(CodeValue | LongCodeValue |
   URNCodeValue, scheme designator, meaning, scheme version) and compares it with the name asked
   for (Code.__eq__): value, scheme designator and scheme version must all be equal.  What the
   name entry of an item carries is its optional attribute 14: feature 2 = long form, 3 = URN form
   (the harness prefixes the value accordingly, so values of different forms differ), 11..19 =
   scheme version v1..v9.  A query name: code number, form (0 / 2 / 3), version (0 = none), and
   whether its scheme designator is the one every generated item uses. *)
Record qname := QName { n_code : Z; n_form : Z; n_version : Z; n_scheme : bool }.
Definition entry_feats (it : item) : list Z :=
  match attr_get k_name_entry (i_attrs it) with Some f => f | None => [] end.
Definition name_form (f : list Z) : Z := if mem 2 f then 2 else if mem 3 f then 3 else 0.
Definition name_version (f : list Z) : Z :=
  match filter (fun x => (11 <=? x) && (x <=? 19)) f with x :: _ => x - 10 | [] => 0 end.
Definition name_matches (n : qname) (it : item) : bool :=
  (i_tag it =? n_code n) && (name_form (entry_feats it) =? n_form n) &&
  (name_version (entry_feats it) =? n_version n) && n_scheme n.
Definition matches_n (n : option qname) (q : query) (it : item) : bool :=
  match n with
  | None => matches q it
  | Some nm => name_matches nm it && matches (Query None (q_vt q) (q_rel q)) it
  end.
Definition find_content_items_n (has_cs : bool) (n : option qname) (q : query) (recursive : bool)
           (node : item) : res (list item) :=
  if has_cs then Ok (search_tree recursive (matches_n n q) node) else Err "AttributeError".
Definition run_find_name (has_cs : bool) (n : option qname) (q : query) (recursive : bool) (node : item) : val :=
  vres (fun l => VL (map item_val l)) (find_content_items_n has_cs n q recursive node).
