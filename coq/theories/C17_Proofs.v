(* C17 - proofs about the coded-concept model. *)
From Coq Require Import String ZArith List Bool Ascii Lia.
From HD Require Import Base.Val C17_Model.
Import ListNotations.
Open Scope string_scope.
Open Scope Z_scope.

(* ---- strings ---------------------------------------------------------------------- *)
Lemma prefix_spec : forall p s, prefix p s = true <-> exists t, s = p ++ t.
Proof.
  induction p as [|a p IH]; intros s.
  - split; [intros _; exists s; reflexivity | intros _; destruct s; reflexivity].
  - destruct s as [|b s]; cbn [prefix].
    + split; [discriminate | intros [t Ht]; discriminate].
    + destruct (ascii_dec a b) as [->|Hne].
      * rewrite IH. split; intros [t Ht]; exists t; cbn [append] in *; [now rewrite Ht | now inversion Ht].
      * split; [discriminate | intros [t Ht]; cbn [append] in Ht; inversion Ht; congruence].
Qed.

Lemma contains_spec : forall pat s, contains pat s = true <-> exists p t, s = p ++ pat ++ t.
Proof.
  intros pat s. induction s as [|c s IH]; cbn [contains].
  - rewrite orb_false_r, prefix_spec. split.
    + intros [t Ht]. exists "", t. exact Ht.
    + intros [p [t Ht]]. destruct p; cbn [append] in Ht; [exists t; exact Ht | discriminate].
  - rewrite orb_true_iff, prefix_spec, IH. split.
    + intros [[t Ht] | [p [t Ht]]].
      * exists "", t. exact Ht.
      * exists (String c p), t. cbn [append]. now rewrite Ht.
    + intros [p [t Ht]]. destruct p as [|c' p]; cbn [append] in Ht.
      * left. exists t. exact Ht.
      * right. inversion Ht. exists p, t. reflexivity.
Qed.

Lemma is_uri_form_spec : forall v,
  is_uri_form v = true <-> (exists t, v = "urn" ++ t) \/ (exists p t, v = p ++ "://" ++ t).
Proof. intros v. unfold is_uri_form. now rewrite orb_true_iff, prefix_spec, contains_spec. Qed.

Lemma ostr_eqb_eq : forall a b, ostr_eqb a b = true <-> a = b.
Proof.
  intros [x|] [y|]; cbn [ostr_eqb]; try (split; [discriminate|intros H; discriminate]); try tauto.
  rewrite String.eqb_eq. split; [now intros -> | now intros [= ->]].
Qed.

Lemma view_eqb_eq : forall a b, view_eqb a b = true <-> a = b.
Proof.
  intros [[va sa] ra] [[vb sb] rb]. cbn [view_eqb].
  rewrite !andb_true_iff, !ostr_eqb_eq, String.eqb_eq.
  split; [intros [[-> ->] ->]; reflexivity | intros [= -> -> ->]; auto].
Qed.

Lemma view_eqb_sym : forall a b, view_eqb a b = view_eqb b a.
Proof.
  intros a b. destruct (view_eqb a b) eqn:E.
  - apply view_eqb_eq in E. subst. symmetry. now apply view_eqb_eq.
  - destruct (view_eqb b a) eqn:E'; [|reflexivity].
    apply view_eqb_eq in E'. subst. rewrite (proj2 (view_eqb_eq a a) eq_refl) in E. discriminate.
Qed.

(* ---- the views of an object ------------------------------------------------------------- *)
(* (value, scheme, version) as seen through the accessors, when the scheme designator exists *)
Definition oview (o : obj) : option view :=
  match o with
  | PD c => Some (pd_view c)
  | HD d => match d_scheme d with Some s => Some (ds_value d, s, ds_version d) | None => None end
  end.
(* may stand on the left / on the right of == *)
Definition self_ready (o : obj) : bool :=
  match o with PD _ => true | HD d => isSome (d_scheme d) && isSome (d_meaning d) end.
Definition other_ready (o : obj) : bool :=
  match o with PD _ => true | HD d => isSome (d_scheme d) end.
Definition with_meaning (m : string) (o : obj) : obj :=
  match o with
  | PD c => PD (Code (c_value c) (c_scheme c) m (c_version c))
  | HD d => HD (set_meaning m d)
  end.
(* what the constructors establish *)
Definition wf_concept (d : dsobj) : Prop :=
  count_cv d = 1 /\ d_meaning d <> None /\ d_scheme d <> None.

Lemma view_other_oview : forall o, view_other o = match oview o with Some v => Ok v | None => Err "AttributeError" end.
Proof. intros [c|d]; cbn; [reflexivity|]. unfold ds_scheme, req. now destruct (d_scheme d). Qed.

Lemma view_self_oview : forall o, self_ready o = true ->
  exists v, oview o = Some v /\ view_self o = Ok v.
Proof.
  intros [c|d]; cbn; intros H.
  - eexists; split; reflexivity.
  - apply andb_true_iff in H as [Hs Hm]. unfold ds_scheme, ds_meaning, req.
    destruct (d_scheme d); [|discriminate]. destruct (d_meaning d); [|discriminate].
    eexists; split; reflexivity.
Qed.

Lemma view_self_ok : forall o v, view_self o = Ok v -> oview o = Some v /\ self_ready o = true.
Proof.
  intros [c|d] v; cbn.
  - intros [= <-]. split; reflexivity.
  - unfold ds_scheme, ds_meaning, req. destruct (d_scheme d); cbn; [|discriminate].
    destruct (d_meaning d); cbn; [|discriminate]. intros [= <-]. split; reflexivity.
Qed.

Lemma view_self_err : forall o k, view_self o = Err k -> k = "AttributeError" /\ self_ready o = false.
Proof.
  intros [c|d] k; cbn; [discriminate|].
  unfold ds_scheme, ds_meaning, req. destruct (d_scheme d); cbn.
  - destruct (d_meaning d); cbn; [discriminate|]. intros [= <-]. split; reflexivity.
  - intros [= <-]. split; reflexivity.
Qed.

Lemma self_ready_other : forall o, self_ready o = true -> other_ready o = true.
Proof. intros [c|d]; cbn; [reflexivity|]. intros H. now apply andb_true_iff in H as [-> _]. Qed.

Lemma other_ready_oview : forall o, other_ready o = true <-> exists v, oview o = Some v.
Proof.
  intros [c|d]; cbn.
  - split; [eexists; reflexivity | reflexivity].
  - destruct (d_scheme d); cbn; split; try reflexivity; try discriminate; [eexists; reflexivity|intros [v Hv]; discriminate].
Qed.

Section Eq.
  Variable srt : string -> option string.

  Lemma code_eq_iff : forall a b, code_eq srt a b = true <-> norm srt a = norm srt b.
  Proof. intros. unfold code_eq. apply view_eqb_eq. Qed.

  Lemma code_eq_refl : forall a, code_eq srt a a = true.
  Proof. intros. now apply code_eq_iff. Qed.

  Lemma code_eq_sym : forall a b, code_eq srt a b = code_eq srt b a.
  Proof. intros. unfold code_eq. apply view_eqb_sym. Qed.

  Lemma code_eq_trans : forall a b c, code_eq srt a b = true -> code_eq srt b c = true -> code_eq srt a c = true.
  Proof. intros a b c H1 H2. apply code_eq_iff in H1, H2. apply code_eq_iff. congruence. Qed.

  (* obj_eq in terms of the views *)
  Lemma obj_eq_ready : forall a b va vb, self_ready a = true -> oview a = Some va -> oview b = Some vb ->
    obj_eq srt a b = Ok (code_eq srt va vb).
  Proof.
    intros a b va vb Ha Hva Hvb. unfold obj_eq.
    destruct (view_self_oview a Ha) as [v [Hv ->]]. rewrite Hva in Hv. injection Hv as <-.
    cbn [bind]. rewrite view_other_oview, Hvb. reflexivity.
  Qed.

  Lemma obj_eq_ok : forall a b r, obj_eq srt a b = Ok r ->
    exists va vb, self_ready a = true /\ oview a = Some va /\ oview b = Some vb /\ r = code_eq srt va vb.
  Proof.
    intros a b r H. unfold obj_eq in H.
    destruct (view_self a) as [va|k] eqn:Ea; cbn [bind] in H; [|discriminate].
    apply view_self_ok in Ea as [Hva Hra].
    rewrite view_other_oview in H. destruct (oview b) as [vb|] eqn:Eb; cbn [bind] in H; [|discriminate].
    injection H as <-. exists va, vb. auto.
  Qed.

  Lemma eq_refl_obj : forall a, self_ready a = true -> obj_eq srt a a = Ok true.
  Proof.
    intros a Ha. destruct (view_self_oview a Ha) as [v [Hv _]].
    rewrite (obj_eq_ready a a v v Ha Hv Hv), code_eq_refl. reflexivity.
  Qed.

  Lemma eq_sym_obj : forall a b, self_ready a = true -> self_ready b = true ->
    obj_eq srt a b = obj_eq srt b a.
  Proof.
    intros a b Ha Hb. destruct (view_self_oview a Ha) as [va [Hva _]]. destruct (view_self_oview b Hb) as [vb [Hvb _]].
    rewrite (obj_eq_ready a b va vb Ha Hva Hvb), (obj_eq_ready b a vb va Hb Hvb Hva), code_eq_sym. reflexivity.
  Qed.

  Lemma eq_trans_obj : forall a b c, obj_eq srt a b = Ok true -> obj_eq srt b c = Ok true ->
    obj_eq srt a c = Ok true.
  Proof.
    intros a b c H1 H2.
    apply obj_eq_ok in H1 as [va [vb [Ha [Hva [Hvb E1]]]]].
    apply obj_eq_ok in H2 as [vb' [vc [Hb [Hvb' [Hvc E2]]]]].
    rewrite Hvb in Hvb'. injection Hvb' as <-.
    rewrite (obj_eq_ready a c va vc Ha Hva Hvc). f_equal. symmetry in E1, E2. eauto using code_eq_trans.
  Qed.

  (* when does == answer at all *)
  Lemma eq_defined_iff : forall a b,
    (exists r, obj_eq srt a b = Ok r) <-> (self_ready a = true /\ other_ready b = true).
  Proof.
    intros a b. split.
    - intros [r H]. apply obj_eq_ok in H as [va [vb [Ha [_ [Hvb _]]]]]. split; [exact Ha|].
      apply other_ready_oview. eauto.
    - intros [Ha Hb]. destruct (view_self_oview a Ha) as [va [Hva _]].
      apply other_ready_oview in Hb as [vb Hvb]. eexists. eapply obj_eq_ready; eauto.
  Qed.

  Lemma eq_error_kind : forall a b k, obj_eq srt a b = Err k -> k = "AttributeError".
  Proof.
    intros a b k H. unfold obj_eq in H.
    destruct (view_self a) as [va|k'] eqn:Ea; cbn [bind] in H.
    - rewrite view_other_oview in H. destruct (oview b); cbn [bind] in H; [discriminate|]. now injection H as <-.
    - injection H as <-. now apply view_self_err in Ea as [-> _].
  Qed.

  (* decided by value, scheme and version *)
  Lemma eq_decided_by_view : forall a a' b b',
    self_ready a = true -> self_ready a' = true -> oview a = oview a' -> oview b = oview b' ->
    obj_eq srt a b = obj_eq srt a' b'.
  Proof.
    intros a a' b b' Ha Ha' Hv Hw. unfold obj_eq.
    destruct (view_self_oview a Ha) as [va [Hva ->]]. destruct (view_self_oview a' Ha') as [va' [Hva' ->]].
    rewrite Hv, Hva' in Hva. injection Hva as ->. cbn [bind]. now rewrite !view_other_oview, Hw.
  Qed.

  Lemma oview_with_meaning : forall m o, oview (with_meaning m o) = oview o.
  Proof. intros m [c|d]; reflexivity. Qed.

  Lemma eq_ignores_meaning_l : forall a b m, self_ready a = true ->
    obj_eq srt (with_meaning m a) b = obj_eq srt a b.
  Proof.
    intros a b m Ha. apply eq_decided_by_view; auto.
    - destruct a as [c|d]; cbn in *; [reflexivity|]. apply andb_true_iff in Ha as [-> _]. reflexivity.
    - apply oview_with_meaning.
  Qed.

  Lemma eq_ignores_meaning_r : forall a b m, obj_eq srt a (with_meaning m b) = obj_eq srt a b.
  Proof. intros a b m. unfold obj_eq. now rewrite !view_other_oview, oview_with_meaning. Qed.

  (* the relation itself *)
  Definition unaliased (v : view) : Prop :=
    match v with (Some x, s, _) => s = "SRT" -> srt x = None | _ => True end.

  Lemma norm_unaliased : forall v, unaliased v -> norm srt v = v.
  Proof.
    intros [[[x|] s] ver] H; cbn in *; [|reflexivity].
    destruct (String.eqb s "SRT") eqn:E; [|reflexivity].
    apply String.eqb_eq in E. now rewrite (H E).
  Qed.

  Lemma code_eq_unaliased : forall a b, unaliased a -> unaliased b ->
    (code_eq srt a b = true <-> a = b).
  Proof. intros a b Ha Hb. rewrite code_eq_iff, !norm_unaliased by assumption. tauto. Qed.

  Lemma code_eq_alias : forall x y ver, srt x = Some y ->
    code_eq srt (Some x, "SRT", ver) (Some y, "SCT", ver) = true.
  Proof. intros x y ver H. apply code_eq_iff. cbn. now rewrite H. Qed.

  (* version and (normalised) scheme/value all matter: a difference in version is never equal *)
  Lemma norm_version : forall v, snd (norm srt v) = snd v.
  Proof.
    intros [[[x|] s] ver]; cbn; [|reflexivity].
    destruct (String.eqb s "SRT"); [|reflexivity]. now destruct (srt x).
  Qed.

  Lemma code_eq_version : forall a b, code_eq srt a b = true -> snd a = snd b.
  Proof. intros a b H. apply code_eq_iff in H. rewrite <- (norm_version a), <- (norm_version b). now rewrite H. Qed.

  (* != *)
  Lemma ne_is_negation : forall a b r, obj_ne srt a b = Ok r <-> obj_eq srt a b = Ok (negb r).
  Proof.
    intros a b r. unfold obj_ne. destruct (obj_eq srt a b) as [x|k]; cbn [bind].
    - split; intros [= H]; f_equal; [now rewrite <- H, negb_involutive | now rewrite H, negb_involutive].
    - split; discriminate.
  Qed.

  (* ---- construction --------------------------------------------------------------------- *)
  Lemma init_ok_iff : forall v s m ver, (exists d, init v s m ver = Ok d) <-> slen m <= 64.
  Proof.
    intros. unfold init. destruct (64 <? slen m) eqn:E.
    - split; [intros [d H]; discriminate | intros H; apply Z.ltb_lt in E; lia].
    - apply Z.ltb_ge in E. split; [auto | eexists; reflexivity].
  Qed.

  Lemma init_err : forall v s m ver k, init v s m ver = Err k -> k = "ValueError" /\ 64 < slen m.
  Proof.
    intros v s m ver k. unfold init. destruct (64 <? slen m) eqn:E; [|discriminate].
    intros [= <-]. apply Z.ltb_lt in E. auto.
  Qed.

  Lemma store_load : forall v s m ver d, init v s m ver = Ok d ->
    attr_slot (select_attr v) d = Some v /\
    (forall a, a <> select_attr v -> attr_slot a d = None) /\
    ds_value d = Some v /\ ds_scheme d = Ok s /\ ds_meaning d = Ok m /\ ds_version d = ver /\
    count_cv d = 1 /\ d_cc d = true.
  Proof.
    intros v s m ver d. unfold init. destruct (64 <? slen m); [discriminate|]. intros [= <-].
    destruct (select_attr v); cbn; repeat split; try reflexivity;
      intros [] Hne; try reflexivity; contradiction.
  Qed.

  Lemma select_attr_rule : forall v,
    (select_attr v = AURNCodeValue <-> is_uri_form v = true) /\
    (select_attr v = ALongCodeValue <-> is_uri_form v = false /\ 16 < slen v) /\
    (select_attr v = ACodeValue <-> is_uri_form v = false /\ slen v <= 16).
  Proof.
    intros v. unfold select_attr. destruct (is_uri_form v); [|destruct (16 <? slen v) eqn:E].
    - repeat split; try discriminate; intros [H _]; discriminate.
    - apply Z.ltb_lt in E. repeat split; try discriminate; try lia; intros [_ H]; lia.
    - apply Z.ltb_ge in E. repeat split; try discriminate; try lia; intros [_ H]; lia.
  Qed.

  Lemma init_view : forall c d, init_code c = Ok d ->
    oview (HD d) = Some (pd_view c) /\ self_ready (HD d) = true /\ wf_concept d.
  Proof.
    intros [v s m ver] d H. unfold init_code in H. cbn [c_value c_scheme c_meaning c_version] in H.
    pose proof (store_load _ _ _ _ _ H) as [_ [_ [Hv [Hs [Hm [Hver [Hc _]]]]]]].
    unfold ds_scheme, ds_meaning, ds_version, req in *.
    destruct (d_scheme d) eqn:Es; [|discriminate]. destruct (d_meaning d) eqn:Em; [|discriminate].
    injection Hs as ->. cbn. rewrite Es, Em, Hv. unfold ds_version. rewrite Hver.
    repeat split; try reflexivity; try assumption; congruence.
  Qed.

  (* a concept and the pydicom Code with the same accessors are interchangeable on either side *)
  Lemma eq_class_independent : forall d c x, self_ready (HD d) = true -> oview (HD d) = Some (pd_view c) ->
    obj_eq srt (HD d) x = obj_eq srt (PD c) x /\ obj_eq srt x (HD d) = obj_eq srt x (PD c).
  Proof.
    intros d c x Hr Hv. split.
    - apply eq_decided_by_view; auto.
    - unfold obj_eq. now rewrite !view_other_oview, Hv.
  Qed.

  Lemma eq_repr_independent : forall c1 c2 d1 d2, init_code c1 = Ok d1 -> init_code c2 = Ok d2 ->
    let r := Ok (code_eq srt (pd_view c1) (pd_view c2)) in
    obj_eq srt (HD d1) (HD d2) = r /\ obj_eq srt (HD d1) (PD c2) = r /\
    obj_eq srt (PD c1) (HD d2) = r /\ obj_eq srt (PD c1) (PD c2) = r.
  Proof.
    intros c1 c2 d1 d2 H1 H2 r.
    apply init_view in H1 as [V1 [R1 _]]. apply init_view in H2 as [V2 [R2 _]].
    repeat split; apply obj_eq_ready; auto.
  Qed.

  (* ---- hash ---------------------------------------------------------------------------------- *)
  Definition scheme_value (o : obj) : option (string * string) :=
    match o with
    | PD c => Some (c_scheme c, c_value c)
    | HD d => match d_scheme d, ds_value d with Some s, Some v => Some (s, v) | _, _ => None end
    end.

  Lemma hash_key_scheme_value : forall o,
    hash_key o = match o with
                 | PD _ | HD _ =>
                   match scheme_value o with
                   | Some (s, v) => Ok (s ++ v)
                   | None => hash_key o
                   end
                 end.
  Proof.
    intros [c|d]; cbn; [reflexivity|]. unfold ds_scheme, req. destruct (d_scheme d); cbn; [|reflexivity].
    destruct (ds_value d); reflexivity.
  Qed.

  Lemma hash_agrees : forall (H : string -> Z) a b p,
    scheme_value a = Some p -> scheme_value b = Some p ->
    obj_hash H a = obj_hash H b /\ obj_hash H a = Ok (H (fst p ++ snd p)).
  Proof.
    intros H a b [s v] Ha Hb. unfold obj_hash.
    rewrite (hash_key_scheme_value a), (hash_key_scheme_value b), Ha, Hb.
    destruct a, b; split; reflexivity.
  Qed.

  Lemma hash_defined_iff : forall (H : string -> Z) o,
    (exists z, obj_hash H o = Ok z) <-> scheme_value o <> None.
  Proof.
    intros H [c|d]; unfold obj_hash; cbn.
    - split; [discriminate | eexists; reflexivity].
    - unfold ds_scheme, req. destruct (d_scheme d); cbn.
      + destruct (ds_value d); cbn; split; try discriminate; try (eexists; reflexivity); try congruence.
        intros [z Hz]. discriminate.
      + split; [intros [z Hz]; discriminate | congruence].
  Qed.

  Lemma scheme_value_oview : forall o s v, scheme_value o = Some (s, v) -> exists ver, oview o = Some (Some v, s, ver).
  Proof.
    intros [c|d] s v; cbn.
    - intros [= <- <-]. eexists; reflexivity.
    - destruct (d_scheme d); [|discriminate]. destruct (ds_value d); [|discriminate].
      intros [= <- <-]. eexists; reflexivity.
  Qed.

  (* equal codes hash equally unless equality came from an SRT alias *)
  Lemma eq_hash_unaliased : forall a b va vb pa pb,
    obj_eq srt a b = Ok true -> oview a = Some va -> oview b = Some vb -> unaliased va -> unaliased vb ->
    scheme_value a = Some pa -> scheme_value b = Some pb ->
    hash_key a = hash_key b /\ forall H, obj_hash H a = obj_hash H b.
  Proof.
    intros a b va vb [sa xa] [sb xb] E Hva Hvb Ua Ub Ha Hb.
    apply obj_eq_ok in E as [va' [vb' [_ [Hva' [Hvb' E]]]]].
    rewrite Hva in Hva'. rewrite Hvb in Hvb'. injection Hva' as <-. injection Hvb' as <-.
    symmetry in E. apply code_eq_unaliased in E; auto. subst vb.
    destruct (scheme_value_oview _ _ _ Ha) as [v1 H1]. destruct (scheme_value_oview _ _ _ Hb) as [v2 H2].
    rewrite Hva in H1. rewrite Hvb in H2. rewrite H1 in H2. injection H2 as <- <- _.
    assert (K : hash_key a = hash_key b).
    { rewrite (hash_key_scheme_value a), (hash_key_scheme_value b), Ha, Hb. now destruct a, b. }
    split; [exact K|]. intros H. unfold obj_hash. now rewrite K.
  Qed.

  (* sets and dictionaries: lookup of b among {a} *)
  Lemma set_lookup : forall a b p, self_ready a = true ->
    scheme_value a = Some p -> scheme_value b = Some p ->
    in_set_of srt a b = obj_eq srt a b.
  Proof.
    intros a b [s v] Ha Sa Sb. unfold in_set_of, hash_eq.
    rewrite (hash_key_scheme_value a), (hash_key_scheme_value b), Sa, Sb.
    assert (E : bind (match a with PD _ | HD _ => Ok (s ++ v) end)
                  (fun ka => bind (match b with PD _ | HD _ => Ok (s ++ v) end)
                  (fun kb => Ok (ka =? kb)%string)) = Ok true).
    { destruct a, b; cbn [bind]; now rewrite String.eqb_refl. }
    rewrite E. reflexivity.
  Qed.

  Lemma eq_kernel_of_norm : forall a b va vb,
    self_ready a = true -> oview a = Some va -> oview b = Some vb ->
    (obj_eq srt a b = Ok true <-> norm srt va = norm srt vb).
  Proof.
    intros a b va vb Ha Hva Hvb. rewrite (obj_eq_ready a b va vb Ha Hva Hvb), <- code_eq_iff.
    split; [now intros [= ->] | now intros ->].
  Qed.

  Lemma eq_ignores_meaning : forall a b m,
    (self_ready a = true -> obj_eq srt (with_meaning m a) b = obj_eq srt a b) /\
    obj_eq srt a (with_meaning m b) = obj_eq srt a b.
  Proof. intros. split; [intros; now apply eq_ignores_meaning_l | apply eq_ignores_meaning_r]. Qed.

  (* the three laws together, on the objects that can be compared *)
  Lemma eq_equivalence :
    (forall a, self_ready a = true -> obj_eq srt a a = Ok true) /\
    (forall a b, self_ready a = true -> self_ready b = true -> obj_eq srt a b = Ok true -> obj_eq srt b a = Ok true) /\
    (forall a b c, obj_eq srt a b = Ok true -> obj_eq srt b c = Ok true -> obj_eq srt a c = Ok true).
  Proof.
    split; [exact eq_refl_obj|]. split; [|exact eq_trans_obj].
    intros a b Ha Hb H. now rewrite <- (eq_sym_obj a b Ha Hb).
  Qed.

  (* same scheme, value and version: a set holding a finds b, whichever classes represent them *)
  Lemma set_treats_as_one : forall a b p, self_ready a = true ->
    scheme_value a = Some p -> scheme_value b = Some p -> oview a = oview b ->
    in_set_of srt a b = Ok true.
  Proof.
    intros a b p Ha Sa Sb Hv. rewrite (set_lookup a b p Ha Sa Sb).
    destruct (view_self_oview a Ha) as [va [Hva _]].
    rewrite (obj_eq_ready a b va va Ha Hva); [now rewrite code_eq_refl | now rewrite <- Hv].
  Qed.

  Lemma set_lookup_true : forall a b, in_set_of srt a b = Ok true -> obj_eq srt a b = Ok true.
  Proof.
    intros a b. unfold in_set_of. destruct (hash_eq a b) as [[|]|k]; cbn [bind]; auto; discriminate.
  Qed.
End Eq.

(* the documented gap: aliases are equal but hash differently (pydicom) *)
Lemma alias_hash_differs :
  exists srt a b, obj_eq srt a b = Ok true /\ obj_eq srt b a = Ok true /\
                  (exists ka kb, hash_key a = Ok ka /\ hash_key b = Ok kb /\ ka <> kb).
Proof.
  exists (assoc [("T-04000", "76752008")]).
  exists (HD (DS (Some "T-04000") None None (Some "Breast") (Some "SRT") None true)).
  exists (PD (Code "76752008" "SCT" "Breast" None)).
  repeat split. exists "SRTT-04000", "SCT76752008". repeat split. discriminate.
Qed.

(* ---- from_dataset ------------------------------------------------------------------------------ *)
Lemma count_cv_one : forall d,
  count_cv d = 1 <->
  (d_cv d <> None /\ d_lcv d = None /\ d_urn d = None) \/
  (d_cv d = None /\ d_lcv d <> None /\ d_urn d = None) \/
  (d_cv d = None /\ d_lcv d = None /\ d_urn d <> None).
Proof.
  intros d. unfold count_cv. destruct (d_cv d), (d_lcv d), (d_urn d); cbn; split; intros H;
    try lia; try (intuition congruence).
Qed.

Lemma fd_check_ok : forall d, fd_check d = Ok tt <-> wf_concept d.
Proof.
  intros d. unfold fd_check, wf_concept.
  destruct (count_cv d =? 1) eqn:E; cbn [negb].
  - apply Z.eqb_eq in E. destruct (d_meaning d); cbn; [destruct (d_scheme d); cbn|];
      split; try discriminate; try (intros _; repeat split; congruence); try tauto; intros [_ [? ?]]; congruence.
  - apply Z.eqb_neq in E. split; [discriminate | intros [? _]; contradiction].
Qed.

Lemma fd_check_err : forall d k, fd_check d = Err k -> k = "AttributeError".
Proof.
  intros d k. unfold fd_check.
  destruct (negb (count_cv d =? 1)); [now intros [= <-]|].
  destruct (negb (isSome (d_meaning d))); [now intros [= <-]|].
  destruct (negb (isSome (d_scheme d))); [now intros [= <-]|discriminate].
Qed.

Lemma from_dataset_ok_iff : forall h a d copy, nth_error h a = Some d ->
  ((exists r, from_dataset h (Addr a) copy = Ok r) <-> wf_concept d).
Proof.
  intros h a d copy Hd. cbn [from_dataset]. rewrite Hd. rewrite <- fd_check_ok.
  destruct (fd_check d) as [[]|k]; cbn [bind].
  - split; [reflexivity | intros _; destruct copy; eexists; reflexivity].
  - split; [intros [r Hr]; discriminate | discriminate].
Qed.

Lemma from_dataset_err : forall h x copy k, from_dataset h x copy = Err k ->
  match x with
  | NotDataset => k = "TypeError"
  | Addr a => forall d, nth_error h a = Some d -> k = "AttributeError" /\ ~ wf_concept d
  end.
Proof.
  intros h [|a] copy k; cbn [from_dataset].
  - now intros [= <-].
  - intros H d Hd. rewrite Hd in H. destruct (fd_check d) as [[]|k'] eqn:E; cbn [bind] in H.
    + destruct copy; discriminate.
    + injection H as <-. split; [eapply fd_check_err; eauto|]. intros W. apply fd_check_ok in W. congruence.
Qed.

Lemma nth_error_update_same : forall h a d, (a < length h)%nat -> nth_error (update h a d) a = Some d.
Proof. induction h as [|x h IH]; intros [|a] d H; cbn in *; try lia; [reflexivity | apply IH; lia]. Qed.

Lemma nth_error_update_other : forall h a i d, i <> a -> nth_error (update h a d) i = nth_error h i.
Proof.
  induction h as [|x h IH]; intros [|a] [|i] d H; cbn; try reflexivity; try contradiction.
  apply IH. congruence.
Qed.

Lemma length_update : forall h a d, length (update h a d) = length h.
Proof. induction h as [|x h IH]; intros [|a] d; cbn; auto. Qed.

Lemma from_dataset_copy : forall h a d h' r, nth_error h a = Some d ->
  from_dataset h (Addr a) true = Ok (h', r) ->
  r = length h /\ r <> a /\ nth_error h r = None /\
  nth_error h' r = Some (set_cc d) /\
  (forall i, (i < length h)%nat -> nth_error h' i = nth_error h i) /\
  (forall d' i, (i < length h)%nat -> nth_error (update h' r d') i = nth_error h i).
Proof.
  intros h a d h' r Hd H. cbn [from_dataset] in H. rewrite Hd in H.
  destruct (fd_check d) as [[]|k]; cbn [bind] in H; [|discriminate]. injection H as <- <-.
  assert (La : (a < length h)%nat) by (apply nth_error_Some; congruence).
  repeat split.
  - lia.
  - apply nth_error_None. lia.
  - rewrite nth_error_app2, Nat.sub_diag by lia. reflexivity.
  - intros i Hi. now rewrite nth_error_app1.
  - intros d' i Hi. rewrite nth_error_update_other by lia. now rewrite nth_error_app1.
Qed.

Lemma from_dataset_alias : forall h a d h' r, nth_error h a = Some d ->
  from_dataset h (Addr a) false = Ok (h', r) ->
  r = a /\ length h' = length h /\ nth_error h' a = Some (set_cc d) /\
  (forall i, i <> a -> nth_error h' i = nth_error h i) /\
  (forall d', nth_error (update h' r d') a = Some d').
Proof.
  intros h a d h' r Hd H. cbn [from_dataset] in H. rewrite Hd in H.
  destruct (fd_check d) as [[]|k]; cbn [bind] in H; [|discriminate]. injection H as <- <-.
  assert (La : (a < length h)%nat) by (apply nth_error_Some; congruence).
  repeat split.
  - apply length_update.
  - now apply nth_error_update_same.
  - intros i Hi. now apply nth_error_update_other.
  - intros d'. apply nth_error_update_same. now rewrite length_update.
Qed.

(* the converted dataset reads as the one code it holds *)
Lemma set_cc_reads : forall d, ds_value (set_cc d) = ds_value d /\ ds_scheme (set_cc d) = ds_scheme d /\
  ds_meaning (set_cc d) = ds_meaning d /\ ds_version (set_cc d) = ds_version d /\ d_cc (set_cc d) = true.
Proof. intros d. repeat split. Qed.

Lemma wf_value : forall d, wf_concept d ->
  exists a v, attr_slot a d = Some v /\ ds_value d = Some v /\ forall a', a' <> a -> attr_slot a' d = None.
Proof.
  intros d [Hc _]. apply count_cv_one in Hc. unfold ds_value.
  destruct (d_cv d) as [x|] eqn:E1, (d_lcv d) as [y|] eqn:E2, (d_urn d) as [z|] eqn:E3;
    try (exfalso; intuition congruence).
  - exists ACodeValue, x. cbn. rewrite E1. repeat split. intros [] Hn; cbn; auto; contradiction.
  - exists ALongCodeValue, y. cbn. rewrite E2. repeat split. intros [] Hn; cbn; auto; contradiction.
  - exists AURNCodeValue, z. cbn. rewrite E3. repeat split. intros [] Hn; cbn; auto; contradiction.
Qed.

Lemma wf_ready : forall d, wf_concept d -> self_ready (HD d) = true /\ scheme_value (HD d) <> None.
Proof.
  intros d W. destruct (wf_value d W) as [a [v [_ [Hv _]]]]. destruct W as [_ [Hm Hs]]. cbn.
  destruct (d_scheme d); [|contradiction]. destruct (d_meaning d); [|contradiction]. rewrite Hv.
  split; [reflexivity | discriminate].
Qed.

Lemma converted_reads : forall d, wf_concept d ->
  (exists a v, attr_slot a d = Some v /\ ds_value (set_cc d) = Some v /\ forall a', a' <> a -> attr_slot a' d = None) /\
  self_ready (HD (set_cc d)) = true /\ scheme_value (HD (set_cc d)) <> None.
Proof.
  intros d W. split; [destruct (wf_value d W) as [a [v [? [? ?]]]]; exists a, v; auto|].
  apply wf_ready. exact W.
Qed.

(* ---- from_code ------------------------------------------------------------------------------------ *)
Lemma from_code_concept : forall h a, from_code h (RConcept a) = Ok (h, a).
Proof. reflexivity. Qed.

Lemma from_code_code : forall srt h c h' r, from_code h (RCode c) = Ok (h', r) ->
  exists d, init_code c = Ok d /\ r = length h /\ nth_error h' r = Some d /\
            (forall i, (i < length h)%nat -> nth_error h' i = nth_error h i) /\
            obj_eq srt (HD d) (PD c) = Ok true /\ obj_eq srt (PD c) (HD d) = Ok true /\
            hash_key (HD d) = hash_key (PD c).
Proof.
  intros srt h c h' r H. cbn [from_code] in H. destruct (init_code c) as [d|k] eqn:E; cbn [bind] in H; [|discriminate].
  injection H as <- <-. exists d. repeat split.
  - rewrite nth_error_app2, Nat.sub_diag by lia. reflexivity.
  - intros i Hi. now rewrite nth_error_app1.
  - destruct (eq_repr_independent srt c c d d E E) as [_ [-> _]]. now rewrite code_eq_refl.
  - destruct (eq_repr_independent srt c c d d E E) as [_ [_ [-> _]]]. now rewrite code_eq_refl.
  - apply init_view in E as [V _]. destruct c as [v s m ver]. cbn in V |- *.
    unfold ds_scheme, req. destruct (d_scheme d); [|discriminate]. cbn [bind].
    injection V as -> -> _. reflexivity.
Qed.

Lemma from_code_err : forall h c k, from_code h (RCode c) = Err k -> k = "ValueError" /\ 64 < slen (c_meaning c).
Proof.
  intros h c k H. cbn [from_code] in H. destruct (init_code c) as [d|k'] eqn:E; cbn [bind] in H; [discriminate|].
  injection H as <-. unfold init_code in E. now apply init_err in E.
Qed.
