(* C08 - proofs, part 4: index tuples with more than three items (fix D92); what flip does
   exactly; operations without padding lose / invent nothing (every voxel of the result has a
   pre-image; rearrangements are bijections of the index boxes); the geometry-only object
   follows every finite history. *)
From Coq Require Import String ZArith List Bool Lia ZifyBool.
From HD Require Import C08_Model C08_Proofs C08_Proofs_Step C08_Proofs_More.
Import ListNotations.
Ltac Zify.zify_post_hook ::= Z.to_euclidean_division_equations.
Open Scope string_scope.
Open Scope Z_scope.

(* ------------------------------------------------------------------ more than three items *)
Lemma prep_getitem_too_many : forall shape ix,
  3 < Z.of_nat (length (items_of_index ix)) -> prep_getitem shape ix = Err "IndexError".
Proof.
  intros shape ix H. unfold prep_getitem. replace (3 <? _) with true by lia. reflexivity.
Qed.

(* an accepted index has at most three items *)
Lemma prep_getitem_ok_items : forall shape ix p,
  prep_getitem shape ix = Ok p -> Z.of_nat (length (items_of_index ix)) <= 3.
Proof.
  intros shape ix p H. unfold prep_getitem in H.
  destruct (3 <? Z.of_nat (length (items_of_index ix))) eqn:E; [discriminate|lia].
Qed.

(* ------------------------------------------------------------------ the plan of a flip *)
Lemma dim_of_rev : forall n, 0 < n ->
  dim_of n (Some (Some (-1), None, Some (-1))) = Ok (n - 1, -1, n).
Proof.
  intros n Hn. unfold dim_of. change (-1 =? 0) with false. cbv iota.
  unfold slice_indices, clamp_idx. change (-1 <? 0) with true. cbv iota.
  replace (-1 + n <? -1) with false by lia.
  unfold hd_size. replace (-1 - (-1 + n) =? 0) with false by lia.
  replace (-1 - (-1 + n) <? 0) with true by lia. cbn [orb Bool.eqb negb].
  replace (-1 + n) with (n - 1) by lia.
  replace ((Z.abs (-1 - (n - 1)) - 1) / Z.abs (-1) + 1) with n; [reflexivity|].
  change (Z.abs (-1)) with 1. rewrite Z.div_1_r. lia.
Qed.

Lemma dim_of_all : forall n, 0 < n -> dim_of n (Some (None, None, None)) = Ok (0, 1, n).
Proof.
  intros n Hn. unfold dim_of. change (1 =? 0) with false. cbv iota.
  unfold slice_indices. change (1 <? 0) with false. cbv iota.
  unfold hd_size. replace (n - 0 =? 0) with false by lia. replace (n - 0 <? 0) with false by lia.
  cbn [orb Bool.eqb negb]. replace ((Z.abs (n - 0) - 1) / Z.abs 1 + 1) with n; [reflexivity|].
  change (Z.abs 1) with 1. rewrite Z.div_1_r. lia.
Qed.

Lemma dim_of_rev' : forall n, 0 < n ->
  dim_of n (Some (None, None, Some (-1))) = Ok (n - 1, -1, n).
Proof.
  intros n Hn. unfold dim_of. change (-1 =? 0) with false. cbv iota.
  unfold slice_indices. change (-1 <? 0) with true. cbv iota.
  unfold hd_size. replace (-1 - (n - 1) =? 0) with false by lia.
  replace (-1 - (n - 1) <? 0) with true by lia. cbn [orb Bool.eqb negb].
  replace ((Z.abs (-1 - (n - 1)) - 1) / Z.abs (-1) + 1) with n; [reflexivity|].
  change (Z.abs (-1)) with 1. rewrite Z.div_1_r. lia.
Qed.

(* the three slices flips are made of: [-1::-1] (flip_spatial), [::-1] (random_flip_spatial), [:] *)
Definition rev_item (b alt : bool) : item :=
  if b then (if alt then ISlc None None (Some (-1)) else ISlc (Some (-1)) None (Some (-1)))
  else ISlc None None None.
Definition rev_plan (shape : idx) (b0 b1 b2 : bool) : getplan :=
  let '(n0, n1, n2) := shape in
  let f (b : bool) n := if b then n - 1 else 0 in
  let s (b : bool) := if b then -1 else 1 in
  GetPlan (f b0 n0, f b1 n1, f b2 n2) (s b0, s b1, s b2) shape.

Lemma dim_of_rev_item : forall n b alt, 0 < n ->
  bind (check_item n (rev_item b alt)) (fun s => dim_of n (Some s)) =
  Ok (if b then n - 1 else 0, if b then -1 else 1, n).
Proof.
  intros n b alt Hn. destruct b; [destruct alt|]; cbn [rev_item check_item].
  - cbn [bind]. apply dim_of_rev'. exact Hn.
  - replace ((-1 <? - n) || (n <=? -1)) with false by lia. cbn [bind]. apply dim_of_rev. exact Hn.
  - cbn [bind]. apply dim_of_all. exact Hn.
Qed.

Lemma prep_getitem_rev : forall shape b0 a0 b1 a1 b2 a2, wf shape ->
  prep_getitem shape (XTup [rev_item b0 a0; rev_item b1 a1; rev_item b2 a2]) = Ok (rev_plan shape b0 b1 b2).
Proof.
  intros [[n0 n1] n2] b0 a0 b1 a1 b2 a2 (H0 & H1 & H2). unfold prep_getitem. cbn [items_of_index length].
  change (3 <? Z.of_nat 3) with false. cbv iota.
  cbn [check_items sel3]. change (0 =? 0) with true. change (0 + 1) with 1. change (1 + 1) with 2.
  change (1 =? 0) with false. change (1 =? 1) with true. change (2 =? 0) with false. change (2 =? 1) with false.
  cbv iota.
  pose proof (dim_of_rev_item n0 b0 a0 H0) as D0. pose proof (dim_of_rev_item n1 b1 a1 H1) as D1.
  pose proof (dim_of_rev_item n2 b2 a2 H2) as D2.
  destruct (check_item n0 (rev_item b0 a0)) as [s0|]; [|discriminate].
  destruct (check_item n1 (rev_item b1 a1)) as [s1|]; [|discriminate].
  destruct (check_item n2 (rev_item b2 a2)) as [s2|]; [|discriminate].
  cbn [bind nth_error] in *. rewrite D0, D1, D2. cbn [bind]. reflexivity.
Qed.

Definition flipped (axes : list Z) (d : Z) : bool := existsb (Z.eqb d) axes.

(* ------------------------------------------------------------------ no voxel lost or invented *)
(* Tot : every voxel of the result has a pre-image (no new voxels)
   Bij : the index map is a bijection between the two index boxes (nothing lost either) *)
Definition Tot (s s' : idx) (f : imap) : Prop :=
  wf s -> wf s' /\ forall j, inr s' j -> exists i, f j = Some i /\ inr s i.
Definition Bij (s s' : idx) (f : imap) : Prop :=
  wf s -> wf s' /\
  (forall j, inr s' j -> exists i, f j = Some i /\ inr s i) /\
  (forall i, inr s i -> exists j, inr s' j /\ f j = Some i) /\
  (forall j j' i, inr s' j -> inr s' j' -> f j = Some i -> f j' = Some i -> j = j').

Lemma Bij_Tot : forall s s' f, Bij s s' f -> Tot s s' f.
Proof. intros s s' f B W. destruct (B W) as (W' & T & _). auto. Qed.

Lemma Tot_id : forall s, Tot s s imap_id.
Proof. intros s W. split; [exact W|]. intros j Hj. exists j. auto. Qed.

Lemma Tot_comp : forall s s' s'' f1 f2, Tot s s' f1 -> Tot s' s'' f2 -> Tot s s'' (imap_comp f2 f1).
Proof.
  intros s s' s'' f1 f2 T1 T2 W. destruct (T1 W) as (W1 & A1). destruct (T2 W1) as (W2 & A2).
  split; [exact W2|]. intros j Hj. destruct (A2 j Hj) as (m & Em & Im). destruct (A1 m Im) as (i & Ei & Ii).
  exists i. unfold imap_comp. rewrite Em. auto.
Qed.

Lemma Bij_id : forall s, Bij s s imap_id.
Proof.
  intros s W. split; [exact W|]. split; [intros j Hj; exists j; auto|].
  split; [intros i Hi; exists i; auto|]. unfold imap_id. intros j j' i _ _ E1 E2. congruence.
Qed.

Lemma Bij_comp : forall s s' s'' f1 f2, Bij s s' f1 -> Bij s' s'' f2 -> Bij s s'' (imap_comp f2 f1).
Proof.
  intros s s' s'' f1 f2 B1 B2 W. destruct (B1 W) as (W1 & A1 & S1 & I1). destruct (B2 W1) as (W2 & A2 & S2 & I2).
  split; [exact W2|]. split; [|split].
  - intros j Hj. destruct (A2 j Hj) as (m & Em & Im). destruct (A1 m Im) as (i & Ei & Ii).
    exists i. unfold imap_comp. rewrite Em. auto.
  - intros i Hi. destruct (S1 i Hi) as (m & Im & Em). destruct (S2 m Im) as (j & Ij & Ej).
    exists j. split; [exact Ij|]. unfold imap_comp. rewrite Ej. exact Em.
  - intros j j' i Hj Hj' E1 E2. unfold imap_comp in E1, E2.
    destruct (A2 j Hj) as (m & Em & Im). destruct (A2 j' Hj') as (m' & Em' & Im').
    rewrite Em in E1. rewrite Em' in E2.
    assert (m = m') by (eapply I1; eassumption). subst m'. eapply I2; eassumption.
Qed.

Lemma get_Tot : forall shape ix p, prep_getitem shape ix = Ok p -> Tot shape (gp_n p) (get_map p).
Proof. intros shape ix p H W. exact (prep_getitem_spec shape ix p W H). Qed.

Lemma perm_Bij : forall shape l, is_perm3 l = true ->
  Bij shape (perm_shape shape (perm_triple l)) (perm_map (perm_triple l)).
Proof.
  intros [[n0 n1] n2] l H W. split; [apply perm_shape_wf; assumption|].
  destruct (is_perm3_cases l H) as [E|[E|[E|[E|[E|E]]]]]; rewrite E; cbn; (split; [|split]).
  all: try (intros [[j0 j1] j2] Hj; eexists; split; [reflexivity|]; cbn in *; lia).
  all: try (intros [[j0 j1] j2] [[k0 k1] k2] [[i0 i1] i2] _ _ E1 E2; inversion E1; inversion E2; subst; reflexivity).
  - intros [[i0 i1] i2] Hi. exists (i0, i1, i2). cbn in *. split; [lia|reflexivity].
  - intros [[i0 i1] i2] Hi. exists (i0, i2, i1). cbn in *. split; [lia|reflexivity].
  - intros [[i0 i1] i2] Hi. exists (i1, i0, i2). cbn in *. split; [lia|reflexivity].
  - intros [[i0 i1] i2] Hi. exists (i1, i2, i0). cbn in *. split; [lia|reflexivity].
  - intros [[i0 i1] i2] Hi. exists (i2, i0, i1). cbn in *. split; [lia|reflexivity].
  - intros [[i0 i1] i2] Hi. exists (i2, i1, i0). cbn in *. split; [lia|reflexivity].
Qed.

Lemma rev_Bij : forall shape b0 b1 b2, Bij shape shape (get_map (rev_plan shape b0 b1 b2)).
Proof.
  intros [[n0 n1] n2] b0 b1 b2 W. split; [exact W|]. unfold rev_plan, get_map. cbn [gp_f gp_s].
  destruct b0, b1, b2; (split; [|split]).
  all: try (intros [[j0 j1] j2] Hj; eexists; split; [reflexivity|]; cbn in *; lia).
  all: try (intros [[j0 j1] j2] [[k0 k1] k2] [[i0 i1] i2] _ _ E1 E2; inversion E1; inversion E2; subst;
            f_equal; [f_equal|]; lia).
  all: intros [[i0 i1] i2] Hi; cbn in Hi.
  - exists (n0 - 1 - i0, n1 - 1 - i1, n2 - 1 - i2). split; [cbn; lia|f_equal; f_equal; [f_equal|]; lia].
  - exists (n0 - 1 - i0, n1 - 1 - i1, i2). split; [cbn; lia|f_equal; f_equal; [f_equal|]; lia].
  - exists (n0 - 1 - i0, i1, n2 - 1 - i2). split; [cbn; lia|f_equal; f_equal; [f_equal|]; lia].
  - exists (n0 - 1 - i0, i1, i2). split; [cbn; lia|f_equal; f_equal; [f_equal|]; lia].
  - exists (i0, n1 - 1 - i1, n2 - 1 - i2). split; [cbn; lia|f_equal; f_equal; [f_equal|]; lia].
  - exists (i0, n1 - 1 - i1, i2). split; [cbn; lia|f_equal; f_equal; [f_equal|]; lia].
  - exists (i0, i1, n2 - 1 - i2). split; [cbn; lia|f_equal; f_equal; [f_equal|]; lia].
  - exists (i0, i1, i2). split; [cbn; lia|f_equal; f_equal; [f_equal|]; lia].
Qed.

(* ------------------------------------------------------------------ generic lifting *)
Definition nopad {Vx} (o : sop Vx) : bool :=
  match o with OPad _ _ _ _ | OPadTo _ _ _ _ | OPadOrCropTo _ _ _ _ => false | _ => true end.
Definition rearr {Vx} (o : sop Vx) : bool :=
  match o with
  | OFlip _ | OPermute _ | OSwap _ _ | OOrient _ | OHanded _ _ _ => true
  | ORand (RFlip _ _) | ORand (RPermute _ _) => true
  | _ => false
  end.

Lemma rand_flip_items_gen : forall axes n d draws its, rand_flip_items axes d n draws = Ok its ->
  length its = n /\ Forall (fun it => exists b, it = rev_item b true) its.
Proof.
  intros axes. induction n as [|n IH]; intros d draws its H; cbn [rand_flip_items] in H.
  - inversion H. split; [reflexivity|constructor].
  - destruct (existsb (Z.eqb d) axes).
    + destruct draws as [|x draws']; [discriminate|].
      destruct (rand_flip_items axes (d + 1) n draws') as [r|] eqn:E; [|discriminate].
      cbn [bind] in H. inversion H. destruct (IH _ _ _ E) as (L & F).
      split; [cbn; congruence|]. constructor; [|exact F]. exists (x =? 1). destruct (x =? 1); reflexivity.
    + destruct (rand_flip_items axes (d + 1) n draws) as [r|] eqn:E; [|discriminate].
      cbn [bind] in H. inversion H. destruct (IH _ _ _ E) as (L & F).
      split; [cbn; congruence|]. constructor; [|exact F]. exists false. reflexivity.
Qed.

Lemma rand_flip_items_rev : forall axes draws its, rand_flip_items axes 0 3 draws = Ok its ->
  exists b0 b1 b2, its = [rev_item b0 true; rev_item b1 true; rev_item b2 true].
Proof.
  intros axes draws its H. destruct (rand_flip_items_gen _ _ _ _ _ H) as (L & F).
  destruct its as [|x0 [|x1 [|x2 [|? ?]]]]; try discriminate.
  inversion F as [|? ? (b0 & ->) F1]; subst. inversion F1 as [|? ? (b1 & ->) F2]; subst.
  inversion F2 as [|? ? (b2 & ->) F3]; subst. exists b0, b1, b2. reflexivity.
Qed.

Lemma existsb_neg_false' : forall a b c : Z * Z,
  existsb (fun p => (fst p <? 0) || (snd p <? 0)) [a; b; c] = false ->
  0 <= fst a /\ 0 <= snd a /\ 0 <= fst b /\ 0 <= snd b /\ 0 <= fst c /\ 0 <= snd c.
Proof. intros [a a'] [b b'] [c c']; cbn. lia. Qed.

Section Generic.
Variable R : Type.
Variables (rO : R) (radd rmul rsub : R -> R -> R) (ropp : R -> R).
Variable inj : Z -> R.
Variable ltb : R -> R -> bool.
Variable Vx : Type.
Variable padval : pmode -> bool -> Vx -> list Vx -> Vx.

Section Lift2.
Variable T : Type.
Variable t_aff : T -> aff R.
Variable t_shape : T -> idx.
Variable t_patient : T -> bool.
Variable t_get : T -> index -> res (T * imap).
Variable t_pad : T -> padw -> pmode -> Vx -> bool -> res (T * imap).
Variable t_perm : T -> list Z -> res (T * imap).
Variable P : T -> T -> imap -> Prop.
Hypothesis P_id : forall t, P t t imap_id.
Hypothesis P_comp : forall t t' t'' f1 f2, P t t' f1 -> P t' t'' f2 -> P t t'' (imap_comp f2 f1).
Hypothesis P_perm : forall t l t' f, t_perm t l = Ok (t', f) -> P t t' f.

Notation stepT := (step_sp R rO radd rmul rsub ropp ltb Vx T t_aff t_shape t_patient t_get t_pad t_perm).

Lemma swap_lift2 : forall t a b t' f, swap_axes_m T t_perm t a b = Ok (t', f) -> P t t' f.
Proof.
  intros t a b t' f H. unfold swap_axes_m in H.
  destruct (_ || _); [discriminate|]. destruct (a =? b); [discriminate|]. eapply P_perm; exact H.
Qed.

(* (a) operations made of flips and permutations only *)
Section Rearr.
Hypothesis P_rev : forall t b0 a0 b1 a1 b2 a2 t' f,
  t_get t (XTup [rev_item b0 a0; rev_item b1 a1; rev_item b2 a2]) = Ok (t', f) -> P t t' f.

Lemma flip_lift2 : forall t ax t' f, flip_spatial T t_get t ax = Ok (t', f) -> P t t' f.
Proof.
  intros t ax t' f H. unfold flip_spatial in H. destruct (_ || _); [discriminate|].
  set (axes := match ax with FInt a => [a] | FList l => l end) in *.
  apply (P_rev t (flipped axes 0) false (flipped axes 1) false (flipped axes 2) false). exact H.
Qed.

Theorem step_sp_lift_rearr : forall t o t' f, rearr o = true -> stepT t o = Ok (t', f) -> P t t' f.
Proof.
  intros t o t' f Hr H. destruct o; cbn [rearr] in Hr; try discriminate; cbn [step_sp] in H.
  - eapply flip_lift2; exact H.
  - eapply P_perm; exact H.
  - eapply swap_lift2; exact H.
  - unfold to_orientation in H. destruct (negb _); [discriminate|].
    inv_bind H as des Ed. inv_bind H as pf Ep. destruct pf as [perm flips].
    inv_bind H as fl Ef. inv_bind H as p Epm. destruct fl as [fl ffl], p as [p fp]. cbn [fst snd] in *.
    inversion H; subst. eapply P_comp; [|eapply P_perm; eassumption].
    destruct flips; [inversion Ef; subst; apply P_id|eapply flip_lift2; exact Ef].
  - unfold ensure_handedness in H.
    destruct flip_axis as [a|], swap_axes as [sw|]; try discriminate; destruct h; try discriminate;
      destruct (Bool.eqb _ _);
      try (inversion H; subst; apply P_id);
      try (eapply flip_lift2; exact H).
    all: destruct sw as [|a [|b [|? ?]]]; try discriminate; eapply swap_lift2; exact H.
  - unfold rand_op in H. destruct r; try discriminate; cbn [rand_plan] in H.
    + destruct (rand_axes_ok axes); [|discriminate].
      destruct (rand_flip_items axes 0 3 draws) as [its|] eqn:Ei; [|discriminate]. cbn [bind] in H.
      destruct (rand_flip_items_rev _ _ _ Ei) as (b0 & b1 & b2 & ->). eapply P_rev; exact H.
    + destruct (rand_axes_ok axes); [|discriminate]. cbn [bind] in H. eapply P_perm; exact H.
Qed.
End Rearr.

(* (b) operations that never call pad *)
Section NoPad.
Hypothesis P_get : forall t ix t' f, t_get t ix = Ok (t', f) -> P t t' f.

Theorem step_sp_lift_nopad : forall t o t' f, nopad o = true -> stepT t o = Ok (t', f) -> P t t' f.
Proof.
  intros t o t' f Hn H. destruct o; cbn [nopad] in Hn; try discriminate; cbn [step_sp] in H.
  - eapply P_get; exact H.
  - unfold flip_spatial in H. destruct (_ || _); [discriminate|]. eapply P_get; exact H.
  - eapply P_perm; exact H.
  - eapply swap_lift2; exact H.
  - unfold crop_to in H. destruct (negb _); [discriminate|].
    inv_bind H as its Ei. eapply P_get; exact H.
  - unfold to_orientation in H. destruct (negb _); [discriminate|].
    inv_bind H as des Ed. inv_bind H as pf Ep. destruct pf as [perm flips].
    inv_bind H as fl Ef. inv_bind H as p Epm. destruct fl as [fl ffl], p as [p fp]. cbn [fst snd] in *.
    inversion H; subst. eapply P_comp; [|eapply P_perm; eassumption].
    destruct flips; [inversion Ef; subst; apply P_id|].
    unfold flip_spatial in Ef. destruct (_ || _); [discriminate|]. eapply P_get; exact Ef.
  - unfold ensure_handedness in H.
    destruct flip_axis as [a|], swap_axes as [sw|]; try discriminate; destruct h; try discriminate;
      destruct (Bool.eqb _ _);
      try (inversion H; subst; apply P_id);
      try (unfold flip_spatial in H; destruct (_ || _); [discriminate|]; eapply P_get; exact H).
    all: destruct sw as [|a [|b [|? ?]]]; try discriminate; eapply swap_lift2; exact H.
  - unfold rand_op in H. inv_bind H as pl Epl. destruct pl as [ix|p]; [eapply P_get|eapply P_perm]; exact H.
Qed.
End NoPad.
End Lift2.

(* ================================================================== Volume *)
Notation volT := (vol R Vx).
Notation vget := (vol_get R radd rmul inj Vx).
Notation vpad := (vol_pad R radd rmul inj Vx padval).
Notation vperm := (vol_perm R Vx).
Notation vstep_sp := (vol_step_sp R rO radd rmul rsub ropp inj ltb Vx padval).
Notation vstep_tr := (step_tr R rO radd rmul rsub ropp inj ltb Vx padval).
Notation vstep := (step R rO radd rmul rsub ropp inj ltb Vx padval).
Notation vrun := (run R rO radd rmul rsub ropp inj ltb Vx padval).
Notation vrun_tr := (run_tr R rO radd rmul rsub ropp inj ltb Vx padval).
Notation gstepR := (gstep R rO radd rmul rsub ropp inj ltb Vx).
Notation grunR := (grun R rO radd rmul rsub ropp inj ltb Vx).

Definition VTot (v v' : volT) (f : imap) : Prop := Tot (v_shape _ _ v) (v_shape _ _ v') f.
Definition VBij (v v' : volT) (f : imap) : Prop := Bij (v_shape _ _ v) (v_shape _ _ v') f.

Lemma vol_get_VTot : forall v ix v' f, vget v ix = Ok (v', f) -> VTot v v' f.
Proof.
  intros v ix v' f H. unfold vol_get in H. inv_bind H as p Ep. inversion H; subst; clear H.
  unfold VTot. cbn [v_shape]. eapply get_Tot; exact Ep.
Qed.

Lemma vol_perm_VBij : forall v l v' f, vperm v l = Ok (v', f) -> VBij v v' f.
Proof.
  intros v l v' f H. unfold vol_perm in H. destruct (is_perm3 l) eqn:Ep; [|discriminate].
  inversion H; subst; clear H. unfold VBij. cbn [v_shape]. apply perm_Bij. exact Ep.
Qed.

Lemma vol_rev_VBij : forall v b0 a0 b1 a1 b2 a2 v' f,
  vget v (XTup [rev_item b0 a0; rev_item b1 a1; rev_item b2 a2]) = Ok (v', f) -> VBij v v' f.
Proof.
  intros v b0 a0 b1 a1 b2 a2 v' f H W. unfold vol_get in H. rewrite (prep_getitem_rev _ b0 a0 b1 a1 b2 a2 W) in H.
  cbn [bind] in H. inversion H; subst; clear H. cbn [v_shape].
  replace (gp_n (rev_plan (v_shape R Vx v) b0 b1 b2)) with (v_shape R Vx v)
    by (destruct (v_shape R Vx v) as [[n0 n1] n2]; reflexivity).
  exact (rev_Bij (v_shape R Vx v) b0 b1 b2 W).
Qed.

(* every voxel of the result of an operation that does not pad descends from a voxel of the
   receiver: nothing but pad creates voxels *)
Theorem step_nopad_total : forall v o v' f, nopad o = true -> vstep_sp v o = Ok (v', f) ->
  Tot (v_shape _ _ v) (v_shape _ _ v') f.
Proof.
  intros v o v' f Hn H. unfold vol_step_sp in H.
  apply (step_sp_lift_nopad volT (v_aff R Vx) (v_shape R Vx) (v_patient R Vx) vget vpad vperm VTot
           (fun t => Tot_id _) (fun t t' t'' f1 f2 => Tot_comp _ _ _ f1 f2)
           (fun t l t' f0 E => Bij_Tot _ _ _ (vol_perm_VBij t l t' f0 E)) vol_get_VTot v o v' f Hn H).
Qed.

(* flip, permute, swap, to_patient_orientation, ensure_handedness, random flip / permutation
   re-arrange the voxels: the index map is a bijection between the two index boxes *)
Theorem step_rearr_bijective : forall v o v' f, rearr o = true -> vstep_sp v o = Ok (v', f) ->
  Bij (v_shape _ _ v) (v_shape _ _ v') f.
Proof.
  intros v o v' f Hn H. unfold vol_step_sp in H.
  apply (step_sp_lift_rearr volT (v_aff R Vx) (v_shape R Vx) (v_patient R Vx) vget vpad vperm VBij
           (fun t => Bij_id _) (fun t t' t'' f1 f2 => Bij_comp _ _ _ f1 f2)
           vol_perm_VBij vol_rev_VBij v o v' f Hn H).
Qed.

(* ---- histories without pad *)
Definition op_nopad (o : op Vx) : bool := match o with Sp s => nopad s | _ => true end.
Definition op_rearr (o : op Vx) : bool := match o with Sp s => rearr s | _ => true end.

Lemma step_tr_Tot : forall v o v' f, op_nopad o = true -> vstep_tr v o = Ok (v', f) -> VTot v v' f.
Proof.
  intros v o v' f Hn H. pose proof (step_tr_geometry R rO radd rmul rsub ropp inj ltb Vx padval v o v' f H) as G.
  destruct o; [apply (step_nopad_total v o v' f Hn H)|..];
    destruct G as (-> & _ & ES & _); unfold VTot; rewrite ES; apply Tot_id.
Qed.

Lemma step_tr_Bij : forall v o v' f, op_rearr o = true -> vstep_tr v o = Ok (v', f) -> VBij v v' f.
Proof.
  intros v o v' f Hn H. pose proof (step_tr_geometry R rO radd rmul rsub ropp inj ltb Vx padval v o v' f H) as G.
  destruct o; [apply (step_rearr_bijective v o v' f Hn H)|..];
    destruct G as (-> & _ & ES & _); unfold VBij; rewrite ES; apply Bij_id.
Qed.

Lemma run_tr_lift : forall (Q : volT -> volT -> imap -> Prop) (sel : op Vx -> bool),
  (forall v v' v'' f1 f2, Q v v' f1 -> Q v' v'' f2 -> Q v v'' (imap_comp f2 f1)) ->
  (forall v o v' f, sel o = true -> vstep_tr v o = Ok (v', f) -> Q v v' f) ->
  forall ops v0 s, forallb sel ops = true -> Q v0 (fst s) (snd s) ->
  Q v0 (fst (fold_left (step_skip_tr R rO radd rmul rsub ropp inj ltb Vx padval) ops s))
       (snd (fold_left (step_skip_tr R rO radd rmul rsub ropp inj ltb Vx padval) ops s)).
Proof.
  intros Q sel Qc Qs. induction ops as [|o ops IH]; intros v0 s Hn H; [exact H|].
  cbn [fold_left forallb] in *. apply andb_prop in Hn as [Ho Hn]. apply IH; [exact Hn|].
  unfold step_skip_tr. destruct (vstep_tr (fst s) o) as [[v' f]|] eqn:E; [|exact H].
  cbn [fst snd]. eapply Qc; [exact H|]. eapply Qs; eassumption.
Qed.

Theorem history_nopad_total : forall ops v, forallb op_nopad ops = true ->
  Tot (v_shape _ _ v) (v_shape _ _ (fst (vrun_tr v ops))) (snd (vrun_tr v ops)).
Proof.
  intros ops v Hn. unfold run_tr.
  apply (run_tr_lift VTot op_nopad (fun v v' v'' f1 f2 => Tot_comp _ _ _ f1 f2) step_tr_Tot ops v (v, imap_id) Hn).
  apply Tot_id.
Qed.

Theorem history_rearr_bijective : forall ops v, forallb op_rearr ops = true ->
  Bij (v_shape _ _ v) (v_shape _ _ (fst (vrun_tr v ops))) (snd (vrun_tr v ops)).
Proof.
  intros ops v Hn. unfold run_tr.
  apply (run_tr_lift VBij op_rearr (fun v v' v'' f1 f2 => Bij_comp _ _ _ f1 f2) step_tr_Bij ops v (v, imap_id) Hn).
  apply Bij_id.
Qed.

(* ---- no voxel is duplicated: the index map of EVERY operation (pad included) and of every
   history is injective on the voxels that have a pre-image, and pre-images lie in the box *)
Definition Inj (s s' : idx) (f : imap) : Prop :=
  wf s -> wf s' /\
  (forall j i, inr s' j -> f j = Some i -> inr s i) /\
  (forall j j' i, inr s' j -> inr s' j' -> f j = Some i -> f j' = Some i -> j = j').
Definition VInj (v v' : volT) (f : imap) : Prop := Inj (v_shape _ _ v) (v_shape _ _ v') f.

Lemma Inj_id : forall s, Inj s s imap_id.
Proof.
  intros s W. split; [exact W|]. unfold imap_id. split.
  - intros j i Hj E. inversion E; subst. exact Hj.
  - intros j j' i _ _ E1 E2. congruence.
Qed.

Lemma Inj_comp : forall s s' s'' f1 f2, Inj s s' f1 -> Inj s' s'' f2 -> Inj s s'' (imap_comp f2 f1).
Proof.
  intros s s' s'' f1 f2 B1 B2 W. destruct (B1 W) as (W1 & R1 & I1). destruct (B2 W1) as (W2 & R2 & I2).
  split; [exact W2|]. unfold imap_comp. split.
  - intros j i Hj E. destruct (f2 j) as [m|] eqn:Em; [|discriminate]. eapply R1; [eapply R2|]; eassumption.
  - intros j j' i Hj Hj' E1 E2.
    destruct (f2 j) as [m|] eqn:Em; [|discriminate]. destruct (f2 j') as [m'|] eqn:Em'; [|discriminate].
    assert (m = m') by (eapply I1; [eapply R2; [exact Hj|exact Em]|eapply R2; [exact Hj'|exact Em']|exact E1|exact E2]).
    subst m'. eapply I2; eassumption.
Qed.

Lemma Bij_Inj : forall s s' f, Bij s s' f -> Inj s s' f.
Proof.
  intros s s' f B W. destruct (B W) as (W' & T & _ & I). split; [exact W'|]. split; [|exact I].
  intros j i Hj E. destruct (T j Hj) as (i' & E' & Hi). congruence.
Qed.

Lemma get_Inj : forall shape ix p, prep_getitem shape ix = Ok p -> Inj shape (gp_n p) (get_map p).
Proof.
  intros shape ix p H W. destruct (prep_getitem_spec shape ix p W H) as (W' & T).
  pose proof (prep_getitem_steps shape ix p W H) as S.
  split; [exact W'|]. split.
  - intros j i Hj E. destruct (T j Hj) as (i' & E' & Hi). congruence.
  - destruct p as [[[f0 f1] f2] [[s0 s1] s2] n]. cbn [gp_s] in S. destruct S as (S0 & S1 & S2).
    intros [[j0 j1] j2] [[k0 k1] k2] i _ _ E1 E2. cbn [get_map gp_f gp_s] in E1, E2.
    rewrite <- E2 in E1. inversion E1.
    assert (j0 = k0) by nia. assert (j1 = k1) by nia. assert (j2 = k2) by nia. subst. reflexivity.
Qed.

Lemma vol_get_VInj : forall v ix v' f, vget v ix = Ok (v', f) -> VInj v v' f.
Proof.
  intros v ix v' f H. unfold vol_get in H. inv_bind H as p Ep. inversion H; subst; clear H.
  unfold VInj. cbn [v_shape]. eapply get_Inj; exact Ep.
Qed.

Lemma vol_pad_VInj : forall v w m cv pc v' f, vpad v w m cv pc = Ok (v', f) -> VInj v v' f.
Proof.
  intros v w m cv pc v' f H.
  destruct (vol_pad_inv R radd rmul inj Vx padval _ _ _ _ _ _ _ H) as (l & El & Ex & _ & ES & _ & _ & _ & Ef & _).
  destruct (prep_pad_width_len _ _ El) as (a & b & c & ->).
  destruct (existsb_neg_false' _ _ _ Ex) as (A0 & A1 & B0 & B1 & C0 & C1).
  destruct a as [a0 b0], b as [a1 b1], c as [a2 b2]. cbn [pw_triple fst snd] in *.
  unfold VInj. rewrite ES, Ef. destruct (v_shape _ _ v) as [[n0 n1] n2]. intros W.
  split; [cbn in *; lia|]. split.
  - intros [[j0 j1] j2] i Hj E.
    pose proof (pad_map_spec (n0, n1, n2) a0 b0 a1 b1 a2 b2 (j0, j1, j2) A0 A1 B0 B1 C0 C1 Hj) as Hs.
    rewrite E in Hs. apply Hs.
  - intros [[j0 j1] j2] [[k0 k1] k2] i Hj Hk E1 E2.
    pose proof (pad_map_spec (n0, n1, n2) a0 b0 a1 b1 a2 b2 (j0, j1, j2) A0 A1 B0 B1 C0 C1 Hj) as Hs1.
    pose proof (pad_map_spec (n0, n1, n2) a0 b0 a1 b1 a2 b2 (k0, k1, k2) A0 A1 B0 B1 C0 C1 Hk) as Hs2.
    rewrite E1 in Hs1. rewrite E2 in Hs2. destruct Hs1 as (_ & H1). destruct Hs2 as (_ & H2).
    rewrite H1 in H2. inversion H2. f_equal; [f_equal|]; lia.
Qed.

Theorem step_injective : forall v o v' f, vstep_sp v o = Ok (v', f) ->
  Inj (v_shape _ _ v) (v_shape _ _ v') f.
Proof.
  intros v o v' f H. unfold vol_step_sp in H.
  apply (step_sp_lift R rO radd rmul rsub ropp ltb Vx volT (v_aff R Vx) (v_shape R Vx) (v_patient R Vx)
           vget vpad vperm VInj
           (fun t => Inj_id _) (fun t t' t'' f1 f2 => Inj_comp _ _ _ f1 f2)
           vol_get_VInj vol_pad_VInj
           (fun t l t' f0 E => Bij_Inj _ _ _ (vol_perm_VBij t l t' f0 E)) v o v' f H).
Qed.

Lemma step_tr_Inj : forall v o v' f, true = true -> vstep_tr v o = Ok (v', f) -> VInj v v' f.
Proof.
  intros v o v' f _ H. pose proof (step_tr_geometry R rO radd rmul rsub ropp inj ltb Vx padval v o v' f H) as G.
  destruct o; [apply (step_injective v o v' f H)|..];
    destruct G as (-> & _ & ES & _); unfold VInj; rewrite ES; apply Inj_id.
Qed.

Theorem history_injective : forall ops v,
  Inj (v_shape _ _ v) (v_shape _ _ (fst (vrun_tr v ops))) (snd (vrun_tr v ops)).
Proof.
  intros ops v. unfold run_tr.
  apply (run_tr_lift VInj (fun _ => true) (fun v v' v'' f1 f2 => Inj_comp _ _ _ f1 f2) step_tr_Inj ops v (v, imap_id)).
  - induction ops; [reflexivity|exact IHops].
  - apply Inj_id.
Qed.

(* ---- the geometry-only object follows every finite history *)
Definition op_modes_ok (o : op Vx) : Prop := match o with Sp s => modes_ok Vx s | _ => True end.

Lemma geom_eta : forall g : geom R, Geom R (g_aff R g) (g_shape R g) (g_patient R g) (g_for R g) = g.
Proof. intros []. reflexivity. Qed.

Lemma step_skip_geometry : forall v o, op_modes_ok o ->
  geom_of R Vx (step_skip R rO radd rmul rsub ropp inj ltb Vx padval v o) =
  gstep_skip R rO radd rmul rsub ropp inj ltb Vx (geom_of R Vx v) o.
Proof.
  intros v o M. unfold step_skip, gstep_skip. destruct (vstep v o) as [v'|k] eqn:E.
  - pose proof (geometry_commutes R rO radd rmul rsub ropp inj ltb Vx padval v o v' E) as G.
    destruct (gstepR (geom_of R Vx v) o) as [r|]; [subst r; reflexivity|exact G].
  - destruct o as [s| | | | |]; cbn [gstep].
    + cbn [op_modes_ok] in M.
      pose proof (geometry_refusal_commutes R rO radd rmul rsub ropp inj ltb Vx padval v s k M E) as G.
      cbn [gstep] in G. inversion G as [G']. rewrite G'. reflexivity.
    + unfold step in E. cbn [step_tr] in E. discriminate.
    + reflexivity.
    + reflexivity.
    + reflexivity.
    + reflexivity.
Qed.

Theorem history_geometry_commutes : forall ops v, Forall op_modes_ok ops ->
  geom_of R Vx (vrun v ops) = grunR (geom_of R Vx v) ops.
Proof.
  induction ops as [|o ops IH]; intros v F; [reflexivity|]. inversion F as [|? ? M F']; subst.
  unfold run, grun in *. cbn [fold_left]. rewrite <- (step_skip_geometry v o M). apply IH. exact F'.
Qed.

(* more than three index items: refused by both objects, with the same class *)
Theorem getitem_too_many_refused : forall (v : volT) ix, 3 < Z.of_nat (length (items_of_index ix)) ->
  vstep v (Sp (OGet ix)) = Err "IndexError" /\
  gstepR (geom_of R Vx v) (Sp (OGet ix)) = Some (Err "IndexError").
Proof.
  intros v ix H. unfold step. cbn [step_tr gstep]. unfold vol_step_sp, geom_step_sp. cbn [step_sp].
  unfold vol_get, geom_get. cbn [geom_of g_shape]. rewrite (prep_getitem_too_many _ _ H). split; reflexivity.
Qed.

Theorem getitem_accepts_at_most_three : forall (v : volT) ix r,
  vstep_sp v (OGet ix) = Ok r -> Z.of_nat (length (items_of_index ix)) <= 3.
Proof.
  intros v ix r H. unfold vol_step_sp in H. cbn [step_sp] in H. unfold vol_get in H.
  destruct (prep_getitem (v_shape R Vx v) ix) as [p|] eqn:E; [|discriminate].
  eapply prep_getitem_ok_items; exact E.
Qed.

End Generic.
