(* C15 - proofs, part 1: reference search = filter of the pre-order listing;
   insertion-ordered grouping; _create_references; the collect_evidence loop. *)
From Coq Require Import String ZArith List Bool Lia Permutation.
From HD Require Import Base.Val C15_Model.
Import ListNotations.
Open Scope Z_scope.

(* ---- specification vocabulary ---------------------------------------------- *)
(* pre-order listing of an item and everything below it *)
Fixpoint preorder (it : item) : list item :=
  it :: match it with Item _ _ _ _ _ ks => flat_map preorder ks end.
(* every item strictly below a node, document order *)
Definition descendants (node : item) : list item := flat_map preorder (i_kids node).

(* an instance uid is referenced by an IMAGE or COMPOSITE item anywhere below root *)
Definition referenced (root : item) (u : Z) : Prop :=
  exists it c, In it (descendants root) /\ (i_vt it = IMAGE \/ i_vt it = COMPOSITE) /\
               i_ref it = Some (u, c).
(* every IMAGE / COMPOSITE item carries a ReferencedSOPSequence *)
Definition refs_wf (root : item) : Prop :=
  forall it, In it (descendants root) -> (i_vt it = IMAGE \/ i_vt it = COMPOSITE) -> i_ref it <> None.

(* the record under which an instance was supplied: the first one with that uid *)
Definition first_evd (ev : list evd) (u : Z) : option evd := find (fun e => e_uid e =? u) ev.

Definition uid4 (t : Z * Z * Z * Z) : Z := match t with (_, _, u, _) => u end.
Definition tup (e : evd) : Z * Z * Z * Z := (e_study e, e_series e, e_uid e, e_cls e).

(* ---- item induction ----------------------------------------------------------- *)
Section ItemInd.
  Variable P : item -> Prop.
  Hypothesis H : forall t g r rf ats ks, Forall P ks -> P (Item t g r rf ats ks).
  Fixpoint item_ind' (it : item) : P it :=
    match it with
    | Item t g r rf ats ks =>
        H t g r rf ats ks
          ((fix go (l : list item) : Forall P l :=
              match l with
              | [] => Forall_nil P
              | x :: l' => Forall_cons x (item_ind' x) (go l')
              end) ks)
    end.
End ItemInd.

Lemma filter_flat_map {A B} (p : B -> bool) (f : A -> list B) (l : list A) :
  filter p (flat_map f l) = flat_map (fun x => filter p (f x)) l.
Proof. induction l as [|x l IH]; cbn [flat_map filter]; [reflexivity|]. now rewrite filter_app, IH. Qed.

Lemma flat_map_ext_Forall {A B} (f g : A -> list B) (l : list A) :
  Forall (fun x => f x = g x) l -> flat_map f l = flat_map g l.
Proof. induction 1 as [|x l Hx _ IH]; cbn [flat_map]; [reflexivity|]. now rewrite Hx, IH. Qed.

Lemma find_item_recursive : forall p it, find_item true p it = filter p (preorder it).
Proof.
  intros p it. induction it as [t g r rf ats ks IH] using item_ind'.
  cbn [find_item preorder filter].
  rewrite filter_flat_map.
  rewrite (flat_map_ext_Forall _ _ ks IH).
  destruct (p (Item t g r rf ats ks)); reflexivity.
Qed.

Lemma find_item_flat : forall p it, find_item false p it = filter p [it].
Proof. intros p [t g r rf ks]. cbn [find_item filter]. destruct (p _); reflexivity. Qed.

Lemma search_tree_recursive : forall p node,
  search_tree true p node = filter p (descendants node).
Proof.
  intros. unfold search_tree, descendants. rewrite filter_flat_map.
  apply flat_map_ext_Forall. apply Forall_forall. intros. apply find_item_recursive.
Qed.

Lemma search_tree_flat : forall p node, search_tree false p node = filter p (i_kids node).
Proof.
  intros. unfold search_tree. induction (i_kids node) as [|x l IH]; [reflexivity|].
  cbn [flat_map]. rewrite IH, find_item_flat. cbn [filter]. destruct (p x); reflexivity.
Qed.

Lemma vt_eqb_eq : forall a b, vt_eqb a b = true <-> a = b.
Proof. intros a b. split; [|intros ->; unfold vt_eqb; apply Z.eqb_refl]. destruct a, b; cbv; congruence. Qed.

(* children are descendants; descendants of descendants are descendants *)
Lemma preorder_self : forall it, In it (preorder it).
Proof. intros [t g r rf ks]. cbn [preorder]. now left. Qed.

Lemma kid_descendant : forall node k, In k (i_kids node) -> In k (descendants node).
Proof. intros node k Hk. unfold descendants. apply in_flat_map. exists k. split; [assumption|apply preorder_self]. Qed.

Lemma preorder_trans : forall a b c, In b (preorder a) -> In c (preorder b) -> In c (preorder a).
Proof.
  intros a. induction a as [t g r rf ats ks IH] using item_ind'. intros b c Hb Hc.
  cbn [preorder] in Hb. destruct Hb as [<-|Hb]; [assumption|].
  cbn [preorder]. right. apply in_flat_map in Hb. destruct Hb as [k [Hk Hb]].
  apply in_flat_map. exists k. split; [assumption|].
  rewrite Forall_forall in IH. eapply IH; eassumption.
Qed.

Lemma descendants_trans : forall a b c, In b (descendants a) -> In c (descendants b) -> In c (descendants a).
Proof.
  intros a b c Hb Hc. unfold descendants in *.
  apply in_flat_map in Hb. destruct Hb as [k [Hk Hb]].
  apply in_flat_map. exists k. split; [assumption|].
  eapply preorder_trans; [eassumption|].
  destruct b as [t g r rf ats ks]. cbn [preorder i_kids] in *. now right.
Qed.

(* ---- grouping ----------------------------------------------------------------- *)
Lemma NoDup_app_inv {A} : forall (l1 l2 : list A), NoDup (l1 ++ l2) ->
  NoDup l1 /\ NoDup l2 /\ (forall x, In x l1 -> ~ In x l2).
Proof.
  induction l1 as [|a l1 IH]; intros l2 H; cbn [app] in *.
  - repeat split; [constructor|assumption|intros x []].
  - inversion H as [|? ? Ha Hr]; subst. destruct (IH _ Hr) as [H1 [H2 H3]].
    repeat split; [constructor; [intro; apply Ha, in_or_app; now left|assumption]|assumption|].
    intros x [<-|Hx]; [intro; apply Ha, in_or_app; now right|now apply H3].
Qed.

Lemma NoDup_app_intro {A} : forall (l1 l2 : list A), NoDup l1 -> NoDup l2 ->
  (forall x, In x l1 -> ~ In x l2) -> NoDup (l1 ++ l2).
Proof.
  induction l1 as [|a l1 IH]; intros l2 H1 H2 H; cbn [app]; [assumption|].
  inversion H1; subst. constructor.
  - intro Hin. apply in_app_or in Hin. destruct Hin; [contradiction|]. apply (H a); [now left|assumption].
  - apply IH; [assumption|assumption|]. intros x Hx. apply H. now right.
Qed.

Lemma NoDup_flat_map_inner {A B} (f : A -> list B) : forall l x,
  NoDup (flat_map f l) -> In x l -> NoDup (f x).
Proof.
  induction l as [|a l IH]; intros x H []; cbn [flat_map] in H;
    apply NoDup_app_inv in H; destruct H as [Ha [Hl _]]; [now subst|now apply IH].
Qed.

Section GroupFacts.
  Context {K V : Type} (eqb : K -> K -> bool).
  Hypothesis eqb_spec : forall a b, eqb a b = true <-> a = b.

  Definition gflat (g : list (K * list V)) : list (K * V) :=
    flat_map (fun kv => map (pair (fst kv)) (snd kv)) g.

  Lemma group_add_perm : forall k (v : V) g,
    Permutation (gflat (group_add eqb k v g)) (gflat g ++ [(k, v)]).
  Proof.
    intros k v. induction g as [|[k' vs] g IH]; cbn [group_add gflat flat_map app fst snd map].
    - reflexivity.
    - destruct (eqb k k') eqn:E.
      + apply eqb_spec in E. subst k'. cbn [flat_map fst snd].
        rewrite map_app. cbn [map]. rewrite <- !app_assoc.
        apply Permutation_app_head. fold (gflat g).
        rewrite Permutation_app_comm. reflexivity.
      + cbn [flat_map fst snd]. rewrite <- app_assoc. apply Permutation_app_head. exact IH.
  Qed.

  Lemma group_add_keys_in : forall k (v : V) g x,
    In x (map fst (group_add eqb k v g)) <-> In x (map fst g) \/ x = k.
  Proof.
    intros k v. induction g as [|[k' vs] g IH]; intros x; cbn [group_add map fst In].
    - intuition.
    - destruct (eqb k k') eqn:E; cbn [map fst In].
      + apply eqb_spec in E. subst. intuition.
      + rewrite IH. intuition.
  Qed.

  Lemma group_add_keys_NoDup : forall k (v : V) g,
    NoDup (map fst g) -> NoDup (map fst (group_add eqb k v g)).
  Proof.
    intros k v. induction g as [|[k' vs] g IH]; intros H; cbn [group_add map fst].
    - constructor; [intros []|constructor].
    - cbn [map fst] in H. inversion H as [|? ? Hn Hr]; subst.
      destruct (eqb k k') eqn:E; cbn [map fst].
      + constructor; assumption.
      + constructor; [|now apply IH].
        intro Hin. apply group_add_keys_in in Hin. destruct Hin as [Hin| ->]; [contradiction|].
        assert (eqb k k = true) by now apply eqb_spec. congruence.
  Qed.

  Lemma group_add_nonempty : forall k (v : V) g,
    Forall (fun kv => snd kv <> []) g -> Forall (fun kv => snd kv <> []) (group_add eqb k v g).
  Proof.
    intros k v. induction g as [|[k' vs] g IH]; intros H; cbn [group_add].
    - constructor; [cbn; discriminate|constructor].
    - inversion H; subst. destruct (eqb k k').
      + constructor; [cbn [snd]; intro E; now apply app_eq_nil in E as [_ E]|assumption].
      + constructor; [assumption|now apply IH].
  Qed.
End GroupFacts.

Lemma pair_eqb_spec : forall a b, pair_eqb a b = true <-> a = b.
Proof.
  intros [a1 a2] [b1 b2]. unfold pair_eqb. cbn [fst snd].
  rewrite andb_true_iff, !Z.eqb_eq. split; [intros [-> ->]; reflexivity|intros E; inversion E; split; reflexivity].
Qed.

(* ---- _create_references --------------------------------------------------------- *)
Definition flat1 (g : sgroups) : list (Z * Z * Z * Z) :=
  flat_map (fun e => map (fun i => (fst (fst e), snd (fst e), fst i, snd i)) (snd e)) g.

Definition inst4 (x : Z * (Z * list inst)) : list (Z * Z * Z * Z) :=
  map (fun i => (fst x, fst (snd x), fst i, snd i)) (snd (snd x)).

Lemma flatten_gflat : forall r, flatten r = flat_map inst4 (gflat r).
Proof.
  induction r as [|[st sers] r IH]; [reflexivity|].
  unfold flatten, gflat in *. cbn [flat_map fst snd]. rewrite flat_map_app, <- IH. f_equal.
  induction sers as [|[se is] sers IHs]; [reflexivity|].
  cbn [flat_map map fst snd]. rewrite IHs. reflexivity.
Qed.

Lemma flatten_series_gflat : forall r,
  flatten_series r = map (fun x : Z * (Z * list inst) => (fst x, fst (snd x))) (gflat r).
Proof.
  induction r as [|[st sers] r IH]; [reflexivity|].
  unfold flatten_series, gflat in *. cbn [flat_map fst snd]. rewrite map_app, <- IH. f_equal.
  rewrite map_map. reflexivity.
Qed.

Definition cr_step (acc : refs_t) (e : (Z * Z) * list inst) : refs_t :=
  group_add Z.eqb (fst (fst e)) (snd (fst e), snd e) acc.

Lemma create_references_fold : forall g, create_references g = fold_left cr_step g [].
Proof. reflexivity. Qed.

Lemma cr_fold_perm : forall g acc,
  Permutation (gflat (fold_left cr_step g acc))
              (gflat acc ++ map (fun e => (fst (fst e), (snd (fst e), snd e))) g).
Proof.
  induction g as [|e g IH]; intros acc; cbn [fold_left map].
  - now rewrite app_nil_r.
  - rewrite IH. unfold cr_step at 1.
    rewrite (group_add_perm Z.eqb Z.eqb_eq). rewrite <- app_assoc. reflexivity.
Qed.

Lemma create_references_perm : forall g, Permutation (flatten (create_references g)) (flat1 g).
Proof.
  intros g. rewrite flatten_gflat, create_references_fold.
  rewrite (cr_fold_perm g []). cbn [gflat flat_map app].
  unfold flat1. rewrite flat_map_concat_map, map_map, <- flat_map_concat_map.
  apply Permutation_refl' . apply flat_map_ext. intros [[st se] is]. reflexivity.
Qed.

Lemma create_references_series : forall g,
  Permutation (flatten_series (create_references g)) (map fst g).
Proof.
  intros g. rewrite flatten_series_gflat, create_references_fold.
  rewrite (cr_fold_perm g []). cbn [gflat flat_map app]. rewrite map_map.
  apply Permutation_refl'. apply map_ext. intros [[st se] is]. reflexivity.
Qed.

Lemma cr_fold_NoDup : forall g acc, NoDup (map fst acc) -> NoDup (map fst (fold_left cr_step g acc)).
Proof.
  induction g as [|e g IH]; intros acc H; cbn [fold_left]; [assumption|].
  apply IH. apply (group_add_keys_NoDup Z.eqb Z.eqb_eq). assumption.
Qed.

Lemma create_references_studies_NoDup : forall g, NoDup (map fst (create_references g)).
Proof. intros. rewrite create_references_fold. apply cr_fold_NoDup. constructor. Qed.

Lemma create_references_series_NoDup : forall g,
  NoDup (map fst g) -> NoDup (flatten_series (create_references g)).
Proof.
  intros g H. eapply Permutation_NoDup; [apply Permutation_sym, create_references_series|assumption].
Qed.

Lemma cr_fold_nonempty : forall g acc,
  Forall (fun kv => snd kv <> []) acc -> Forall (fun kv => snd kv <> []) (fold_left cr_step g acc).
Proof.
  induction g as [|e g IH]; intros acc H; cbn [fold_left]; [assumption|].
  apply IH. now apply group_add_nonempty.
Qed.

(* series listed once under their study *)
Lemma series_NoDup_under_study : forall (r : refs_t) st sers,
  NoDup (flatten_series r) -> In (st, sers) r -> NoDup (map fst sers).
Proof.
  intros r st sers H Hin. unfold flatten_series in H.
  pose proof (NoDup_flat_map_inner _ r (st, sers) H Hin) as Hn. cbn [fst snd] in Hn.
  rewrite <- (map_map fst (pair st)) in Hn. now apply NoDup_map_inv in Hn.
Qed.

(* ---- the collect_evidence loop ---------------------------------------------------- *)
(* evidence records that survive de-duplication (first record of each uid),
   relative to the uids already seen *)
Fixpoint dedup_uid (seen : list Z) (ev : list evd) : list evd :=
  match ev with
  | [] => []
  | e :: r => if mem (e_uid e) seen then dedup_uid seen r else e :: dedup_uid (e_uid e :: seen) r
  end.

Lemma mem_In : forall u l, mem u l = true <-> In u l.
Proof.
  intros u l. unfold mem. rewrite existsb_exists. split.
  - intros [x [Hx E]]. apply Z.eqb_eq in E. now subst.
  - intros H. exists u. split; [assumption|apply Z.eqb_refl].
Qed.

Lemma mem_false : forall u l, mem u l = false <-> ~ In u l.
Proof. intros. rewrite <- mem_In. destruct (mem u l); intuition congruence. Qed.

Definition kv_of (e : evd) : (Z * Z) * inst := ((e_study e, e_series e), (e_uid e, e_cls e)).

Lemma collect_fold : forall R ev seen rg ug,
  let st' := fold_left (collect_step R) ev (seen, rg, ug) in
  let D := dedup_uid seen ev in
  fst (fst st') = rev (map e_uid D) ++ seen /\
  Permutation (gflat (snd (fst st'))) (gflat rg ++ map kv_of (filter (fun e => mem (e_uid e) R) D)) /\
  Permutation (gflat (snd st')) (gflat ug ++ map kv_of (filter (fun e => negb (mem (e_uid e) R)) D)) /\
  (NoDup (map fst rg) -> NoDup (map fst (snd (fst st')))) /\
  (NoDup (map fst ug) -> NoDup (map fst (snd st'))).
Proof.
  intros R. induction ev as [|e ev IH]; intros seen rg ug; cbn zeta.
  - cbn [fold_left dedup_uid map rev filter app fst snd]. rewrite !app_nil_r. repeat split; auto.
  - cbn [fold_left dedup_uid].
    assert (Hstep : collect_step R (seen, rg, ug) e =
      if mem (e_uid e) seen then (seen, rg, ug)
      else if mem (e_uid e) R
           then (e_uid e :: seen, group_add pair_eqb (e_study e, e_series e) (e_uid e, e_cls e) rg, ug)
           else (e_uid e :: seen, rg, group_add pair_eqb (e_study e, e_series e) (e_uid e, e_cls e) ug))
      by reflexivity.
    rewrite Hstep. clear Hstep.
    destruct (mem (e_uid e) seen) eqn:Es; cbv iota.
    + apply IH.
    + destruct (mem (e_uid e) R) eqn:Er; cbv iota.
      * specialize (IH (e_uid e :: seen) (group_add pair_eqb (e_study e, e_series e) (e_uid e, e_cls e) rg) ug).
        cbn zeta in IH. destruct IH as [I1 [I2 [I3 [I4 I5]]]].
        cbn [map rev filter]. rewrite Er. cbn [negb map].
        repeat split.
        -- rewrite <- app_assoc. exact I1.
        -- eapply Permutation_trans; [exact I2|].
           rewrite (group_add_perm pair_eqb pair_eqb_spec).
           rewrite <- app_assoc. reflexivity.
        -- exact I3.
        -- intros Hn. apply I4. now apply (group_add_keys_NoDup pair_eqb pair_eqb_spec).
        -- exact I5.
      * specialize (IH (e_uid e :: seen) rg (group_add pair_eqb (e_study e, e_series e) (e_uid e, e_cls e) ug)).
        cbn zeta in IH. destruct IH as [I1 [I2 [I3 [I4 I5]]]].
        cbn [map rev filter]. rewrite Er. cbn [negb map].
        repeat split.
        -- rewrite <- app_assoc. exact I1.
        -- exact I2.
        -- eapply Permutation_trans; [exact I3|].
           rewrite (group_add_perm pair_eqb pair_eqb_spec).
           rewrite <- app_assoc. reflexivity.
        -- exact I4.
        -- intros Hn. apply I5. now apply (group_add_keys_NoDup pair_eqb pair_eqb_spec).
Qed.

(* facts about the surviving records *)
Lemma dedup_uid_spec : forall ev seen e,
  In e (dedup_uid seen ev) <-> (first_evd ev (e_uid e) = Some e /\ ~ In (e_uid e) seen).
Proof.
  unfold first_evd. induction ev as [|e0 ev IH]; intros seen e; cbn [dedup_uid find].
  - split; [intros []|intros [H _]; discriminate].
  - destruct (mem (e_uid e0) seen) eqn:Es.
    + rewrite IH. apply mem_In in Es.
      destruct (e_uid e0 =? e_uid e) eqn:E.
      * apply Z.eqb_eq in E. split.
        -- intros [_ Hn]. exfalso. apply Hn. now rewrite <- E.
        -- intros [H Hn]. exfalso. inversion H; subst. contradiction.
      * reflexivity.
    + apply mem_false in Es. cbn [In]. rewrite IH. cbn [In].
      destruct (e_uid e0 =? e_uid e) eqn:E.
      * apply Z.eqb_eq in E. split.
        -- intros [->|[_ Hn]]; [split; [reflexivity|assumption]|]. exfalso. apply Hn. now left.
        -- intros [H Hn]. left. now inversion H.
      * apply Z.eqb_neq in E. split.
        -- intros [->|[H Hn]]; [congruence|]. split; [assumption|]. intro; apply Hn; now right.
        -- intros [H Hn]. right. split; [assumption|]. intros [?|?]; [congruence|contradiction].
Qed.

Lemma dedup_uid_NoDup : forall ev seen, NoDup (map e_uid (dedup_uid seen ev)).
Proof.
  induction ev as [|e0 ev IH]; intros seen; cbn [dedup_uid map]; [constructor|].
  destruct (mem (e_uid e0) seen); [apply IH|]. cbn [map]. constructor; [|apply IH].
  intro Hin. apply in_map_iff in Hin. destruct Hin as [e [E He]].
  apply dedup_uid_spec in He. destruct He as [_ Hn]. apply Hn. left. now symmetry.
Qed.

Lemma first_evd_some : forall ev u, In u (map e_uid ev) <-> exists e, first_evd ev u = Some e.
Proof.
  unfold first_evd. induction ev as [|e0 ev IH]; intros u; cbn [map In find].
  - split; [intros []|intros [e H]; discriminate].
  - destruct (e_uid e0 =? u) eqn:E.
    + apply Z.eqb_eq in E. split; [intros _; now exists e0|intros _; now left].
    + apply Z.eqb_neq in E. rewrite <- IH. intuition.
Qed.

Lemma first_evd_uid : forall ev u e, first_evd ev u = Some e -> e_uid e = u /\ In e ev.
Proof.
  unfold first_evd. intros ev u e H. apply find_some in H. destruct H as [Hin E].
  apply Z.eqb_eq in E. now split.
Qed.

(* set of uids: surviving records cover exactly the supplied uids *)
Lemma dedup_uid_covers : forall ev u, In u (map e_uid (dedup_uid [] ev)) <-> In u (map e_uid ev).
Proof.
  intros ev u. rewrite (first_evd_some ev u), in_map_iff. split.
  - intros [e [E He]]. apply dedup_uid_spec in He. destruct He as [H _]. exists e. now rewrite <- E.
  - intros [e H]. exists e. destruct (first_evd_uid _ _ _ H) as [E _]. split; [assumption|].
    apply dedup_uid_spec. rewrite E. split; [assumption|intros []].
Qed.
