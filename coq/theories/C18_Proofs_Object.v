(* C18 - proofs, part 7: the whole object.  Several groups, each with graphic data and
   measurements, built by the constructors, looked up by number / uid / filter, read
   through the accessors in any order, fresh or parsed: the composite statement that
   reads like the property sentence, and the exact acceptance condition of the
   constructors. *)
From Coq Require Import String ZArith List Bool Lia ZifyBool Arith.
From HD Require Import Base.Val Base.ListZ C18_Model C18_Proofs C18_Proofs_Meas C18_Proofs_General
  C18_Proofs_History.
Import ListNotations.
Ltac Zify.zify_post_hook ::= Z.to_euclidean_division_equations.
Open Scope Z_scope.

(* ---- access order on a parsed group, without the z_agree guard ---------------------------- *)
Lemma stateless_answer_general : forall dbl gt gd e o,
  encode dbl gt gd = Ok e -> op_cd o = dim gd -> stateless e o = answer (returned dbl gd) o.
Proof.
  intros dbl gt gd e o He Ho. destruct o as [cd|k cd]; cbn [op_cd] in Ho; subst cd; unfold stateless, answer;
    rewrite (decode_general _ _ _ _ He); reflexivity.
Qed.

Lemma access_order_parsed_general : forall dbl gt gd e ops,
  encode dbl gt gd = Ok e -> Forall (fun o => op_cd o = dim gd) ops ->
  run_ops e None ops = map (answer (returned dbl gd)) ops.
Proof.
  intros dbl gt gd e ops He Hall. rewrite (history_parsed e (dim gd) ops Hall).
  apply map_ext_in. intros o Ho. apply (stateless_answer_general dbl gt gd e o He).
  rewrite Forall_forall in Hall. exact (Hall o Ho).
Qed.

(* ---- sequence_res ------------------------------------------------------------------------------- *)
Lemma sequence_res_Forall2 {A B} (f : A -> res B) : forall l out,
  sequence_res (map f l) = Ok out <-> Forall2 (fun a b => f a = Ok b) l out.
Proof.
  induction l as [|a t IH]; intros out; cbn [map sequence_res].
  - split; [intros H; inversion H; constructor|intros H; inversion H; reflexivity].
  - split.
    + intros H. destruct (f a) as [b|k] eqn:Ea; cbn [bind] in H; [|discriminate].
      destruct (sequence_res (map f t)) as [t'|k] eqn:Et; cbn [bind] in H; [|discriminate].
      inversion H; subst. constructor; [exact Ea|]. now apply IH.
    + intros H. inversion H as [|a' b t0 t' Hab Ht]; subst. rewrite Hab. cbn [bind].
      apply IH in Ht. rewrite Ht. reflexivity.
Qed.

Lemma sequence_res_err {A B} (f : A -> res B) : forall l k,
  sequence_res (map f l) = Err k -> exists a, In a l /\ f a = Err k.
Proof.
  induction l as [|a t IH]; intros k H; cbn [map sequence_res] in H; [discriminate|].
  destruct (f a) as [b|k'] eqn:Ea; cbn [bind] in H.
  - destruct (sequence_res (map f t)) as [t'|k'] eqn:Et; cbn [bind] in H; [discriminate|].
    inversion H; subst. destruct (IH k eq_refl) as (x & Hx & Hfx). exists x. split; [now right|exact Hfx].
  - inversion H; subst. exists a. split; [now left|exact Ea].
Qed.

Lemma sequence_res_total {A B} (f : A -> res B) : forall l,
  (forall a, In a l -> exists b, f a = Ok b) -> exists out, sequence_res (map f l) = Ok out.
Proof.
  induction l as [|a t IH]; intros H; cbn [map sequence_res]; [eauto|].
  destruct (H a (or_introl eq_refl)) as (b & ->). cbn [bind].
  destruct (IH (fun x Hx => H x (or_intror Hx))) as (out & ->). cbn [bind]. eauto.
Qed.

(* ---- one group ---------------------------------------------------------------------------------- *)
Definition group_ok (s : gspec) : Prop :=
  1 <= g_number (s_info s) /\
  0 <= g_algtype (s_info s) <= 2 /\
  (g_algtype (s_info s) <> 0 -> g_alg (s_info s) <> None) /\
  admissible (s_dbl s) (g_gt (s_info s)) (s_gd s) /\
  (forall m, In m (s_ms s) -> zlen (snd m) = zlen (s_gd s)).

Lemma encode_n : forall dbl gt gd e, encode dbl gt gd = Ok e -> e_n e = zlen gd.
Proof.
  intros dbl gt gd e He. destruct (encode_inv _ _ _ _ He) as (r0 & rest & _ & _ & _ & _ & _ & ->). reflexivity.
Qed.

Lemma build_group_inv : forall s o, build_group s = Ok o ->
  group_ok s /\
  exists e, encode (s_dbl s) (g_gt (s_info s)) (s_gd s) = Ok e /\
    o = mkGO (norm_info (s_info s)) e (map (fun m => (fst m, m_encode (snd m))) (s_ms s))
             (Some (row_dim (s_gd s), s_gd s)).
Proof.
  intros s o H. unfold build_group in H. cbn zeta in H.
  destruct (g_number (s_info s) <? 1) eqn:E1; [discriminate|].
  destruct ((g_algtype (s_info s) <? 0) || (2 <? g_algtype (s_info s))) eqn:E2; [discriminate|].
  destruct (negb (g_algtype (s_info s) =? 0) && negb (is_some (g_alg (s_info s)))) eqn:E3; [discriminate|].
  destruct (encode (s_dbl s) (g_gt (s_info s)) (s_gd s)) as [e|k] eqn:Ee; cbn [bind] in H; [|discriminate].
  destruct (group_accepts_measurements (e_n e) (map (fun m => (fst m, m_encode (snd m))) (s_ms s))) eqn:Em;
    [|discriminate].
  inversion H; subst. split; [|exists e; split; reflexivity].
  unfold group_ok. split; [lia|]. split; [lia|]. split; [|split].
  - intros Hne Hnone. rewrite Hnone in E3. cbn [is_some negb] in E3. lia.
  - apply encode_accepts_iff. eauto.
  - intros m Hm. rewrite (encode_n _ _ _ _ Ee) in Em.
    exact (proj1 (group_measurements_accepted_iff _ _) Em m Hm).
Qed.

Lemma build_group_accepts_iff : forall s, (exists o, build_group s = Ok o) <-> group_ok s.
Proof.
  intros s. split.
  - intros (o & H). exact (proj1 (build_group_inv s o H)).
  - intros (H1 & H2 & H3 & H4 & H5). unfold build_group. cbn zeta.
    replace (g_number (s_info s) <? 1) with false by lia.
    replace ((g_algtype (s_info s) <? 0) || (2 <? g_algtype (s_info s))) with false by lia.
    replace (negb (g_algtype (s_info s) =? 0) && negb (is_some (g_alg (s_info s)))) with false.
    2:{ destruct (g_algtype (s_info s) =? 0) eqn:E0; [reflexivity|].
        destruct (g_alg (s_info s)) eqn:Ea; [reflexivity|]. exfalso. apply H3; [lia|reflexivity]. }
    apply encode_accepts_iff in H4 as (e & He). rewrite He. cbn [bind].
    rewrite (encode_n _ _ _ _ He).
    rewrite (proj2 (group_measurements_accepted_iff _ _) H5). eauto.
Qed.

(* the only TypeError of the group constructor: an algorithm type other than MANUAL without
   algorithm identification, the number and the type being valid *)
Lemma build_group_type_error_iff : forall s,
  build_group s = Err "TypeError" <->
  1 <= g_number (s_info s) /\ 1 <= g_algtype (s_info s) <= 2 /\ g_alg (s_info s) = None.
Proof.
  intros s. unfold build_group. cbn zeta. split.
  - intros H.
    destruct (g_number (s_info s) <? 1) eqn:E1; [discriminate|].
    destruct ((g_algtype (s_info s) <? 0) || (2 <? g_algtype (s_info s))) eqn:E2; [discriminate|].
    destruct (negb (g_algtype (s_info s) =? 0) && negb (is_some (g_alg (s_info s)))) eqn:E3.
    + destruct (g_alg (s_info s)); cbn [is_some negb] in E3; [lia|]. repeat split; lia.
    + exfalso. destruct (encode_only_value_error (s_dbl s) (g_gt (s_info s)) (s_gd s)) as [(e & He)|He];
        rewrite He in H; cbn [bind] in H; [|discriminate].
      destruct (group_accepts_measurements _ _); discriminate.
  - intros (H1 & H2 & H3). rewrite H3. cbn [is_some negb].
    replace (g_number (s_info s) <? 1) with false by lia.
    replace ((g_algtype (s_info s) <? 0) || (2 <? g_algtype (s_info s))) with false by lia.
    replace (negb (g_algtype (s_info s) =? 0) && true) with true by lia. reflexivity.
Qed.

Lemma build_group_errors : forall s k, build_group s = Err k -> k = VE \/ k = "TypeError"%string.
Proof.
  intros s k H. unfold build_group in H. cbn zeta in H.
  destruct (g_number (s_info s) <? 1); [inversion H; now left|].
  destruct ((g_algtype (s_info s) <? 0) || (2 <? g_algtype (s_info s))); [inversion H; now left|].
  destruct (negb (g_algtype (s_info s) =? 0) && negb (is_some (g_alg (s_info s)))); [inversion H; now right|].
  destruct (encode_only_value_error (s_dbl s) (g_gt (s_info s)) (s_gd s)) as [(e & He)|He];
    rewrite He in H; cbn [bind] in H; [|inversion H; now left].
  destruct (group_accepts_measurements _ _); [discriminate|inversion H; now left].
Qed.

(* ---- what a group object holds ------------------------------------------------------------------
   [holds parsed s o]: object o carries the identification of s, answers every history of
   accessor calls with the stored coordinates (parsed: with the shared z written once,
   [returned]) and every get_measurements with the stored vectors. *)
Definition holds (parsed : bool) (s : gspec) (o : gobj) : Prop :=
  o_info o = norm_info (s_info s) /\
  e_n (o_enc o) = zlen (s_gd s) /\
  (forall ops, Forall (fun op => op_cd op = dim (s_gd s)) ops ->
     run_ops (o_enc o) (o_cache o) ops =
     map (answer (if parsed then returned (s_dbl s) (s_gd s) else s_gd s)) ops) /\
  (forall name, get_measurements (e_n (o_enc o)) (o_ms o) name =
     let sel := filter (fun m => match name with None => true | Some q => fst m =? q end) (s_ms s) in
     Ok (map fst sel, map (fun m => map canon (snd m)) sel)).

Lemma filter_map_fst {B C} : forall (p : Z -> bool) (f : B -> C) (l : list (Z * B)),
  filter (fun m => p (fst m)) (map (fun m => (fst m, f (snd m))) l) =
  map (fun m => (fst m, f (snd m))) (filter (fun m => p (fst m)) l).
Proof.
  induction l as [|m t IH]; [reflexivity|]. cbn [map filter fst].
  destruct (p (fst m)); cbn [map]; now rewrite IH.
Qed.

Lemma get_measurements_parsed : forall n (ms : list (Z * menc)) name,
  get_measurements n (map (fun m => (fst m, m_parsed (snd m))) ms) name = get_measurements n ms name.
Proof.
  intros n ms name. unfold get_measurements.
  rewrite (filter_map_fst (fun x => match name with None => true | Some q => x =? q end) m_parsed ms).
  rewrite !map_map. cbn [fst snd]. reflexivity.
Qed.

Lemma build_group_holds : forall s o, build_group s = Ok o ->
  holds false s o /\ holds true s (parse_obj o).
Proof.
  intros s o H. destruct (build_group_inv s o H) as ((_ & _ & _ & _ & Hms) & e & He & ->).
  pose proof (encode_n _ _ _ _ He) as Hn.
  assert (Hmeas : forall name,
    get_measurements (e_n e) (map (fun m => (fst m, m_encode (snd m))) (s_ms s)) name =
    let sel := filter (fun m => match name with None => true | Some q => fst m =? q end) (s_ms s) in
    Ok (map fst sel, map (fun m => map canon (snd m)) sel)).
  { intros name. rewrite Hn. apply get_measurements_exact. exact Hms. }
  split; unfold holds, parse_obj; cbn [o_info o_enc o_ms o_cache]; repeat split; try exact Hn.
  - intros ops Hall. apply (access_order_fresh _ _ _ _ _ He Hall).
  - exact Hmeas.
  - intros ops Hall. apply (access_order_parsed_general _ _ _ _ _ He Hall).
  - intros name. rewrite get_measurements_parsed. apply Hmeas.
Qed.

(* ---- lookups returning the object ------------------------------------------------------------- *)
Lemma filter_numbered_obj : forall os i k, numbered_from i (map o_info os) = true ->
  filter (fun o => g_number (o_info o) =? k) os =
  match nth_error os (Z.to_nat (k - i)) with
  | Some o => if i <=? k then [o] else []
  | None => []
  end.
Proof.
  induction os as [|g t IH]; intros i k H.
  - destruct (Z.to_nat (k - i)); reflexivity.
  - cbn [map numbered_from] in H. apply andb_prop in H as [Hg Ht]. cbn [filter].
    specialize (IH (i + 1) k Ht).
    destruct (Z.compare_spec k i) as [E|E|E].
    + subst k. replace (g_number (o_info g) =? i) with true by lia. replace (Z.to_nat (i - i)) with 0%nat by lia.
      cbn [nth_error]. replace (i <=? i) with true by lia. f_equal. rewrite IH.
      replace (i + 1 <=? i) with false by lia. destruct (nth_error t (Z.to_nat (i - (i + 1)))); reflexivity.
    + replace (g_number (o_info g) =? k) with false by lia. replace (Z.to_nat (k - i)) with 0%nat by lia.
      cbn [nth_error]. replace (i <=? k) with false by lia. rewrite IH.
      replace (i + 1 <=? k) with false by lia. destruct (nth_error t (Z.to_nat (k - (i + 1)))); reflexivity.
    + replace (g_number (o_info g) =? k) with false by lia.
      replace (Z.to_nat (k - i)) with (S (Z.to_nat (k - (i + 1)))) by lia. cbn [nth_error]. rewrite IH.
      replace (i + 1 <=? k) with true by lia. replace (i <=? k) with true by lia. reflexivity.
Qed.

Lemma lookup_obj_by_number : forall os k u o, numbered_from 1 (map o_info os) = true -> 1 <= k ->
  nth_error os (Z.to_nat (k - 1)) = Some o -> get_group_obj os (Some k) u = Ok o.
Proof.
  intros os k u o H Hk Ho. unfold get_group_obj. rewrite (filter_numbered_obj os 1 k H), Ho.
  replace (1 <=? k) with true by lia. reflexivity.
Qed.

Lemma lookup_obj_by_number_missing : forall os k u, numbered_from 1 (map o_info os) = true ->
  (k < 1 \/ zlen os < k) -> get_group_obj os (Some k) u = Err VE.
Proof.
  intros os k u H Hk. unfold get_group_obj. rewrite (filter_numbered_obj os 1 k H).
  destruct (nth_error os (Z.to_nat (k - 1))) as [o|] eqn:E; [|reflexivity].
  assert (Hn : nth_error os (Z.to_nat (k - 1)) <> None) by congruence. apply nth_error_Some in Hn.
  destruct (1 <=? k) eqn:E1; [|reflexivity]. unfold zlen in Hk. lia.
Qed.

Lemma filter_absent_uid_obj : forall (t : list gobj) u, ~ In u (map (fun o => g_uid (o_info o)) t) ->
  filter (fun o => g_uid (o_info o) =? u) t = [].
Proof.
  induction t as [|z t' IHt]; intros u Hy; [reflexivity|]. cbn [filter].
  destruct (g_uid (o_info z) =? u) eqn:E.
  - exfalso. apply Hy. left. lia.
  - apply IHt. intros Hc. apply Hy. now right.
Qed.

Lemma lookup_obj_by_uid : forall os o, NoDup (map (fun o => g_uid (o_info o)) os) -> In o os ->
  get_group_obj os None (Some (g_uid (o_info o))) = Ok o.
Proof.
  intros os o Hnd Hin. unfold get_group_obj.
  assert (E : filter (fun o0 => g_uid (o_info o0) =? g_uid (o_info o)) os = [o]); [|now rewrite E].
  induction os as [|x t IH]; [contradiction|].
  cbn [map] in Hnd. inversion Hnd as [|? ? Hnotin Hnd']; subst. cbn [filter].
  destruct Hin as [->|Hin].
  - replace (g_uid (o_info o) =? g_uid (o_info o)) with true by lia. f_equal. now apply filter_absent_uid_obj.
  - destruct (g_uid (o_info x) =? g_uid (o_info o)) eqn:E.
    + exfalso. apply Hnotin. replace (g_uid (o_info x)) with (g_uid (o_info o)) by lia.
      apply (in_map (fun o0 => g_uid (o_info o0))). exact Hin.
    + now apply IH.
Qed.

Lemma lookup_obj_by_uid_sound : forall os u o, get_group_obj os None (Some u) = Ok o ->
  In o os /\ g_uid (o_info o) = u.
Proof.
  intros os u o H. unfold get_group_obj in H.
  destruct (filter (fun o0 => g_uid (o_info o0) =? u) os) as [|x [|y l]] eqn:E; cbn [unique_obj] in H; try discriminate.
  inversion H; subst. assert (Hin : In o (filter (fun o0 => g_uid (o_info o0) =? u) os)) by (rewrite E; now left).
  apply filter_In in Hin as [H1 H2]. split; [exact H1|lia].
Qed.

Lemma lookup_obj_filter : forall os q, get_groups_obj os q = filter (fun o => matches q (o_info o)) os.
Proof.
  intros os q. unfold get_groups_obj. apply filter_ext. intros o. cbn zeta.
  rewrite all_or_empty. apply match_list_spec.
Qed.

(* ---- numbering ------------------------------------------------------------------------------------- *)
Lemma numbered_from_spec : forall gs i,
  numbered_from i gs = true <-> forall j g, nth_error gs j = Some g -> g_number g = i + Z.of_nat j.
Proof.
  induction gs as [|x t IH]; intros i; cbn [numbered_from].
  - split; [intros _ j g H; destruct j; discriminate|reflexivity].
  - rewrite andb_true_iff, IH. split.
    + intros [Hx Ht] j g Hj. destruct j as [|j]; cbn [nth_error] in Hj.
      * inversion Hj; subst. lia.
      * rewrite (Ht j g Hj). lia.
    + intros H. split.
      * specialize (H 0%nat x eq_refl). lia.
      * intros j g Hj. rewrite (H (S j) g Hj). lia.
Qed.

(* ---- the instance ----------------------------------------------------------------------------------- *)
Definition view (parsed : bool) (os : list gobj) : list gobj := if parsed then map parse_obj os else os.

Definition header_ok (h : sophdr) : Prop :=
  h_ctype_ok h = true /\ h_nfor h <= 1 /\ h_nsrc h <> 0 /\ (1 < h_nsrc h -> h_3d h = true) /\ h_ts_ok h = true.

Lemma sop_header_ok_iff : forall h, sop_header h = Ok tt <-> header_ok h.
Proof.
  intros h. unfold sop_header, header_ok.
  destruct (h_ctype_ok h), (h_3d h), (h_ts_ok h); cbn [negb andb];
    destruct (1 <? h_nfor h) eqn:E1; destruct (h_nsrc h =? 0) eqn:E2; destruct (1 <? h_nsrc h) eqn:E3;
    cbn [negb andb]; split; intros H; try discriminate; try reflexivity; try (repeat split; lia);
    try (destruct H as (H1 & H2 & H3 & H4 & H5); try discriminate; try lia; try (specialize (H4 ltac:(lia)); discriminate)).
Qed.

Lemma sop_header_errors : forall h k, sop_header h = Err k -> k = VE.
Proof.
  intros h k H. unfold sop_header in H.
  repeat match type of H with (if ?c then _ else _) = _ => destruct c end; inversion H; reflexivity.
Qed.

Lemma build_full_inv : forall h ss os, build_full h ss = Ok os ->
  Forall2 (fun s o => build_group s = Ok o) ss os /\ header_ok h /\ numbered_from 1 (map o_info os) = true.
Proof.
  intros h ss os H. unfold build_full in H.
  destruct (sequence_res (map build_group ss)) as [os0|k] eqn:Es; cbn [bind] in H; [|discriminate].
  destruct (sop_header h) as [[]|k] eqn:Eh; cbn [bind] in H; [|discriminate].
  destruct (numbered_from 1 (map o_info os0)) eqn:En; [|discriminate]. inversion H; subst.
  split; [now apply sequence_res_Forall2|]. split; [now apply sop_header_ok_iff|exact En].
Qed.

Lemma Forall2_impl' {A B} (R R' : A -> B -> Prop) : forall l l',
  (forall a b, R a b -> R' a b) -> Forall2 R l l' -> Forall2 R' l l'.
Proof. intros l l' H HF. induction HF; constructor; auto. Qed.

Lemma Forall2_map_r' {A B C} (R : A -> C -> Prop) (f : B -> C) : forall l l',
  Forall2 (fun a b => R a (f b)) l l' -> Forall2 R l (map f l').
Proof. intros l l' HF. induction HF; cbn [map]; constructor; auto. Qed.

Lemma map_info_view : forall parsed os, map o_info (view parsed os) = map o_info os.
Proof. intros [|] os; cbn [view]; [|reflexivity]. rewrite map_map. reflexivity. Qed.

(* every group of an accepted instance holds its data, fresh and parsed *)
Lemma object_holds : forall h ss os parsed, build_full h ss = Ok os ->
  Forall2 (holds parsed) ss (view parsed os) /\ numbered_from 1 (map o_info (view parsed os)) = true.
Proof.
  intros h ss os parsed H. destruct (build_full_inv h ss os H) as (HF & _ & Hn).
  split; [|now rewrite map_info_view].
  destruct parsed; cbn [view].
  - apply Forall2_map_r'. eapply Forall2_impl'; [|exact HF].
    intros s o Hb. exact (proj2 (build_group_holds s o Hb)).
  - eapply Forall2_impl'; [|exact HF]. intros s o Hb. exact (proj1 (build_group_holds s o Hb)).
Qed.

Lemma Forall2_nth_l {A B} (R : A -> B -> Prop) : forall l l' i a,
  Forall2 R l l' -> nth_error l i = Some a -> exists b, nth_error l' i = Some b /\ R a b.
Proof.
  intros l l' i a HF. revert i. induction HF as [|x y t t' Hxy Ht IH]; intros i Hi; [destruct i; discriminate|].
  destruct i as [|i]; cbn [nth_error] in *; [inversion Hi; subst; eauto|now apply IH].
Qed.

Lemma Forall2_In_l {A B} (R : A -> B -> Prop) : forall l l' a,
  Forall2 R l l' -> In a l -> exists b, In b l' /\ R a b.
Proof.
  intros l l' a HF Ha. apply In_nth_error in Ha as (i & Hi).
  destruct (Forall2_nth_l R l l' i a HF Hi) as (b & Hb & Hab). exists b. split; [eapply nth_error_In; eauto|exact Hab].
Qed.

(* THE composite statement, by number: group number k of an accepted instance is found, and
   the object found answers every history of get_graphic_data / get_coordinates calls and
   every get_measurements call with what was given for group k - fresh or parsed *)
Lemma end_to_end_by_number : forall h ss os parsed k s u,
  build_full h ss = Ok os -> 1 <= k -> nth_error ss (Z.to_nat (k - 1)) = Some s ->
  exists o, get_group_obj (view parsed os) (Some k) u = Ok o /\ holds parsed s o /\ g_number (o_info o) = k.
Proof.
  intros h ss os parsed k s u H Hk Hs. destruct (object_holds h ss os parsed H) as (HF & Hn).
  destruct (Forall2_nth_l _ _ _ _ _ HF Hs) as (o & Ho & Hh). exists o. split; [|split; [exact Hh|]].
  - now apply lookup_obj_by_number.
  - assert (Hi : nth_error (map o_info (view parsed os)) (Z.to_nat (k - 1)) = Some (o_info o))
      by (rewrite nth_error_map, Ho; reflexivity).
    rewrite (proj1 (numbered_from_spec _ _) Hn _ _ Hi). lia.
Qed.

Lemma Forall2_len {A B} (R : A -> B -> Prop) : forall l l', Forall2 R l l' -> length l = length l'.
Proof. intros l l' HF. induction HF; cbn [length]; congruence. Qed.

Lemma end_to_end_number_missing : forall h ss os parsed k u,
  build_full h ss = Ok os -> (k < 1 \/ zlen ss < k) -> get_group_obj (view parsed os) (Some k) u = Err VE.
Proof.
  intros h ss os parsed k u H Hk. destruct (object_holds h ss os parsed H) as (HF & Hn).
  apply lookup_obj_by_number_missing; [exact Hn|]. unfold zlen in *. rewrite <- (Forall2_len _ _ _ HF). exact Hk.
Qed.

Lemma uids_kept : forall parsed ss os', Forall2 (holds parsed) ss os' ->
  map (fun o => g_uid (o_info o)) os' = map (fun s => g_uid (s_info s)) ss.
Proof.
  intros parsed ss os' HF. induction HF as [|s o t t' Hso Ht IH]; [reflexivity|]. cbn [map]. rewrite IH. f_equal.
  destruct Hso as (Hi & _). rewrite Hi. reflexivity.
Qed.

(* by uid, the uids being distinct *)
Lemma end_to_end_by_uid : forall h ss os parsed s,
  build_full h ss = Ok os -> NoDup (map (fun s => g_uid (s_info s)) ss) -> In s ss ->
  exists o, get_group_obj (view parsed os) None (Some (g_uid (s_info s))) = Ok o /\ holds parsed s o.
Proof.
  intros h ss os parsed s H Hnd Hs. destruct (object_holds h ss os parsed H) as (HF & _).
  destruct (Forall2_In_l _ _ _ _ HF Hs) as (o & Ho & Hh). exists o. split; [|exact Hh].
  assert (Eu : g_uid (s_info s) = g_uid (o_info o)) by (destruct Hh as (Hi & _); rewrite Hi; reflexivity).
  rewrite Eu. apply lookup_obj_by_uid; [|exact Ho]. rewrite (uids_kept parsed ss _ HF). exact Hnd.
Qed.

Lemma Forall2_filter {A B} (R : A -> B -> Prop) (p : A -> bool) (p' : B -> bool) : forall l l',
  (forall a b, R a b -> p a = p' b) -> Forall2 R l l' -> Forall2 R (filter p l) (filter p' l').
Proof.
  intros l l' Hp HF. induction HF as [|x y t t' Hxy Ht IH]; [constructor|]. cbn [filter].
  rewrite <- (Hp x y Hxy). destruct (p x); [constructor; assumption|assumption].
Qed.

(* by filter: exactly the groups whose given identification meets every criterion, in
   order, each holding its data *)
Lemma end_to_end_filter : forall h ss os parsed q, build_full h ss = Ok os ->
  Forall2 (holds parsed) (filter (fun s => matches q (norm_info (s_info s))) ss)
          (get_groups_obj (view parsed os) q).
Proof.
  intros h ss os parsed q H. destruct (object_holds h ss os parsed H) as (HF & _).
  rewrite lookup_obj_filter. apply Forall2_filter; [|exact HF].
  intros s o (Hi & _). now rewrite Hi.
Qed.

(* ---- which instances are accepted --------------------------------------------------------------- *)
Lemma numbers_kept : forall ss os, Forall2 (fun s o => build_group s = Ok o) ss os ->
  map g_number (map o_info os) = map (fun s => g_number (s_info s)) ss.
Proof.
  intros ss os HF. induction HF as [|s o t t' Hso Ht IH]; [reflexivity|]. cbn [map]. rewrite IH. f_equal.
  destruct (build_group_inv s o Hso) as (_ & e & _ & ->). reflexivity.
Qed.

Lemma numbered_by_numbers : forall gs gs' i, map g_number gs = map g_number gs' ->
  numbered_from i gs = numbered_from i gs'.
Proof.
  induction gs as [|g t IH]; intros [|g' t'] i H; try discriminate; [reflexivity|].
  cbn [map] in H. inversion H as [[H1 H2]]. cbn [numbered_from]. rewrite H1. f_equal. now apply IH.
Qed.

Definition numbers_ok (ss : list gspec) : Prop :=
  forall i s, nth_error ss i = Some s -> g_number (s_info s) = 1 + Z.of_nat i.

Lemma numbered_specs : forall ss i,
  numbered_from i (map s_info ss) = true <->
  forall j s, nth_error ss j = Some s -> g_number (s_info s) = i + Z.of_nat j.
Proof.
  intros ss i. rewrite numbered_from_spec. split.
  - intros H j s Hj. apply H. rewrite nth_error_map, Hj. reflexivity.
  - intros H j g Hj. rewrite nth_error_map in Hj. destruct (nth_error ss j) as [s|] eqn:E; [|discriminate].
    inversion Hj; subst. now apply H.
Qed.

(* an instance is accepted iff every group is acceptable, the instance header is, and the
   groups carry the numbers 1, 2, ... in order *)
Lemma build_full_accepts_iff : forall h ss,
  (exists os, build_full h ss = Ok os) <-> Forall group_ok ss /\ header_ok h /\ numbers_ok ss.
Proof.
  intros h ss. split.
  - intros (os & H). destruct (build_full_inv h ss os H) as (HF & Hh & Hn). split; [|split; [exact Hh|]].
    + apply Forall_forall. intros s Hs. destruct (Forall2_In_l _ _ _ _ HF Hs) as (o & _ & Hb).
      apply build_group_accepts_iff. eauto.
    + unfold numbers_ok. apply numbered_specs.
      rewrite (numbered_by_numbers (map s_info ss) (map o_info os)); [exact Hn|].
      rewrite (numbers_kept ss os HF). now rewrite map_map.
  - intros (Hg & Hh & Hn). unfold build_full.
    destruct (sequence_res_total build_group ss) as (os & Hos).
    { intros s Hs. apply build_group_accepts_iff. rewrite Forall_forall in Hg. now apply Hg. }
    rewrite Hos. cbn [bind]. rewrite (proj2 (sop_header_ok_iff h) Hh). cbn [bind].
    apply sequence_res_Forall2 in Hos.
    rewrite (numbered_by_numbers (map o_info os) (map s_info ss)).
    + rewrite (proj2 (numbered_specs ss 1) Hn). eauto.
    + rewrite (numbers_kept ss os Hos). now rewrite map_map.
Qed.

(* anything else is refused with ValueError, or TypeError (missing algorithm identification) *)
Lemma build_full_errors : forall h ss k, build_full h ss = Err k -> k = VE \/ k = "TypeError"%string.
Proof.
  intros h ss k H. unfold build_full in H.
  destruct (sequence_res (map build_group ss)) as [os|k'] eqn:Es; cbn [bind] in H.
  - destruct (sop_header h) as [[]|k'] eqn:Eh; cbn [bind] in H.
    + destruct (numbered_from 1 (map o_info os)); [discriminate|]. inversion H. now left.
    + inversion H; subst. left. now apply (sop_header_errors h).
  - inversion H; subst. destruct (sequence_res_err build_group ss k Es) as (s & _ & Hs).
    now apply (build_group_errors s).
Qed.

(* the malformed inputs the property names, at instance level: one bad group anywhere in the
   list and nothing is built *)
Lemma build_full_rejects_bad_group : forall h ss s, In s ss -> ~ group_ok s ->
  exists k, build_full h ss = Err k.
Proof.
  intros h ss s Hs Hbad. destruct (build_full h ss) as [os|k] eqn:E; [|eauto].
  exfalso. apply Hbad. assert (Hacc : exists os, build_full h ss = Ok os) by eauto.
  apply build_full_accepts_iff in Hacc as (Hg & _). rewrite Forall_forall in Hg. now apply Hg.
Qed.
