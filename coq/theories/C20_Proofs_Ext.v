(* C20 - proofs, part 4: segmented palette colour tables (the descriptor of an
   accepted table fits VR US and reads back as the expanded length), the pixel
   measures a Segmentation derives (no configuration writes to an object of the
   caller; exact write criterion for any copy policy), the displayed area of a
   presentation state (stable selection of the smallest level; the caller's list
   is left in its order; an in-place sort reorders it exactly when it is not
   ascending). *)
From Coq Require Import String ZArith List Bool Lia ZifyBool Permutation.
From HD Require Import Base.Val C20_Model C20_Proofs_Str.
Import ListNotations.
Open Scope Z_scope.
Ltac Zify.zify_post_hook ::= Z.to_euclidean_division_equations.

(* ------------------------------------------------- segmented tables *)
Lemma segmented_ok_bits bits first data : segmented_ok bits first data = true -> bits = 8 \/ bits = 16.
Proof. unfold segmented_ok. intros H. lia. Qed.

Lemma segmented_ok_first bits first data : segmented_ok bits first data = true -> 0 <= first < 65536.
Proof.
  intros H. pose proof (segmented_ok_bits _ _ _ H) as [-> | ->]; unfold segmented_ok in H;
    [change (2 ^ 8) with 256 in H | change (2 ^ 16) with 65536 in H]; lia.
Qed.

Lemma segmented_lut_gen_ok rule bits first data d s n :
  segmented_lut_gen rule bits first data = Ok (d, s, n) ->
  segmented_ok bits first data = true /\ seg_count data 0 = Ok n /\ n <> 0 /\ n <= 65536 /\
  d = [rule data n; first; bits] /\ s = palette_store bits data /\ Z.even (zlen s) = true.
Proof.
  unfold segmented_lut_gen. destruct (segmented_ok bits first data) eqn:E; [|discriminate].
  destruct (seg_count data 0) as [m|k] eqn:Ec; cbn [bind]; [|discriminate].
  destruct ((m =? 0) || (65536 <? m)) eqn:Eg; [discriminate|].
  intros H. inversion H; subst. repeat split; try lia.
  apply palette_store_even. exact (segmented_ok_bits _ _ _ E).
Qed.

Lemma segmented_lut_refused_iff bits first data :
  (exists k, segmented_lut bits first data = Err k) <->
  segmented_ok bits first data = false \/ (exists k, seg_count data 0 = Err k) \/
  (exists n, seg_count data 0 = Ok n /\ (n = 0 \/ 65536 < n)).
Proof.
  unfold segmented_lut, segmented_lut_gen. destruct (segmented_ok bits first data); split.
  - intros [k H]. right. destruct (seg_count data 0) as [m|k'] eqn:Ec; cbn [bind] in H.
    + right. exists m. split; [reflexivity|].
      destruct ((m =? 0) || (65536 <? m)) eqn:Eg; [lia | discriminate].
    + left. exists k'. reflexivity.
  - intros [H | [[k H] | [n [H Hn]]]]; [discriminate | |]; rewrite H; cbn [bind].
    + exists k. reflexivity.
    + replace ((n =? 0) || (65536 <? n)) with true by lia. exists "ValueError"%string. reflexivity.
  - intros _. left. reflexivity.
  - intros _. exists "ValueError"%string. reflexivity.
Qed.

(* accepted segment streams are sequences of complete (opcode 0 / 1, length,
   value) triples, and with unsigned entries the count never decreases *)
Inductive wf_segs : list Z -> Prop :=
| wf_nil : wf_segs []
| wf_cons op len v r : op = 0 \/ op = 1 -> wf_segs r -> wf_segs (op :: len :: v :: r).

Lemma seg_count_wf_le k : forall data, (length data <= k)%nat -> forall n m, seg_count data n = Ok m ->
  wf_segs data /\ ((forall v, In v data -> 0 <= v) -> n <= m).
Proof.
  induction k as [|k IH]; intros data Hk n m H.
  - destruct data; [|cbn in Hk; lia]. cbn in H. inversion H. split; [constructor | lia].
  - destruct data as [|op rest]; [cbn in H; inversion H; split; [constructor | lia]|].
    cbn [seg_count] in H.
    destruct (op =? 0) eqn:E0.
    + destruct rest as [|len [|v r]]; try discriminate.
      assert (Hr : (length r <= k)%nat) by (cbn [length] in Hk; lia).
      destruct (IH r Hr _ _ H) as [Hw Hle]. split.
      * constructor; [lia | exact Hw].
      * intros Hp. assert (0 <= len) by (apply Hp; right; left; reflexivity).
        assert (n + len <= m) by (apply Hle; intros x Hx; apply Hp; right; right; right; exact Hx). lia.
    + destruct (op =? 1) eqn:E1; [|discriminate].
      destruct rest as [|len [|v r]]; try discriminate.
      destruct (n =? 0); [discriminate|]. destruct (len =? 1); [discriminate|].
      assert (Hr : (length r <= k)%nat) by (cbn [length] in Hk; lia).
      destruct (IH r Hr _ _ H) as [Hw Hle]. split.
      * constructor; [lia | exact Hw].
      * intros Hp. assert (0 <= len) by (apply Hp; right; left; reflexivity).
        assert (n + len <= m) by (apply Hle; intros x Hx; apply Hp; right; right; right; exact Hx). lia.
Qed.

Lemma seg_walk_wf data p : wf_segs data -> (length p <= 1)%nat -> seg_walk (data ++ p) = data.
Proof.
  intros Hw Hp. induction Hw as [|op len v r Ho Hw IH].
  - destruct p as [|x [|y q]]; [reflexivity | reflexivity | cbn in Hp; lia].
  - cbn [app seg_walk]. replace (op =? 2) with false by lia. rewrite IH. reflexivity.
Qed.

(* every accepted table can be written (the descriptor holds US values only),
   number_of_entries gives the expanded length back, which lies in 1 .. 2^16,
   and segmented_lut_data returns the caller's segmented data *)
Lemma segmented_accepted_writable bits first data d s n :
  (forall v, In v data -> 0 <= v < 2 ^ bits) ->
  segmented_lut bits first data = Ok (d, s, n) ->
  forallb fits_us d = true /\ entries_read (hd 0 d) = n /\ 1 <= n <= 65536 /\
  segmented_read bits s = data.
Proof.
  intros Hr H. apply segmented_lut_gen_ok in H. destruct H as (Hok & Hc & Hn0 & Hn & -> & -> & _).
  pose proof (segmented_ok_first _ _ _ Hok) as Hf.
  pose proof (segmented_ok_bits _ _ _ Hok) as Hb.
  destruct (seg_count_wf_le (length data) data (le_n _) 0 n Hc) as [Hw Hle].
  assert (Hpos : 0 <= n).
  { apply Hle. intros v Hv. apply Hr in Hv. lia. }
  assert (H1 : 1 <= n <= 65536) by lia.
  repeat split; try lia.
  - cbn [forallb]. unfold fits_us, entries_field. destruct (n =? 65536) eqn:E; destruct Hb as [-> | ->]; lia.
  - cbn [hd]. unfold entries_read, entries_field. destruct (n =? 65536) eqn:E; [cbn; lia|].
    replace (n =? 0) with false by lia. reflexivity.
  - unfold segmented_read, palette_store, lut_bytes, lut_pad. destruct Hb as [-> | ->]; cbn [Z.eqb Pos.eqb andb].
    + apply seg_walk_wf; [exact Hw|]. destruct (Z.odd (zlen data)); cbn; lia.
    + rewrite app_nil_r. apply words16_le16. intros v Hv. apply Hr in Hv. change (2 ^ 16) with 65536 in Hv. exact Hv.
Qed.

(* before fix cf58852 (D110) the same segments were accepted with a descriptor
   that is no US value / reads back as another length *)
Lemma segmented_unguarded_refuted :
  (exists d s n, segmented_lut_unguarded 16 0 [0; 65535; 5; 0; 65535; 5] = Ok (d, s, n) /\ n = 131070 /\
                 forallb fits_us d = false) /\
  (exists d s n, segmented_lut_unguarded 8 0 [0; 0; 5] = Ok (d, s, n) /\ n = 0 /\ entries_read (hd 0 d) = 65536) /\
  segmented_lut 16 0 [0; 65535; 5; 0; 65535; 5] = Err "ValueError" /\
  segmented_lut 8 0 [0; 0; 5] = Err "ValueError".
Proof.
  split; [|split; [|split; vm_compute; reflexivity]].
  - exists [131070; 0; 16], [0; 0; 255; 255; 5; 0; 0; 0; 255; 255; 5; 0], 131070. repeat split; vm_compute; reflexivity.
  - exists [0; 0; 8], [0; 0; 5; 0], 0. repeat split; vm_compute; reflexivity.
Qed.

(* the seeded variant: identical to the library except on tables that expand
   to exactly 2^16 entries, where it records a number that is no US value *)
Lemma stale_len_never_65536 bits first data : segmented_ok bits first data = true ->
  (stale_len bits data =? 65536) = false.
Proof.
  intros H. pose proof (segmented_ok_bits _ _ _ H) as [-> | ->]; unfold segmented_ok in H; unfold stale_len;
    [change (2 ^ 8) with 256 in * | change (2 ^ 16) with 65536 in *].
  - destruct (zlen data =? 256) eqn:E; lia.
  - destruct (zlen data =? 65536) eqn:E; lia.
Qed.

Lemma segmented_stale_differs_iff bits first data :
  segmented_lut_stale bits first data <> segmented_lut bits first data <->
  segmented_ok bits first data = true /\ seg_count data 0 = Ok 65536.
Proof.
  unfold segmented_lut_stale, segmented_lut, segmented_lut_gen.
  destruct (segmented_ok bits first data) eqn:E.
  - rewrite (stale_len_never_65536 _ _ _ E).
    destruct (seg_count data 0) as [n|k] eqn:Ec; cbn [bind].
    + destruct ((n =? 0) || (65536 <? n)) eqn:Eg.
      * split; [intros H; exfalso; apply H; reflexivity|]. intros [_ H]. inversion H. lia.
      * unfold entries_field. destruct (n =? 65536) eqn:En.
        -- assert (n = 65536) by lia. subst. split; [intros _; split; reflexivity|].
           intros _ H. inversion H.
        -- split; [intros H; exfalso; apply H; reflexivity|]. intros [_ H]. inversion H. lia.
    + split; [intros H; exfalso; apply H; reflexivity|]. intros [_ H]. discriminate.
  - split; [intros H; exfalso; apply H; reflexivity|]. intros [H _]. discriminate.
Qed.

Lemma segmented_stale_refuted :
  exists bits first data d s n,
    segmented_lut_stale bits first data = Ok (d, s, n) /\ n = 65536 /\ forallb fits_us d = false /\
    (exists d', segmented_lut bits first data = Ok (d', s, n) /\ forallb fits_us d' = true).
Proof.
  exists 16, 0, [0; 1; 0; 1; 65535; 65535], [65536; 0; 16], [0; 0; 1; 0; 0; 0; 1; 0; 255; 255; 255; 255], 65536.
  repeat split; try (vm_compute; reflexivity).
  exists [0; 0; 16]. split; vm_compute; reflexivity.
Qed.

(* the count of a well-formed table: discrete segment first, linear lengths <> 1 *)
Lemma seg_count_discrete len v r n : seg_count (0 :: len :: v :: r) n = seg_count r (n + len).
Proof. reflexivity. Qed.
Lemma seg_count_linear len e r n : n <> 0 -> len <> 1 -> seg_count (1 :: len :: e :: r) n = seg_count r (n + len).
Proof.
  intros Hn Hl. cbn [seg_count]. change (1 =? 0) with false. change (1 =? 1) with true. cbn match.
  replace (n =? 0) with false by lia. replace (len =? 1) with false by lia. reflexivity.
Qed.

(* ---------------------------------------------------- pixel measures *)
Lemma measures_write_criterion cw c :
  snd (run_ops (measures_origin c) (measures_ops_gen cw c)) =
  measures_derive c && negb (cw c) && (m_user c || m_multiframe c).
Proof.
  unfold measures_ops_gen, measures_origin.
  destruct (measures_derive c); [|reflexivity].
  destruct (cw c); destruct (m_user c); destruct (m_multiframe c); reflexivity.
Qed.

Lemma seg_measures_never_writes c : fst (seg_measures c) = false.
Proof.
  unfold seg_measures, measures_ops. cbn [fst]. rewrite measures_write_criterion. cbn [negb].
  rewrite andb_false_r. reflexivity.
Qed.

Lemma measures_user_only_writes_iff c :
  snd (run_ops (measures_origin c) (measures_ops_user_only c)) = true <->
  m_user c = false /\ m_multiframe c = true /\ m_patient c = true /\ m_has_spacing c = false /\ m_regular c = true.
Proof.
  unfold measures_ops_user_only. rewrite measures_write_criterion. unfold measures_derive.
  destruct (m_user c), (m_multiframe c), (m_patient c), (m_has_spacing c), (m_regular c); cbn;
    split; intros H; try discriminate; try (repeat split; reflexivity);
    destruct H as (H1 & H2 & H3 & H4 & H5); discriminate.
Qed.

Lemma seg_measures_spacing c :
  snd (seg_measures c) = true <-> m_has_spacing c = true \/ (m_patient c = true /\ m_regular c = true).
Proof.
  unfold seg_measures, measures_derive. cbn [snd].
  destruct (m_has_spacing c), (m_patient c), (m_regular c); cbn; split; intros H; auto;
    try discriminate; destruct H as [H | [H1 H2]]; discriminate.
Qed.

(* ----------------------------------------------------- displayed area *)
Definition keys (l : list img) : list Z := map img_key l.

Lemma asc_cons a l : ascending (a :: l) = match l with [] => true | b :: _ => (a <=? b) && ascending l end.
Proof. destruct l; reflexivity. Qed.

Lemma insert_perm x l : Permutation (insert_img x l) (x :: l).
Proof.
  induction l as [|y r IH]; cbn [insert_img]; [apply Permutation_refl|].
  destruct (img_key x <=? img_key y); [apply Permutation_refl|].
  eapply perm_trans; [apply perm_skip; exact IH | apply perm_swap].
Qed.

Lemma isort_perm l : Permutation (isort_img l) l.
Proof.
  induction l as [|x r IH]; cbn [isort_img]; [constructor|].
  eapply perm_trans; [apply insert_perm | apply perm_skip; exact IH].
Qed.

Lemma insert_asc x l : ascending (keys l) = true -> ascending (keys (insert_img x l)) = true.
Proof.
  unfold keys. induction l as [|y r IH]; intros H; cbn [insert_img map]; [reflexivity|].
  destruct (img_key x <=? img_key y) eqn:E.
  - cbn [map]. rewrite asc_cons. cbn [map] in H. rewrite E, H. reflexivity.
  - cbn [map] in *. rewrite asc_cons in H.
    destruct r as [|z r'].
    + cbn [insert_img map]. rewrite asc_cons. cbn [ascending]. lia.
    + cbn [map] in H. apply andb_prop in H. destruct H as [Hyz Hr].
      specialize (IH Hr). cbn [insert_img] in *.
      destruct (img_key x <=? img_key z) eqn:E2; cbn [map] in *; rewrite asc_cons.
      * rewrite asc_cons. rewrite E2, Hr. lia.
      * rewrite Hyz. exact IH.
Qed.

Lemma isort_asc l : ascending (keys (isort_img l)) = true.
Proof. induction l as [|x r IH]; cbn [isort_img]; [reflexivity|]. apply insert_asc. exact IH. Qed.

Lemma isort_fixed_iff l : isort_img l = l <-> ascending (keys l) = true.
Proof.
  split.
  - intros H. rewrite <- H. apply isort_asc.
  - unfold keys. induction l as [|x r IH]; intros H; [reflexivity|].
    cbn [map] in H. rewrite asc_cons in H. cbn [isort_img].
    destruct r as [|y r']; [reflexivity|].
    cbn [map] in H. apply andb_prop in H. destruct H as [Hxy Hr].
    rewrite (IH Hr). cbn [insert_img]. rewrite Hxy. reflexivity.
Qed.

(* the head of the stable sort is the FIRST image of minimal size *)
Fixpoint first_min (l : list img) : option img :=
  match l with
  | [] => None
  | x :: r => match first_min r with
              | None => Some x
              | Some m => if img_key x <=? img_key m then Some x else Some m
              end
  end.

Lemma hd_insert x l : hd_error (insert_img x l) =
  match hd_error l with None => Some x | Some m => if img_key x <=? img_key m then Some x else Some m end.
Proof. destruct l as [|y r]; cbn [insert_img hd_error]; [reflexivity|]. destruct (img_key x <=? img_key y); reflexivity. Qed.

Lemma hd_isort l : hd_error (isort_img l) = first_min l.
Proof. induction l as [|x r IH]; cbn [isort_img first_min]; [reflexivity|]. rewrite hd_insert, IH. reflexivity. Qed.

Lemma first_min_spec l m : first_min l = Some m ->
  exists pre post, l = pre ++ m :: post /\
    (forall x, In x pre -> img_key m < img_key x) /\ (forall x, In x post -> img_key m <= img_key x).
Proof.
  revert m. induction l as [|x r IH]; intros m H; cbn [first_min] in H; [discriminate|].
  destruct (first_min r) as [m'|] eqn:E.
  - destruct (IH m' eq_refl) as (pre & post & -> & Hpre & Hpost).
    destruct (img_key x <=? img_key m') eqn:Ek; inversion H; subst.
    + exists [], (pre ++ m' :: post). split; [reflexivity|]. split; [intros y []|].
      intros y Hy. apply in_app_or in Hy. destruct Hy as [Hy | [<- | Hy]].
      * specialize (Hpre _ Hy). lia.
      * lia.
      * specialize (Hpost _ Hy). lia.
    + exists (x :: pre), post. split; [reflexivity|]. split; [|exact Hpost].
      intros y [<- | Hy]; [lia | apply Hpre; exact Hy].
  - inversion H; subst. destruct r as [|y r']; [|cbn [first_min] in E; destruct (first_min r'); [destruct (_ <=? _)|]; discriminate].
    exists [], []. split; [reflexivity|]. split; intros y [].
Qed.

Lemma displayed_area_gen_ok inplace tiled refs low after :
  displayed_area_gen inplace tiled refs = Ok (low, after) ->
  (tiled = false -> hd_error refs = Some low /\ after = refs) /\
  (tiled = true -> first_min refs = Some low /\ after = if inplace then isort_img refs else refs).
Proof.
  unfold displayed_area_gen. destruct refs as [|f r]; [discriminate|].
  destruct tiled.
  - destruct (isort_img (f :: r)) as [|lo rest] eqn:E; [discriminate|].
    intros H. inversion H; subst. split; [discriminate|]. intros _.
    rewrite <- hd_isort, E. split; reflexivity.
  - intros H. inversion H; subst. split; [|discriminate]. intros _. split; reflexivity.
Qed.

Lemma displayed_area_spec tiled refs low after :
  displayed_area tiled refs = Ok (low, after) ->
  after = refs /\
  (tiled = false -> hd_error refs = Some low) /\
  (tiled = true -> exists pre post, refs = pre ++ low :: post /\
     (forall x, In x pre -> img_key low < img_key x) /\ (forall x, In x post -> img_key low <= img_key x)).
Proof.
  intros H. apply displayed_area_gen_ok in H. destruct H as [Hf Ht]. destruct tiled.
  - destruct (Ht eq_refl) as [Hm ->]. split; [reflexivity|]. split; [discriminate|]. intros _.
    apply first_min_spec. exact Hm.
  - destruct (Hf eq_refl) as [Hh ->]. split; [reflexivity|]. split; [intros _; exact Hh | discriminate].
Qed.

Lemma displayed_area_refused_iff inplace tiled refs :
  (exists k, displayed_area_gen inplace tiled refs = Err k) <-> refs = [].
Proof.
  split.
  - intros [k H]. destruct refs as [|f r]; [reflexivity|]. exfalso. unfold displayed_area_gen in H.
    destruct tiled; [|discriminate].
    destruct (isort_img (f :: r)) as [|lo rest] eqn:E; [|discriminate].
    pose proof (isort_perm (f :: r)) as P. rewrite E in P. apply Permutation_nil in P. discriminate.
  - intros ->. exists "IndexError"%string. reflexivity.
Qed.

(* list.sort() on the caller's list: the same image is selected, and the
   caller's list keeps its order exactly when it was ascending by size *)
Lemma displayed_area_inplace_iff tiled refs low after :
  displayed_area_gen true tiled refs = Ok (low, after) ->
  displayed_area tiled refs = Ok (low, refs) /\ Permutation after refs /\
  (after = refs <-> tiled = false \/ ascending (keys refs) = true).
Proof.
  intros H. pose proof (displayed_area_gen_ok _ _ _ _ _ H) as [Hf Ht].
  unfold displayed_area, displayed_area_gen in *. destruct refs as [|f r]; [discriminate|].
  destruct tiled.
  - destruct (Ht eq_refl) as [_ ->].
    destruct (isort_img (f :: r)) as [|lo rest] eqn:E; [discriminate|]. inversion H; subst.
    split; [reflexivity|]. split; [rewrite <- E; apply isort_perm|].
    rewrite <- E. rewrite isort_fixed_iff. split; [intros Ha; right; exact Ha | intros [Hx | Ha]; [discriminate | exact Ha]].
  - destruct (Hf eq_refl) as [_ ->]. inversion H; subst. split; [reflexivity|]. split; [apply Permutation_refl|].
    split; [intros _; left; reflexivity | reflexivity].
Qed.

Lemma number_from_fst k l : map fst (number_from k l) = map (fun i => k + Z.of_nat i) (seq 0 (length l)).
Proof.
  revert k. induction l as [|s r IH]; intros k; [reflexivity|].
  cbn [number_from map length seq fst]. f_equal; [lia|].
  rewrite IH. rewrite <- seq_shift, map_map. apply map_ext. intros i. lia.
Qed.

(* ------------------------------------------------ concrete instances *)
Lemma inplace_sort_reorders :
  exists low after, displayed_area_gen true true (number_from 0 [(32, 32); (8, 8)]) = Ok (low, after) /\
                    map fst after = [1; 0].
Proof. eexists _, _. split; reflexivity. Qed.

Lemma ex_segmented_measures_area :
  run_segmented_lut 16 0 [0; 1; 0; 1; 65535; 65535] =
    VL [vz_list [0; 0; 16]; vz_list [0; 0; 1; 0; 0; 0; 1; 0; 255; 255; 255; 255]; VZ 65536;
        vz_list [0; 1; 0; 1; 65535; 65535]] /\
  run_segmented_lut 8 0 [0; 3; 5] = VL [vz_list [3; 0; 8]; vz_list [0; 3; 5; 0]; VZ 3; vz_list [0; 3; 5]] /\
  run_segmented_lut 8 0 [0; 0; 5] = VErr "ValueError" /\
  run_segmented_lut 16 0 [1; 5; 100] = VErr "IndexError" /\
  run_segmented_lut 16 0 [0; 1; 7; 1; 1; 100] = VErr "ValueError" /\
  run_segmented_lut 16 0 [0; 1; 5; 2; 3; 4] = VErr "ValueError" /\
  run_segmented_lut 16 0 [0; 1] = VErr "IndexError" /\
  run_seg_measures false true true false true = VL [VB false; VB true] /\
  run_seg_measures false true false false true = VL [VB false; VB false] /\
  run_displayed_area true [(32, 32); (8, 8); (16, 16); (8, 8)] =
    VL [vz_list [8; 8]; VZ 1; vz_list [0; 1; 2; 3]] /\
  run_displayed_area false [(32, 16); (8, 8)] = VL [vz_list [16; 32]; VZ 0; vz_list [0; 1]] /\
  run_displayed_area true [] = VErr "IndexError".
Proof. vm_compute. repeat split. Qed.
