(* C10 - proofs, part 8: what "rounded" means (np.around: nearest, ties to even), exact ties between
   the levels of a resolution pyramid on both routes (PixelToPixel / through the frame of reference),
   and histories of one transformer object (the object never changes). *)
From Coq Require Import String Ascii ZArith List Bool QArith Qabs Qround Lia Lqa Qfield Setoid Morphisms.
From HD Require Import Base.Val C10_Model C10_Proofs C10_Proofs_T C10_Proofs_L C10_Proofs_V C10_Proofs_D C10_Proofs_X.
Import ListNotations.
Open Scope Q_scope.

Ltac proj := cbn [vx vy vz c0 c1 c2 lin tr fst snd].
Ltac Zify.zify_post_hook ::= Z.to_euclidean_division_equations.

(* ------------------------------------------------------------------ *)
(* rne = round to nearest, ties to even                                *)
(* ------------------------------------------------------------------ *)
Lemma rne_cases q :
  let f := Qfloor q in
  (q - inject_Z f < 1 # 2 /\ rne q = f) \/
  (1 # 2 < q - inject_Z f /\ rne q = (f + 1)%Z) \/
  (q - inject_Z f == 1 # 2 /\ rne q = if Z.even f then f else (f + 1)%Z).
Proof.
  cbv zeta. unfold rne.
  destruct (Qcompare (q - inject_Z (Qfloor q)) (1 # 2)) eqn:C.
  - right; right. split; [apply Qeq_alt; exact C | reflexivity].
  - left. split; [apply Qlt_alt; exact C | reflexivity].
  - right; left. split; [apply Qgt_alt; exact C | reflexivity].
Qed.

(* nearest: never further than half a pixel; exactly half a pixel away only from an EVEN index *)
Theorem rne_nearest_even q :
  Qabs (q - inject_Z (rne q)) <= 1 # 2 /\
  (Qabs (q - inject_Z (rne q)) == 1 # 2 -> Z.even (rne q) = true).
Proof.
  pose proof (Qfloor_le q) as L. pose proof (Qlt_floor q) as U.
  rewrite inject_Z_plus in U. change (inject_Z 1) with 1 in U.
  destruct (rne_cases q) as [(H & E) | [(H & E) | (H & E)]]; rewrite E; clear E.
  - split.
    + apply Qabs_Qle_condition. split; lra.
    + intro A. rewrite Qabs_pos in A by lra. lra.
  - rewrite inject_Z_plus. change (inject_Z 1) with 1. split.
    + apply Qabs_Qle_condition. split; lra.
    + intro A. rewrite Qabs_neg in A by lra. lra.
  - destruct (Z.even (Qfloor q)) eqn:Ev.
    + split; [apply Qabs_Qle_condition; split; lra | intros _; exact Ev].
    + rewrite inject_Z_plus. change (inject_Z 1) with 1. split.
      * apply Qabs_Qle_condition. split; lra.
      * intros _. rewrite Z.even_add, Ev. reflexivity.
Qed.

Lemma Qfloor_half m : Qfloor (inject_Z m + (1 # 2)) = m.
Proof.
  unfold Qfloor, Qplus, inject_Z. cbn [Qnum Qden Pos.mul Z.pos_sub].
  change (Z.pos (1 * 2)) with 2%Z. lia.
Qed.

(* the tie itself: m + 1/2 goes to whichever of m, m + 1 is even *)
Theorem rne_tie m : rne (inject_Z m + (1 # 2)) = if Z.even m then m else (m + 1)%Z.
Proof.
  destruct (rne_cases (inject_Z m + (1 # 2))) as [(H & _) | [(H & _) | (_ & E)]];
    rewrite Qfloor_half in *; [lra | lra | exact E].
Qed.

(* round-half-up ("floor(x + 1/2)") is a DIFFERENT function: it differs exactly on the ties with an even floor *)
Theorem half_up_differs m : Z.even m = true -> Qfloor (inject_Z m + (1 # 2) + (1 # 2)) <> rne (inject_Z m + (1 # 2)).
Proof.
  intro Ev. rewrite rne_tie, Ev.
  assert (E : inject_Z m + (1 # 2) + (1 # 2) == inject_Z (m + 1)) by (rewrite inject_Z_plus; change (inject_Z 1) with 1; ring).
  rewrite (Qfloor_comp _ _ E), Qfloor_Z. lia.
Qed.

(* ------------------------------------------------------------------ *)
(* two levels of a resolution pyramid                                  *)
(* ------------------------------------------------------------------ *)
Lemma pyramid_point_mul r c sr sc k pos a b u v :
  veq (aapply (Aff (rotRD r c sr sc 1) pos) (V3 (a + k * u) (b + k * v) 0))
      (aapply (Aff (rotRD r c (k * sr) (k * sc) 1) (aapply (Aff (rotRD r c sr sc 1) pos) (V3 a b 0))) (V3 u v 0)).
Proof.
  unfold rotRD, rotation_core; cbn [conv_vec conv_sp normal].
  generalize (cross r c). intro n.
  cbv [veq aapply mapply vadd smul vx vy vz c0 c1 c2 lin tr]. repeat split; ring.
Qed.

Lemma pyramid_point r c sr sc k pos a b i j : ~ k == 0 ->
  veq (aapply (Aff (rotRD r c sr sc 1) pos) (V3 i j 0))
      (aapply (Aff (rotRD r c (k * sr) (k * sc) 1) (aapply (Aff (rotRD r c sr sc 1) pos) (V3 a b 0)))
              (V3 ((i - a) / k) ((j - b) / k) 0)).
Proof.
  intro Kn. eapply veq_trans; [|apply pyramid_point_mul].
  apply aapply_proper. unfold veq; proj. repeat split; try reflexivity; field; exact Kn.
Qed.

Lemma pyramid_same_plane pos r c sr sc a b :
  same_plane pos r c (aapply (Aff (rotRD r c sr sc 1) pos) (V3 a b 0)) r c.
Proof.
  split; [left; apply veq_refl|].
  transitivity (- (a * sc * dot r (cross r c) + b * sr * dot c (cross r c))).
  - unfold rotRD, rotation_core; cbn [conv_vec conv_sp normal].
    unfold aapply, mapply, vadd, vsub, smul, dot, cross; proj. ring.
  - rewrite dot_cross_l, dot_cross_r. ring.
Qed.

(* target: same orientation, spacings k times the source spacings, origin at source index (a, b) *)
Theorem pyramid_level pos r c sr sc k a b :
  orthonormal r c -> 0 < sr -> 0 < sc -> 0 < k ->
  let P := Aff (rotRD r c sr sc 1) pos in
  let pos2 := aapply P (V3 a b 0) in
  exists T Rv2,
    p2p_make (apos pos) (aori r c) (asp sr sc) (apos pos2) (aori r c) (asp (k * sr) (k * sc)) = Ok T /\
    p2r_make (apos pos) (aori r c) (asp sr sc) = Ok P /\
    r2p_make (apos pos2) (aori r c) (asp (k * sr) (k * sc)) 1 = Ok Rv2 /\
    forall i j,
      veq (aapply T (V3 i j 0)) (V3 ((i - a) / k) ((j - b) / k) 0) /\
      veq (aapply Rv2 (aapply P (V3 i j 0))) (V3 ((i - a) / k) ((j - b) / k) 0).
Proof.
  intros O Hr Hc Hk P pos2.
  assert (Hr2 : 0 < k * sr) by (apply Qmult_lt_0_compat; assumption).
  assert (Hc2 : 0 < k * sc) by (apply Qmult_lt_0_compat; assumption).
  assert (Kn : ~ k == 0) by (intro E; rewrite E in Hk; discriminate Hk).
  assert (S : same_plane pos r c pos2 r c) by apply pyramid_same_plane.
  destruct (p2p_coplanar_accepted pos r c sr sc pos2 r c (k * sr) (k * sc) O O S Hr Hc Hr2 Hc2)
    as (T & P' & P2 & Rv2 & ET & EP & EP2 & ER & V).
  rewrite p2r_make_ok in EP by assumption. injection EP as <-.
  rewrite p2r_make_ok in EP2 by assumption. injection EP2 as <-.
  assert (N1 : ~ 1 == 0) by discriminate.
  destruct (inverse_pairs pos2 r c (k * sr) (k * sc) 1 O Hr2 Hc2 N1)
    as (P2' & Rv2' & _ & _ & HP2 & HR2 & _ & _ & Inv & _).
  rewrite p2r_make_ok in HP2 by assumption. injection HP2 as <-.
  rewrite ER in HR2. injection HR2 as <-.
  exists T, Rv2. split; [exact ET|]. split; [apply p2r_make_ok; assumption|]. split; [exact ER|].
  intros i j.
  assert (W : veq (aapply Rv2 (aapply (Aff (rotRD r c sr sc 1) pos) (V3 i j 0))) (V3 ((i - a) / k) ((j - b) / k) 0)).
  { eapply veq_trans; [|apply (Inv ((i - a) / k) ((j - b) / k))].
    apply aapply_proper. exact (pyramid_point r c sr sc k pos a b i j Kn). }
  split; [|exact W].
  eapply veq_trans; [apply (proj1 (V i j))|exact W].
Qed.

(* k = 2, origin at an integer source index: the odd source offsets are exact ties, and BOTH routes -
   PixelToPixel (rounded, the default) and PixelToReference followed by the rounded ReferenceToPixel
   of the target - answer the EVEN neighbour; even offsets map exactly *)
Theorem pyramid_ties pos r c sr sc (a b i j m n : Z) :
  orthonormal r c -> 0 < sr -> 0 < sc ->
  (i - a = 2 * m + 1)%Z -> (j - b = 2 * n)%Z ->
  let P := Aff (rotRD r c sr sc 1) pos in
  let pos2 := aapply P (V3 (inject_Z a) (inject_Z b) 0) in
  exists T Rv2,
    p2p_make (apos pos) (aori r c) (asp sr sc) (apos pos2) (aori r c) (asp (2 * sr) (2 * sc)) = Ok T /\
    r2p_make (apos pos2) (aori r c) (asp (2 * sr) (2 * sc)) 1 = Ok Rv2 /\
    p2p_call T true [zpt (i, j)] = OutZ2 [(if Z.even m then m else (m + 1)%Z, n)] /\
    r2p_call Rv2 true false (call_2to3 P [zpt (i, j)])
      = Ok (OutZ3 [(if Z.even m then m else (m + 1)%Z, n, 0%Z)]).
Proof.
  intros O Hr Hc Hi Hj P pos2.
  assert (H2 : 0 < 2) by reflexivity.
  destruct (pyramid_level pos r c sr sc 2 (inject_Z a) (inject_Z b) O Hr Hc H2) as (T & Rv2 & ET & EP & ER & V).
  exists T, Rv2. split; [exact ET|]. split; [exact ER|].
  destruct (p2p_rounded_via_reference _ _ _ _ _ _ T ET) as (P' & Rv' & EP' & ER' & C).
  rewrite EP in EP'. injection EP' as <-. rewrite ER in ER'. injection ER' as <-.
  destruct (C [zpt (i, j)]) as (C1 & C2).
  destruct (V (inject_Z i) (inject_Z j)) as (_ & (X & Y & Z0)). proj. cbn [vx vy vz] in X, Y, Z0.
  assert (Xm : (inject_Z i - inject_Z a) / 2 == inject_Z m + (1 # 2)).
  { assert (E : inject_Z i - inject_Z a == inject_Z (2 * m + 1)) by (rewrite <- Hi; unfold Zminus; rewrite inject_Z_plus, inject_Z_opp; ring).
    rewrite E, inject_Z_plus, inject_Z_mult. change (inject_Z 1) with 1. change (inject_Z 2) with 2. field. }
  assert (Yn : (inject_Z j - inject_Z b) / 2 == inject_Z n).
  { assert (E : inject_Z j - inject_Z b == inject_Z (2 * n)) by (rewrite <- Hj; unfold Zminus; rewrite inject_Z_plus, inject_Z_opp; ring).
    rewrite E, inject_Z_mult. change (inject_Z 2) with 2. field. }
  assert (RX : rne (vx (via2 (Aff (rotRD r c sr sc 1) pos) Rv2 (zpt (i, j)))) = if Z.even m then m else (m + 1)%Z).
  { unfold via2, zpt; cbn [fst snd]. rewrite (rne_compat _ _ X), (rne_compat _ _ Xm). apply rne_tie. }
  assert (RY : rne (vy (via2 (Aff (rotRD r c sr sc 1) pos) Rv2 (zpt (i, j)))) = n).
  { unfold via2, zpt; cbn [fst snd]. rewrite (rne_compat _ _ Y), (rne_compat _ _ Yn). apply rne_integer. reflexivity. }
  assert (RZ : rne (vz (via2 (Aff (rotRD r c sr sc 1) pos) Rv2 (zpt (i, j)))) = 0%Z).
  { unfold via2, zpt; cbn [fst snd]. rewrite (rne_compat _ _ Z0). apply rne_integer. reflexivity. }
  split.
  - rewrite C1. cbn [map]. rewrite RX, RY. reflexivity.
  - subst P. rewrite C2. cbn [map]. rewrite RX, RY, RZ. reflexivity.
Qed.

(* ------------------------------------------------------------------ *)
(* histories of one transformer object                                 *)
(* ------------------------------------------------------------------ *)
(* whatever the caller does with the arrays it was handed (the matrix returned by `affine`, results of
   earlier calls, its own input arrays), every later observation of the object is the observation of
   the freshly constructed object, and the matrix it was handed is the object's matrix *)
Theorem history_immutable A ops obs :
  Forall2 (fun op v => v = VL [match op with HAffineEdit k t => vaff (edit_aff k t A) | _ => VNone end; obs A])
          ops (hist A ops obs).
Proof.
  induction ops as [|op ops IH]; cbn [hist]; [constructor|].
  destruct op; cbn [hstep]; constructor; try reflexivity; exact IH.
Qed.

Theorem run_history_fresh mk call ops A :
  mk = Ok A ->
  exists l, run_history mk call ops = VL [VL [vaff A; call A]; VL l] /\
    length l = length ops /\
    forall v, In v l -> exists mine, v = VL [mine; VL [vaff A; call A]].
Proof.
  intros ->. unfold run_history, hobs. eexists. split; [reflexivity|].
  pose proof (history_immutable A ops (fun A' => VL [vaff A'; call A'])) as F.
  split.
  - clear. generalize (fun A' : aff => VL [vaff A'; call A']). intro obs.
    induction ops as [|op ops IH]; [reflexivity|]. cbn [hist].
    destruct op; cbn [hstep length]; rewrite IH; reflexivity.
  - intros v Hin. induction F as [|op w ops' l' E F IH]; [destruct Hin|].
    destruct Hin as [<-|Hin]; [eexists; exact E | exact (IH Hin)].
Qed.

(* ------------------------------------------------------------------ *)
(* the harness boundary of the rounded routes                          *)
(* ------------------------------------------------------------------ *)
Definition rz3 (P Rv : aff) (p : Q * Q) : Z * Z * Z :=
  (rne (vx (via2 P Rv p)), rne (vy (via2 P Rv p)), rne (vz (via2 P Rv p))).

(* every accepted pair, every list of source points (ties included): the default PixelToPixel result is
   the first two columns of the default ReferenceToPixel result on the reference positions, both are the
   half-to-even rounding of the un-rounded ReferenceToPixel result, and the single-point helper answers
   the same triple for every point *)
Theorem round_routes_agree pf of_ sf pt ot st rows cols pts l T :
  p2p_make pf of_ sf pt ot st = Ok T -> rows2 pts = Ok l ->
  exists P Rv geo,
    p2r_make pf of_ sf = Ok P /\ r2p_make pt ot st 1 = Ok Rv /\
    run_round_routes pf of_ sf pt ot st rows cols pts =
    VL [vpts (OutZ2 (map (fun t => (fst (fst t), snd (fst t))) (map (rz3 P Rv) l)));
        vpts (OutZ3 (map (rz3 P Rv) l));
        vpts (OutQ3 (map (via2 P Rv) l));
        vres vpts (r2p_call Rv true true (call_2to3 P l));
        VL (map (fun p => vz3 [rz3 P Rv p]) l);
        geo].
Proof.
  intros ET EL. destruct (p2p_rounded_via_reference _ _ _ _ _ _ T ET) as (P & Rv & EP & ER & C).
  exists P, Rv. eexists. split; [exact EP|]. split; [exact ER|].
  unfold run_round_routes. rewrite EL, ET, EP, ER.
  destruct (C l) as (C1 & C2). rewrite C1, C2. cbn [vres].
  f_equal. f_equal.
  { rewrite map_map. apply f_equal, f_equal, map_ext. intro p. unfold rz3. cbn [fst snd]. reflexivity. }
  f_equal. f_equal.
  { unfold r2p_call, call_3to3, call_2to3. rewrite map_map. cbn [vres]. apply f_equal, f_equal, map_ext. intro p. reflexivity. }
  f_equal. f_equal.
  { unfold call_2to3. rewrite map_map. apply f_equal, map_ext. intro p.
    unfold map_coordinate_into_pixel_matrix. rewrite ER. cbn [bind r2p_call call_3to3 map round3 vres]. reflexivity. }
Qed.

(* ------------------------------------------------------------------ *)
(* VolumeGeometry.map_reference_to_indices(round_output=True) and the  *)
(* rounded ReferenceToPixel transformer of the same plane              *)
(* ------------------------------------------------------------------ *)
(* index (k, row, col) of the one-frame volume is pixel (col, row) of the image, k slices along -(r x c) *)
Lemma geom_index_is_pixel r c sr sc pos k row col :
  veq (aapply (Aff (rotation_core r c PD PR true RH sr sc 1) pos) (V3 k row col))
      (aapply (Aff (rotRD r c sr sc 1) pos) (V3 col row (- k))).
Proof.
  unfold rotRD, rotation_core; cbn [conv_vec conv_sp normal].
  cbv [veq aapply mapply vadd smul cross vneg vx vy vz c0 c1 c2 lin tr]. repeat split; ring.
Qed.

Lemma geom_index_is_pixel_v r c sr sc pos v :
  veq (aapply (Aff (rotation_core r c PD PR true RH sr sc 1) pos) v)
      (aapply (Aff (rotRD r c sr sc 1) pos) (V3 (vz v) (vy v) (- vx v))).
Proof. destruct v as [k row col]. exact (geom_index_is_pixel r c sr sc pos k row col). Qed.

Lemma aff_right_inverse_nored A Mi x : inv3 (lin A) = Ok Mi ->
  veq (aapply A (aapply (Aff Mi (vneg (mapply Mi (tr A)))) x)) x.
Proof.
  intro H. destruct (aff_inverse A Mi H x) as (_ & R).
  eapply veq_trans; [|exact R]. apply aapply_proper.
  unfold aapply; proj. apply vadd_proper; [apply veq_refl | apply veq_sym, vred_eq].
Qed.

Theorem geom_rounding_matches_r2p pos r c sr sc nf rows cols :
  orthonormal r c -> 0 < sr -> 0 < sc ->
  exists G Rv,
    geom_from_attributes (apos pos) (aori r c) (asp sr sc) 1 nf rows cols = Ok G /\
    r2p_make (apos pos) (aori r c) (asp sr sc) 1 = Ok Rv /\
    forall x,
      g_map_reference_to_indices_rounded G [x]
        = Ok [(rne (- vz (aapply Rv x)), rne (vy (aapply Rv x)), rne (vx (aapply Rv x)))] /\
      r2p_call Rv true false [x]
        = Ok (OutZ3 [(rne (vx (aapply Rv x)), rne (vy (aapply Rv x)), rne (vz (aapply Rv x)))]).
Proof.
  intros O Hr Hc.
  assert (H1 : 0 < 1) by reflexivity. assert (N1 : ~ 1 == 0) by discriminate.
  destruct (volume_accessors pos r c sr sc 1 nf rows cols O Hr Hc H1) as (G & E & GA & _).
  destruct (r2p_make_ok pos r c sr sc 1 O Hr Hc N1) as (Mi & EI & ER).
  exists G. eexists. split; [exact E|]. split; [exact ER|].
  intro x. split; [|reflexivity].
  assert (DN : ~ det (lin (g_aff G)) == 0).
  { rewrite GA. cbn [lin].
    destruct (rotation_shape r c PD PR true RH sr sc 1 O eq_refl) as (_ & _ & D). rewrite D.
    cbn [hand_sign conv_sp]. intro Z.
    assert (P : 0 < sr * sc * 1) by (apply Qmult_lt_0_compat; [apply Qmult_lt_0_compat|]; assumption).
    lra. }
  destruct (inv3_exists _ DN) as (Gi & EG).
  unfold g_map_reference_to_indices_rounded, g_map_reference_to_indices. rewrite EG.
  cbn [bind call_3to3 map round3].
  set (q := aapply (Aff Gi (vneg (mapply Gi (tr (g_aff G))))) x).
  pose proof (aff_right_inverse_nored (g_aff G) Gi x EG) as R. fold q in R.
  rewrite GA in R.
  assert (Q : veq (aapply (Aff Mi (vred (vneg (mapply Mi pos)))) x) (V3 (vz q) (vy q) (- vx q))).
  { eapply veq_trans.
    - apply aapply_proper. apply veq_sym. eapply veq_trans; [|exact R].
      apply veq_sym. exact (geom_index_is_pixel_v r c sr sc pos q).
    - exact (proj1 (aff_inverse (Aff (rotRD r c sr sc 1) pos) Mi EI (V3 (vz q) (vy q) (- vx q)))). }
  destruct Q as (Qx & Qy & Qz). cbn [vx vy vz] in Qx, Qy, Qz.
  assert (X : vx q == - vz (aapply (Aff Mi (vred (vneg (mapply Mi pos)))) x)) by (rewrite Qz; ring).
  rewrite (rne_compat _ _ X), <- (rne_compat _ _ Qy), <- (rne_compat _ _ Qx). reflexivity.
Qed.
