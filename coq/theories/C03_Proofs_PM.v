(* C03 - proofs, part 9: parametric maps (C03_Model_PM.v).
   The constructor's only refusal is the count guard; what it records is the
   caller's placement (else the sources'), frame k pairing position k with plane k
   of the pixel array; for planes on a line p0 + m sbs n (distinct integers m in
   ANY order - ascending, descending, interleaved) with a recorded slice spacing
   the read-back through get_volume returns plane k at volume index m_k - min m,
   i.e. every voxel at the position its own plane position gave it, and zeros
   in the gaps. *)
From Coq Require Import String ZArith List Bool Lia QArith Qround Qfield Lqa FinFun.
From HD Require Import Base.Val Base.PySlice C03_Model C03_Model_PM C03_Proofs_Geom C03_Proofs_Stack.
Import ListNotations.
Open Scope Q_scope.

(* what the constructor uses: the caller's argument when given, else the sources' *)
Definition pm_positions (src_ps : list v3) (u_ps : option (list v3)) : list v3 :=
  match u_ps with Some l => l | None => src_ps end.
Definition pm_orientation (src_rc src_cc : v3) (u_or : option (v3 * v3)) : v3 * v3 :=
  match u_or with Some o => o | None => (src_rc, src_cc) end.
Definition pm_measures (src_spr src_spc : Q) (src_sbs : option Q) (u_pm : option (Q * Q * option Q))
  : Q * Q * option Q :=
  match u_pm with Some m => m | None => (src_spr, src_spc, src_sbs) end.

Lemma pm_stored_ok : forall src_ps src_rc src_cc src_spr src_spc src_sbs u_ps u_or u_pm rows cols arr st,
  pm_stored src_ps src_rc src_cc src_spr src_spc src_sbs u_ps u_or u_pm rows cols arr = Ok st <->
  (length (pm_positions src_ps u_ps) = length arr /\
   st = Stored (fst (pm_orientation src_rc src_cc u_or)) (snd (pm_orientation src_rc src_cc u_or))
               (fst (fst (pm_measures src_spr src_spc src_sbs u_pm)))
               (snd (fst (pm_measures src_spr src_spc src_sbs u_pm)))
               (snd (pm_measures src_spr src_spc src_sbs u_pm)) rows cols
               (combine (pm_positions src_ps u_ps) arr)).
Proof.
  intros. unfold pm_stored. fold (pm_positions src_ps u_ps) (pm_orientation src_rc src_cc u_or)
    (pm_measures src_spr src_spc src_sbs u_pm).
  destruct (Nat.eqb (length (pm_positions src_ps u_ps)) (length arr)) eqn:E; cbn [negb].
  - apply Nat.eqb_eq in E. split.
    + intros H. injection H as <-. split; [exact E|reflexivity].
    + intros (_ & ->). reflexivity.
  - apply Nat.eqb_neq in E. split; [discriminate|]. intros (H & _). contradiction.
Qed.

Lemma pm_stored_err : forall src_ps src_rc src_cc src_spr src_spc src_sbs u_ps u_or u_pm rows cols arr k,
  pm_stored src_ps src_rc src_cc src_spr src_spc src_sbs u_ps u_or u_pm rows cols arr = Err k <->
  (length (pm_positions src_ps u_ps) <> length arr /\ k = "ValueError"%string).
Proof.
  intros. unfold pm_stored. fold (pm_positions src_ps u_ps).
  destruct (Nat.eqb (length (pm_positions src_ps u_ps)) (length arr)) eqn:E; cbn [negb].
  - apply Nat.eqb_eq in E. split; [discriminate|]. intros (H & _). contradiction.
  - apply Nat.eqb_neq in E. split.
    + intros H. injection H as <-. split; [exact E|reflexivity].
    + intros (_ & ->). reflexivity.
Qed.

(* frame k records plane position k AND holds plane k of the pixel array *)
Lemma pm_frames_paired : forall src_ps src_rc src_cc src_spr src_spc src_sbs u_ps u_or u_pm rows cols arr st,
  pm_stored src_ps src_rc src_cc src_spr src_spc src_sbs u_ps u_or u_pm rows cols arr = Ok st ->
  length (st_planes st) = length arr /\
  forall k dp da, (k < length arr)%nat ->
    nth k (st_planes st) (dp, da) = (nth k (pm_positions src_ps u_ps) dp, nth k arr da).
Proof.
  intros until st. intros H. apply pm_stored_ok in H as (Hl & ->). cbn [st_planes]. split.
  - rewrite combine_length, Hl. apply Nat.min_id.
  - intros k dp da _. apply combine_nth. exact Hl.
Qed.

(* planes on a line, any order, recorded slice spacing: the read-back *)
Theorem pm_line_roundtrip : forall (p0 rowcos colcos : v3) (spr spc sbs : Q) rows cols ms arr,
  vdot rowcos rowcos == 1 -> vdot colcos colcos == 1 -> vdot rowcos colcos == 0 -> 0 < sbs ->
  NoDup ms -> length ms = length arr -> arr <> [] ->
  (1 <= rows)%Z -> (1 <= cols)%Z -> Forall (plane_shape rows cols) arr ->
  let n := normal rowcos colcos in
  let plane m := vadd p0 (vscale (inject_Z m * sbs) n) in
  let st := Stored rowcos colcos spr spc (Some sbs) rows cols (combine (map plane ms) arr) in
  exists mmin n0 G out,
    In mmin ms /\ (forall m, In m ms -> (0 <= m - mmin < n0)%Z) /\ In (mmin + n0 - 1)%Z ms /\
    get_volume true st None None None None None None false = Ok ((n0, rows, cols), G, out) /\
    length out = Z.to_nat n0 /\
    (forall m r c : Z,
       physZ G (m - mmin) r c =v=
       vadd (vadd (plane m) (vscale (inject_Z r * spr) colcos)) (vscale (inject_Z c * spc) rowcos)) /\
    (forall k, (k < length ms)%nat ->
       nth (Z.to_nat (nth k ms 0%Z - mmin)) out [] = nth k arr []) /\
    (forall i, (0 <= i < n0)%Z -> ~ In (mmin + i)%Z ms ->
       nth (Z.to_nat i) out [] = zeros_plane rows cols).
Proof.
  intros p0 rowcos colcos spr spc sbs rows cols ms arr Hr Hc Hrc Hs Hnd Hlen Hne Hrows Hcols Hshape n plane st.
  assert (Est : st = seg_from_sources (map plane ms) rowcos colcos spr spc (Some sbs) rows cols arr false)
    by reflexivity.
  destruct (sources_stacked p0 rowcos colcos spr spc sbs rows cols ms arr false Hr Hc Hrc Hs Hnd Hlen Hne)
    as (mmin & n0 & Hmin & Hrange & Hlast & E & Hvox).
  fold n plane in Hmin, Hrange, Hlast, E, Hvox. rewrite <- Est in E.
  unfold keep in Hmin, Hrange, Hlast, E.
  rewrite (map_fst_combine ms arr Hlen) in Hmin, Hrange, Hlast.
  set (f := fun m : Z => (m - mmin)%Z).
  assert (Eidx : map (fun mp : Z * C03_Model.plane => (fst mp - mmin)%Z) (combine ms arr) = map f ms).
  { transitivity (map f (map fst (combine ms arr))); [rewrite map_map; reflexivity|].
    rewrite (map_fst_combine ms arr Hlen). reflexivity. }
  rewrite Eidx in E.
  assert (Hn0 : (1 <= n0)%Z) by (specialize (Hrange mmin Hmin); lia).
  assert (Hidx : forall i, In i (map f ms) -> (0 <= i < n0)%Z).
  { intros i Hi. apply in_map_iff in Hi as (m & <- & Hm). apply Hrange. exact Hm. }
  pose proof (get_volume_all true st _ n0 (map f ms) false E Hrows Hcols Hn0 Hidx) as EV.
  cbn [st st_rows st_cols st_planes] in EV.
  assert (HP : map snd (combine (map plane ms) arr) = arr).
  { apply map_snd_combine. rewrite map_length. exact Hlen. }
  rewrite HP in EV.
  assert (Hndi : NoDup (map f ms)).
  { apply Injective_map_NoDup; [intros a b Hab; unfold f in Hab; lia|exact Hnd]. }
  exists mmin, n0. eexists. eexists.
  split; [exact Hmin|]. split; [exact Hrange|]. split; [exact Hlast|]. split; [exact EV|].
  split; [rewrite map_length, zrange_from_length; reflexivity|].
  split; [|split].
  - intros m r c. eapply veq_trans; [apply sub_aff_compose|]. rewrite !Z.add_0_l. apply Hvox.
  - intros k Hk. set (m := nth k ms 0%Z).
    assert (Hm : In m ms) by (apply nth_In; exact Hk).
    pose proof (Hrange m Hm) as Rm.
    rewrite nth_zrange_map by lia. rewrite Z2Nat.id by lia.
    rewrite (plane_at_in (0 + (m - mmin)) (nth k arr [])); [|exact Hndi|].
    + apply trim_shape. rewrite Forall_forall in Hshape. apply Hshape. apply nth_In. rewrite <- Hlen. exact Hk.
    + replace (0 + (m - mmin))%Z with (f m) by (unfold f; lia).
      replace (f m, nth k arr []) with (nth k (combine (map f ms) arr) (f 0%Z, [])).
      * apply nth_In. rewrite combine_length, map_length, Hlen, Nat.min_id. rewrite <- Hlen. exact Hk.
      * rewrite combine_nth by (rewrite map_length; exact Hlen).
        rewrite (map_nth f ms 0%Z k). reflexivity.
  - intros i Hi Hnin. rewrite nth_zrange_map by lia. rewrite Z2Nat.id by lia.
    rewrite plane_at_notin.
    + apply trim_shape. apply zeros_shape.
    + intros Hin. apply in_map_iff in Hin as (m & Em & Hm). apply Hnin.
      replace (mmin + i)%Z with m by (unfold f in Em; lia). exact Hm.
Qed.

(* the same, stated on the constructor: whichever way the placement reached it
   (plane positions / orientation / measures of the source images, or the caller's
   own), a parametric map that the constructor accepts with planes on a line in
   ANY order comes back with every plane where its own plane position put it *)
Theorem pm_roundtrip : forall (p0 rowcos colcos : v3) (spr spc sbs : Q) rows cols ms arr
    src_ps src_rc src_cc src_spr src_spc src_sbs u_ps u_or u_pm st,
  vdot rowcos rowcos == 1 -> vdot colcos colcos == 1 -> vdot rowcos colcos == 0 -> 0 < sbs ->
  NoDup ms -> arr <> [] -> (1 <= rows)%Z -> (1 <= cols)%Z -> Forall (plane_shape rows cols) arr ->
  let n := normal rowcos colcos in
  let plane m := vadd p0 (vscale (inject_Z m * sbs) n) in
  pm_stored src_ps src_rc src_cc src_spr src_spc src_sbs u_ps u_or u_pm rows cols arr = Ok st ->
  pm_positions src_ps u_ps = map plane ms ->
  pm_orientation src_rc src_cc u_or = (rowcos, colcos) ->
  pm_measures src_spr src_spc src_sbs u_pm = (spr, spc, Some sbs) ->
  st_planes st = combine (map plane ms) arr /\
  exists mmin n0 G out,
    In mmin ms /\ (forall m, In m ms -> (0 <= m - mmin < n0)%Z) /\ In (mmin + n0 - 1)%Z ms /\
    get_volume true st None None None None None None false = Ok ((n0, rows, cols), G, out) /\
    length out = Z.to_nat n0 /\
    (forall m r c : Z,
       physZ G (m - mmin) r c =v=
       vadd (vadd (plane m) (vscale (inject_Z r * spr) colcos)) (vscale (inject_Z c * spc) rowcos)) /\
    (forall k, (k < length ms)%nat ->
       nth (Z.to_nat (nth k ms 0%Z - mmin)) out [] = nth k arr []) /\
    (forall i, (0 <= i < n0)%Z -> ~ In (mmin + i)%Z ms ->
       nth (Z.to_nat i) out [] = zeros_plane rows cols).
Proof.
  intros p0 rowcos colcos spr spc sbs rows cols ms arr src_ps src_rc src_cc src_spr src_spc src_sbs u_ps u_or u_pm st
         Hr Hc Hrc Hs Hnd Hne Hrows Hcols Hshape n plane Hst Hps Hor Hpm.
  apply pm_stored_ok in Hst as (Hl & ->). rewrite Hps, Hor, Hpm in *. cbn [fst snd st_planes].
  rewrite map_length in Hl.
  split; [reflexivity|].
  apply (pm_line_roundtrip p0 rowcos colcos spr spc sbs rows cols ms arr); assumption.
Qed.
