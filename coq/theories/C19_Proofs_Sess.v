(* C19 - proofs for the session model (one image object, many accesses; decoded-array cache):
   the cache is transparent, and a batch answers request p with requested frame p. *)
From Coq Require Import String ZArith List Bool QArith Lia ZifyBool Permutation.
From HD Require Import Base.Val C19_Model C19_Proofs C19_Proofs_Ext.
Import ListNotations.
Open Scope Z_scope.
Ltac Zify.zify_post_hook ::= Z.to_euclidean_division_equations.

Lemma std_index_range n f ai k : std_index n f ai = Ok k -> 0 <= k < n.
Proof.
  destruct ai; intros H.
  - apply std_index_index in H. lia.
  - apply std_index_number in H. lia.
Qed.

Lemma res_all_map_ext_in {A B} (g h : A -> res B) (l : list A) :
  (forall x, In x l -> g x = h x) -> res_all (map g l) = res_all (map h l).
Proof.
  induction l as [|a l IH]; intros H; [reflexivity|].
  cbn [map res_all]. rewrite (H a (or_introl eq_refl)).
  rewrite IH by (intros x Hx; apply H; now right). reflexivity.
Qed.

Lemma Forall2_nth_error {A B} (P : A -> B -> Prop) l t :
  Forall2 P l t -> forall p a, nth_error l p = Some a -> exists b, nth_error t p = Some b /\ P a b.
Proof.
  induction 1 as [|x y l t Hxy F IH]; intros p a Hp.
  - destruct p; discriminate.
  - destruct p as [|p]; cbn [nth_error] in *.
    + inversion Hp; subst. eauto.
    + eauto.
Qed.

Section SessionProofs.
  Variable w : nat.
  Variables R C M n : Z.
  Variable bytes : list Z.
  Variable maps : list (list (string * mapping)).
  Variable sel : selector.
  Variables center width : Q.

  Notation decoded := (decode_all w R C n bytes).
  Notation frame_at' := (frame_at w R C n bytes).
  Notation exec' := (exec w R C M n bytes maps sel center width).
  Notation session' := (session w R C M n bytes maps sel center width).

  (* the states an object can be in *)
  Definition coherent (st : cache) : Prop := st = None \/ (1 <= n /\ st = Some decoded).

  (* pixel_array[k] of the decoded array is the frame decoded on its own *)
  Lemma frame_at_decoded k : 0 <= k < n -> frame_at' (Some decoded) k = frame_at' None k.
  Proof.
    intros Hk. unfold frame_at, decode_all.
    assert (Hn : forall j, 0 <= j < n ->
              nth (Z.to_nat j) (map (read_frame w R C bytes) (zrange n)) [] = read_frame w R C bytes j).
    { intros j Hj. apply nth_error_nth. now apply nth_error_map_zrange. }
    destruct (n =? 1) eqn:E.
    - assert (k = 0) by lia. subst k. exact (Hn 0 Hk).
    - now apply Hn.
  Qed.

  Lemma s_stored_frame_coherent st f ai : coherent st ->
    s_stored_frame w R C n bytes st f ai = s_stored_frame w R C n bytes None f ai.
  Proof.
    intros [->|[_ ->]]; [reflexivity|]. unfold s_stored_frame.
    destruct (std_index n f ai) as [k|e] eqn:E; cbn [bind]; [|reflexivity].
    now rewrite frame_at_decoded by (eapply std_index_range; eassumption).
  Qed.

  Lemma s_stored_frames_coherent st fs ai : coherent st ->
    s_stored_frames w R C n bytes st fs ai = s_stored_frames w R C n bytes None fs ai.
  Proof.
    intros H. unfold s_stored_frames.
    rewrite (res_all_map_ext_in (fun f => s_stored_frame w R C n bytes st f ai)
                                (fun f => s_stored_frame w R C n bytes None f ai)); [reflexivity|].
    intros x _. now apply s_stored_frame_coherent.
  Qed.

  Lemma s_frame_coherent st rw md voi f ai : coherent st ->
    s_frame w R C M n bytes maps sel center width st rw md voi f ai =
    s_frame w R C M n bytes maps sel center width None rw md voi f ai.
  Proof.
    intros [->|[_ ->]]; [reflexivity|]. unfold s_frame.
    destruct (std_index n f ai) as [k|e] eqn:E; cbn [bind]; [|reflexivity].
    now rewrite frame_at_decoded by (eapply std_index_range; eassumption).
  Qed.

  Lemma s_frames_coherent st rw md voi fs ai : coherent st ->
    s_frames w R C M n bytes maps sel center width st rw md voi fs ai =
    s_frames w R C M n bytes maps sel center width None rw md voi fs ai.
  Proof.
    intros H. unfold s_frames.
    destruct (match fs with Some l => l | None => all_frames n ai end) as [|f0 l]; [reflexivity|].
    rewrite (res_all_map_ext_in
               (fun f => s_frame w R C M n bytes maps sel center width st rw md voi f ai)
               (fun f => s_frame w R C M n bytes maps sel center width None rw md voi f ai));
      [reflexivity|].
    intros x _. now apply s_frame_coherent.
  Qed.

  (* the accessors of a fresh object are the stateless functions characterised before *)
  Lemma s_stored_frame_fresh f ai :
    s_stored_frame w R C n bytes None f ai = get_stored_frame w R C n bytes f ai.
  Proof. reflexivity. Qed.
  Lemma s_stored_frames_fresh fs ai :
    s_stored_frames w R C n bytes None fs ai = get_stored_frames w R C n bytes fs ai.
  Proof. reflexivity. Qed.
  Lemma s_frame_fresh rw md voi f ai :
    s_frame w R C M n bytes maps sel center width None rw md voi f ai =
    get_frame_flags w R C M n bytes maps sel rw md voi center width f ai.
  Proof. reflexivity. Qed.
  Lemma s_frames_fresh rw md voi fs ai :
    s_frames w R C M n bytes maps sel center width None rw md voi fs ai =
    get_frames_flags w R C M n bytes maps sel rw md voi center width fs ai.
  Proof. reflexivity. Qed.

  (* decoding everything on a fresh object yields the decoded array, or nothing is cached *)
  Lemma all_frames_decoded ai : 1 <= n ->
    s_stored_frames w R C n bytes None None ai = Ok decoded.
  Proof.
    intros Hn. rewrite s_stored_frames_fresh. apply get_stored_frames_ok. cbn [requested]. split.
    - intros H. pose proof (all_frames_valid n ai) as F. rewrite H in F.
      apply Forall2_length' in F. rewrite zrange_length in F. cbn [length] in F. lia.
    - unfold decode_all. pose proof (all_frames_valid n ai) as F.
      induction F as [|f k fs ks Hfk F IH]; cbn [map]; constructor; [|exact IH].
      exists k. auto.
  Qed.

  Lemma pixel_array_fresh :
    s_pixel_array w R C n bytes None =
    if 1 <=? n then (Ok decoded, Some decoded) else (Err "ValueError", None).
  Proof.
    unfold s_pixel_array. destruct (n =? 1) eqn:E1.
    - assert (n = 1) by lia. subst n. reflexivity.
    - destruct (1 <=? n) eqn:E2.
      + rewrite all_frames_decoded by lia. reflexivity.
      + assert (Hz : zrange n = []).
        { unfold zrange. replace (Z.to_nat n) with 0%nat by lia. reflexivity. }
        unfold s_stored_frames, all_frames. rewrite Hz. reflexivity.
  Qed.

  Lemma pixel_array_coherent st : coherent st ->
    fst (s_pixel_array w R C n bytes st) = fst (s_pixel_array w R C n bytes None) /\
    coherent (snd (s_pixel_array w R C n bytes st)).
  Proof.
    intros [->|[Hn ->]].
    - split; [reflexivity|]. rewrite pixel_array_fresh.
      destruct (1 <=? n) eqn:E; cbn [snd]; [right; split; [lia|reflexivity]|left; reflexivity].
    - rewrite pixel_array_fresh. replace (1 <=? n) with true by lia.
      cbn [s_pixel_array fst snd]. split; [reflexivity|right; split; [exact Hn|reflexivity]].
  Qed.

  (* one access: same answer as on a fresh object, and the object stays coherent *)
  Lemma exec_coherent st o : coherent st ->
    fst (exec' st o) = fst (exec' None o) /\ coherent (snd (exec' st o)).
  Proof.
    intros H. destruct o as [|f ai|fs ai|rw md voi f ai|rw md voi fs ai]; cbn [exec].
    - destruct (pixel_array_coherent st H) as [H1 H2].
      destruct (s_pixel_array w R C n bytes st) as [r st'].
      destruct (s_pixel_array w R C n bytes None) as [r0 st0].
      cbn [fst snd] in *. subst r0. split; [reflexivity|exact H2].
    - cbn [fst snd]. rewrite s_stored_frame_coherent by exact H. split; [reflexivity|exact H].
    - cbn [fst snd]. rewrite s_stored_frames_coherent by exact H. split; [reflexivity|exact H].
    - cbn [fst snd]. rewrite s_frame_coherent by exact H. split; [reflexivity|exact H].
    - cbn [fst snd]. rewrite s_frames_coherent by exact H. split; [reflexivity|exact H].
  Qed.

  Lemma session_coherent ops : forall st, coherent st ->
    session' st ops = map (fun o => fst (exec' None o)) ops.
  Proof.
    induction ops as [|o ops IH]; intros st H; [reflexivity|].
    cbn [session map]. destruct (exec_coherent st o H) as [H1 H2].
    destruct (exec' st o) as [v st']. cbn [fst snd] in *.
    rewrite H1, (IH st' H2). reflexivity.
  Qed.

  (* THE CACHE IS TRANSPARENT: whatever was accessed before on the same object (in particular the
     whole pixel array), every access answers as on a freshly opened image *)
  Lemma session_transparent : forall ops,
    session' None ops = map (fun o => fst (exec' None o)) ops.
  Proof. intros ops. apply session_coherent. left. reflexivity. Qed.

  (* ... and what a fresh image answers is what the earlier theorems characterise *)
  Lemma exec_fresh : forall o,
    fst (exec' None o) =
    match o with
    | OPixelArray => if 1 <=? n then vz_list2 decoded else VErr "ValueError"
    | OStoredFrame f ai => vres vz_list (get_stored_frame w R C n bytes f ai)
    | OStoredFrames fs ai => vres vz_list2 (get_stored_frames w R C n bytes fs ai)
    | OFrame rw md voi f ai =>
        vres vq_list (get_frame_flags w R C M n bytes maps sel rw md voi center width f ai)
    | OFrames rw md voi fs ai =>
        vres (fun l => VL (map vq_list l))
             (get_frames_flags w R C M n bytes maps sel rw md voi center width fs ai)
    end.
  Proof.
    intros [|f ai|fs ai|rw md voi f ai|rw md voi fs ai]; try reflexivity.
    cbn [exec]. rewrite pixel_array_fresh. destruct (1 <=? n); reflexivity.
  Qed.

  (* ORDER OF A BATCH: position p of the answer holds the frame requested at position p - for any
     list of requests (ascending or not, permutations of a run, repetitions, gaps), in any state *)
  Lemma stored_frames_position st fs ai out : coherent st ->
    s_stored_frames w R C n bytes st (Some fs) ai = Ok out ->
    length out = length fs /\
    forall p f, nth_error fs p = Some f ->
      exists k, std_index n f ai = Ok k /\ nth_error out p = Some (read_frame w R C bytes k).
  Proof.
    intros H E. rewrite s_stored_frames_coherent in E by exact H.
    rewrite s_stored_frames_fresh in E. apply get_stored_frames_ok in E.
    cbn [requested] in E. destruct E as [_ F]. split.
    - symmetry. eapply Forall2_length'. exact F.
    - intros p f Hp. destruct (Forall2_nth_error _ _ _ F p f Hp) as [b [Hb [k [Hk ->]]]]. eauto.
  Qed.

  (* reordering the request reorders the answer the same way *)
  Lemma stored_frames_permuted st fs fs' ai out out' : coherent st ->
    s_stored_frames w R C n bytes st (Some fs) ai = Ok out ->
    s_stored_frames w R C n bytes st (Some fs') ai = Ok out' ->
    forall p q f, nth_error fs p = Some f -> nth_error fs' q = Some f ->
      nth_error out p = nth_error out' q.
  Proof.
    intros H E E' p q f Hp Hq.
    destruct (stored_frames_position st fs ai out H E) as [_ P].
    destruct (stored_frames_position st fs' ai out' H E') as [_ P'].
    destruct (P p f Hp) as [k [Hk ->]]. destruct (P' q f Hq) as [k' [Hk' ->]].
    congruence.
  Qed.
End SessionProofs.

(* non-vacuity: 4 frames of 2 words, warm object, a permuted run starting at its minimum and
   ending at its maximum *)
Lemma session_example :
  let bytes := [1; 2; 3; 4; 5; 6; 7; 8] in
  session 1 1 2 1 4 bytes [[("a"%string, MLin 2 0 0 255)]] (SIdx 0) 1 2 None
    [OStoredFrames (Some [1; 3; 2; 4]) false; OPixelArray; OStoredFrames (Some [1; 3; 2; 4]) false;
     OStoredFrames (Some [0; 2; 1; 3]) true; OStoredFrame 3 false;
     OFrames (Some true) None (Some false) (Some [4; 2; 3]) false; OStoredFrames (Some [1; 5]) false;
     OStoredFrames (Some []) false] =
  [vz_list2 [[1; 2]; [5; 6]; [3; 4]; [7; 8]]; vz_list2 [[1; 2]; [3; 4]; [5; 6]; [7; 8]];
   vz_list2 [[1; 2]; [5; 6]; [3; 4]; [7; 8]]; vz_list2 [[1; 2]; [5; 6]; [3; 4]; [7; 8]];
   vz_list [5; 6]; VL [vq_list [14; 16]%Q; vq_list [6; 8]%Q; vq_list [10; 12]%Q];
   VErr "IndexError"; VErr "ValueError"].
Proof. vm_compute. reflexivity. Qed.
